(* The well-formed-tree invariant (C03) through the composition layers of the model: a Sub view and a mount FS
   only ever run key-value operations on their constituents, so every constituent stays a well-formed tree. *)
From HP Require Import Base.Prelude Base.Path KV.Types KV.FS KV.Handle KV.Run KV.TreeProofs Compose.Mount Compose.Sub.
Open Scope N_scope.

(* ---- Sub ---- *)
Lemma sroute1_good base st name mk : good st -> (forall s, ns_op (mk s)) -> good (fst (sroute1 base st name mk)).
Proof.
  intros G N. unfold sroute1. pose proof (step_good st (mk (sub_route base name)) G (N _)) as X.
  destruct (step st (mk (sub_route base name))) as [s' o]. exact X.
Qed.

Theorem sstep_good base st o : good st -> good (fst (sstep base st o)).
Proof.
  intros G. destruct o; cbn [sstep]; try exact G; try (apply sroute1_good; [exact G|intros s; exact I]).
  - destruct (is_rdonly_open flag); [destruct (negb (valid_path p)); [exact G|]|]; apply sroute1_good; try exact G; intros s; exact I.
  - pose proof (sroute1_good base st p Stat G (fun _ => I)) as X. destruct (sroute1 base st p Stat) as [s' ob]. exact X.
Qed.

(* ---- mount ---- *)
Definition mgood (m : mstate) : Prop := Forall good (m_fs m).

Lemma fs_at_good m i : mgood m -> good (fs_at m i).
Proof.
  intros G. unfold fs_at. destruct (nth_in_or_default i (m_fs m) kv_init) as [H|H].
  - unfold mgood in G. rewrite Forall_forall in G. apply G. exact H.
  - rewrite H. exact kv_init_good.
Qed.

Lemma list_set_forall {A} (P : A -> Prop) l : forall i x, Forall P l -> P x -> Forall P (list_set l i x).
Proof.
  induction l as [|a l IH]; intros i x F Px; [constructor|]. inversion F; subst.
  destruct i; simpl; constructor; auto.
Qed.

Lemma set_fs_good m i s : mgood m -> good s -> mgood (set_fs m i s).
Proof. intros G Gs. unfold mgood, set_fs. cbn [m_fs]. apply list_set_forall; assumption. Qed.

Lemma route1_good m name mk : mgood m -> (forall s, ns_op (mk s)) -> mgood (fst (route1 m name mk)).
Proof.
  intros G N. unfold route1. destruct (mount_route (m_table m) name) as [i sub].
  pose proof (step_good (fs_at m i) (mk sub) (fs_at_good m i G) (N _)) as X.
  destruct (step (fs_at m i) (mk sub)) as [s' o]. cbn [fst]. apply set_fs_good; assumption.
Qed.

(* every operation but Rename (whose cross-mount copy is checked by the harness only) *)
Theorem mstep_good m o : mgood m -> (forall a b, o <> Rename a b) -> mgood (fst (mstep m o)).
Proof.
  intros G NR. destruct o; cbn [mstep]; try exact G; try (apply route1_good; [exact G|intros s; exact I]).
  - destruct (is_rdonly_open flag); [|apply route1_good; [exact G|intros s; exact I]].
    destruct (negb (valid_path p)); [exact G|].
    destruct (mount_point (m_table m) p) as [[i point] sub].
    pose proof (step_good (fs_at m i) (OpenClose sub flag perm) (fs_at_good m i G) I) as X.
    destruct (step (fs_at m i) (OpenClose sub flag perm)) as [s' ob]. cbn [fst]. apply set_fs_good; assumption.
  - exfalso. eapply NR. reflexivity.
  - pose proof (route1_good m p Stat G (fun _ => I)) as X. destruct (route1 m p Stat) as [m' ob]. exact X.
Qed.

Lemma msetup_good pts : forall m next, mgood m -> mgood (msetup m pts next).
Proof.
  induction pts as [|p rest IH]; intros m next G; [exact G|]. cbn [msetup]. apply IH.
  pose proof (mstep_good m (MkdirAll p 493) G ltac:(intros a b; discriminate)) as X. exact X.
Qed.

Lemma minit_good pts : mgood (minit pts).
Proof.
  unfold minit. apply msetup_good. unfold mgood. cbn [m_fs]. apply Forall_forall. intros x Hx.
  apply repeat_spec in Hx. subst x. exact kv_init_good.
Qed.

Theorem mrun_good ops : forall m, mgood m -> Forall (fun o => forall a b, o <> Rename a b) ops ->
  mgood (fold_left (fun s o => fst (mstep s o)) ops m).
Proof.
  induction ops as [|o ops IH]; intros m G F; [exact G|]. inversion F; subst. cbn [fold_left]. apply IH; [|assumption].
  apply mstep_good; assumption.
Qed.

(* the composition-level invariant does NOT hold: a mount point can lose the directory it is mounted on
   (known finding of C03: every constituent is still a well-formed tree, the mount table is not) *)
Theorem mount_point_can_be_orphaned :
  let m' := fst (mstep (minit [S "a/b"]) (RemoveAll (S "a"))) in
  mgood m' /\ In (S "a/b", 1%nat) (m_table m') /\ lookup (st_store (fs_at m' 0)) (S "a/b") = None
  /\ lookup (st_store (fs_at m' 0)) (S "a") = None.
Proof.
  cbn zeta. split; [apply mstep_good; [apply minit_good|intros a b; discriminate]|].
  vm_compute. repeat split; auto.
Qed.
