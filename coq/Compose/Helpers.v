(* Model of the package helpers of /repo/fs.go over an FS that exposes Open plus a SUBSET of the
   optional interfaces mem.FS implements (C08): each helper tries the optimised method, then its
   fallback built from other helpers, then fails with ErrNotImplemented. *)
From HP Require Import Base.Prelude Base.Path KV.Types KV.FS KV.Handle KV.Run KV.Corr.
Open Scope N_scope.

Record caps := mkCaps {
  c_openfile : bool; c_mkdir : bool; c_mkdirall : bool; c_remove : bool;
  c_rename : bool; c_stat : bool; c_chmod : bool; c_chtimes : bool
}.

Definition all_caps : caps := mkCaps true true true true true true true true.

(* fs.Open(name): always there *)
Definition h_open (st : kv) (p : str) : kv * (handle + err) := kv_openfile st p O_RDONLY 0.

(* Stat: StatFS, else Open + file.Stat *)
Definition h_stat (c : caps) (st : kv) (p : str) : kv * ((str * N * Z * mtime) + err) :=
  if c_stat c then
    let '(s, r) := kv_stat st p in
    match r with
    | inr e => (s, inr e)
    | inl f => (s, inl (path_base p, f_mode f, Z.of_nat (length (cell s (h_cell f))), f_mtime f))
    end
  else
    let '(s, r) := h_open st p in
    match r with
    | inr e => (s, inr e)
    | inl h =>
      let '(s1, h1) := if is_regular (f_mode h) then (let '(x, h', _) := f_data s h in (x, h')) else (s, h) in
      let '(_, n) := f_size s1 h1 in
      (s1, inl (path_base p, h_mode h, Z.of_nat n, h_mtime h))
    end.

Definition h_mkdir (c : caps) (st : kv) (p : str) (perm : N) : kv * option err :=
  if c_mkdir c then kv_mkdir st p perm else (st, Some (PathErr p ENOSYS)).

(* indices of the '/' separators and the end of the string: the prefixes MkdirAll's fallback creates *)
Fixpoint prefixes_aux (pre : str) (s : str) : list str :=
  match s with
  | [] => [rev pre]
  | ch :: s' => if N.eqb ch slash then rev pre :: prefixes_aux (ch :: pre) s' else prefixes_aux (ch :: pre) s'
  end.
Definition prefixes (p : str) : list str := prefixes_aux [] p.

Fixpoint mkdirall_loop (c : caps) (st : kv) (ps : list str) (perm : N) : kv * option err :=
  match ps with
  | [] => (st, None)
  | q :: rest =>
    let '(s1, e) := h_mkdir c st q perm in
    match e with
    | None => mkdirall_loop c s1 rest perm
    | Some (PathErr ep cl) =>
      if negb (cls_eqb cl EEXIST) then (s1, Some (PathErr ep cl))
      else
        let '(s2, r) := h_stat c s1 ep in
        match r with
        | inr _ => (s2, Some (PathErr ep cl))
        | inl (_, md, _, _) => if is_dir md then mkdirall_loop c s2 rest perm else (s2, Some (PathErr ep ENOTDIR))
        end
    | Some e => (s1, Some e)
    end
  end.

Definition h_mkdirall (c : caps) (st : kv) (p : str) (perm : N) : kv * option err :=
  if c_mkdirall c then kv_mkdirall st p perm
  else if negb (valid_path p) then (st, Some (PathErr p EINVAL))
  else mkdirall_loop c st (prefixes p) perm.

Definition h_remove (c : caps) (st : kv) (p : str) : kv * option err :=
  if c_remove c then kv_remove st p else (st, Some (PathErr p ENOSYS)).

Definition swallow_enoent (e : option err) : option err :=
  match e with Some e' => if cls_eqb (err_cls e') ENOENT then None else Some e' | None => None end.

Fixpoint h_remove_all (fuel : nat) (c : caps) (st : kv) (p : str) : kv * option err :=
  match fuel with
  | O => (st, Some (Bare EOTHER))
  | Datatypes.S fuel' =>
    let '(st1, r) := h_stat c st p in
    match r with
    | inr e => (st1, swallow_enoent (Some e))
    | inl (_, md, _, _) =>
      if negb (is_dir md) then let '(st2, e) := h_remove c st1 p in (st2, swallow_enoent e)
      else
        let '(st2, rd) := kv_readdir st1 p in
        match rd with
        | inr e => (st2, Some (wrap p e))
        | inl entries =>
          let fix go (st : kv) (l : list (str * N)) : kv * option err :=
            match l with
            | [] => (st, None)
            | (nm, _) :: l' =>
              let '(st', e) := h_remove_all fuel' c st (join2 p nm) in
              match e with
              | Some e => (st', Some (wrap p e))
              | None => go st' l'
              end
            end in
          let '(st3, e) := go st2 entries in
          match e with
          | Some e => (st3, Some e)
          | None => let '(st4, e) := h_remove c st3 p in (st4, swallow_enoent e)
          end
        end
    end
  end.

Definition h_openfile (c : caps) (st : kv) (p : str) (flag perm : N) : kv * (handle + err) :=
  if N.eqb flag 0 then h_open st p
  else if c_openfile c then kv_openfile st p flag perm
  else (st, inr (PathErr p ENOSYS)).

Definition cstep (c : caps) (st : kv) (o : op) : kv * obs :=
  match o with
  | Mkdir p perm => let '(s, e) := h_mkdir c st p perm in (s, of_err e)
  | MkdirAll p perm => let '(s, e) := h_mkdirall c st p perm in (s, of_err e)
  | OpenClose p flag perm =>
    let '(s, r) := h_openfile c st p flag perm in
    (s, match r with inr e => VErr e | inl _ => VOk end)
  | WriteFile p d perm =>
    let '(s, r) := h_openfile c st p (N.lor F_WRONLY (N.lor F_CREATE F_TRUNC)) perm in
    match r with
    | inr e => (s, VErr e)
    | inl h => let '(s2, _, _, e) := write_at s h d (h_off h) in (s2, of_err e)
    end
  | Remove p => let '(s, e) := h_remove c st p in (s, of_err e)
  | RemoveAll p =>
    if negb (valid_path p) then (st, VErr (PathErr p EINVAL))
    else let '(s, e) := h_remove_all (Datatypes.S (length (st_store st))) c st p in (s, of_err e)
  | Rename a b =>
    if c_rename c then step st (Rename a b) else (st, VErr (LinkErr a b ENOSYS))
  | Chmod p md =>
    if c_chmod c then step st (Chmod p md)
    else
      let '(s, r) := h_open st p in
      match r with
      | inr e => (s, VErr (wrap p e))
      | inl h =>
        (* ChmodFile on the read-only handle *)
        let '(s1, _, e) := save s (with_mode_ov h (chmod_mode (f_mode h) md)) in (s1, of_err e)
      end
  | Chtimes p t =>
    if c_chtimes c then step st (Chtimes p t)
    else
      let '(s, r) := h_open st p in
      match r with
      | inr e => (s, VErr (wrap p e))
      | inl h =>
        (* ChtimesFile: the handle has no Chtimes; the helper calls file.Stat() and fails with ErrNotImplemented *)
        let '(s1, _) := if is_regular (f_mode h) then (let '(x, h', _) := f_data s h in (x, h')) else (s, h) in
        (s1, VErr (PathErr (path_base p) ENOSYS))
      end
  | Stat p =>
    let '(s, r) := h_stat c st p in
    (s, match r with inr e => VErr e | inl (nm, md, sz, mt) => VInfo nm md sz mt end)
  | ReadDir p => step st (ReadDir p)
  | ReadFile p => step st (ReadFile p)
  | _ => (st, VPanic)
  end.

Definition C08_case := (caps * list op * op * obs * list snap_entry)%type.

Definition C08_check (c : C08_case) : bool :=
  let '(cp, prep, o, ob, snap) := c in
  let st0 := fold_left (fun s x => fst (step s x)) prep kv_init in
  let '(st1, v) := cstep cp st0 o in
  obs_eqb v ob && snap_eqb (snapshot st1) snap.
