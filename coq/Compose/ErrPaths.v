(* Errors coming back through a Sub view name the caller's path, not the parent's (C05/C07): the view strips
   exactly the prefix it added. *)
From HP Require Import Base.Prelude Base.Path Base.PathProofs KV.Types KV.FS KV.Handle KV.Run KV.TreeProofs KV.SpecProofs
  Compose.Mount Compose.Sub.
Open Scope N_scope.

Lemma has_suffix_app a b : has_suffix (a ++ b) b = true.
Proof. unfold has_suffix. rewrite rev_app_distr. apply has_prefix_app'. Qed.

Lemma trim_suffix_app a b : trim_suffix (a ++ b) b = a.
Proof.
  unfold trim_suffix. rewrite has_suffix_app. rewrite app_length.
  replace (length a + length b - length b)%nat with (length a) by lia.
  rewrite firstn_app, Nat.sub_diag, firstn_all. simpl. apply app_nil_r.
Qed.

Lemma trim_prefix_app2 a b : trim_prefix (a ++ b) a = b.
Proof. unfold trim_prefix. rewrite has_prefix_app'. apply skipn_app_exact. Qed.

(* the view's own translation is undone exactly *)
Theorem strip_path_sub base name : valid_path base = true -> valid_path name = true ->
  strip_path name (sub_route base name) (sub_route base name) = name.
Proof.
  intros Vb Vn. unfold sub_route. rewrite Vn. rewrite (join2_valid base name Vb Vn). unfold strip_path.
  destruct (str_eqb_spec base dot) as [->|Db].
  - rewrite str_eqb_refl. reflexivity.
  - destruct (str_eqb_spec name dot) as [->|Dn].
    + destruct (str_eqb_spec dot base); [congruence|]. cbn [str_eqb dot N.eqb Pos.eqb andb]. rewrite str_eqb_refl. reflexivity.
    + destruct (str_eqb_spec name (base ++ slash :: name)) as [E|_].
      { exfalso. apply (f_equal (@length _)) in E. rewrite app_length in E. simpl in E. lia. }
      destruct (str_eqb_spec name dot); [contradiction|].
      replace (base ++ slash :: name) with ((base ++ [slash]) ++ name) by (rewrite <- app_assoc; reflexivity).
      assert (HS : has_suffix ((base ++ [slash]) ++ name) (slash :: name) = true).
      { replace ((base ++ [slash]) ++ name) with (base ++ (slash :: name)) by (rewrite <- app_assoc; reflexivity).
        apply has_suffix_app. }
      rewrite HS. rewrite trim_suffix_app. apply trim_prefix_app2.
Qed.

Lemma strip_err_sub base name c : valid_path base = true -> valid_path name = true ->
  strip_err name (sub_route base name) (PathErr (sub_route base name) c) = PathErr name c.
Proof. intros Vb Vn. cbn [strip_err]. rewrite strip_path_sub by assumption. reflexivity. Qed.

(* every failure of a single-name operation through a view names the caller's path *)
Definition one_name_kv (o : op) : option str :=
  match o with
  | Mkdir p _ | Remove p | Chmod p _ | Chtimes p _ | Stat p => Some p
  | _ => None
  end.

Theorem sub_failure_names_the_callers_path base st o p e :
  valid_path base = true -> valid_path p = true -> one_name_kv o = Some p ->
  snd (sstep base st o) = VErr e -> names_path p e.
Proof.
  intros Vb Vp ON. destruct o; cbn [one_name_kv] in ON; try discriminate; inversion ON; subst; cbn [sstep]; unfold sroute1, step.
  - pose proof (kv_mkdir_err_typed st (sub_route base p) perm) as T. destruct (kv_mkdir st (sub_route base p) perm) as [s' [e0|]]; cbn [snd of_err map_obs_err]; intros H; inversion H.
    destruct (T e0 eq_refl) as (c & ->). rewrite strip_err_sub by assumption. eexists; reflexivity.
  - pose proof (kv_remove_err_typed st (sub_route base p)) as T. destruct (kv_remove st (sub_route base p)) as [s' [e0|]]; cbn [snd of_err map_obs_err]; intros H; inversion H.
    destruct (T e0 eq_refl) as (c & ->). rewrite strip_err_sub by assumption. eexists; reflexivity.
  - pose proof (kv_chmod_err_typed st (sub_route base p) m) as T. destruct (kv_chmod st (sub_route base p) m) as [s' [e0|]]; cbn [snd of_err map_obs_err]; intros H; inversion H.
    destruct (T e0 eq_refl) as (c & ->). rewrite strip_err_sub by assumption. eexists; reflexivity.
  - pose proof (kv_chtimes_err_typed st (sub_route base p) t) as T. destruct (kv_chtimes st (sub_route base p) t) as [s' [e0|]]; cbn [snd of_err map_obs_err]; intros H; inversion H.
    destruct (T e0 eq_refl) as (c & ->). rewrite strip_err_sub by assumption. eexists; reflexivity.
  - pose proof (kv_stat_err_typed st (sub_route base p)) as T. destruct (kv_stat st (sub_route base p)) as [s' [f|e0]]; cbn [snd map_obs_err]; intros H; inversion H.
    destruct (T e0 eq_refl) as (c & ->). rewrite strip_err_sub by assumption. eexists; reflexivity.
Qed.

(* ---- the same for a mount FS: the error names mount point + inner path, i.e. the caller's path ---- *)
From HP Require Import Compose.MountProofs.

Lemma has_suffix_length s p : has_suffix s p = true -> (length p <= length s)%nat.
Proof. unfold has_suffix. intros H. apply has_prefix_length in H. rewrite !rev_length in H. exact H. Qed.

Lemma has_prefix_decompose s p : has_prefix s p = true -> exists r, s = p ++ r.
Proof.
  revert s. induction p as [|x p IH]; intros s H; [exists s; reflexivity|].
  destruct s as [|y s]; simpl in H; [discriminate|]. apply andb_true_iff in H. destruct H as [E H].
  apply N.eqb_eq in E. subst y. destruct (IH s H) as [r ->]. exists r. reflexivity.
Qed.

Lemma trim_prefix_self' a : trim_prefix a a = [].
Proof. rewrite <- (app_nil_r a) at 1. apply trim_prefix_app2. Qed.

(* how a valid name is split by the mount table *)
Lemma mount_route_shape t p : valid_path p = true -> Forall (fun x => fst x <> [] /\ fst x <> dot) t ->
  let sub := snd (mount_route t p) in
  sub = p \/ (sub = dot /\ p <> dot) \/ (exists point, p = point ++ slash :: sub /\ sub <> dot /\ sub <> []).
Proof.
  intros V NE. cbn zeta. unfold mount_route. rewrite V. cbn [negb]. unfold mount_point.
  destruct (mp_scan_longest t p) as [M _]. destruct (mp_scan t p [] 0) as [rp fsid]. cbn [fst snd] in *.
  destruct M as [M|[Hin Hm]].
  - inversion M; subst. rewrite str_eqb_refl. cbn [snd]. left. reflexivity.
  - rewrite Forall_forall in NE. destruct (NE _ Hin) as [N1 N2]. cbn [fst] in N1, N2.
    destruct rp as [|r0 rp']; [congruence|]. set (rp := r0 :: rp') in *.
    destruct (str_eqb_spec rp dot); [contradiction|]. cbn [snd].
    unfold matches in Hm. apply orb_true_iff in Hm. destruct Hm as [Hm|Hm].
    + destruct (has_prefix_decompose _ _ Hm) as [rest E]. rewrite <- app_assoc in E. cbn [app] in E.
      right. right. exists rp.
      assert (T : trim_prefix (trim_prefix p rp) [slash] = rest).
      { rewrite E. rewrite trim_prefix_app2. change (slash :: rest) with ([slash] ++ rest). apply trim_prefix_app2. }
      rewrite T.
      assert (Rne : rest <> []).
      { intros ->. apply valid_path_spec in V. destruct V as [_ [Vd|Ve]].
        - rewrite E in Vd. apply (f_equal (@length _)) in Vd. rewrite app_length in Vd. simpl in Vd. unfold rp in Vd. simpl in Vd. lia.
        - rewrite E in Ve. rewrite split_app_slash in Ve. apply Forall_app in Ve. destruct Ve as [_ Ve]. inversion Ve as [|? ? X _]. discriminate. }
      destruct rest as [|c rest']; [congruence|]. split; [exact E|]. split; [|discriminate].
      intros Ed. apply valid_path_spec in V. destruct V as [_ [Vd|Ve]].
      * rewrite E in Vd. apply (f_equal (@length _)) in Vd. rewrite app_length in Vd. simpl in Vd. unfold rp in Vd. simpl in Vd. lia.
      * rewrite E, Ed in Ve. rewrite split_app_slash in Ve. apply Forall_app in Ve. destruct Ve as [_ Ve]. inversion Ve as [|? ? X _]. discriminate.
    + apply str_eqb_eq in Hm. subst p. rewrite trim_prefix_self'. unfold trim_prefix. cbn [has_prefix]. right. left. split; [reflexivity|exact N2].
Qed.

Theorem strip_path_mount t p : valid_path p = true -> Forall (fun x => fst x <> [] /\ fst x <> dot) t ->
  strip_path p (snd (mount_route t p)) (snd (mount_route t p)) = p.
Proof.
  intros V NE. destruct (mount_route_shape t p V NE) as [E|[[E Dp]|(point & E & Ds & Ns)]]; unfold strip_path.
  - rewrite E, str_eqb_refl. reflexivity.
  - rewrite E. destruct (str_eqb_spec p dot); [contradiction|]. destruct (str_eqb_spec p dot); [contradiction|].
    assert (X : has_suffix dot (slash :: p) = false).
    { destruct (has_suffix dot (slash :: p)) eqn:H; [|reflexivity]. apply has_suffix_length in H. simpl in H.
      pose proof (valid_path_nonempty p V). destruct p; [congruence|simpl in H; lia]. }
    rewrite X. rewrite !str_eqb_refl. reflexivity.
  - set (sub := snd (mount_route t p)) in *.
    destruct (str_eqb_spec p sub) as [Eq|_].
    { exfalso. rewrite Eq in E at 1. apply (f_equal (@length _)) in E. rewrite app_length in E. simpl in E. lia. }
    destruct (str_eqb_spec p dot) as [->|_].
    { exfalso. apply (f_equal (@length _)) in E. rewrite app_length in E. simpl in E. destruct sub; [congruence|simpl in E; lia]. }
    assert (X : has_suffix sub (slash :: p) = false).
    { destruct (has_suffix sub (slash :: p)) eqn:H; [|reflexivity]. apply has_suffix_length in H. simpl in H.
      rewrite E in H. rewrite app_length in H. simpl in H. lia. }
    rewrite X. destruct (str_eqb_spec sub dot); [contradiction|].
    assert (Y : has_suffix p (slash :: sub) = true) by (rewrite E; apply has_suffix_app).
    rewrite Y. rewrite E at 1.
    replace (point ++ slash :: sub) with ((point ++ [slash]) ++ sub) by (rewrite <- app_assoc; reflexivity).
    rewrite trim_suffix_app. rewrite <- app_assoc. symmetry. exact E.
Qed.

Theorem mount_failure_names_the_callers_path m o p e :
  valid_path p = true -> Forall (fun x => fst x <> [] /\ fst x <> dot) (m_table m) -> one_name_kv o = Some p ->
  snd (mstep m o) = VErr e -> names_path p e.
Proof.
  intros Vp NE ON.
  assert (K : forall c, strip_err p (snd (mount_route (m_table m) p)) (PathErr (snd (mount_route (m_table m) p)) c) = PathErr p c).
  { intros c. cbn [strip_err]. rewrite strip_path_mount by assumption. reflexivity. }
  destruct o; cbn [one_name_kv] in ON; try discriminate; inversion ON; subst; cbn [mstep]; unfold route1, step;
    destruct (mount_route (m_table m) p) as [i sub]; cbn [snd] in K.
  - pose proof (kv_mkdir_err_typed (fs_at m i) sub perm) as T. destruct (kv_mkdir (fs_at m i) sub perm) as [s' [e0|]]; cbn [snd of_err map_obs_err]; intros H; inversion H.
    destruct (T e0 eq_refl) as (c & ->). rewrite K. eexists; reflexivity.
  - pose proof (kv_remove_err_typed (fs_at m i) sub) as T. destruct (kv_remove (fs_at m i) sub) as [s' [e0|]]; cbn [snd of_err map_obs_err]; intros H; inversion H.
    destruct (T e0 eq_refl) as (c & ->). rewrite K. eexists; reflexivity.
  - pose proof (kv_chmod_err_typed (fs_at m i) sub m0) as T. destruct (kv_chmod (fs_at m i) sub m0) as [s' [e0|]]; cbn [snd of_err map_obs_err]; intros H; inversion H.
    destruct (T e0 eq_refl) as (c & ->). rewrite K. eexists; reflexivity.
  - pose proof (kv_chtimes_err_typed (fs_at m i) sub t) as T. destruct (kv_chtimes (fs_at m i) sub t) as [s' [e0|]]; cbn [snd of_err map_obs_err]; intros H; inversion H.
    destruct (T e0 eq_refl) as (c & ->). rewrite K. eexists; reflexivity.
  - pose proof (kv_stat_err_typed (fs_at m i) sub) as T. destruct (kv_stat (fs_at m i) sub) as [s' [f|e0]]; cbn [snd map_obs_err]; intros H; inversion H.
    destruct (T e0 eq_refl) as (c & ->). rewrite K. eexists; reflexivity.
Qed.
