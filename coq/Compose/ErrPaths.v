(* Errors coming back through a Sub view name the caller's path, not the parent's (C05/C07): the view strips
   exactly the prefix it added. *)
From HP Require Import Base.Prelude Base.Path Base.PathProofs KV.Types KV.FS KV.Handle KV.Run KV.TreeProofs KV.SpecProofs
  Compose.Mount Compose.Sub.
Open Scope N_scope.

Lemma has_suffix_app a b : has_suffix (a ++ b) b = true.
Proof. unfold has_suffix. rewrite rev_app_distr. apply has_prefix_app'. Qed.

Lemma trim_suffix_app a b : trim_suffix (a ++ b) b = a.
Proof.
  unfold trim_suffix. rewrite has_suffix_app. rewrite app_length.
  replace (length a + length b - length b)%nat with (length a) by lia.
  rewrite firstn_app, Nat.sub_diag, firstn_all. simpl. apply app_nil_r.
Qed.

Lemma trim_prefix_app2 a b : trim_prefix (a ++ b) a = b.
Proof. unfold trim_prefix. rewrite has_prefix_app'. apply skipn_app_exact. Qed.

(* the view's own translation is undone exactly *)
Theorem strip_path_sub base name : valid_path base = true -> valid_path name = true ->
  strip_path name (sub_route base name) (sub_route base name) = name.
Proof.
  intros Vb Vn. unfold sub_route. rewrite Vn. rewrite (join2_valid base name Vb Vn). unfold strip_path.
  destruct (str_eqb_spec base dot) as [->|Db].
  - rewrite str_eqb_refl. reflexivity.
  - destruct (str_eqb_spec name dot) as [->|Dn].
    + destruct (str_eqb_spec dot base); [congruence|]. cbn [str_eqb dot N.eqb Pos.eqb andb]. rewrite str_eqb_refl. reflexivity.
    + destruct (str_eqb_spec name (base ++ slash :: name)) as [E|_].
      { exfalso. apply (f_equal (@length _)) in E. rewrite app_length in E. simpl in E. lia. }
      destruct (str_eqb_spec name dot); [contradiction|].
      replace (base ++ slash :: name) with ((base ++ [slash]) ++ name) by (rewrite <- app_assoc; reflexivity).
      assert (HS : has_suffix ((base ++ [slash]) ++ name) (slash :: name) = true).
      { replace ((base ++ [slash]) ++ name) with (base ++ (slash :: name)) by (rewrite <- app_assoc; reflexivity).
        apply has_suffix_app. }
      rewrite HS. rewrite trim_suffix_app.
      destruct (str_eqb_spec (((base ++ [slash]) ++ name) ++ [slash]) (base ++ [slash])) as [E|_].
      { exfalso. apply (f_equal (@length _)) in E. rewrite !app_length in E. simpl in E.
        pose proof (valid_path_nonempty name Vn). destruct name; [congruence|simpl in E; lia]. }
      apply trim_prefix_app2.
Qed.

Lemma strip_err_sub base name c : valid_path base = true -> valid_path name = true ->
  strip_err name (sub_route base name) (PathErr (sub_route base name) c) = PathErr name c.
Proof. intros Vb Vn. cbn [strip_err]. rewrite strip_path_sub by assumption. reflexivity. Qed.

(* every failure of a single-name operation through a view names the caller's path *)
Definition one_name_kv (o : op) : option str :=
  match o with
  | Mkdir p _ | Remove p | Chmod p _ | Chtimes p _ | Stat p => Some p
  | _ => None
  end.

Theorem sub_failure_names_the_callers_path base st o p e :
  valid_path base = true -> valid_path p = true -> one_name_kv o = Some p ->
  snd (sstep base st o) = VErr e -> names_path p e.
Proof.
  intros Vb Vp ON. destruct o; cbn [one_name_kv] in ON; try discriminate; inversion ON; subst; cbn [sstep]; unfold sroute1, step.
  - pose proof (kv_mkdir_err_typed st (sub_route base p) perm) as T. destruct (kv_mkdir st (sub_route base p) perm) as [s' [e0|]]; cbn [snd of_err map_obs_err]; intros H; inversion H.
    destruct (T e0 eq_refl) as (c & ->). rewrite strip_err_sub by assumption. eexists; reflexivity.
  - pose proof (kv_remove_err_typed st (sub_route base p)) as T. destruct (kv_remove st (sub_route base p)) as [s' [e0|]]; cbn [snd of_err map_obs_err]; intros H; inversion H.
    destruct (T e0 eq_refl) as (c & ->). rewrite strip_err_sub by assumption. eexists; reflexivity.
  - pose proof (kv_chmod_err_typed st (sub_route base p) m) as T. destruct (kv_chmod st (sub_route base p) m) as [s' [e0|]]; cbn [snd of_err map_obs_err]; intros H; inversion H.
    destruct (T e0 eq_refl) as (c & ->). rewrite strip_err_sub by assumption. eexists; reflexivity.
  - pose proof (kv_chtimes_err_typed st (sub_route base p) t) as T. destruct (kv_chtimes st (sub_route base p) t) as [s' [e0|]]; cbn [snd of_err map_obs_err]; intros H; inversion H.
    destruct (T e0 eq_refl) as (c & ->). rewrite strip_err_sub by assumption. eexists; reflexivity.
  - pose proof (kv_stat_err_typed st (sub_route base p)) as T. destruct (kv_stat st (sub_route base p)) as [s' [f|e0]]; cbn [snd map_obs_err]; intros H; inversion H.
    destruct (T e0 eq_refl) as (c & ->). rewrite strip_err_sub by assumption. eexists; reflexivity.
Qed.

(* ---- the same for a mount FS: the error names mount point + inner path, i.e. the caller's path ---- *)
From HP Require Import Compose.MountProofs.

Lemma has_suffix_length s p : has_suffix s p = true -> (length p <= length s)%nat.
Proof. unfold has_suffix. intros H. apply has_prefix_length in H. rewrite !rev_length in H. exact H. Qed.

Lemma has_prefix_decompose s p : has_prefix s p = true -> exists r, s = p ++ r.
Proof.
  revert s. induction p as [|x p IH]; intros s H; [exists s; reflexivity|].
  destruct s as [|y s]; simpl in H; [discriminate|]. apply andb_true_iff in H. destruct H as [E H].
  apply N.eqb_eq in E. subst y. destruct (IH s H) as [r ->]. exists r. reflexivity.
Qed.

Lemma trim_prefix_self' a : trim_prefix a a = [].
Proof. rewrite <- (app_nil_r a) at 1. apply trim_prefix_app2. Qed.

(* how a valid name is split by the mount table *)
Lemma mount_route_shape t p : valid_path p = true -> Forall (fun x => fst x <> [] /\ fst x <> dot) t ->
  let sub := snd (mount_route t p) in
  sub = p \/ (sub = dot /\ p <> dot) \/ (exists point, p = point ++ slash :: sub /\ sub <> dot /\ sub <> []).
Proof.
  intros V NE. cbn zeta. unfold mount_route. rewrite V. cbn [negb]. unfold mount_point.
  destruct (mp_scan_longest t p) as [M _]. destruct (mp_scan t p [] 0) as [rp fsid]. cbn [fst snd] in *.
  destruct M as [M|[Hin Hm]].
  - inversion M; subst. rewrite str_eqb_refl. cbn [snd]. left. reflexivity.
  - rewrite Forall_forall in NE. destruct (NE _ Hin) as [N1 N2]. cbn [fst] in N1, N2.
    destruct rp as [|r0 rp']; [congruence|]. set (rp := r0 :: rp') in *.
    destruct (str_eqb_spec rp dot); [contradiction|]. cbn [snd].
    unfold matches in Hm. apply orb_true_iff in Hm. destruct Hm as [Hm|Hm].
    + destruct (has_prefix_decompose _ _ Hm) as [rest E]. rewrite <- app_assoc in E. cbn [app] in E.
      right. right. exists rp.
      assert (T : trim_prefix (trim_prefix p rp) [slash] = rest).
      { rewrite E. rewrite trim_prefix_app2. change (slash :: rest) with ([slash] ++ rest). apply trim_prefix_app2. }
      rewrite T.
      assert (Rne : rest <> []).
      { intros ->. apply valid_path_spec in V. destruct V as [_ [Vd|Ve]].
        - rewrite E in Vd. apply (f_equal (@length _)) in Vd. rewrite app_length in Vd. simpl in Vd. unfold rp in Vd. simpl in Vd. lia.
        - rewrite E in Ve. rewrite split_app_slash in Ve. apply Forall_app in Ve. destruct Ve as [_ Ve]. inversion Ve as [|? ? X _]. discriminate. }
      destruct rest as [|c rest']; [congruence|]. split; [exact E|]. split; [|discriminate].
      intros Ed. apply valid_path_spec in V. destruct V as [_ [Vd|Ve]].
      * rewrite E in Vd. apply (f_equal (@length _)) in Vd. rewrite app_length in Vd. simpl in Vd. unfold rp in Vd. simpl in Vd. lia.
      * rewrite E, Ed in Ve. rewrite split_app_slash in Ve. apply Forall_app in Ve. destruct Ve as [_ Ve]. inversion Ve as [|? ? X _]. discriminate.
    + apply str_eqb_eq in Hm. subst p. rewrite trim_prefix_self'. unfold trim_prefix. cbn [has_prefix]. right. left. split; [reflexivity|exact N2].
Qed.

Theorem strip_path_mount t p : valid_path p = true -> Forall (fun x => fst x <> [] /\ fst x <> dot) t ->
  strip_path p (snd (mount_route t p)) (snd (mount_route t p)) = p.
Proof.
  intros V NE. destruct (mount_route_shape t p V NE) as [E|[[E Dp]|(point & E & Ds & Ns)]]; unfold strip_path.
  - rewrite E, str_eqb_refl. reflexivity.
  - rewrite E. destruct (str_eqb_spec p dot); [contradiction|]. destruct (str_eqb_spec p dot); [contradiction|].
    assert (X : has_suffix dot (slash :: p) = false).
    { destruct (has_suffix dot (slash :: p)) eqn:H; [|reflexivity]. apply has_suffix_length in H. simpl in H.
      pose proof (valid_path_nonempty p V). destruct p; [congruence|simpl in H; lia]. }
    rewrite X. rewrite !str_eqb_refl. reflexivity.
  - set (sub := snd (mount_route t p)) in *.
    destruct (str_eqb_spec p sub) as [Eq|_].
    { exfalso. rewrite Eq in E at 1. apply (f_equal (@length _)) in E. rewrite app_length in E. simpl in E. lia. }
    destruct (str_eqb_spec p dot) as [->|_].
    { exfalso. apply (f_equal (@length _)) in E. rewrite app_length in E. simpl in E. destruct sub; [congruence|simpl in E; lia]. }
    assert (X : has_suffix sub (slash :: p) = false).
    { destruct (has_suffix sub (slash :: p)) eqn:H; [|reflexivity]. apply has_suffix_length in H. simpl in H.
      rewrite E in H. rewrite app_length in H. simpl in H. lia. }
    rewrite X. destruct (str_eqb_spec sub dot); [contradiction|].
    assert (Y : has_suffix p (slash :: sub) = true) by (rewrite E; apply has_suffix_app).
    rewrite Y. rewrite E at 1.
    replace (point ++ slash :: sub) with ((point ++ [slash]) ++ sub) by (rewrite <- app_assoc; reflexivity).
    rewrite trim_suffix_app. rewrite <- app_assoc. symmetry. exact E.
Qed.

Theorem mount_failure_names_the_callers_path m o p e :
  valid_path p = true -> Forall (fun x => fst x <> [] /\ fst x <> dot) (m_table m) -> one_name_kv o = Some p ->
  snd (mstep m o) = VErr e -> names_path p e.
Proof.
  intros Vp NE ON.
  assert (K : forall c, strip_err p (snd (mount_route (m_table m) p)) (PathErr (snd (mount_route (m_table m) p)) c) = PathErr p c).
  { intros c. cbn [strip_err]. rewrite strip_path_mount by assumption. reflexivity. }
  destruct o; cbn [one_name_kv] in ON; try discriminate; inversion ON; subst; cbn [mstep]; unfold route1, step;
    destruct (mount_route (m_table m) p) as [i sub]; cbn [snd] in K.
  - pose proof (kv_mkdir_err_typed (fs_at m i) sub perm) as T. destruct (kv_mkdir (fs_at m i) sub perm) as [s' [e0|]]; cbn [snd of_err map_obs_err]; intros H; inversion H.
    destruct (T e0 eq_refl) as (c & ->). rewrite K. eexists; reflexivity.
  - pose proof (kv_remove_err_typed (fs_at m i) sub) as T. destruct (kv_remove (fs_at m i) sub) as [s' [e0|]]; cbn [snd of_err map_obs_err]; intros H; inversion H.
    destruct (T e0 eq_refl) as (c & ->). rewrite K. eexists; reflexivity.
  - pose proof (kv_chmod_err_typed (fs_at m i) sub m0) as T. destruct (kv_chmod (fs_at m i) sub m0) as [s' [e0|]]; cbn [snd of_err map_obs_err]; intros H; inversion H.
    destruct (T e0 eq_refl) as (c & ->). rewrite K. eexists; reflexivity.
  - pose proof (kv_chtimes_err_typed (fs_at m i) sub t) as T. destruct (kv_chtimes (fs_at m i) sub t) as [s' [e0|]]; cbn [snd of_err map_obs_err]; intros H; inversion H.
    destruct (T e0 eq_refl) as (c & ->). rewrite K. eexists; reflexivity.
  - pose proof (kv_stat_err_typed (fs_at m i) sub) as T. destruct (kv_stat (fs_at m i) sub) as [s' [f|e0]]; cbn [snd map_obs_err]; intros H; inversion H.
    destruct (T e0 eq_refl) as (c & ->). rewrite K. eexists; reflexivity.
Qed.

(* ---- Rename through a mount FS: a failed Rename of a non-directory is a LinkError carrying the caller's two names,
   whichever constituent refused it ---- *)
From HP Require Import KV.RenameErr.

Lemma restore_mount_point t p : valid_path p = true -> Forall (fun x => fst x <> [] /\ fst x <> dot) t ->
  let '(_, point, sub) := mount_point t p in restore_path point sub = p.
Proof.
  intros V NE. unfold mount_point.
  destruct (mp_scan_longest t p) as [M _]. destruct (mp_scan t p [] 0) as [rp fsid]. cbn [fst snd] in *.
  pose proof (valid_path_nonempty p V) as Pne.
  destruct M as [M|[Hin Hm]].
  - inversion M; subst. unfold restore_path. rewrite str_eqb_refl.
    assert (T : trim_prefix (trim_prefix p []) [slash] = p).
    { assert (X : trim_prefix p [] = p) by (unfold trim_prefix; rewrite has_prefix_nil; reflexivity). rewrite X.
      unfold trim_prefix. destruct (has_prefix p [slash]) eqn:H; [|reflexivity].
      exfalso. pose proof (valid_path_no_leading_slash p V) as NL. destruct p as [|c p']; [congruence|].
      cbn [has_prefix] in H. apply andb_true_iff in H. destruct H as [H _]. apply N.eqb_eq in H. cbn [hd] in NL. congruence. }
    rewrite T. destruct p; [congruence|reflexivity].
  - rewrite Forall_forall in NE. destruct (NE _ Hin) as [N1 N2]. cbn [fst] in N1, N2.
    destruct rp as [|r0 rp']; [congruence|]. set (rp := r0 :: rp') in *.
    unfold matches in Hm. apply orb_true_iff in Hm. destruct Hm as [Hm|Hm].
    + destruct (has_prefix_decompose _ _ Hm) as [rest E]. rewrite <- app_assoc in E. cbn [app] in E.
      assert (T : trim_prefix (trim_prefix p rp) [slash] = rest).
      { rewrite E. rewrite trim_prefix_app2. change (slash :: rest) with ([slash] ++ rest). apply trim_prefix_app2. }
      rewrite T.
      assert (Rne : rest <> []).
      { intros ->. apply valid_path_spec in V. destruct V as [_ [Vd|Ve]].
        - rewrite E in Vd. apply (f_equal (@length _)) in Vd. rewrite app_length in Vd. simpl in Vd. unfold rp in Vd. simpl in Vd. lia.
        - rewrite E in Ve. rewrite split_app_slash in Ve. apply Forall_app in Ve. destruct Ve as [_ Ve]. inversion Ve as [|? ? X _]. discriminate. }
      assert (Rnd : rest <> dot).
      { intros Ed. apply valid_path_spec in V. destruct V as [_ [Vd|Ve]].
        - rewrite E in Vd. apply (f_equal (@length _)) in Vd. rewrite app_length in Vd. simpl in Vd. unfold rp in Vd. simpl in Vd. lia.
        - rewrite E, Ed in Ve. rewrite split_app_slash in Ve. apply Forall_app in Ve. destruct Ve as [_ Ve]. inversion Ve as [|? ? X _]. discriminate. }
      destruct rest as [|c rest']; [congruence|]. unfold restore_path.
      destruct (str_eqb_spec rp dot); [contradiction|]. destruct (str_eqb_spec (c :: rest') dot); [contradiction|].
      symmetry. exact E.
    + apply str_eqb_eq in Hm. subst p. rewrite trim_prefix_self'. unfold trim_prefix. cbn [has_prefix].
      unfold restore_path. destruct (str_eqb_spec rp dot); [contradiction|]. rewrite str_eqb_refl. reflexivity.
Qed.

Theorem mount_rename_failure_names_the_callers_names m o n e :
  Forall (fun x => fst x <> [] /\ fst x <> dot) (m_table m) ->
  (forall q, (fst (fst (mount_point (m_table m) q)) < length (m_fs m))%nat) ->
  (* the source is not a directory (a directory across two mounts is refused outright, within one mount it moves its
     descendants one by one and may name one of them) *)
  (forall i point sub f, mount_point (m_table m) o = (i, point, sub) ->
     snd (get_file (fst (kv_stat (fs_at m i) sub)) sub) = inl f -> is_dir (f_mode f) = false) ->
  snd (m_rename m o n) = VErr e -> exists c, e = LinkErr o n c.
Proof.
  intros NE Rg ND H. unfold m_rename in H.
  destruct (negb (valid_path o) || negb (valid_path n)) eqn:Vs; [cbn in H; inversion H; eexists; reflexivity|].
  apply orb_false_iff in Vs. destruct Vs as [Vo Vn]. apply negb_false_iff in Vo. apply negb_false_iff in Vn.
  pose proof (restore_mount_point (m_table m) o Vo NE) as Ro.
  pose proof (restore_mount_point (m_table m) n Vn NE) as Rn.
  pose proof (Rg o) as Lo.
  destruct (mount_point (m_table m) o) as [[oi opoint] osub] eqn:Mo.
  destruct (mount_point (m_table m) n) as [[ni npoint] nsub] eqn:Mn. cbn [fst] in Lo.
  destruct (kv_stat (fs_at m oi) osub) as [so1 [finfo|e1]] eqn:St; [|cbn in H; inversion H; eexists; reflexivity].
  destruct (str_eqb o n); [cbn in H; destruct (is_dir (f_mode finfo)); inversion H; eexists; reflexivity|].
  destruct (str_eqb_spec opoint npoint) as [Ep|_].
  - (* within one mount: the constituent's own Rename, its names translated back *)
    subst npoint.
    destruct (step (fs_at (set_fs m oi so1) oi) (Rename osub nsub)) as [s2 ob] eqn:Sp. cbn [snd] in H.
    unfold step in Sp.
    destruct (kv_rename (rename_fuel (fs_at (set_fs m oi so1) oi)) (fs_at (set_fs m oi so1) oi) osub nsub) as [s2' e2] eqn:Kr.
    inversion Sp; subst s2 ob; clear Sp.
    destruct e2 as [e2|]; cbn [of_err map_obs_err] in H; [|discriminate].
    inversion H; subst e; clear H.
    assert (Efs : fs_at (set_fs m oi so1) oi = so1).
    { unfold fs_at, set_fs. cbn [m_fs]. apply nth_error_nth. apply nth_error_list_set_eq. exact Lo. }
    assert (T : exists c, e2 = LinkErr osub nsub c).
    { unfold rename_fuel in Kr.
      apply (kv_rename_file_err_typed (Datatypes.S (length (st_store (fs_at (set_fs m oi so1) oi)))) (fs_at (set_fs m oi so1) oi) osub nsub e2); [|rewrite Kr; reflexivity].
      intros f Gf. apply (ND oi opoint osub f eq_refl). rewrite Efs in Gf. rewrite St. cbn [fst]. exact Gf. }
    destruct T as (c & ->). cbn [restore_err]. rewrite Ro, Rn. eexists; reflexivity.
  - destruct (is_dir (f_mode finfo)); [cbn in H; inversion H; eexists; reflexivity|].
    (* the copy across two mounts: every failure is wrapped with the caller's names *)
    repeat (first
      [ match type of H with context [kv_openfile ?a ?b ?c ?d] => destruct (kv_openfile a b c d) as [? [?|?]] end
      | match type of H with context [f_data ?a ?b] => destruct (f_data a b) as [[? ?] [|]] end
      | match type of H with context [write_at ?a ?b ?c ?d] => destruct (write_at a b c d) as [[[? ?] ?] [?|]] end
      | match type of H with context [kv_chmod ?a ?b ?c] => destruct (kv_chmod a b c) as [? [?|]] end
      | match type of H with context [kv_remove ?a ?b] => destruct (kv_remove a b) as [? [?|]] end ];
      cbn [snd fst negb] in H);
    try (inversion H; eexists; reflexivity); try discriminate.
Qed.

Lemma mount_point_in_range t k : Forall (fun x => (snd x < k)%nat) t -> (0 < k)%nat ->
  forall q, (fst (fst (mount_point t q)) < k)%nat.
Proof.
  intros F K q. unfold mount_point. destruct (mp_scan_longest t q) as [M _].
  destruct (mp_scan t q [] 0) as [rp fsid]. cbn [fst snd] in *.
  destruct M as [M|[Hin _]]; [inversion M; subst; exact K|].
  rewrite Forall_forall in F. apply (F _ Hin).
Qed.

(* the premises hold of a composition built the usual way, and the theorem's conclusion is what the model computes there *)
Example mount_rename_names_demo :
  let m := fst (mstep (minit [S "a"; S "b"]) (WriteFile (S "a/f") [1;2]%N 420%N)) in
  Forall (fun x => fst x <> [] /\ fst x <> dot) (m_table m)
  /\ Forall (fun x => (snd x < length (m_fs m))%nat) (m_table m)
  /\ snd (m_rename m (S "a/f") (S "b/nodir/g")) = VErr (LinkErr (S "a/f") (S "b/nodir/g") ENOENT)
  /\ snd (m_rename m (S "a/f") (S "a/nodir/g")) = VErr (LinkErr (S "a/f") (S "a/nodir/g") ENOENT).
Proof.
  vm_compute. split; [repeat constructor; discriminate|]. split; [repeat constructor|]. split; reflexivity.
Qed.

(* the repaired case: an error of the parent that names the view's base directory itself is about the view's root *)
Theorem strip_path_sub_base base name : valid_path base = true -> valid_path name = true ->
  base <> dot -> name <> dot ->
  strip_path name (sub_route base name) base = dot.
Proof.
  intros Vb Vn Db Dn. unfold sub_route. rewrite Vn. rewrite (join2_valid base name Vb Vn). unfold strip_path.
  destruct (str_eqb_spec base dot) as [|_]; [contradiction|].
  replace (base ++ slash :: name) with ((base ++ [slash]) ++ name) by (rewrite <- app_assoc; reflexivity).
  destruct (str_eqb_spec name ((base ++ [slash]) ++ name)) as [E|_].
  { exfalso. apply (f_equal (@length _)) in E. rewrite !app_length in E. simpl in E. lia. }
  destruct (str_eqb_spec name dot); [contradiction|].
  assert (HS : has_suffix ((base ++ [slash]) ++ name) (slash :: name) = true).
  { replace ((base ++ [slash]) ++ name) with (base ++ (slash :: name)) by (rewrite <- app_assoc; reflexivity).
    apply has_suffix_app. }
  rewrite HS. rewrite trim_suffix_app. rewrite str_eqb_refl.
  destruct (str_eqb name ((base ++ [slash]) ++ name)) eqn:E; [|reflexivity].
  exfalso. apply str_eqb_eq in E. apply (f_equal (@length _)) in E. rewrite !app_length in E. simpl in E. lia.
Qed.
