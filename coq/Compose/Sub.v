(* Model of the generic Sub view (sub.go: subFS) over a key-value FS, used through the package helpers. *)
From HP Require Import Base.Prelude Base.Path KV.Types KV.FS KV.Handle KV.Run KV.Corr Compose.Mount.
Open Scope N_scope.

(* subFS.Mount(p) *)
Definition sub_route (base p : str) : str := if valid_path p then join2 base p else p.

Definition sroute1 (base : str) (st : kv) (name : str) (mk : str -> op) : kv * obs :=
  let sub := sub_route base name in
  let '(s', o) := step st (mk sub) in
  (s', map_obs_err (strip_err name sub) o).

Definition sstep (base : str) (st : kv) (o : op) : kv * obs :=
  match o with
  | Mkdir p perm => sroute1 base st p (fun s => Mkdir s perm)
  | MkdirAll p perm => sroute1 base st p (fun s => MkdirAll s perm)
  | OpenClose p flag perm =>
    if is_rdonly_open flag then
      (* subFS.Open validates the name itself *)
      if negb (valid_path p) then (st, VErr (PathErr p EINVAL))
      else sroute1 base st p (fun s => OpenClose s flag perm)
    else sroute1 base st p (fun s => OpenClose s flag perm)
  | WriteFile p d perm => sroute1 base st p (fun s => WriteFile s d perm)
  | Remove p => sroute1 base st p Remove
  | RemoveAll p => sroute1 base st p RemoveAll
  | Rename a b => (st, VErr (LinkErr a b ENOSYS))
  | Chmod p md => sroute1 base st p (fun s => Chmod s md)
  | Chtimes p t => sroute1 base st p (fun s => Chtimes s t)
  | Stat p =>
    let '(s', ob) := sroute1 base st p Stat in
    (s', match ob with VInfo _ md sz mt => VInfo (path_base (sub_route base p)) md sz mt | x => x end)
  | ReadDir p => sroute1 base st p ReadDir
  | ReadFile p => sroute1 base st p ReadFile
  | _ => (st, VPanic)
  end.

Fixpoint srun (base : str) (st : kv) (ops : list op) : list (obs * list snap_entry) :=
  match ops with
  | [] => []
  | o :: rest => let '(st', v) := sstep base st o in (v, snapshot st') :: srun base st' rest
  end.

Definition C07_case := (str * list op * list op * list (obs * list snap_entry))%type.

Definition C07_check (c : C07_case) : bool :=
  let '(dir, prep, ops, observed) := c in
  let st0 := fold_left (fun s o => fst (step s o)) prep kv_init in
  steps_eqb (fun o => o) (srun dir st0 ops) observed.
