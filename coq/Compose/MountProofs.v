(* Theorems about mount routing (C06). *)
From HP Require Import Base.Prelude Base.Path KV.Types KV.FS KV.Handle KV.Run Compose.Mount.
From Coq Require Import Permutation.
Open Scope nat_scope.

(* ---- string prefixes ---- *)
Lemma has_prefix_app s p q : has_prefix s (p ++ q) = true -> has_prefix s p = true.
Proof.
  revert s; induction p as [|x p IH]; intros s H; [destruct s; reflexivity|].
  destruct s as [|y s]; simpl in *; [discriminate|].
  apply andb_true_iff in H. destruct H as [H1 H2]. rewrite H1. simpl. apply IH. exact H2.
Qed.

Lemma has_prefix_length s p : has_prefix s p = true -> length p <= length s.
Proof.
  revert s; induction p as [|x p IH]; intros s H; simpl; [lia|].
  destruct s as [|y s]; simpl in *; [discriminate|].
  apply andb_true_iff in H. destruct H as [_ H]. apply IH in H. lia.
Qed.

Lemma has_prefix_same_length s : forall a b, has_prefix s a = true -> has_prefix s b = true -> length a = length b -> a = b.
Proof.
  induction s as [|y s IH]; intros [|x a] [|z b] Ha Hb Hl; simpl in *; try discriminate; try reflexivity.
  apply andb_true_iff in Ha, Hb. destruct Ha as [Ha1 Ha2], Hb as [Hb1 Hb2].
  apply N.eqb_eq in Ha1, Hb1. subst. f_equal. apply IH; auto.
Qed.

Lemma has_prefix_refl s : has_prefix s s = true.
Proof. induction s; simpl; auto. rewrite N.eqb_refl. exact IHs. Qed.

Lemma has_prefix_nil s : has_prefix s [] = true.
Proof. destruct s; reflexivity. Qed.

(* a mount point "matches" a path when it is the path or a whole-element prefix of it *)
Definition matches (mp p : str) : bool := has_prefix p (mp ++ [slash]) || str_eqb mp p.

Lemma matches_prefix mp p : matches mp p = true -> has_prefix p mp = true.
Proof.
  unfold matches. intros H. apply orb_true_iff in H. destruct H as [H|H].
  - eapply has_prefix_app; exact H.
  - apply str_eqb_eq in H. subst. apply has_prefix_refl.
Qed.

(* ---- what the scan computes ---- *)
Definition scan_ok (t : mtable) (p best : str) (bfs : nat) (r : str * nat) : Prop :=
  (r = (best, bfs) \/ (In r t /\ matches (fst r) p = true))
  /\ length best <= length (fst r)
  /\ (forall mp fs, In (mp, fs) t -> matches mp p = true -> length mp <= length (fst r)).

Lemma scan_spec t p : forall best bfs,
  (best = [] \/ has_prefix p (best ++ [slash]) = true) ->
  scan_ok t p best bfs (mp_scan t p best bfs).
Proof.
  induction t as [|[mp fs] t IH]; intros best bfs Hb; simpl.
  - repeat split; auto. intros mp fs [].
  - destruct (has_prefix p (mp ++ [slash])) eqn:Hp.
    + destruct (Nat.ltb_spec (length best) (length mp)) as [Hlt|Hge].
      * destruct (IH mp fs (or_intror Hp)) as (I1 & I2 & I3). repeat split.
        -- destruct I1 as [I1|[I1 I1']]; right; [rewrite I1; split; [left; reflexivity|unfold matches; simpl; rewrite Hp; reflexivity]|split; [right; exact I1|exact I1']].
        -- lia.
        -- intros mp' fs' [E|Hin] Hm; [inversion E; subst; exact I2|eapply I3; eassumption].
      * destruct (IH best bfs Hb) as (I1 & I2 & I3). repeat split.
        -- destruct I1 as [I1|[I1 I1']]; [left; exact I1|right; split; [right; exact I1|exact I1']].
        -- exact I2.
        -- intros mp' fs' [E|Hin] Hm; [inversion E; subst; lia|eapply I3; eassumption].
    + destruct (str_eqb_spec mp p) as [->|Hne].
      * (* exact match: nothing can be longer than the path itself *)
        repeat split.
        -- right. split; [left; reflexivity|]. unfold matches; simpl. rewrite str_eqb_refl. apply orb_true_r.
        -- simpl. destruct Hb as [->|Hb]; [simpl; lia|]. apply has_prefix_length in Hb. rewrite app_length in Hb. simpl in Hb. lia.
        -- intros mp' fs' _ Hm. simpl. apply matches_prefix in Hm. apply has_prefix_length in Hm. exact Hm.
      * destruct (IH best bfs Hb) as (I1 & I2 & I3). repeat split.
        -- destruct I1 as [I1|[I1 I1']]; [left; exact I1|right; split; [right; exact I1|exact I1']].
        -- exact I2.
        -- intros mp' fs' [E|Hin] Hm; [|eapply I3; eassumption].
           inversion E; subst. unfold matches in Hm. rewrite Hp in Hm. simpl in Hm. apply str_eqb_eq in Hm. congruence.
Qed.

Lemma nodup_fst_functional {A B} (t : list (A * B)) k a b :
  NoDup (map fst t) -> In (k, a) t -> In (k, b) t -> a = b.
Proof.
  induction t as [|[k' v] t IH]; intros ND Ha Hb; [contradiction|].
  simpl in ND. inversion ND as [|? ? Hni ND']; subst.
  destruct Ha as [Ha|Ha], Hb as [Hb|Hb].
  - congruence.
  - inversion Ha; subst. exfalso. apply Hni. apply in_map_iff. exists (k, b). split; [reflexivity|exact Hb].
  - inversion Hb; subst. exfalso. apply Hni. apply in_map_iff. exists (k, a). split; [reflexivity|exact Ha].
  - apply IH; assumption.
Qed.

(* THEOREM: the chosen mount point does not depend on the iteration order of the mount table
   (sync.Map.Range promises no order): for every permutation of the table the same mount point and the
   same file system are selected. *)
Theorem mp_scan_order_independent t t' p :
  NoDup (map fst t) -> Forall (fun x => fst x <> []) t -> Permutation t t' ->
  mp_scan t' p [] 0 = mp_scan t p [] 0.
Proof.
  intros ND NE Pm.
  destruct (scan_spec t p [] 0 (or_introl eq_refl)) as (A1 & A2 & A3).
  destruct (scan_spec t' p [] 0 (or_introl eq_refl)) as (B1 & B2 & B3).
  set (r := mp_scan t p [] 0) in *. set (r' := mp_scan t' p [] 0) in *.
  assert (In_t : forall x, In x t' -> In x t) by (intros x Hx; eapply Permutation_in; [apply Permutation_sym; exact Pm|exact Hx]).
  assert (In_t' : forall x, In x t -> In x t') by (intros x Hx; eapply Permutation_in; [exact Pm|exact Hx]).
  rewrite Forall_forall in NE.
  destruct A1 as [A1|[A1 A1']]; destruct B1 as [B1|[B1 B1']].
  - congruence.
  - exfalso. destruct r' as [mp' fs']. simpl in *.
    pose proof (A3 mp' fs' (In_t _ B1) B1') as L. rewrite A1 in L. simpl in L.
    apply (NE (mp', fs') (In_t _ B1)). simpl. destruct mp'; [reflexivity|simpl in L; lia].
  - exfalso. destruct r as [mp fs]. simpl in *.
    pose proof (B3 mp fs (In_t' _ A1) A1') as L. rewrite B1 in L. simpl in L.
    apply (NE (mp, fs) A1). simpl. destruct mp; [reflexivity|simpl in L; lia].
  - destruct r as [mp fs], r' as [mp' fs']. simpl in *.
    pose proof (A3 mp' fs' (In_t _ B1) B1') as L1. pose proof (B3 mp fs (In_t' _ A1) A1') as L2.
    assert (mp' = mp).
    { apply (has_prefix_same_length p); [apply matches_prefix; exact B1'|apply matches_prefix; exact A1'|lia]. }
    subst mp'. f_equal. eapply nodup_fst_functional; [exact ND|apply In_t; exact B1|exact A1].
Qed.

Corollary mount_point_order_independent t t' p :
  NoDup (map fst t) -> Forall (fun x => fst x <> []) t -> Permutation t t' ->
  mount_point t' p = mount_point t p.
Proof. intros ND NE Pm. unfold mount_point. rewrite (mp_scan_order_independent t t' p ND NE Pm). reflexivity. Qed.

Corollary mount_route_order_independent t t' p :
  NoDup (map fst t) -> Forall (fun x => fst x <> []) t -> Permutation t t' ->
  mount_route t' p = mount_route t p.
Proof. intros ND NE Pm. unfold mount_route. rewrite (mount_point_order_independent t t' p ND NE Pm). reflexivity. Qed.

(* the selected mount point is the LONGEST matching one, and it does match (or it is the root FS) *)
Theorem mp_scan_longest t p :
  let r := mp_scan t p [] 0 in
  (r = ([], 0) \/ (In r t /\ matches (fst r) p = true))
  /\ (forall mp fs, In (mp, fs) t -> matches mp p = true -> length mp <= length (fst r)).
Proof.
  destruct (scan_spec t p [] 0 (or_introl eq_refl)) as (A1 & _ & A3). split; assumption.
Qed.

(* string-prefix look-alikes are not confused: "a" does not match "ab/x" *)
Example lookalike_not_matched : matches (S "a") (S "ab/x") = false /\ matches (S "ab") (S "ab/x") = true.
Proof. vm_compute. auto. Qed.

(* ---- isolation: an operation through the mount FS changes only the constituent it is routed to ---- *)
Lemma set_fs_other m i s j : i <> j -> fs_at (set_fs m i s) j = fs_at m j.
Proof.
  intros H. unfold fs_at, set_fs; simpl.
  destruct (nth_error (m_fs m) j) eqn:E.
  - erewrite nth_error_nth; [|rewrite nth_error_list_set_neq by exact H; exact E]. erewrite nth_error_nth; [reflexivity|exact E].
  - rewrite !nth_overflow; [reflexivity|apply nth_error_None; exact E|].
    rewrite list_set_length. apply nth_error_None; exact E.
Qed.

Theorem route1_isolated m name mk j :
  j <> fst (mount_route (m_table m) name) ->
  fs_at (fst (route1 m name mk)) j = fs_at m j /\ m_table (fst (route1 m name mk)) = m_table m.
Proof.
  intros H. unfold route1. destruct (mount_route (m_table m) name) as [i sub] eqn:R. simpl in H.
  destruct (step (fs_at m i) (mk sub)) as [s' o]. simpl. split; [apply set_fs_other; congruence|reflexivity].
Qed.

(* ... and its result is what the same operation yields on that constituent directly (up to the
   translation of error paths back into the caller's namespace) *)
Theorem route1_is_direct m name mk :
  let '(i, sub) := mount_route (m_table m) name in
  snd (route1 m name mk) = map_obs_err (strip_err name sub) (snd (step (fs_at m i) (mk sub)))
  /\ fs_at (fst (route1 m name mk)) i = fst (step (fs_at m i) (mk sub)) \/ length (m_fs m) <= i.
Proof.
  unfold route1. destruct (mount_route (m_table m) name) as [i sub].
  destruct (step (fs_at m i) (mk sub)) as [s' o] eqn:S. simpl.
  destruct (Nat.lt_ge_cases i (length (m_fs m))) as [Hlt|Hge]; [left|right; exact Hge].
  split; [reflexivity|]. unfold fs_at, set_fs; simpl. erewrite nth_error_nth; [reflexivity|].
  apply nth_error_list_set_eq. exact Hlt.
Qed.

(* ---- concurrent AddMount of one mount point: exactly one succeeds ----
   addMount = Load(p) [no lock]; Lock; open+stat the directory; LoadOrStore(p); Unlock.
   Each goroutine is in one of these phases; any goroutine may take its next step at any time
   (the mutex only serialises the middle part and is not needed for the claim). *)
Inductive aphase := AStart | AChecked | AFailed | ASucceeded.

Record astate := mkA { a_stored : bool; a_phases : list aphase }.

Inductive astep : astate -> astate -> Prop :=
| A_load s i : nth_error (a_phases s) i = Some AStart ->
    astep s (mkA (a_stored s) (list_set (a_phases s) i (if a_stored s then AFailed else AChecked)))
| A_dir_missing s i : nth_error (a_phases s) i = Some AChecked ->      (* the directory check may fail *)
    astep s (mkA (a_stored s) (list_set (a_phases s) i AFailed))
| A_load_or_store s i : nth_error (a_phases s) i = Some AChecked ->
    astep s (mkA true (list_set (a_phases s) i (if a_stored s then AFailed else ASucceeded))).

Inductive areach (n : nat) : astate -> Prop :=
| AR_init : areach n (mkA false (repeat AStart n))
| AR_step s s' : areach n s -> astep s s' -> areach n s'.

Definition succ_count (l : list aphase) : nat :=
  length (filter (fun p => match p with ASucceeded => true | _ => false end) l).

Lemma succ_count_set l i p q : nth_error l i = Some p ->
  succ_count (list_set l i q) + (match p with ASucceeded => 1 | _ => 0 end) =
  succ_count l + (match q with ASucceeded => 1 | _ => 0 end).
Proof.
  revert i; induction l as [|x l IH]; intros [|i] H; simpl in *; try discriminate.
  - inversion H; subst. unfold succ_count; simpl. destruct p, q; simpl; lia.
  - specialize (IH i H). unfold succ_count in *; simpl. destruct x; simpl; lia.
Qed.

Theorem addmount_at_most_one n s0 : areach n s0 ->
  succ_count (a_phases s0) = (if a_stored s0 then succ_count (a_phases s0) else 0) /\ succ_count (a_phases s0) <= 1
  /\ (a_stored s0 = false -> succ_count (a_phases s0) = 0).
Proof.
  assert (G : forall s, areach n s -> (a_stored s = false -> succ_count (a_phases s) = 0) /\ (a_stored s = true -> succ_count (a_phases s) <= 1)).
  { induction 1 as [|s s' R [IH0 IH1] St].
    - split; [|discriminate]. intros _. simpl. induction n; simpl; auto.
    - destruct St as [s i E|s i E|s i E]; simpl.
      + pose proof (succ_count_set _ i AStart (if a_stored s then AFailed else AChecked) E) as X.
        destruct (a_stored s) eqn:B; simpl in X; split; intros; try discriminate; try (specialize (IH0 eq_refl)); try (specialize (IH1 eq_refl)); lia.
      + pose proof (succ_count_set _ i AChecked AFailed E) as X. simpl in X.
        destruct (a_stored s) eqn:B; split; intros; try discriminate; try (specialize (IH0 eq_refl)); try (specialize (IH1 eq_refl)); lia.
      + pose proof (succ_count_set _ i AChecked (if a_stored s then AFailed else ASucceeded) E) as X.
        destruct (a_stored s) eqn:B; simpl in X; split; intros; try discriminate; try (specialize (IH0 eq_refl)); try (specialize (IH1 eq_refl)); lia. }
  intros R. destruct (G s0 R) as [G0 G1]. destruct (a_stored s0) eqn:B.
  - split; [reflexivity|]. split; [apply G1; reflexivity|discriminate].
  - rewrite (G0 eq_refl). auto.
Qed.

(* when everybody has finished and somebody got past the directory check to LoadOrStore, exactly one succeeded *)
Theorem addmount_exactly_one n s0 : areach n s0 -> a_stored s0 = true -> succ_count (a_phases s0) = 1.
Proof.
  assert (G : forall s, areach n s -> a_stored s = true -> succ_count (a_phases s) = 1).
  { induction 1 as [|s s' R IH St]; [discriminate|].
    destruct St as [s i E|s i E|s i E]; cbn [a_stored a_phases]; intros B.
    - pose proof (succ_count_set _ i AStart (if a_stored s then AFailed else AChecked) E) as X.
      specialize (IH B). rewrite B in X |- *. cbn in X. lia.
    - pose proof (succ_count_set _ i AChecked AFailed E) as X. cbn in X. specialize (IH B). lia.
    - pose proof (succ_count_set _ i AChecked (if a_stored s then AFailed else ASucceeded) E) as X.
      destruct (a_stored s) eqn:B'; cbn in X.
      + specialize (IH eq_refl). lia.
      + destruct (addmount_at_most_one n s R) as (_ & _ & Z). specialize (Z B'). lia. }
  exact (G s0).
Qed.

(* ---- AddMount ---- *)
From HP Require Import KV.FaultEffects.

(* a mount is accepted only at a valid name other than ".", not yet in the table, that is a DIRECTORY of the file system
   its parent directory routes to *)
Theorem addmount_accepts m p nf :
  snd (m_addmount m p nf) = None ->
  valid_path p = true /\ p <> dot /\ (forall e, In e (m_table m) -> fst e <> p) /\
  let '(i, sub) := mount_route (m_table m) (path_dir p) in
  exists h, snd (kv_stat (fs_at m i) (join2 sub (path_base p))) = inl h /\ is_dir (f_mode h) = true.
Proof.
  unfold m_addmount. intros H.
  destruct (valid_path p) eqn:V; [|discriminate]. cbn [negb orb] in H.
  destruct (str_eqb_spec p dot) as [->|D]; [discriminate|].
  destruct (existsb (fun e => str_eqb (fst e) p) (m_table m)) eqn:E; [discriminate|].
  split; [reflexivity|]. split; [exact D|]. split.
  - intros e I Ep. assert (X : existsb (fun e => str_eqb (fst e) p) (m_table m) = true).
    { apply existsb_exists. exists e. split; [exact I|]. rewrite Ep. apply str_eqb_refl. }
    congruence.
  - destruct (mount_route (m_table m) (path_dir p)) as [i sub].
    destruct (kv_stat (fs_at m i) (join2 sub (path_base p))) as [s1 [h|e]]; cbn [snd] in *; [|discriminate].
    destruct (is_dir (f_mode h)) eqn:Dh; [|discriminate]. exists h. split; [reflexivity|exact Dh].
Qed.

(* a refused AddMount leaves the table and every record of every constituent as they were *)
Theorem addmount_refused_changes_nothing m p nf c :
  snd (m_addmount m p nf) = Some c ->
  m_table (fst (m_addmount m p nf)) = m_table m /\
  forall j, st_store (fs_at (fst (m_addmount m p nf)) j) = st_store (fs_at m j).
Proof.
  unfold m_addmount. intros H.
  destruct (negb (valid_path p) || str_eqb p dot); [split; reflexivity|].
  destruct (existsb (fun e => str_eqb (fst e) p) (m_table m)); [split; reflexivity|].
  destruct (mount_route (m_table m) (path_dir p)) as [i sub].
  pose proof (kv_stat_store (fs_at m i) (join2 sub (path_base p))) as S.
  destruct (kv_stat (fs_at m i) (join2 sub (path_base p))) as [s1 [h|e]]; cbn [fst snd] in *.
  - destruct (is_dir (f_mode h)); [discriminate|]. cbn [fst]. split; [reflexivity|].
    intros j. destruct (Nat.eq_dec j i) as [->|N]; [|rewrite set_fs_other by congruence; reflexivity].
    unfold fs_at, set_fs. cbn [m_fs]. destruct (Nat.lt_ge_cases i (length (m_fs m))) as [L|L].
    + rewrite (nth_error_nth _ _ _ (nth_error_list_set_eq _ _ _ L)). exact S.
    + rewrite !nth_overflow by (rewrite ?list_set_length; exact L). reflexivity.
  - cbn [fst]. split; [reflexivity|].
    intros j. destruct (Nat.eq_dec j i) as [->|N]; [|rewrite set_fs_other by congruence; reflexivity].
    unfold fs_at, set_fs. cbn [m_fs]. destruct (Nat.lt_ge_cases i (length (m_fs m))) as [L|L].
    + rewrite (nth_error_nth _ _ _ (nth_error_list_set_eq _ _ _ L)). exact S.
    + rewrite !nth_overflow by (rewrite ?list_set_length; exact L). reflexivity.
Qed.

Lemma addmount_table m p nf :
  snd (m_addmount m p nf) = None -> m_table (fst (m_addmount m p nf)) = (p, length (m_fs m)) :: m_table m.
Proof.
  unfold m_addmount. intros H.
  destruct (negb (valid_path p) || str_eqb p dot); [discriminate|].
  destruct (existsb (fun e => str_eqb (fst e) p) (m_table m)); [discriminate|].
  destruct (mount_route (m_table m) (path_dir p)) as [i sub].
  destruct (kv_stat (fs_at m i) (join2 sub (path_base p))) as [s1 [h|e]]; cbn [fst snd] in *; [|discriminate].
  destruct (is_dir (f_mode h)); [reflexivity|discriminate].
Qed.

Lemma has_prefix_self_slash p : has_prefix p (p ++ [slash]) = false.
Proof.
  destruct (has_prefix p (p ++ [slash])) eqn:E; [|reflexivity].
  apply has_prefix_length in E. rewrite app_length in E. simpl in E. lia.
Qed.

(* afterwards the new point itself is the root of the new constituent ... *)
Theorem addmount_routes_the_point m p nf :
  snd (m_addmount m p nf) = None ->
  mount_route (m_table (fst (m_addmount m p nf))) p = (length (m_fs m), dot).
Proof.
  intros H. destruct (addmount_accepts m p nf H) as (V & D & _). rewrite (addmount_table m p nf H).
  unfold mount_route. rewrite V. cbn [negb]. unfold mount_point. cbn [mp_scan].
  rewrite has_prefix_self_slash, str_eqb_refl.
  assert (T : trim_prefix (trim_prefix p p) [slash] = []).
  { assert (X : trim_prefix p p = []).
    { unfold trim_prefix. rewrite has_prefix_refl. rewrite skipn_all. reflexivity. }
    rewrite X. reflexivity. }
  rewrite T. destruct p as [|c p']; [discriminate V|].
  destruct (str_eqb (c :: p') dot) eqn:E; [apply str_eqb_eq in E; congruence|reflexivity].
Qed.

(* ... every path that is neither the point nor below it is routed exactly as before ... *)
Theorem addmount_keeps_other_routes m p nf q :
  snd (m_addmount m p nf) = None -> matches p q = false ->
  mount_route (m_table (fst (m_addmount m p nf))) q = mount_route (m_table m) q.
Proof.
  intros H M. rewrite (addmount_table m p nf H).
  unfold matches in M. apply orb_false_iff in M. destruct M as [M1 M2].
  unfold mount_route, mount_point. cbn [mp_scan]. rewrite M1, M2. reflexivity.
Qed.

(* ... and a path below the point goes to the new constituent unless a longer (nested) mount point matches it *)
Theorem addmount_routes_below m p nf q :
  snd (m_addmount m p nf) = None -> has_prefix q (p ++ [slash]) = true ->
  (forall mp fs, In (mp, fs) (m_table m) -> matches mp q = true -> (length mp <= length p)%nat) ->
  NoDup (map fst (m_table m)) ->
  fst (mp_scan (m_table (fst (m_addmount m p nf))) q [] 0%nat) = p.
Proof.
  intros H B Short ND. destruct (addmount_accepts m p nf H) as (V & D & Fresh & _).
  rewrite (addmount_table m p nf H). cbn [mp_scan]. rewrite B.
  assert (Lp : (0 < length p)%nat) by (destruct p; [discriminate V|simpl; lia]).
  destruct (Nat.ltb_spec (length (@nil N)) (length p)) as [_|X]; [|simpl in X; lia].
  destruct (scan_spec (m_table m) q p (length (m_fs m)) (or_intror B)) as (I1 & I2 & _).
  destruct I1 as [I1|[I1 I1']]; [rewrite I1; reflexivity|].
  (* a table entry won: it matches q and is at least as long as p, hence exactly as long, hence p itself -- excluded *)
  destruct (mp_scan (m_table m) q p (length (m_fs m))) as [mp fs]. cbn [fst] in *.
  pose proof (Short mp fs I1 I1') as L.
  assert (E : mp = p).
  { apply (has_prefix_same_length q); [apply matches_prefix; exact I1'|eapply has_prefix_app; exact B|lia]. }
  exact E.
Qed.
