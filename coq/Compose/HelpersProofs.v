(* Theorems about the package helpers over capability subsets (C08). *)
From HP Require Import Base.Prelude Base.Path KV.Types KV.FS KV.Handle KV.Run KV.Corr KV.GateProofs Compose.Helpers.
Open Scope N_scope.

Definition is_enosys (v : obs) : Prop := exists e, v = VErr e /\ err_cls e = ENOSYS.

(* Operations whose helper is one optional method with no fallback (or a fixed one): under every capability
   subset the helper does exactly what it does with all interfaces, or fails with ErrNotImplemented and
   leaves the whole state untouched. *)
Definition single_dispatch (o : op) : Prop :=
  match o with
  | Mkdir _ _ | Remove _ | Rename _ _ | OpenClose _ _ _ | WriteFile _ _ _ | ReadDir _ | ReadFile _ => True
  | _ => False
  end.

Theorem masked_is_full_or_unimplemented c st o : single_dispatch o ->
  cstep c st o = cstep all_caps st o \/ (fst (cstep c st o) = st /\ is_enosys (snd (cstep c st o))).
Proof.
  destruct o; simpl; intros SD; try contradiction.
  - unfold h_mkdir. destruct (c_mkdir c); [left; reflexivity|right]. simpl. split; [reflexivity|eexists; split; reflexivity].
  - unfold h_openfile. destruct (N.eqb flag 0); [left; reflexivity|].
    destruct (c_openfile c); [left; reflexivity|right]. simpl. split; [reflexivity|eexists; split; reflexivity].
  - unfold h_openfile. destruct (N.eqb _ 0); [left; reflexivity|].
    destruct (c_openfile c); [left; reflexivity|right]. simpl. split; [reflexivity|eexists; split; reflexivity].
  - unfold h_remove. destruct (c_remove c); [left; reflexivity|right]. simpl. split; [reflexivity|eexists; split; reflexivity].
  - destruct (c_rename c); [left; reflexivity|right]. simpl. split; [reflexivity|eexists; split; reflexivity].
  - left; reflexivity.
  - left; reflexivity.
Qed.

(* with every interface exposed the helper IS the file system's own method *)
Theorem full_caps_is_native st o : single_dispatch o \/ (exists p perm, o = MkdirAll p perm) \/ (exists p m, o = Chmod p m) \/ (exists p t, o = Chtimes p t) ->
  match o with
  | OpenClose _ _ _ | WriteFile _ _ _ | ReadDir _ | ReadFile _ => True
  | _ => cstep all_caps st o = step st o
  end.
Proof.
  intros H. destruct o; try exact I; simpl.
  - unfold h_mkdir. simpl. unfold step. destruct (kv_mkdir st p perm). reflexivity.
  - unfold h_mkdirall. simpl. unfold step. destruct (kv_mkdirall st p perm). reflexivity.
  - destruct H as [[]|[(? & ? & X)|[(? & ? & X)|(? & ? & X)]]]; discriminate.
  - unfold h_remove. simpl. unfold step. destruct (kv_remove st p). reflexivity.
  - destruct H as [[]|[(? & ? & X)|[(? & ? & X)|(? & ? & X)]]]; discriminate.
  - reflexivity.
  - reflexivity.
  - reflexivity.
  - destruct H as [[]|[(? & ? & X)|[(? & ? & X)|(? & ? & X)]]]; discriminate.
  - destruct H as [[]|[(? & ? & X)|[(? & ? & X)|(? & ? & X)]]]; discriminate.
Qed.

(* MkdirAll: an invalid name is refused identically by the native method and by the fallback *)
Theorem mkdirall_invalid_same c st p perm : valid_path p = false ->
  h_mkdirall c st p perm = (st, Some (PathErr p EINVAL)).
Proof.
  intros V. unfold h_mkdirall. destruct (c_mkdirall c).
  - unfold kv_mkdirall. rewrite V. reflexivity.
  - rewrite V. reflexivity.
Qed.

(* The MkdirAll fallback never reports success for work that was not done: it returns nil only if, for
   every prefix in turn, Mkdir succeeded, or failed with ErrExist on something Stat then showed to be a
   directory.  Any other failure of a primitive is returned. *)
Fixpoint all_made (c : caps) (st : kv) (ps : list str) (perm : N) : Prop :=
  match ps with
  | [] => True
  | q :: rest =>
    let '(s1, e) := h_mkdir c st q perm in
    match e with
    | None => all_made c s1 rest perm
    | Some (PathErr ep cl) =>
      cl = EEXIST /\
      let '(s2, r) := h_stat c s1 ep in
      match r with
      | inl (_, md, _, _) => is_dir md = true /\ all_made c s2 rest perm
      | inr _ => False
      end
    | Some _ => False
    end
  end.

Theorem mkdirall_fallback_success_means_all_made c ps : forall st perm s',
  mkdirall_loop c st ps perm = (s', None) -> all_made c st ps perm.
Proof.
  induction ps as [|q rest IH]; intros st perm s' H; simpl in *; [exact I|].
  destruct (h_mkdir c st q perm) as [s1 [e|]].
  - destruct e as [ep cl|a b cl|cl]; try discriminate.
    destruct (cls_eqb cl EEXIST) eqn:E; simpl in H; [|discriminate].
    split; [destruct cl; try discriminate; reflexivity|].
    destruct (h_stat c s1 ep) as [s2 [[[[nm md] sz] mt]|er]]; [|discriminate].
    destruct (is_dir md) eqn:D; [|discriminate]. split; [reflexivity|]. eapply IH. exact H.
  - eapply IH. exact H.
Qed.

(* the first failing Mkdir that is not ErrExist is the helper's result *)
Theorem mkdirall_fallback_returns_primitive_error c st q rest perm s1 ep cl :
  h_mkdir c st q perm = (s1, Some (PathErr ep cl)) -> cl <> EEXIST ->
  mkdirall_loop c st (q :: rest) perm = (s1, Some (PathErr ep cl)).
Proof.
  intros H NE. simpl. rewrite H. destruct (cls_eqb cl EEXIST) eqn:E; [|reflexivity].
  exfalso. apply NE. destruct cl; try discriminate; reflexivity.
Qed.

(* without MkdirFS the fallback cannot create anything: ErrNotImplemented, nothing changed *)
Theorem mkdirall_without_mkdir c st q rest perm : c_mkdir c = false ->
  mkdirall_loop c st (q :: rest) perm = (st, Some (PathErr q ENOSYS)).
Proof. intros H. simpl. unfold h_mkdir. rewrite H. reflexivity. Qed.

(* RemoveAll's fallback: a failing Remove of a non-directory is returned unless it is "does not exist" *)
Theorem swallow_only_enoent e : swallow_enoent (Some e) = None -> err_cls e = ENOENT.
Proof.
  unfold swallow_enoent. destruct (cls_eqb (err_cls e) ENOENT) eqn:E; [|discriminate].
  intros _. destruct (err_cls e); try discriminate; reflexivity.
Qed.
