(* Model of mount.FS (mount/fs.go) over key-value file systems, of the error path translation of
   /repo/mount.go (stripErrPathPrefix) and of mount/fs.go (restoreErrPath).
   The mount table is a list standing for ONE iteration order of sync.Map.Range. *)
From HP Require Import Base.Prelude Base.Path KV.Types KV.FS KV.Handle KV.Run.
Open Scope N_scope.

Definition mtable := list (str * nat).     (* mount point -> constituent index (>= 1; 0 is the root FS) *)

(* mountPoint's Range callback, with the early exit on an exact match *)
Fixpoint mp_scan (t : mtable) (p : str) (best : str) (bestfs : nat) : str * nat :=
  match t with
  | [] => (best, bestfs)
  | (mp, fsid) :: rest =>
    if has_prefix p (mp ++ [slash]) then
      (if Nat.ltb (length best) (length mp) then mp_scan rest p mp fsid else mp_scan rest p best bestfs)
    else if str_eqb mp p then (mp, fsid)
    else mp_scan rest p best bestfs
  end.

(* (constituent, mount point, sub path) *)
Definition mount_point (t : mtable) (p : str) : nat * str * str :=
  let '(rp, fsid) := mp_scan t p [] 0%nat in
  let sub := trim_prefix (trim_prefix p rp) [slash] in
  (fsid, match rp with [] => dot | _ => rp end, match sub with [] => dot | _ => sub end).

(* Mount(path) *)
Definition mount_route (t : mtable) (p : str) : nat * str :=
  if negb (valid_path p) then (0%nat, p)
  else let '(fsid, point, sub) := mount_point t p in
       if str_eqb point dot then (fsid, p) else (fsid, sub).

(* stripErrPathPrefix(err, name, mountSubPath) as repaired in /repo/mount.go (twice) *)
Definition strip_path (name sub : str) (p : str) : str :=
  if str_eqb name sub then p
  else if str_eqb name dot then (if str_eqb p sub then dot else trim_prefix p (sub ++ [slash]))
  else if has_suffix sub (slash :: name) then
    (* a Sub view: sub = base/name; an error about the base directory itself is about the view's root *)
    (if str_eqb (p ++ [slash]) (trim_suffix sub name) then dot else trim_prefix p (trim_suffix sub name))
  else if str_eqb sub dot then (if str_eqb p dot then name else name ++ slash :: p)
  else if has_suffix name (slash :: sub) then trim_suffix name sub ++ p
  else p.

Definition strip_err (name sub : str) (e : err) : err :=
  match e with
  | PathErr p c => PathErr (strip_path name sub p) c
  | LinkErr o n c => LinkErr (strip_path name sub o) (strip_path name sub n) c
  | Bare c => Bare c
  end.

(* restoreErrPath(err, mountPoint) of mount/fs.go *)
Definition restore_path (point p : str) : str :=
  if str_eqb point dot then p else if str_eqb p dot then point else point ++ slash :: p.
Definition restore_err (point : str) (e : err) : err :=
  match e with
  | PathErr p c => PathErr (restore_path point p) c
  | LinkErr o n c => LinkErr (restore_path point o) (restore_path point n) c
  | Bare c => Bare c
  end.

Record mstate := mkM { m_table : mtable; m_fs : list kv }.

Definition fs_at (m : mstate) (i : nat) : kv := nth i (m_fs m) kv_init.
Definition set_fs (m : mstate) (i : nat) (s : kv) : mstate := mkM (m_table m) (list_set (m_fs m) i s).

Definition map_obs_err (f : err -> err) (o : obs) : obs :=
  match o with VErr e => VErr (f e) | x => x end.

(* a one-name operation through the package helpers: route, run on the constituent, translate the error *)
Definition route1 (m : mstate) (name : str) (mk : str -> op) : mstate * obs :=
  let '(i, sub) := mount_route (m_table m) name in
  let '(s', o) := step (fs_at m i) (mk sub) in
  (set_fs m i s', map_obs_err (strip_err name sub) o).

Definition is_rdonly_open (flag : N) : bool := N.eqb flag 0.

(* mount.FS.Rename *)
Definition m_rename (m : mstate) (o n : str) : mstate * obs :=
  if negb (valid_path o) || negb (valid_path n) then (m, VErr (LinkErr o n EINVAL))
  else
    let '(oi, opoint, osub) := mount_point (m_table m) o in
    let '(ni, npoint, nsub) := mount_point (m_table m) n in
    let '(so1, r) := kv_stat (fs_at m oi) osub in
    let m1 := set_fs m oi so1 in
    match r with
    | inr e => (m1, VErr (LinkErr o n (err_cls e)))
    | inl finfo =>
      let mode := f_mode finfo in
      if str_eqb o n then (m1, if is_dir mode then VErr (LinkErr o n EEXIST) else VOk)
      else if str_eqb opoint npoint then
        let '(s2, ob) := step (fs_at m1 oi) (Rename osub nsub) in
        (set_fs m1 oi s2, map_obs_err (restore_err opoint) ob)
      else if is_dir mode then (m1, VErr (LinkErr o n ENOSYS))
      else
        (* copy across two mounts *)
        let '(so2, ro) := kv_openfile (fs_at m1 oi) osub 0 0 in
        let m2 := set_fs m1 oi so2 in
        match ro with
        | inr e => (m2, VErr (LinkErr o n (err_cls e)))
        | inl ho =>
          let '(sn1, rn) := kv_openfile (fs_at m2 ni) nsub (N.lor F_WRONLY (N.lor F_CREATE F_TRUNC)) mode in
          let m3 := set_fs m2 ni sn1 in
          match rn with
          | inr e => (m3, VErr (LinkErr o n (err_cls e)))
          | inl hn =>
            (* io.Copy: read everything, one Write when there is something *)
            let '(so3, ho1, okd) := f_data (fs_at m3 oi) ho in
            let data := cell so3 (h_cell ho1) in
            let m4 := set_fs m3 oi so3 in
            (* a source whose data cannot be loaded: the first Read fails, nothing is written *)
            let '(sn2, we) :=
              if negb okd then (fs_at m4 ni, Some (PathErr osub EOTHER))
              else let '(sn2, _, _, we) := write_at (fs_at m4 ni) hn data 0%Z in (sn2, we) in
            let m5 := set_fs m4 ni sn2 in
            match we with
            | Some e =>
              (* the copy failed: the (partly written) destination is removed, whatever that Remove answers *)
              let '(sn2', _) := kv_remove (fs_at m5 ni) nsub in
              (set_fs m5 ni sn2', VErr (LinkErr o n (err_cls e)))
            | None =>
              let '(sn3, ce) := kv_chmod (fs_at m5 ni) nsub mode in
              let m6 := set_fs m5 ni sn3 in
              match ce with
              | Some e => (m6, VErr (LinkErr o n (err_cls e)))
              | None =>
                let '(so4, re) := kv_remove (fs_at m6 oi) osub in
                (set_fs m6 oi so4, match re with Some e => VErr (LinkErr o n (err_cls e)) | None => VOk end)
              end
            end
          end
        end
    end.

Definition mstep (m : mstate) (o : op) : mstate * obs :=
  match o with
  | Mkdir p perm => route1 m p (fun s => Mkdir s perm)
  | MkdirAll p perm => route1 m p (fun s => MkdirAll s perm)
  | OpenClose p flag perm =>
    if is_rdonly_open flag then
      (* hackpadfs.OpenFile with O_RDONLY is fs.Open: mount.FS.Open validates, routes, restores the error path *)
      if negb (valid_path p) then (m, VErr (PathErr p EINVAL))
      else
        let '(i, point, sub) := mount_point (m_table m) p in
        let '(s', ob) := step (fs_at m i) (OpenClose sub flag perm) in
        (set_fs m i s', map_obs_err (restore_err point) ob)
    else route1 m p (fun s => OpenClose s flag perm)
  | WriteFile p d perm => route1 m p (fun s => WriteFile s d perm)
  | Remove p => route1 m p Remove
  | RemoveAll p => route1 m p RemoveAll
  | Rename a b => m_rename m a b
  | Chmod p md => route1 m p (fun s => Chmod s md)
  | Chtimes p t => route1 m p (fun s => Chtimes s t)
  | Stat p =>
    let '(m', ob) := route1 m p Stat in
    (m', match ob with VInfo _ md sz mt => VInfo (path_base (snd (mount_route (m_table m) p))) md sz mt | x => x end)
  | ReadDir p => route1 m p ReadDir
  | ReadFile p => route1 m p ReadFile
  | _ => (m, VPanic)     (* handles are not part of the mount model *)
  end.

Fixpoint mrun (m : mstate) (ops : list op) : list (obs * list (list snap_entry)) :=
  match ops with
  | [] => []
  | o :: rest => let '(m', v) := mstep m o in (v, map snapshot (m_fs m')) :: mrun m' rest
  end.

(* ---- correspondence ---- *)
From HP Require Import KV.Corr.

(* the harness builds the composition by MkdirAll(point) through the mount FS, then AddMount(point) *)
Fixpoint msetup (m : mstate) (pts : list str) (next : nat) : mstate :=
  match pts with
  | [] => m
  | p :: rest =>
    let m1 := fst (mstep m (MkdirAll p 493)) in
    msetup (mkM (m_table m1 ++ [(p, next)]) (m_fs m1)) rest (Datatypes.S next)
  end.

Definition minit (pts : list str) : mstate :=
  msetup (mkM [] (repeat kv_init (Datatypes.S (length pts)))) pts 1%nat.

Definition C06_case := (list str * list op * list (obs * list (list snap_entry)))%type.

Definition C06_check (c : C06_case) : bool :=
  let '(pts, ops, observed) := c in
  list_eqb (fun a b => obs_eqb (fst a) (fst b) && list_eqb snap_eqb (snd a) (snd b))
           (mrun (minit pts) ops) observed.

(* AddMount(p, fs): p must be a valid name other than ".", not yet a mount point, and an existing DIRECTORY of the file
   system its parent routes to (addMount opens path.Join(subPath, base) in fs.Mount(path.Dir(p))).  The new constituent
   gets the next index; the table is a sync.Map, so the position of the new entry is immaterial (mp_scan_order_independent). *)
Definition m_addmount (m : mstate) (p : str) (newfs : kv) : mstate * option cls :=
  if negb (valid_path p) || str_eqb p dot then (m, Some EINVAL)
  else if existsb (fun e => str_eqb (fst e) p) (m_table m) then (m, Some EEXIST)
  else
    let '(i, sub) := mount_route (m_table m) (path_dir p) in
    let '(s1, r) := kv_stat (fs_at m i) (join2 sub (path_base p)) in
    match r with
    | inr e => (set_fs m i s1, Some (err_cls e))
    | inl h =>
      if is_dir (f_mode h)
      then (mkM ((p, length (m_fs m)) :: m_table m) (list_set (m_fs m) i s1 ++ [newfs]), None)
      else (set_fs m i s1, Some ENOTDIR)
    end.

(* (mount points set up as in [minit], preparing operations, the new point, observed error class, routes afterwards) *)
Definition C06_addmount_case := (list str * list op * str * option cls * list (str * nat * str))%type.
Definition optcls_eqb (a b : option cls) : bool :=
  match a, b with Some x, Some y => cls_eqb x y | None, None => true | _, _ => false end.
Definition C06_addmount_check (c : C06_addmount_case) : bool :=
  let '(pts, ops, p, observed, routes) := c in
  let m := fold_left (fun m o => fst (mstep m o)) ops (minit pts) in
  let '(m', r) := m_addmount m p kv_init in
  optcls_eqb r observed &&
  forallb (fun rt => let '(q, i, sub) := rt in
                     let '(i', sub') := mount_route (m_table m') q in Nat.eqb i i' && str_eqb sub sub') routes.

Definition C06_route_case := (mtable * list (str * nat * str))%type.
Definition C06_route_check (c : C06_route_case) : bool :=
  forallb (fun r => let '(p, i, sub) := r in
                    let '(i', sub') := mount_route (fst c) p in Nat.eqb i i' && str_eqb sub sub') (snd c).

(* ---- a Rename across two mounts with one failing store call in a constituent (C14's fault model) ---- *)
Definition mexec (m : mstate) (ops : list op) : mstate := fold_left (fun m o => fst (mstep m o)) ops m.
Definition fault_in (m : mstate) (i k : nat) : mstate :=
  set_fs m i (with_fault (fs_at m i) (Some (st_calls (fs_at m i) + k)%nat)).
Definition bytes_at (m : mstate) (i : nat) (p : str) : option (list N) :=
  match lookup (st_store (fs_at m i)) p with
  | Some r => Some (cell (fs_at m i) (r_cell r))
  | None => None
  end.
Definition two_mounts : mstate :=
  mexec (minit [S "a"; S "b"]) [WriteFile (S "a/x") [1;2;3]%N 420%N; WriteFile (S "b/old") [9;9]%N 384%N].

(* (destination exists?, constituent whose store fails, which of its next calls, (succeeded?, source bytes, destination bytes)) *)
Definition C06_xfault_case := (bool * nat * nat * (bool * option (list N) * option (list N)))%type.
Definition optbytes_eqb (a b : option (list N)) : bool :=
  match a, b with
  | Some x, Some y => list_eqb N.eqb x y
  | None, None => true
  | _, _ => false
  end.
Definition C06_xfault_check (c : C06_xfault_case) : bool :=
  let '(old, i, k, (ok, sb, db)) := c in
  let dname := if old then S "old" else S "new" in
  let r := m_rename (fault_in two_mounts i k) (S "a/x") (S "b/" ++ dname) in
  Bool.eqb ok (match snd r with VOk => true | _ => false end)
  && optbytes_eqb (bytes_at (fst r) 1 (S "x")) sb
  && optbytes_eqb (bytes_at (fst r) 2 dname) db.
