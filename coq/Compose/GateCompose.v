(* The ValidPath gate through the composition layers (C04): generic Sub view and mount FS. *)
From HP Require Import Base.Prelude Base.ListLemmas Base.Path Base.PathProofs KV.Types KV.FS KV.Handle KV.Run KV.GateProofs
  Compose.Mount Compose.Sub.
Open Scope N_scope.

Lemma strip_path_same name p : strip_path name name p = p.
Proof. unfold strip_path. rewrite str_eqb_refl. reflexivity. Qed.

Lemma strip_err_same name e : strip_err name name e = e.
Proof. destruct e; simpl; rewrite ?strip_path_same; reflexivity. Qed.

Definition single_name (o : op) : option str :=
  match names_of o with [p] => Some p | _ => None end.

(* Sub view: an invalid name is handed to the underlying FS unchanged, which refuses it; nothing changes *)
Theorem sub_gate base st o p : names_of o = [p] -> valid_path p = false -> (forall q f m, o <> Open q f m) ->
  fst (sstep base st o) = st /\ snd (sstep base st o) = VErr (PathErr p EINVAL).
Proof.
  intros Hn Hv Hno.
  assert (R : sub_route base p = p) by (unfold sub_route; rewrite Hv; reflexivity).
  destruct o; simpl in Hn; inversion Hn; subst; try (exfalso; eapply Hno; reflexivity);
    unfold sstep, sroute1; rewrite ?R;
    try (match goal with |- context [step st ?x] => destruct (gate1 st x p eq_refl Hv) as [A B]; rewrite (surjective_pairing (step st x)), A, B end;
         cbn [map_obs_err]; rewrite strip_err_same; split; reflexivity).
  destruct (is_rdonly_open flag); [rewrite Hv; split; reflexivity|].
  destruct (gate1 st (OpenClose p flag perm) p eq_refl Hv) as [A B].
  rewrite (surjective_pairing (step st (OpenClose p flag perm))), A, B. cbn [map_obs_err]. rewrite strip_err_same. split; reflexivity.
Qed.

(* mount FS: an invalid name is routed, unchanged, to the root FS, which refuses it; no constituent changes *)
Lemma set_fs_same m i : (i < length (m_fs m))%nat -> set_fs m i (fs_at m i) = m.
Proof.
  intros H. unfold set_fs, fs_at. destruct m as [t l]; simpl in *. f_equal.
  apply nth_error_ext. intros j.
  destruct (Nat.eq_dec i j) as [<-|Hne].
  - rewrite nth_error_list_set_eq by exact H. symmetry. apply nth_error_nth'. exact H.
  - apply nth_error_list_set_neq. exact Hne.
Qed.

Theorem mount_gate m o p : names_of o = [p] -> valid_path p = false -> (forall q f md, o <> Open q f md) ->
  (0 < length (m_fs m))%nat ->
  fst (mstep m o) = m /\ snd (mstep m o) = VErr (PathErr p EINVAL).
Proof.
  intros Hn Hv Hno Hl.
  assert (R : mount_route (m_table m) p = (0%nat, p)) by (unfold mount_route; rewrite Hv; reflexivity).
  destruct o; simpl in Hn; inversion Hn; subst; try (exfalso; eapply Hno; reflexivity);
    unfold mstep, route1; rewrite ?R;
    try (match goal with |- context [step (fs_at m 0) ?x] =>
           destruct (gate1 (fs_at m 0) x p eq_refl Hv) as [A B]; rewrite (surjective_pairing (step (fs_at m 0) x)), A, B end;
         cbn [map_obs_err fst snd]; rewrite strip_err_same, set_fs_same by exact Hl; split; reflexivity).
  all: try (destruct (is_rdonly_open flag); [rewrite Hv; split; reflexivity|];
            destruct (gate1 (fs_at m 0) (OpenClose p flag perm) p eq_refl Hv) as [A B];
            rewrite (surjective_pairing (step (fs_at m 0) (OpenClose p flag perm))), A, B;
            cbn [map_obs_err fst snd]; rewrite strip_err_same, set_fs_same by exact Hl; split; reflexivity).
  all: try (destruct (gate1 (fs_at m 0) (Stat p) p eq_refl Hv) as [A B];
            rewrite (surjective_pairing (step (fs_at m 0) (Stat p))), A, B;
            cbn [map_obs_err fst snd]; rewrite set_fs_same by exact Hl; split; reflexivity).
Qed.

Theorem mount_gate_rename m a b : valid_path a = false \/ valid_path b = false ->
  mstep m (Rename a b) = (m, VErr (LinkErr a b EINVAL)).
Proof.
  intros H. unfold mstep, m_rename.
  assert (X : negb (valid_path a) || negb (valid_path b) = true).
  { destruct H as [H|H]; rewrite H; simpl; [reflexivity|apply orb_true_r]. }
  rewrite X. reflexivity.
Qed.
