(* Fills of DIFFERENT names at overlapping times (cache/fs.go copyFile under the per-name lock): every fill reads a
   chunk of its source into ITS OWN buffer and then writes that buffer to its own file of the cache store; the steps of
   different fills interleave freely (the per-name lock orders only fills of the same name: Cache/CacheConc.v). *)
From HP Require Import Base.Prelude Base.ListLemmas.
From Coq Require Import Lia.
Open Scope nat_scope.

Record copier := mkCp { c_name : nat; c_src : list N; c_pos : nat; c_buf : option (list N) }.
Record cbstate := mkCB { cb_files : nat -> list N; cb_copiers : list copier }.

Definition chunk_at (c : nat) (src : list N) (pos : nat) : list N := sublist pos (Nat.min (pos + c) (length src)) src.

Definition upd (f : nat -> list N) (n : nat) (v : list N) : nat -> list N := fun m => if Nat.eqb m n then v else f m.

(* one step of copier [i] (chunk size [c]): read the next chunk into its buffer, or write its buffer out *)
Definition cb_step (c : nat) (st : cbstate) (i : nat) : cbstate :=
  match nth_error (cb_copiers st) i with
  | None => st
  | Some cp =>
    match c_buf cp with
    | None =>
      if length (c_src cp) <=? c_pos cp then st                                   (* source exhausted: the copy is done *)
      else mkCB (cb_files st) (list_set (cb_copiers st) i (mkCp (c_name cp) (c_src cp) (c_pos cp) (Some (chunk_at c (c_src cp) (c_pos cp)))))
    | Some b =>
      mkCB (upd (cb_files st) (c_name cp) (cb_files st (c_name cp) ++ b))
           (list_set (cb_copiers st) i (mkCp (c_name cp) (c_src cp) (c_pos cp + length b) None))
    end
  end.

Definition cb_run (c : nat) (st : cbstate) (sched : list nat) : cbstate := fold_left (cb_step c) sched st.

Definition cb_start (srcs : list (nat * list N)) : cbstate :=
  mkCB (fun _ => []) (map (fun ns => mkCp (fst ns) (snd ns) 0 None) srcs).

Definition cp_done (cp : copier) : Prop := c_buf cp = None /\ length (c_src cp) <= c_pos cp.

(* ---- correspondence: the Writes the cache store saw (name, bytes), in real-time order ---- *)
Fixpoint cb_feed (files : list (nat * list N)) (srcs : list (nat * list N)) (evs : list (nat * list N)) : bool :=
  match evs with
  | [] =>
    (* at the end every file that was written at all is the complete source *)
    forallb (fun nf => match find (fun ns => Nat.eqb (fst ns) (fst nf)) srcs with
                       | Some ns => list_eqb N.eqb (snd nf) (snd ns)
                       | None => false end) files
  | (n, b) :: rest =>
    match find (fun ns => Nat.eqb (fst ns) n) srcs with
    | None => false
    | Some ns =>
      let sofar := match find (fun nf => Nat.eqb (fst nf) n) files with Some nf => snd nf | None => [] end in
      (* the write continues the file with the source's next bytes *)
      list_eqb N.eqb b (sublist (length sofar) (length sofar + length b) (snd ns)) &&
      (length sofar + length b <=? length (snd ns)) &&
      cb_feed ((n, sofar ++ b) :: filter (fun nf => negb (Nat.eqb (fst nf) n)) files) srcs rest
    end
  end.

Definition C11copy_case := (list (nat * list N) * list (nat * list N))%type.
Definition C11copy_check (c : C11copy_case) : bool := cb_feed [] (fst c) (snd c).
