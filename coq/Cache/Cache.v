(* Model of cache.ReadOnlyFS (cache/fs.go) at the level the properties C10/C11 speak about:
   an immutable source (name -> bytes), a cache store holding copies that may be partial,
   the set of names marked incomplete, and a log of source accesses.
   The fill copies in chunks; a fault can hit any step of it. *)
From HP Require Import Base.Prelude.
Open Scope nat_scope.

Inductive sentry := SFile (data : list N) | SDir.
Definition source := list (str * sentry).

Fixpoint slookup (s : source) (n : str) : option sentry :=
  match s with
  | [] => None
  | (k, v) :: s' => if str_eqb k n then Some v else slookup s' n
  end.

Definition cmap := list (str * list N).
Fixpoint clookup (c : cmap) (n : str) : option (list N) :=
  match c with
  | [] => None
  | (k, v) :: c' => if str_eqb k n then Some v else clookup c' n
  end.
Definition cdel (c : cmap) (n : str) : cmap := filter (fun kv => negb (str_eqb (fst kv) n)) c.
Definition cput (c : cmap) (n : str) (d : list N) : cmap := (n, d) :: cdel c n.

Definition mem_str (n : str) (l : list str) : bool := existsb (str_eqb n) l.

Inductive event := ESrcOpen (n : str) | ESrcRead (n : str).

Record cstate := mkC {
  cs_cache : cmap;             (* files in the cache store (possibly partial) *)
  cs_incomplete : list str;    (* names whose partial copy could not be removed *)
  cs_info : list str;          (* names whose FileInfo is memoised (cacheInfo) *)
  cs_log : list event          (* source accesses, newest first *)
}.

Definition cinit : cstate := mkC [] [] [] [].

(* where a fill can fail *)
Inductive fault :=
| FNone
| FSrcRead (k : nat)      (* the k-th Read of the source fails *)
| FMkdir                  (* creating the parent directories in the cache store fails *)
| FCreate                 (* OpenFile(create|truncate) in the cache store fails *)
| FWrite (k : nat)        (* the k-th Write fails, having stored [part] bytes of its chunk *)
| FClose                  (* Close of the cached copy fails *)
| FSrcOpen.               (* the first Open of the source made by this call fails *)

(* chunks of size c (c > 0 expected) *)
Fixpoint chunks (fuel c : nat) (d : list N) : list (list N) :=
  match fuel with
  | O => []
  | Datatypes.S f => match d with [] => [] | _ => firstn c d :: chunks f c (skipn c d) end
  end.
Definition chunked (c : nat) (d : list N) : list (list N) := chunks (Datatypes.S (length d)) c d.

(* the copy loop: returns the bytes that reached the cache store, whether it completed, and the
   number of source reads issued *)
Fixpoint copy_loop (cs : list (list N)) (k : nat) (ft : fault) (part : nat) (acc : list N)
  : list N * bool * nat :=
  match cs with
  | [] =>
    (* the final Read returning io.EOF (or the last chunk together with io.EOF) *)
    match ft with
    | FSrcRead j => if Nat.eqb j k then (acc, false, Datatypes.S k) else (acc, true, Datatypes.S k)
    | _ => (acc, true, Datatypes.S k)
    end
  | ch :: rest =>
    match ft with
    | FSrcRead j => if Nat.eqb j k then (acc, false, Datatypes.S k) else copy_loop rest (Datatypes.S k) ft part (acc ++ ch)
    | FWrite j => if Nat.eqb j k then (acc ++ firstn part ch, false, Datatypes.S k) else copy_loop rest (Datatypes.S k) ft part (acc ++ ch)
    | _ => copy_loop rest (Datatypes.S k) ft part (acc ++ ch)
    end
  end.

Fixpoint log_reads (n : str) (k : nat) (l : list event) : list event :=
  match k with O => l | Datatypes.S k' => ESrcRead n :: log_reads n k' l end.

Inductive oresult :=
| Served (d : list N)     (* a handle whose bytes are d *)
| DirHandle
| OErr.

(* Open(name): [retain] is the RetainData policy, [c] the copy buffer size, [can_remove] whether the
   cache store lets the partial copy be removed, [ft]/[part] the fault of this call *)
Definition copen (src : source) (retain : str -> bool) (c : nat) (can_remove : bool)
                 (ft : fault) (part : nat) (st : cstate) (n : str) : cstate * oresult :=
  (* fs.Stat(name): memoised FileInfo, else one Open of the source -- which may be the one that fails *)
  if negb (mem_str n (cs_info st)) && match ft with FSrcOpen => true | _ => false end then
    (mkC (cs_cache st) (cs_incomplete st) (cs_info st) (ESrcOpen n :: cs_log st), OErr)
  else
  let st :=
    if mem_str n (cs_info st) then st
    else mkC (cs_cache st) (cs_incomplete st)
             (match slookup src n with Some _ => n :: cs_info st | None => cs_info st end)
             (ESrcOpen n :: cs_log st) in
  match slookup src n with
  | None => (st, OErr)
  | Some SDir => (st, DirHandle)
  | Some (SFile data) =>
    match (if mem_str n (cs_incomplete st) then None else clookup (cs_cache st) n) with
    | Some cached => (st, Served cached)
    | None =>
      let st1 := mkC (cs_cache st) (cs_incomplete st) (cs_info st) (ESrcOpen n :: cs_log st) in
      if negb (retain n) then (st1, Served data)
      else
        match ft with
        | FSrcOpen => (st1, OErr)   (* the source cannot be opened: nothing is touched, marks included *)
        | FMkdir | FCreate =>
          (* nothing was written; Remove of a missing file is fine *)
          (st1, OErr)
        | _ =>
          let '(written, complete, nreads) := copy_loop (chunked c data) 0 ft part [] in
          let st2 := mkC (cs_cache st1) (cs_incomplete st1) (cs_info st1) (log_reads n nreads (cs_log st1)) in
          let ok := complete && match ft with FClose => false | _ => true end in
          if ok then
            (mkC (cput (cs_cache st2) n written) (filter (fun x => negb (str_eqb x n)) (cs_incomplete st2)) (cs_info st2) (cs_log st2),
             Served data)
          else if can_remove then
            (mkC (cdel (cs_cache st2) n) (cs_incomplete st2) (cs_info st2) (cs_log st2), OErr)
          else
            (mkC (cput (cs_cache st2) n written) (n :: cs_incomplete st2) (cs_info st2) (cs_log st2), OErr)
        end
    end
  end.

Fixpoint count_opens (n : str) (l : list event) : nat :=
  match l with
  | [] => 0
  | ESrcOpen m :: l' => (if str_eqb m n then 1 else 0) + count_opens n l'
  | _ :: l' => count_opens n l'
  end.

(* run a sequence of (name, fault, part) opens *)
Fixpoint cruns (src : source) (retain : str -> bool) (c : nat) (can_remove : bool)
               (st : cstate) (ops : list (str * fault * nat)) : cstate * list oresult :=
  match ops with
  | [] => (st, [])
  | (n, ft, part) :: rest =>
    let '(st1, r) := copen src retain c can_remove ft part st n in
    let '(st2, rs) := cruns src retain c can_remove st1 rest in
    (st2, r :: rs)
  end.

(* ---- correspondence ---- *)
Definition oresult_eqb (a b : oresult) : bool :=
  match a, b with
  | Served x, Served y => str_eqb x y
  | DirHandle, DirHandle | OErr, OErr => true
  | _, _ => false
  end.

(* (source, retained names, can_remove, opens, observed results, observed number of source opens per opened name) *)
Definition C10_case := (source * list str * bool * list (str * fault * nat) * list oresult * list (str * nat))%type.

Definition C10_check (c : C10_case) : bool :=
  let '(src, retained, can_remove, ops, observed, opens) := c in
  let '(st, rs) := cruns src (fun n => mem_str n retained) 512 can_remove cinit ops in
  list_eqb oresult_eqb rs observed
  && forallb (fun no => Nat.eqb (count_opens (fst no) (cs_log st)) (snd no)) opens.
