(* Model of the cache file system's directory handle (cache/dir.go ReadDir): it keeps only an offset and asks the
   SOURCE for the listing at every call.  [src] is what the source answers at that call: the sorted names, or a failure. *)
From HP Require Import Base.Prelude Base.ListLemmas Base.Path KV.Types KV.FS KV.Handle KV.Run KV.HandleProofs KV.ListingProofs.
Open Scope nat_scope.

Inductive dres := DEntries (l : list str) | DEOF | DErr.

Definition cdir_read (src : option (list str)) (off : nat) (n : Z) : dres * nat :=
  match src with
  | None => (DErr, off)                                   (* the source's error; the offset stays *)
  | Some es =>
    if (n <=? 0)%Z then
      let off' := Nat.min off (length es) in              (* if d.offset > len(entries) { d.offset = len(entries) } *)
      (DEntries (skipn off' es), off' + length (skipn off' es))
    else if Nat.leb (length es) off then (DEOF, off)
    else
      let e := if (n <? Z.of_nat (length es - off))%Z then off + Z.to_nat n else length es in
      (DEntries (sublist off e es), e)
  end.

(* a sequence of calls on one handle; [avail] says whether the source can list the directory at that call *)
Fixpoint cdir_run (es : list str) (off : nat) (calls : list (bool * Z)) : list dres * nat :=
  match calls with
  | [] => ([], off)
  | (avail, n) :: rest =>
    let '(r, off') := cdir_read (if avail then Some es else None) off n in
    let '(rs, o) := cdir_run es off' rest in (r :: rs, o)
  end.

Fixpoint delivered (rs : list dres) : list str :=
  match rs with
  | [] => []
  | DEntries l :: rest => l ++ delivered rest
  | _ :: rest => delivered rest
  end.

(* ---- correspondence ---- *)
Definition dres_eqb (a b : dres) : bool :=
  match a, b with
  | DEntries x, DEntries y => list_eqb str_eqb x y
  | DEOF, DEOF => true
  | DErr, DErr => true
  | _, _ => false
  end.

(* (sorted names of the directory, calls, observed results) *)
Definition C10dir_case := (list str * list (bool * Z) * list dres)%type.
Definition C10dir_check (c : C10dir_case) : bool :=
  let '(es, calls, obs) := c in list_eqb dres_eqb (fst (cdir_run es 0 calls)) obs.
