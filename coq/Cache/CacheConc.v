(* C11, concurrency part: any number of goroutines opening ONE uncached name of cache.ReadOnlyFS at the same time,
   interleaved arbitrarily, with a failure possible at every step of every fill (source read, create, write with
   any part of the chunk stored, close, and the Remove of the partial copy).

   One opener follows cache/fs.go Open: pathlock.Lock(name); look at the incomplete mark and the cache store; copy
   chunk by chunk; on failure remove the partial copy or mark the name; deferred Unlock.  The per-path mutex is
   modelled by its holder.  The theorems are invariants of EVERY reachable state (induction over the run). *)
From HP Require Import Base.Prelude Cache.Cache.
Open Scope nat_scope.

Inductive pc :=
| PStart                      (* before pathlock.Lock *)
| PLocked                     (* holds the lock: about to look at the mark and the cache store *)
| PCopy (k : nat)             (* holds the lock: the copy was created/truncated and k chunks were written *)
| PFail                       (* holds the lock: the copy failed, the clean-up has not run yet *)
| PUnlock (r : oresult)       (* holds the lock: result decided, the deferred Unlock is pending *)
| PDone (r : oresult).

Record gstate := mkGS {
  gs_lock : option nat;             (* the mutex of this name: who holds it *)
  gs_cache : option (list N);       (* the file of this name in the cache store, as a reader would see it now *)
  gs_mark : bool;                   (* cacheIncomplete[name] *)
  gs_pcs : list pc
}.

Definition ginit (n : nat) : gstate := mkGS None None false (repeat PStart n).

(* the environment's answer to the call made at a step: it works, or it fails (for a Write: [part] bytes landed) *)
Inductive choice := COk | CFail (part : nat).

Definition holds (p : pc) : bool :=
  match p with PLocked | PCopy _ | PFail | PUnlock _ => true | _ => false end.
Definition filling (p : pc) : bool := match p with PCopy _ | PFail => true | _ => false end.

Definition set_pc (st : gstate) (i : nat) (p : pc) : list pc := list_set (gs_pcs st) i p.

Section Model.
Variable chs : list (list N).                    (* the chunks the copy loop reads (non-empty buffers of the source bytes) *)
Definition data : list N := concat chs.

(* one step of opener i; None = not enabled (blocked on the mutex, finished, or no such opener) *)
Definition cstep (st : gstate) (i : nat) (ch : choice) : option gstate :=
  match nth_error (gs_pcs st) i with
  | None => None
  | Some PStart =>
    match gs_lock st with
    | Some _ => None                                           (* Lock blocks *)
    | None => Some (mkGS (Some i) (gs_cache st) (gs_mark st) (set_pc st i PLocked))
    end
  | Some PLocked =>
    match (if gs_mark st then None else gs_cache st) with
    | Some d => Some (mkGS (gs_lock st) (gs_cache st) (gs_mark st) (set_pc st i (PUnlock (Served d))))   (* cache hit *)
    | None =>
      match ch with
      | COk => Some (mkGS (gs_lock st) (Some []) (gs_mark st) (set_pc st i (PCopy 0)))   (* source opened, copy created/truncated *)
      | CFail 0 => Some (mkGS (gs_lock st) (gs_cache st) (gs_mark st) (set_pc st i (PUnlock OErr)))   (* the source cannot be opened *)
      | CFail _ => Some (mkGS (gs_lock st) (gs_cache st) (gs_mark st) (set_pc st i PFail))            (* MkdirAll/OpenFile failed *)
      end
    end
  | Some (PCopy k) =>
    match nth_error chs k with
    | Some c =>
      match ch, gs_cache st with
      | COk, Some old => Some (mkGS (gs_lock st) (Some (old ++ c)) (gs_mark st) (set_pc st i (PCopy (Datatypes.S k))))
      | CFail part, Some old => Some (mkGS (gs_lock st) (Some (old ++ firstn part c)) (gs_mark st) (set_pc st i PFail))
      | _, None => Some (mkGS (gs_lock st) None (gs_mark st) (set_pc st i PFail))   (* unreachable: the copy vanished *)
      end
    | None =>                                                   (* all chunks written: Close *)
      match ch with
      | COk => Some (mkGS (gs_lock st) (gs_cache st) false (set_pc st i (PUnlock (Served data))))
      | CFail _ => Some (mkGS (gs_lock st) (gs_cache st) (gs_mark st) (set_pc st i PFail))
      end
    end
  | Some PFail =>
    match ch with
    | COk => Some (mkGS (gs_lock st) None (gs_mark st) (set_pc st i (PUnlock OErr)))        (* Remove worked (or nothing was there) *)
    | CFail _ => Some (mkGS (gs_lock st) (gs_cache st) true (set_pc st i (PUnlock OErr)))   (* Remove failed: remember *)
    end
  | Some (PUnlock r) => Some (mkGS None (gs_cache st) (gs_mark st) (set_pc st i (PDone r)))
  | Some (PDone _) => None
  end.

Inductive creach : gstate -> gstate -> Prop :=
| creach_refl st : creach st st
| creach_step st i ch st1 st2 : cstep st i ch = Some st1 -> creach st1 st2 -> creach st st2.

(* run a schedule (for the correspondence check and the examples): steps that are not enabled are skipped *)
Fixpoint crun (st : gstate) (sched : list (nat * choice)) : gstate :=
  match sched with
  | [] => st
  | (i, ch) :: rest => match cstep st i ch with Some st1 => crun st1 rest | None => crun st rest end
  end.

(* ---------- the invariant ---------- *)
Definition good (st : gstate) : Prop := gs_mark st = true \/ gs_cache st = None \/ gs_cache st = Some data.

Definition cinv_conc (st : gstate) : Prop :=
  (forall j p, nth_error (gs_pcs st) j = Some p -> (holds p = true <-> gs_lock st = Some j)) /\
  (forall j p, nth_error (gs_pcs st) j = Some p ->
     match p with
     | PCopy k => k <= length chs /\ gs_cache st = Some (concat (firstn k chs))
     | PUnlock (Served d) | PDone (Served d) => d = data
     | _ => True
     end) /\
  ((forall j p, nth_error (gs_pcs st) j = Some p -> filling p = false) -> good st).

Lemma nth_repeat_pstart n j p : nth_error (repeat PStart n) j = Some p -> p = PStart.
Proof. intros H. apply nth_error_In in H. apply repeat_spec in H. exact H. Qed.

Lemma cinv_conc_init n : cinv_conc (ginit n).
Proof.
  unfold cinv_conc, ginit. cbn [gs_pcs gs_lock gs_cache gs_mark]. split; [|split].
  - intros j p Hn. apply nth_repeat_pstart in Hn. subst. split; discriminate.
  - intros j p Hn. apply nth_repeat_pstart in Hn. subst. exact I.
  - intros _. right. left. reflexivity.
Qed.

Lemma nth_set_pc st i p j q :
  i < length (gs_pcs st) -> nth_error (set_pc st i p) j = Some q ->
  (j = i /\ q = p) \/ (j <> i /\ nth_error (gs_pcs st) j = Some q).
Proof.
  intros L H. unfold set_pc in H. destruct (Nat.eq_dec j i) as [->|N].
  - rewrite nth_error_list_set_eq in H by exact L. left. split; congruence.
  - rewrite nth_error_list_set_neq in H by congruence. right. split; assumption.
Qed.

Lemma firstn_snoc {A} (l : list A) : forall k c, nth_error l k = Some c -> firstn (Datatypes.S k) l = firstn k l ++ [c].
Proof.
  induction l as [|a l IH]; intros [|k] c H; cbn in H; try discriminate.
  - inversion H; subst. reflexivity.
  - change (a :: firstn (Datatypes.S k) l = a :: (firstn k l ++ [c])). rewrite (IH k c H). reflexivity.
Qed.

Lemma concat_firstn_snoc {A} (l : list (list A)) k c :
  nth_error l k = Some c -> concat (firstn (Datatypes.S k) l) = concat (firstn k l) ++ c.
Proof. intros H. rewrite (firstn_snoc l k c H), concat_app. cbn. rewrite app_nil_r. reflexivity. Qed.

Lemma firstn_all_none {A} (l : list A) k : nth_error l k = None -> firstn k l = l.
Proof. intros H. apply nth_error_None in H. apply firstn_all2. exact H. Qed.

(* the holder is the only opener inside the critical section: nobody else is filling *)
Lemma only_holder_fills st i p :
  cinv_conc st -> nth_error (gs_pcs st) i = Some p -> holds p = true ->
  forall j q, nth_error (gs_pcs st) j = Some q -> filling q = true -> j = i.
Proof.
  intros (I1 & _ & _) E H j q Ej F.
  assert (Hq : holds q = true) by (destruct q; try discriminate; reflexivity).
  apply (I1 i p E) in H. apply (I1 j q Ej) in Hq. congruence.
Qed.

(* goal shapes of the three clauses after a step of opener i *)
Ltac start_inv := unfold cinv_conc; cbn [gs_pcs gs_lock gs_cache gs_mark]; split; [|split].
(* clause 1 when the lock and its holder i stay: the new pc of i still holds *)
Ltac clause1_same I1 L Hi :=
  let j := fresh "j" in let q := fresh "q" in let Hn := fresh "Hn" in let N := fresh "N" in
  intros j q Hn; apply (nth_set_pc _ _ _ _ _ L) in Hn; destruct Hn as [[-> ->]|[N Hn]];
  [split; intros _; [exact Hi|reflexivity]|apply (I1 _ _ Hn)].
(* clause 2 when the cache is unchanged and the new pc of i carries no obligation *)
Ltac clause2_same I2 L :=
  let j := fresh "j" in let q := fresh "q" in let Hn := fresh "Hn" in let N := fresh "N" in
  intros j q Hn; apply (nth_set_pc _ _ _ _ _ L) in Hn; destruct Hn as [[-> ->]|[N Hn]];
  [try exact I; try reflexivity|apply (I2 _ _ Hn)].
(* clause 2 when the cache changed: nobody else is in PCopy *)
Ltac clause2_changed I2 L Others :=
  let j := fresh "j" in let q := fresh "q" in let Hn := fresh "Hn" in let N := fresh "N" in
  let X := fresh "X" in let Y := fresh "Y" in
  intros j q Hn; apply (nth_set_pc _ _ _ _ _ L) in Hn; destruct Hn as [[-> ->]|[N Hn]];
  [try exact I; try reflexivity
  |pose proof (I2 _ _ Hn) as X; pose proof (Others j q N Hn) as Y;
   destruct q as [| |?k| |[?d| |]|[?d| |]]; try exact X; try exact I; contradiction].
(* clause 3 when i is filling afterwards *)
Ltac clause3_filling L i p' :=
  let Hf := fresh "Hf" in
  intros Hf; exfalso; specialize (Hf i p'); unfold set_pc in Hf;
  rewrite nth_error_list_set_eq in Hf by exact L; specialize (Hf eq_refl); discriminate.

Theorem cinv_conc_step st i ch st1 : cinv_conc st -> cstep st i ch = Some st1 -> cinv_conc st1.
Proof.
  intros Inv H. pose proof Inv as (I1 & I2 & I3). unfold cstep in H.
  destruct (nth_error (gs_pcs st) i) as [p|] eqn:E; [|discriminate].
  assert (L : i < length (gs_pcs st)) by (apply nth_error_Some; congruence).
  assert (Others : holds p = true -> forall j q, j <> i -> nth_error (gs_pcs st) j = Some q ->
                     match q with PCopy _ => False | _ => True end).
  { intros Hp j q N Hn. destruct q; try exact I.
    assert (j = i) by (eapply only_holder_fills; try eassumption; reflexivity). congruence. }
  assert (NoFillBefore : filling p = false ->
            forall p', (forall j q, nth_error (set_pc st i p') j = Some q -> filling q = false) ->
            forall j q, nth_error (gs_pcs st) j = Some q -> filling q = false).
  { intros Fp p' Hf j q Hn. destruct (Nat.eq_dec j i) as [->|N].
    - rewrite E in Hn. inversion Hn; subst. exact Fp.
    - apply (Hf j q). unfold set_pc. rewrite nth_error_list_set_neq by congruence. exact Hn. }
  destruct p as [| |k| |r|r].
  - (* PStart: take the mutex *)
    destruct (gs_lock st) as [h|] eqn:Lk; [discriminate|]. inversion H; subst st1; clear H. start_inv.
    + intros j q Hn. apply (nth_set_pc _ _ _ _ _ L) in Hn. destruct Hn as [[-> ->]|[N Hn]].
      * split; reflexivity.
      * split; intros Hh; [apply (I1 _ _ Hn) in Hh; congruence|congruence].
    + clause2_same I2 L.
    + intros Hf. apply I3. apply (NoFillBefore eq_refl _ Hf).
  - (* PLocked: look at the mark and the cache *)
    assert (Hi : gs_lock st = Some i) by (apply (I1 i PLocked E); reflexivity).
    assert (G : good st).
    { apply I3. intros j q Hn. destruct (filling q) eqn:F; [|reflexivity].
      assert (j = i) by (eapply only_holder_fills; try eassumption; reflexivity). subst j.
      rewrite E in Hn. inversion Hn; subst. discriminate. }
    destruct (if gs_mark st then None else gs_cache st) as [d|] eqn:Look.
    + inversion H; subst st1; clear H.
      assert (d = data).
      { destruct (gs_mark st) eqn:M; [discriminate|]. destruct G as [G|[G|G]]; congruence. }
      subst d. start_inv; [clause1_same I1 L Hi|clause2_same I2 L|intros _; exact G].
    + destruct ch as [|[|part]]; inversion H; subst st1; clear H; start_inv.
      * clause1_same I1 L Hi.
      * clause2_changed I2 L (Others eq_refl). split; [lia|reflexivity].
      * clause3_filling L i (PCopy 0).
      * clause1_same I1 L Hi.
      * clause2_same I2 L.
      * intros _. exact G.
      * clause1_same I1 L Hi.
      * clause2_same I2 L.
      * clause3_filling L i PFail.
  - (* PCopy k *)
    assert (Hi : gs_lock st = Some i) by (apply (I1 i (PCopy k) E); reflexivity).
    destruct (I2 i (PCopy k) E) as [Kle Kc].
    destruct (nth_error chs k) as [c|] eqn:Ck.
    + assert (Klt : k < length chs) by (apply nth_error_Some; congruence).
      rewrite Kc in H.
      destruct ch as [|part]; inversion H; subst st1; clear H; start_inv.
      * clause1_same I1 L Hi.
      * clause2_changed I2 L (Others eq_refl). split; [lia|]. rewrite (concat_firstn_snoc _ _ _ Ck). reflexivity.
      * clause3_filling L i (PCopy (Datatypes.S k)).
      * clause1_same I1 L Hi.
      * clause2_changed I2 L (Others eq_refl).
      * clause3_filling L i PFail.
    + (* Close *)
      destruct ch as [|part]; inversion H; subst st1; clear H; start_inv.
      * clause1_same I1 L Hi.
      * clause2_changed I2 L (Others eq_refl).
      * intros _. right. right. cbn [gs_cache]. rewrite Kc. rewrite (firstn_all_none _ _ Ck). reflexivity.
      * clause1_same I1 L Hi.
      * clause2_changed I2 L (Others eq_refl).
      * clause3_filling L i PFail.
  - (* PFail: clean up *)
    assert (Hi : gs_lock st = Some i) by (apply (I1 i PFail E); reflexivity).
    destruct ch as [|part]; inversion H; subst st1; clear H; start_inv.
    + clause1_same I1 L Hi.
    + clause2_changed I2 L (Others eq_refl).
    + intros _. right. left. reflexivity.
    + clause1_same I1 L Hi.
    + clause2_changed I2 L (Others eq_refl).
    + intros _. left. reflexivity.
  - (* PUnlock: release *)
    assert (Hi : gs_lock st = Some i) by (apply (I1 i (PUnlock r) E); reflexivity).
    inversion H; subst st1; clear H. start_inv.
    + intros j q Hn. apply (nth_set_pc _ _ _ _ _ L) in Hn. destruct Hn as [[-> ->]|[N Hn]].
      * split; discriminate.
      * split; intros Hh; [apply (I1 _ _ Hn) in Hh; congruence|discriminate].
    + intros j q Hn. apply (nth_set_pc _ _ _ _ _ L) in Hn. destruct Hn as [[-> ->]|[N Hn]].
      * apply (I2 i (PUnlock r) E).
      * apply (I2 _ _ Hn).
    + intros Hf. apply I3. apply (NoFillBefore eq_refl _ Hf).
  - discriminate.
Qed.

Theorem cinv_conc_reach st st2 : cinv_conc st -> creach st st2 -> cinv_conc st2.
Proof.
  intros I H. induction H as [|st i ch st1 st2 S _ IH]; [exact I|]. apply IH. eapply cinv_conc_step; eassumption.
Qed.

(* ---------- the statements of C11's concurrency clause ---------- *)

(* at most one copy of the file is in progress at any moment: two openers inside a fill are the same opener *)
Theorem at_most_one_fill n st i j p q :
  creach (ginit n) st -> nth_error (gs_pcs st) i = Some p -> nth_error (gs_pcs st) j = Some q ->
  filling p = true -> filling q = true -> i = j.
Proof.
  intros R Ei Ej Fp Fq. pose proof (cinv_conc_reach _ _ (cinv_conc_init n) R) as Inv.
  symmetry. eapply only_holder_fills; try eassumption. destruct p; try discriminate; reflexivity.
Qed.

(* every open that succeeds yields the complete bytes, whatever the schedule and whatever failed elsewhere *)
Theorem served_is_complete n st i d :
  creach (ginit n) st -> nth_error (gs_pcs st) i = Some (PDone (Served d)) -> d = data.
Proof.
  intros R E. pose proof (cinv_conc_reach _ _ (cinv_conc_init n) R) as (_ & I2 & _). apply (I2 i _ E).
Qed.

(* whenever nobody is inside a fill, what a reader of the cache store can get hold of is nothing, a marked copy, or
   the complete bytes: a partial copy is never left behind unmarked *)
Theorem no_partial_left_behind n st :
  creach (ginit n) st -> (forall j p, nth_error (gs_pcs st) j = Some p -> filling p = false) -> good st.
Proof. intros R H. pose proof (cinv_conc_reach _ _ (cinv_conc_init n) R) as (_ & _ & I3). apply I3. exact H. Qed.

(* the mutex is held exactly by the opener inside the critical section *)
Theorem lock_held_by_the_one_inside n st j p :
  creach (ginit n) st -> nth_error (gs_pcs st) j = Some p -> (holds p = true <-> gs_lock st = Some j).
Proof. intros R E. pose proof (cinv_conc_reach _ _ (cinv_conc_init n) R) as (I1 & _ & _). apply I1. exact E. Qed.

(* once the complete copy is in place and unmarked it stays: no later open reads the source again or rewrites it *)
Definition settled (st : gstate) : Prop :=
  gs_cache st = Some data /\ gs_mark st = false /\ forall j p, nth_error (gs_pcs st) j = Some p -> filling p = false.

Theorem settled_stable st i ch st1 : cinv_conc st -> settled st -> cstep st i ch = Some st1 -> settled st1.
Proof.
  intros Inv (C & M & NF) H. unfold cstep in H.
  destruct (nth_error (gs_pcs st) i) as [p|] eqn:E; [|discriminate].
  assert (L : i < length (gs_pcs st)) by (apply nth_error_Some; congruence).
  pose proof (NF i p E) as Fp.
  assert (Keep : forall p', filling p' = false ->
            forall j q, nth_error (set_pc st i p') j = Some q -> filling q = false).
  { intros p' Fp' j q Hn. apply (nth_set_pc _ _ _ _ _ L) in Hn. destruct Hn as [[-> ->]|[N Hn]]; [exact Fp'|].
    apply (NF j q Hn). }
  destruct p as [| |k| |r|r]; try discriminate.
  - destruct (gs_lock st); [discriminate|]. inversion H; subst st1. repeat split; try assumption. apply Keep. reflexivity.
  - rewrite M, C in H. inversion H; subst st1. repeat split; try assumption. apply Keep. reflexivity.
  - inversion H; subst st1. repeat split; try assumption. apply Keep. reflexivity.
Qed.

(* the mutex is always held by an existing opener that is inside the critical section *)
Definition lock_valid (st : gstate) : Prop :=
  forall h, gs_lock st = Some h -> exists q, nth_error (gs_pcs st) h = Some q /\ holds q = true.

Lemma lock_valid_init n : lock_valid (ginit n).
Proof. intros h H. discriminate. Qed.

Lemma lock_valid_same st i p p' c m :
  cinv_conc st -> nth_error (gs_pcs st) i = Some p -> holds p = true -> holds p' = true ->
  lock_valid (mkGS (gs_lock st) c m (set_pc st i p')).
Proof.
  intros (I1 & _ & _) E Hp Hp' h Hh. cbn [gs_lock gs_pcs] in *. apply (I1 i p E) in Hp.
  assert (h = i) by congruence. subst h. exists p'. split; [|exact Hp'].
  unfold set_pc. apply nth_error_list_set_eq. apply nth_error_Some. congruence.
Qed.

Lemma lock_valid_step st i ch st1 : cinv_conc st -> lock_valid st -> cstep st i ch = Some st1 -> lock_valid st1.
Proof.
  intros Inv LV H. unfold cstep in H.
  destruct (nth_error (gs_pcs st) i) as [p|] eqn:E; [|discriminate].
  assert (L : i < length (gs_pcs st)) by (apply nth_error_Some; congruence).
  destruct p as [| |k| |r|r]; try discriminate.
  - destruct (gs_lock st); [discriminate|]. inversion H; subst st1. intros h Hh. cbn [gs_lock gs_pcs] in *.
    inversion Hh; subst h. exists PLocked. split; [apply nth_error_list_set_eq; exact L|reflexivity].
  - destruct (if gs_mark st then None else gs_cache st); [|destruct ch as [|[|part]]];
      inversion H; subst st1; (eapply lock_valid_same; [exact Inv|exact E|reflexivity|reflexivity]).
  - destruct (nth_error chs k); [destruct ch, (gs_cache st)|destruct ch];
      inversion H; subst st1; (eapply lock_valid_same; [exact Inv|exact E|reflexivity|reflexivity]).
  - destruct ch; inversion H; subst st1; (eapply lock_valid_same; [exact Inv|exact E|reflexivity|reflexivity]).
  - inversion H; subst st1. intros h Hh. discriminate.
Qed.

Lemma lock_valid_reach st st2 : cinv_conc st -> lock_valid st -> creach st st2 -> lock_valid st2.
Proof.
  intros I LV H. induction H as [|st i ch st1 st2 S _ IH]; [exact LV|].
  apply IH; [eapply cinv_conc_step; eassumption|eapply lock_valid_step; eassumption].
Qed.

(* progress: while some opener has not returned, some step is enabled (no deadlock on the per-path mutex) *)
Theorem some_step_enabled n st i p :
  creach (ginit n) st -> nth_error (gs_pcs st) i = Some p -> (forall r, p <> PDone r) ->
  exists j st1, cstep st j COk = Some st1.
Proof.
  intros R E ND.
  pose proof (cinv_conc_reach _ _ (cinv_conc_init n) R) as Inv.
  pose proof (lock_valid_reach _ _ (cinv_conc_init n) (lock_valid_init n) R) as LV.
  destruct Inv as (I1 & _ & _).
  destruct (gs_lock st) as [h|] eqn:Lk.
  - destruct (LV h Lk) as (q & Eh & Hq).
    exists h. unfold cstep. rewrite Eh.
    destruct q as [| |k| |r|r]; try discriminate.
    + destruct (if gs_mark st then None else gs_cache st); eexists; reflexivity.
    + destruct (nth_error chs k); [destruct (gs_cache st)|]; eexists; reflexivity.
    + eexists; reflexivity.
    + eexists; reflexivity.
  - (* the mutex is free: opener i itself is waiting for it *)
    exists i. unfold cstep. rewrite E.
    destruct p as [| |k| |r|r].
    + rewrite Lk. eexists; reflexivity.
    + exfalso. assert (X : @None nat = Some i) by (apply (I1 i _ E); reflexivity). discriminate.
    + exfalso. assert (X : @None nat = Some i) by (apply (I1 i _ E); reflexivity). discriminate.
    + exfalso. assert (X : @None nat = Some i) by (apply (I1 i _ E); reflexivity). discriminate.
    + exfalso. assert (X : @None nat = Some i) by (apply (I1 i _ E); reflexivity). discriminate.
    + exfalso. apply (ND r). reflexivity.
Qed.

End Model.

(* ---------- correspondence: does the model accept what the real cache did? ----------
   The harness records, in real-time order, the calls that reached the cache store for the contended name
   (create/truncate, write, close, remove) and the injected source-read failure, plus how many openers returned the
   complete bytes and how many an error.  The model replays them: each event must be the enabled step of the opener
   inside the critical section (a create is a new opener taking the mutex and missing the cache); what is left are
   openers that hit the cache.  Two fills that overlap, a fill after a complete copy, a partial copy served: rejected. *)
Inductive cev := VCreate | VWrite | VClose | VSrcFail | VRemove | VRemoveFail.

Fixpoint first_start (pcs : list pc) (i : nat) : option nat :=
  match pcs with
  | [] => None
  | PStart :: _ => Some i
  | _ :: r => first_start r (Datatypes.S i)
  end.

Definition step2 (chs : list (list N)) (st : gstate) (i : nat) (c1 c2 : choice) : option gstate :=
  match cstep chs st i c1 with Some st1 => cstep chs st1 i c2 | None => None end.

Definition cfeed (chs : list (list N)) (st : gstate) (ev : cev) : option gstate :=
  match ev with
  | VCreate =>
    match first_start (gs_pcs st) 0 with
    | None => None
    | Some i =>
      match step2 chs st i COk COk with
      | Some st2 => match nth_error (gs_pcs st2) i with Some (PCopy 0) => Some st2 | _ => None end
      | None => None
      end
    end
  | _ =>
    match gs_lock st with
    | None => None
    | Some h =>
      match nth_error (gs_pcs st) h, ev with
      | Some (PCopy k), VWrite => if Nat.ltb k (length chs) then cstep chs st h COk else None
      | Some (PCopy k), VClose => if Nat.eqb k (length chs) then step2 chs st h COk COk else None
      | Some (PCopy k), VSrcFail => cstep chs st h (CFail 0)
      | Some PFail, VRemove => step2 chs st h COk COk
      | Some PFail, VRemoveFail => step2 chs st h (CFail 0) COk      (* the partial copy stays: the name is marked *)
      | Some PFail, VClose => Some st            (* the handle of the failed copy is closed: no effect *)
      | _, _ => None
      end
    end
  end.

Fixpoint cfeed_all (chs : list (list N)) (st : gstate) (evs : list cev) : option gstate :=
  match evs with
  | [] => Some st
  | e :: r => match cfeed chs st e with Some st1 => cfeed_all chs st1 r | None => None end
  end.

(* the openers that made no store call: each takes the mutex, must hit the cache (or fail to open the source), unlocks *)
Fixpoint finish_rest (chs : list (list N)) (fuel : nat) (st : gstate) : option gstate :=
  match fuel with
  | O => Some st
  | Datatypes.S f =>
    match first_start (gs_pcs st) 0 with
    | None => Some st
    | Some i =>
      match step2 chs st i COk COk with
      | Some st2 =>
        match nth_error (gs_pcs st2) i with
        | Some (PUnlock _) => match cstep chs st2 i COk with Some st3 => finish_rest chs f st3 | None => None end
        | _ => None                    (* it would have started a fill: there would have been a create *)
        end
      | None => None
      end
    end
  end.

Definition count_res (chs : list (list N)) (pcs : list pc) : nat * nat :=
  fold_right (fun p acc =>
    match p with
    | PDone (Served d) => if list_eqb N.eqb d (concat chs) then (Datatypes.S (fst acc), snd acc) else acc
    | PDone OErr => (fst acc, Datatypes.S (snd acc))
    | _ => acc
    end) (0, 0) pcs.

Definition C11conc_case := (list N * nat * list cev * nat * nat)%type.   (* bytes, openers, events, complete, errors *)
Definition C11conc_check (c : C11conc_case) : bool :=
  let '(d, n, evs, ncomplete, nerr) := c in
  let chs := chunked 512 d in
  match cfeed_all chs (ginit n) evs with
  | None => false
  | Some st =>
    match finish_rest chs n st with
    | None => false
    | Some st2 =>
      let '(a, b) := count_res chs (gs_pcs st2) in
      Nat.eqb a ncomplete && Nat.eqb b nerr && Nat.eqb (a + b) n
    end
  end.

(* accepted: three openers, one fill of 3 chunks, the others hit the cache; one failing fill cleaned up, then a good one *)
Example conc_accepts_one_fill :
  C11conc_check (repeat 7%N 1100, 3, [VCreate; VWrite; VWrite; VWrite; VClose], 3, 0) = true.
Proof. vm_compute. reflexivity. Qed.
Example conc_accepts_failed_then_good :
  C11conc_check (repeat 7%N 600, 2, [VCreate; VWrite; VSrcFail; VRemove; VCreate; VWrite; VWrite; VClose], 1, 1) = true.
Proof. vm_compute. reflexivity. Qed.
(* rejected: a second fill although the first completed; overlapping fills; a result count the model cannot produce *)
Example conc_rejects :
  C11conc_check (repeat 7%N 600, 2, [VCreate; VWrite; VWrite; VClose; VCreate; VWrite; VWrite; VClose], 2, 0) = false
  /\ C11conc_check (repeat 7%N 600, 2, [VCreate; VWrite; VCreate; VWrite; VWrite; VClose], 2, 0) = false
  /\ C11conc_check (repeat 7%N 600, 2, [VCreate; VWrite; VSrcFail; VRemove], 2, 0) = false.
Proof. vm_compute. repeat split. Qed.
