(* Theorems about the read-only cache model (C10, C11). *)
From HP Require Import Base.Prelude Cache.Cache.
Open Scope nat_scope.

(* ---- chunking ---- *)
Lemma chunks_concat fuel c d : 0 < c -> length d < fuel -> concat (chunks fuel c d) = d.
Proof.
  revert d; induction fuel as [|f IH]; intros d Hc Hl; [exfalso; lia|].
  destruct d as [|x d]; [reflexivity|]. cbn [chunks concat].
  rewrite IH; [apply firstn_skipn|exact Hc|].
  rewrite skipn_length. cbn [length] in *. lia.
Qed.

Lemma chunked_concat c d : 0 < c -> concat (chunked c d) = d.
Proof. intros H. apply chunks_concat; [exact H|lia]. Qed.

(* a copy that reports completion has written exactly the chunks it was given *)
Lemma copy_loop_complete cs : forall k ft part acc w n,
  copy_loop cs k ft part acc = (w, true, n) -> w = acc ++ concat cs.
Proof.
  induction cs as [|ch cs IH]; intros k ft part acc w n H; simpl in *.
  - rewrite app_nil_r. destruct ft; try (inversion H; reflexivity).
    destruct (Nat.eqb k0 k); inversion H; reflexivity.
  - destruct ft;
      try (apply IH in H; rewrite H, <- app_assoc; reflexivity).
    + destruct (Nat.eqb k0 k); [inversion H|]. apply IH in H; rewrite H, <- app_assoc; reflexivity.
    + destruct (Nat.eqb k0 k); [inversion H|]. apply IH in H; rewrite H, <- app_assoc; reflexivity.
Qed.

(* without a fault the copy completes *)
Lemma copy_loop_nofault cs : forall k part acc, exists n,
  copy_loop cs k FNone part acc = (acc ++ concat cs, true, n).
Proof.
  induction cs as [|ch cs IH]; intros k part acc; simpl.
  - rewrite app_nil_r. eexists; reflexivity.
  - destruct (IH (Datatypes.S k) part (acc ++ ch)) as [n Hn]. rewrite Hn, <- app_assoc. eexists; reflexivity.
Qed.

(* ---- the cache's invariant: what is in the cache and not marked incomplete is the complete source file ---- *)
Definition cinv (src : source) (st : cstate) : Prop :=
  forall n d, mem_str n (cs_incomplete st) = false -> clookup (cs_cache st) n = Some d -> slookup src n = Some (SFile d).

Lemma cinv_init src : cinv src cinit.
Proof. intros n d _ H. discriminate. Qed.

Lemma clookup_cput_same c n d : clookup (cput c n d) n = Some d.
Proof. unfold cput; simpl. rewrite str_eqb_refl. reflexivity. Qed.

Lemma clookup_cdel_other c n m : str_eqb n m = false -> clookup (cdel c n) m = clookup c m.
Proof.
  intros H. unfold cdel. induction c as [|[k v] c IH]; simpl; [reflexivity|].
  destruct (str_eqb_spec k n) as [->|Hne]; simpl.
  - rewrite H. exact IH.
  - destruct (str_eqb k m); [reflexivity|exact IH].
Qed.

Lemma clookup_cdel_same c n : clookup (cdel c n) n = None.
Proof.
  unfold cdel. induction c as [|[k v] c IH]; simpl; [reflexivity|].
  destruct (str_eqb_spec k n) as [->|Hne]; simpl; [exact IH|].
  destruct (str_eqb_spec k n); [contradiction|exact IH].
Qed.

Lemma clookup_cput_other c n m d : str_eqb n m = false -> clookup (cput c n d) m = clookup c m.
Proof. intros H. unfold cput; simpl. rewrite H. apply clookup_cdel_other; exact H. Qed.

Lemma mem_str_filter_other n m l : str_eqb n m = false ->
  mem_str m (filter (fun x => negb (str_eqb x n)) l) = mem_str m l.
Proof.
  intros H. unfold mem_str. induction l as [|x l IH]; simpl; [reflexivity|].
  destruct (str_eqb_spec x n) as [->|Hne]; simpl.
  - destruct (str_eqb_spec m n) as [->|]; [rewrite str_eqb_refl in H; discriminate|exact IH].
  - rewrite IH. reflexivity.
Qed.

Lemma str_eqb_sym a b : str_eqb a b = str_eqb b a.
Proof. destruct (str_eqb_spec a b) as [->|H]; [rewrite str_eqb_refl; reflexivity|]. destruct (str_eqb_spec b a); congruence. Qed.

Lemma cinv_ext src c i info info' log log' :
  cinv src (mkC c i info log) -> cinv src (mkC c i info' log').
Proof. intros H n d; simpl; apply H. Qed.

Lemma cinv_put_complete src c i info log n d :
  cinv src (mkC c i info log) -> slookup src n = Some (SFile d) ->
  cinv src (mkC (cput c n d) (filter (fun x => negb (str_eqb x n)) i) info log).
Proof.
  intros H S m x; cbn [cs_cache cs_incomplete]; intros Hm Hl.
  destruct (str_eqb_spec n m) as [<-|Hne].
  - rewrite clookup_cput_same in Hl. inversion Hl; subst x. exact S.
  - assert (Hnm : str_eqb n m = false) by (destruct (str_eqb_spec n m); congruence).
    rewrite clookup_cput_other in Hl by exact Hnm. rewrite mem_str_filter_other in Hm by exact Hnm.
    apply (H m x Hm Hl).
Qed.

Lemma cinv_del src c i info log n :
  cinv src (mkC c i info log) -> cinv src (mkC (cdel c n) i info log).
Proof.
  intros H m x; cbn [cs_cache cs_incomplete]; intros Hm Hl.
  destruct (str_eqb_spec n m) as [<-|Hne].
  - rewrite clookup_cdel_same in Hl; discriminate.
  - assert (Hnm : str_eqb n m = false) by (destruct (str_eqb_spec n m); congruence).
    rewrite clookup_cdel_other in Hl by exact Hnm. apply (H m x Hm Hl).
Qed.

Lemma cinv_put_incomplete src c i info log n w :
  cinv src (mkC c i info log) -> cinv src (mkC (cput c n w) (n :: i) info log).
Proof.
  intros H m x; cbn [cs_cache cs_incomplete]; intros Hm Hl.
  destruct (str_eqb_spec n m) as [<-|Hne].
  - unfold mem_str in Hm; simpl in Hm. rewrite str_eqb_refl in Hm. discriminate.
  - assert (Hnm : str_eqb n m = false) by (destruct (str_eqb_spec n m); congruence).
    rewrite clookup_cput_other in Hl by exact Hnm.
    unfold mem_str in Hm; simpl in Hm. rewrite str_eqb_sym, Hnm in Hm. simpl in Hm.
    apply (H m x Hm Hl).
Qed.

Lemma cstate_eta st : st = mkC (cs_cache st) (cs_incomplete st) (cs_info st) (cs_log st).
Proof. destruct st; reflexivity. Qed.

(* THEOREM: every Open -- whatever fault hits its fill, whatever the policy, the buffer size and the
   store's ability to remove -- preserves the invariant. *)
Theorem copen_inv src retain c can_remove ft part st n :
  0 < c -> cinv src st -> cinv src (fst (copen src retain c can_remove ft part st n)).
Proof.
  intros Hc I. unfold copen.
  destruct (negb (mem_str n (cs_info st)) && match ft with FSrcOpen => true | _ => false end);
    [cbn [fst]; rewrite (cstate_eta st) in I; eapply cinv_ext; exact I|].
  set (st0 := if mem_str n (cs_info st) then st else _).
  assert (I0 : cinv src st0).
  { subst st0. destruct (mem_str n (cs_info st)); [exact I|]. intros m d; simpl; apply I. }
  clearbody st0.
  destruct (slookup src n) as [[data|]|] eqn:S; [|exact I0|exact I0].
  destruct (if mem_str n (cs_incomplete st0) then None else clookup (cs_cache st0) n) eqn:L; [exact I0|].
  rewrite (cstate_eta st0) in I0.
  destruct (retain n); cbn [negb fst]; [|eapply cinv_ext; exact I0].
  assert (Generic : forall ft', (match ft' with FMkdir | FCreate | FSrcOpen => False | _ => True end) ->
    cinv src (fst (let '(written, complete, nreads) := copy_loop (chunked c data) 0 ft' part [] in
      let st2 := mkC (cs_cache st0) (cs_incomplete st0) (cs_info st0) (log_reads n nreads (ESrcOpen n :: cs_log st0)) in
      let ok := complete && match ft' with FClose => false | _ => true end in
      if ok then
        (mkC (cput (cs_cache st2) n written) (filter (fun x => negb (str_eqb x n)) (cs_incomplete st2)) (cs_info st2) (cs_log st2), Served data)
      else if can_remove then (mkC (cdel (cs_cache st2) n) (cs_incomplete st2) (cs_info st2) (cs_log st2), OErr)
      else (mkC (cput (cs_cache st2) n written) (n :: cs_incomplete st2) (cs_info st2) (cs_log st2), OErr)))).
  { intros ft' _. destruct (copy_loop (chunked c data) 0 ft' part []) as [[written complete] nreads] eqn:CL.
    cbn [cs_cache cs_incomplete cs_info cs_log].
    destruct (complete && match ft' with FClose => false | _ => true end) eqn:OK; cbn [fst].
    - apply andb_true_iff in OK. destruct OK as [OK _]. subst complete.
      apply copy_loop_complete in CL. simpl in CL. rewrite chunked_concat in CL by exact Hc. subst written.
      apply cinv_put_complete; [eapply cinv_ext; exact I0|exact S].
    - destruct can_remove; cbn [fst].
      + apply cinv_del. eapply cinv_ext; exact I0.
      + apply cinv_put_incomplete. eapply cinv_ext; exact I0. }
  destruct ft; try (apply Generic; exact Logic.I); cbn [fst]; eapply cinv_ext; exact I0.
Qed.

(* lifted to every sequence of opens with arbitrary faults *)
Theorem cruns_inv src retain c can_remove : 0 < c -> forall ops st,
  cinv src st -> cinv src (fst (cruns src retain c can_remove st ops)).
Proof.
  intros Hc ops; induction ops as [|[[n ft] part] ops IH]; intros st I; simpl; [exact I|].
  destruct (copen src retain c can_remove ft part st n) as [st1 r] eqn:E.
  destruct (cruns src retain c can_remove st1 ops) as [st2 rs] eqn:E2. simpl.
  specialize (IH st1). rewrite E2 in IH. apply IH.
  pose proof (copen_inv src retain c can_remove ft part st n Hc I) as X. rewrite E in X. exact X.
Qed.

(* THEOREM (C10 transparency / C11 fault safety): under the invariant, an Open that succeeds serves
   exactly the source's bytes -- never a truncated or mixed file -- whatever happened before. *)
Theorem copen_serves_source src retain c can_remove ft part st n d :
  0 < c -> cinv src st ->
  snd (copen src retain c can_remove ft part st n) = Served d -> slookup src n = Some (SFile d).
Proof.
  intros Hc I. unfold copen.
  destruct (negb (mem_str n (cs_info st)) && match ft with FSrcOpen => true | _ => false end);
    [cbn [snd]; discriminate|].
  set (st0 := if mem_str n (cs_info st) then st else _).
  assert (I0 : cinv src st0).
  { subst st0. destruct (mem_str n (cs_info st)); [exact I|]. intros m x; simpl; apply I. }
  clearbody st0.
  destruct (slookup src n) as [[data|]|] eqn:S; [|discriminate|discriminate].
  destruct (mem_str n (cs_incomplete st0)) eqn:Inc.
  - destruct (retain n); simpl.
    + destruct ft; try discriminate;
        match goal with |- context [copy_loop ?a ?b ?f ?p ?e] => destruct (copy_loop a b f p e) as [[written complete] nreads] end;
        simpl; try match goal with |- context [if ?b then _ else _] => destruct b end; try destruct can_remove; simpl;
        intros H; inversion H; reflexivity.
    + intros H; inversion H; reflexivity.
  - destruct (clookup (cs_cache st0) n) as [cached|] eqn:L.
    + simpl. intros H; inversion H; subst. symmetry. rewrite <- S. symmetry. apply (I0 n d Inc L).
    + destruct (retain n); simpl.
      * destruct ft; try discriminate;
          match goal with |- context [copy_loop ?a ?b ?f ?p ?e] => destruct (copy_loop a b f p e) as [[written complete] nreads] end;
          simpl; try match goal with |- context [if ?b then _ else _] => destruct b end; try destruct can_remove; simpl;
          intros H; inversion H; reflexivity.
      * intros H; inversion H; reflexivity.
Qed.

(* ---- no re-read: once a retained file has been opened successfully it is "settled" ---- *)
Definition settled (st : cstate) (n : str) : Prop :=
  mem_str n (cs_info st) = true /\ mem_str n (cs_incomplete st) = false /\ exists d, clookup (cs_cache st) n = Some d.

(* a settled name is answered from the cache: no source access is logged, whatever fault is armed *)
Theorem settled_no_source_access src retain c can_remove ft part st n data :
  slookup src n = Some (SFile data) -> settled st n ->
  cs_log (fst (copen src retain c can_remove ft part st n)) = cs_log st
  /\ settled (fst (copen src retain c can_remove ft part st n)) n.
Proof.
  intros S (Hi & Hc & d & Hl). unfold copen. rewrite Hi, S, Hc, Hl. simpl. split; [reflexivity|].
  split; [exact Hi|]. split; [exact Hc|]. exists d; exact Hl.
Qed.

(* opening another name never unsettles it *)
Lemma mem_str_cons_other n m l : str_eqb n m = false -> mem_str m (n :: l) = mem_str m l.
Proof. intros H. unfold mem_str; simpl. rewrite str_eqb_sym, H. reflexivity. Qed.

Definition agree_on (m : str) (st st' : cstate) : Prop :=
  (mem_str m (cs_info st) = true -> mem_str m (cs_info st') = true)
  /\ mem_str m (cs_incomplete st') = mem_str m (cs_incomplete st)
  /\ clookup (cs_cache st') m = clookup (cs_cache st) m.

Lemma agree_refl m st : agree_on m st st.
Proof. repeat split; auto. Qed.

Lemma agree_trans m a b c : agree_on m a b -> agree_on m b c -> agree_on m a c.
Proof. intros (A1 & A2 & A3) (B1 & B2 & B3). repeat split; [auto|congruence|congruence]. Qed.

Lemma agree_settled m st st' : agree_on m st st' -> settled st m -> settled st' m.
Proof.
  intros (A1 & A2 & A3) (Hi & Hc & d & Hl). split; [auto|]. split; [congruence|]. exists d; congruence.
Qed.

Lemma copen_agree src retain c can_remove ft part st n m :
  str_eqb n m = false -> agree_on m st (fst (copen src retain c can_remove ft part st n)).
Proof.
  intros Hnm. unfold copen.
  destruct (negb (mem_str n (cs_info st)) && match ft with FSrcOpen => true | _ => false end);
    [cbn [fst]; repeat split; auto|].
  set (st0 := if mem_str n (cs_info st) then st else _).
  assert (A0 : agree_on m st st0).
  { subst st0. destruct (mem_str n (cs_info st)); [apply agree_refl|].
    repeat split; cbn [cs_info cs_incomplete cs_cache]; auto.
    destruct (slookup src n); [rewrite mem_str_cons_other by exact Hnm|]; auto. }
  clearbody st0. eapply agree_trans; [exact A0|]. clear A0 st.
  destruct (slookup src n) as [[data|]|]; try apply agree_refl.
  destruct (if mem_str n (cs_incomplete st0) then None else clookup (cs_cache st0) n); [apply agree_refl|].
  destruct (retain n); cbn [negb fst]; [|repeat split; auto].
  destruct ft; try (cbn [fst]; repeat split; auto; fail);
    destruct (copy_loop (chunked c data) 0 _ part []) as [[written complete] nreads];
    cbn [cs_cache cs_incomplete cs_info cs_log];
    match goal with |- context [if ?b then _ else _] => destruct b end; try destruct can_remove; cbn [fst];
    (repeat split; cbn [cs_info cs_incomplete cs_cache]; auto;
     rewrite ?mem_str_filter_other, ?clookup_cput_other, ?clookup_cdel_other, ?mem_str_cons_other by exact Hnm; reflexivity).
Qed.

Theorem settled_stable src retain c can_remove ft part st n m :
  str_eqb n m = false -> settled st m -> settled (fst (copen src retain c can_remove ft part st n)) m.
Proof. intros Hnm H. eapply agree_settled; [apply copen_agree; exact Hnm|exact H]. Qed.

(* a successful, fault-free Open of a retained file settles it *)
Theorem open_settles src retain c can_remove st n d :
  0 < c -> retain n = true ->
  snd (copen src retain c can_remove FNone 0 st n) = Served d ->
  settled (fst (copen src retain c can_remove FNone 0 st n)) n.
Proof.
  intros Hc Hr. unfold copen. rewrite andb_false_r.
  set (st0 := if mem_str n (cs_info st) then st else _).
  assert (Hi0 : slookup src n <> None -> mem_str n (cs_info st0) = true).
  { subst st0. destruct (mem_str n (cs_info st)) eqn:E; [intros _; exact E|]. simpl.
    destruct (slookup src n); [intros _; unfold mem_str; simpl; rewrite str_eqb_refl; reflexivity|congruence]. }
  clearbody st0.
  destruct (slookup src n) as [[data|]|] eqn:S; [|discriminate|discriminate].
  specialize (Hi0 ltac:(discriminate)).
  destruct (mem_str n (cs_incomplete st0)) eqn:Inc.
  - rewrite Hr. simpl.
    destruct (copy_loop_nofault (chunked c data) 0 0 []) as [nr CL]. rewrite CL. simpl. intros _.
    split; [exact Hi0|]. split.
    + unfold mem_str. clear. induction (cs_incomplete st0) as [|x l IH]; simpl; [reflexivity|].
      destruct (str_eqb_spec x n) as [->|Hne]; simpl; [exact IH|]. rewrite str_eqb_sym.
      destruct (str_eqb_spec x n); [contradiction|exact IH].
    + eexists. apply clookup_cput_same.
  - destruct (clookup (cs_cache st0) n) as [cached|] eqn:L.
    + simpl. intros _. split; [exact Hi0|]. split; [exact Inc|exists cached; exact L].
    + rewrite Hr. simpl.
      destruct (copy_loop_nofault (chunked c data) 0 0 []) as [nr CL]. rewrite CL. simpl. intros _.
      split; [exact Hi0|]. split.
      * unfold mem_str. clear. induction (cs_incomplete st0) as [|x l IH]; simpl; [reflexivity|].
        destruct (str_eqb_spec x n) as [->|Hne]; simpl; [exact IH|]. rewrite str_eqb_sym.
        destruct (str_eqb_spec x n); [contradiction|exact IH].
      * eexists. apply clookup_cput_same.
Qed.
