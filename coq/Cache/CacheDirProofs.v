From HP Require Import Base.Prelude Base.ListLemmas Base.Path KV.Types KV.FS KV.Handle KV.Run KV.HandleProofs KV.ListingProofs Cache.CacheDir.
From Coq Require Import Lia ZArith.
Open Scope nat_scope.

(* the source's failure is the call's failure -- never an empty page, never the end -- and the handle does not move *)
Theorem cdir_source_failure_is_reported off n : cdir_read None off n = (DErr, off).
Proof. reflexivity. Qed.

Theorem cdir_error_only_from_the_source src off n : fst (cdir_read src off n) = DErr -> src = None.
Proof.
  destruct src as [es|]; [|reflexivity]. unfold cdir_read.
  destruct (n <=? 0)%Z; [discriminate|]. destruct (Nat.leb (length es) off); [discriminate|].
  destruct (n <? Z.of_nat (length es - off))%Z; discriminate.
Qed.

(* while the source lists the directory, the cache handle is the same pager as the key-value handle (C16's zpage) *)
Theorem cdir_is_the_pager es off n : off <= length es ->
  cdir_read (Some es) off n =
  match zpage es off n with
  | Some (p, o) => (DEntries p, o)
  | None => (DEOF, off)
  end.
Proof.
  intros Hoff. unfold cdir_read, zpage, page.
  destruct (Z.leb_spec n 0) as [Hn|Hn].
  - rewrite Nat.min_l by lia. rewrite skipn_length. f_equal. lia.
  - destruct (Nat.leb_spec (length es) off) as [Hle|Hlt]; [reflexivity|].
    destruct (Z.ltb_spec n (Z.of_nat (length es - off))) as [Hlt2|Hge].
    + rewrite Nat.min_l by lia. reflexivity.
    + rewrite Nat.min_r by lia. reflexivity.
Qed.

Lemma sublist_same {A : Type} (l : list A) (a : nat) : sublist a a l = @nil A.
Proof. unfold sublist. rewrite Nat.sub_diag. reflexivity. Qed.

(* one call: what it delivers is the next piece of the listing, and the offset stays inside the listing *)
Lemma cdir_read_piece es (avail : bool) off n : off <= length es ->
  let '(r, off') := cdir_read (if avail then Some es else None) off n in
  off <= off' <= length es /\
  match r with DEntries l => l = sublist off off' es | _ => off' = off end.
Proof.
  intros Hoff. destruct avail; [|simpl; split; [lia|reflexivity]].
  rewrite cdir_is_the_pager by exact Hoff. unfold zpage, page.
  destruct (Z.leb_spec n 0) as [Hn|Hn].
  - split; [lia|]. symmetry. apply sublist_to_end. exact Hoff.
  - destruct (Nat.leb_spec (length es) off) as [Hle|Hlt]; [split; [lia|reflexivity]|].
    split; [lia|reflexivity].
Qed.

(* THEOREM: over any sequence of calls with any counts, during which the source may fail to list the directory at any
   of the calls, the entries delivered are exactly the listing from the start up to where the handle stands: nothing is
   lost, repeated or invented because a call in between failed. *)
Theorem cdir_failures_lose_nothing es : forall calls off, off <= length es ->
  let '(rs, o) := cdir_run es off calls in
  off <= o <= length es /\ delivered rs = sublist off o es.
Proof.
  induction calls as [|[avail n] rest IH]; intros off Hoff; cbn [cdir_run].
  - split; [lia|]. cbn [delivered]. symmetry. apply sublist_same.
  - pose proof (cdir_read_piece es avail off n Hoff) as P.
    destruct (cdir_read (if avail then Some es else None) off n) as [r off'].
    destruct P as [Hb Hr]. specialize (IH off' ltac:(lia)).
    destruct (cdir_run es off' rest) as [rs o]. destruct IH as [Hb2 Hd]. split; [lia|].
    destruct r as [l| |]; cbn [delivered].
    + rewrite Hr, Hd. apply sublist_app_adjacent; lia.
    + subst off'. exact Hd.
    + subst off'. exact Hd.
Qed.

(* a handle that is read to the end (a non-positive count while the source is available) has delivered the whole listing *)
Corollary cdir_drained es calls : 
  let '(rs, o) := cdir_run es 0 (calls ++ [(true, 0%Z)]) in delivered rs = es.
Proof.
  pose proof (cdir_failures_lose_nothing es (calls ++ [(true, 0%Z)]) 0 ltac:(lia)) as H.
  assert (G : forall cs off, off <= length es -> snd (cdir_run es off (cs ++ [(true, 0%Z)])) = length es).
  { induction cs as [|[a n] cs IHc]; intros off Hoff; cbn [app cdir_run].
    - cbn [cdir_read]. cbn. rewrite Nat.min_l by lia. rewrite skipn_length. cbn. lia.
    - pose proof (cdir_read_piece es a off n Hoff) as P.
      destruct (cdir_read (if a then Some es else None) off n) as [r off']. destruct P as [Hb _].
      specialize (IHc off' ltac:(lia)). destruct (cdir_run es off' (cs ++ [(true, 0%Z)])) as [rs o]. exact IHc. }
  specialize (G calls 0 ltac:(lia)).
  destruct (cdir_run es 0 (calls ++ [(true, 0%Z)])) as [rs o]. cbn in G. subst o.
  destruct H as [_ H]. rewrite H. unfold sublist. rewrite Nat.sub_0_r. cbn [skipn]. apply firstn_all.
Qed.

(* non-vacuity: three calls, the middle one while the source fails *)
Example cdir_demo :
  cdir_run [[97%N]; [98%N]; [99%N]] 0 [(true, 1%Z); (false, 2%Z); (true, (-1)%Z)] =
  ([DEntries [[97%N]]; DErr; DEntries [[98%N]; [99%N]]], 3).
Proof. vm_compute. reflexivity. Qed.
