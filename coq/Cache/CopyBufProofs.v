From HP Require Import Base.Prelude Base.ListLemmas Cache.CopyBuf.
From Coq Require Import Lia.
Open Scope nat_scope.

(* what holds of every copier in every reachable state *)
Definition cp_inv (c : nat) (files : nat -> list N) (cp : copier) : Prop :=
  files (c_name cp) = firstn (c_pos cp) (c_src cp) /\ c_pos cp <= length (c_src cp) /\
  match c_buf cp with
  | None => True
  | Some b => b = chunk_at c (c_src cp) (c_pos cp) /\ c_pos cp < length (c_src cp)
  end.

Definition cb_inv (c : nat) (st : cbstate) : Prop :=
  NoDup (map c_name (cb_copiers st)) /\ Forall (cp_inv c (cb_files st)) (cb_copiers st).

Lemma map_list_set_same {A B} (f : A -> B) l i x y : nth_error l i = Some y -> f x = f y -> map f (list_set l i x) = map f l.
Proof.
  revert i; induction l as [|a l IH]; intros [|i] H E; simpl in *; try discriminate; auto.
  - inversion H; subst. congruence.
  - f_equal. apply IH; assumption.
Qed.

Lemma Forall_list_set' {A} (P : A -> Prop) l i x : Forall P l -> P x -> Forall P (list_set l i x).
Proof. revert i; induction l as [|a l IH]; intros [|i] H Hx; simpl; auto; inversion H; subst; constructor; auto. Qed.

Lemma firstn_chunk c src pos : pos <= length src ->
  firstn pos src ++ chunk_at c src pos = firstn (pos + length (chunk_at c src pos)) src.
Proof.
  intros H. unfold chunk_at. rewrite sublist_length by lia.
  replace (pos + (Nat.min (pos + c) (length src) - pos)) with (Nat.min (pos + c) (length src)) by lia.
  apply nth_error_ext. intros i. rewrite nth_error_app, firstn_length, Nat.min_l by lia.
  rewrite !nth_error_firstn, nth_error_sublist.
  destruct (Nat.ltb_spec i pos); destruct (Nat.ltb_spec i (Nat.min (pos + c) (length src))); try lia; try reflexivity.
  - destruct (Nat.ltb_spec (i - pos) (Nat.min (pos + c) (length src) - pos)); [f_equal; lia|lia].
  - destruct (Nat.ltb_spec (i - pos) (Nat.min (pos + c) (length src) - pos)); [lia|reflexivity].
Qed.

Lemma NoDup_names_distinct (l : list copier) i j a b : NoDup (map c_name l) ->
  nth_error l i = Some a -> nth_error l j = Some b -> i <> j -> c_name a <> c_name b.
Proof.
  intros ND Ha Hb Hij E. assert (Hi : nth_error (map c_name l) i = Some (c_name a)) by (rewrite nth_error_map, Ha; reflexivity).
  assert (Hj : nth_error (map c_name l) j = Some (c_name b)) by (rewrite nth_error_map, Hb; reflexivity).
  rewrite <- E in Hj. apply Hij. eapply NoDup_nth_error; [exact ND| |congruence].
  apply nth_error_Some. congruence.
Qed.

Lemma cb_step_inv c st i : 0 < c -> cb_inv c st -> cb_inv c (cb_step c st i).
Proof.
  intros Hc [ND F]. unfold cb_step. destruct (nth_error (cb_copiers st) i) as [cp|] eqn:E; [|split; assumption].
  assert (Hcp : cp_inv c (cb_files st) cp). { rewrite Forall_forall in F. apply F. eapply nth_error_In; exact E. }
  destruct Hcp as (Hf & Hle & Hb). destruct (c_buf cp) as [b|] eqn:B.
  - (* write *)
    destruct Hb as [Hb Hlt]. split; cbn [cb_files cb_copiers].
    + rewrite (map_list_set_same c_name _ i _ cp E) by reflexivity. exact ND.
    + assert (Hlen : c_pos cp + length b <= length (c_src cp)).
      { subst b. unfold chunk_at. rewrite sublist_length by lia. lia. }
      apply Forall_forall. intros x Hx. apply In_nth_error in Hx. destruct Hx as [j Hj].
      destruct (Nat.eq_dec i j) as [<-|Nij].
      * rewrite nth_error_list_set_eq in Hj by (apply nth_error_Some; congruence). inversion Hj; subst x.
        unfold cp_inv. cbn [c_name c_src c_pos c_buf]. unfold upd. rewrite Nat.eqb_refl. split; [|split; [lia|exact I]].
        rewrite Hf. subst b. apply firstn_chunk. exact Hle.
      * rewrite nth_error_list_set_neq in Hj by exact Nij.
        assert (Hx : cp_inv c (cb_files st) x). { rewrite Forall_forall in F. apply F. eapply nth_error_In; exact Hj. }
        pose proof (NoDup_names_distinct _ i j cp x ND E Hj Nij) as Hne.
        destruct Hx as (Hxf & Hxl & Hxb). unfold cp_inv, upd.
        destruct (Nat.eqb_spec (c_name x) (c_name cp)); [congruence|]. split; [exact Hxf|split; [exact Hxl|exact Hxb]].
  - (* read *)
    destruct (Nat.leb_spec (length (c_src cp)) (c_pos cp)); [split; assumption|].
    split; cbn [cb_files cb_copiers].
    + rewrite (map_list_set_same c_name _ i _ cp E) by reflexivity. exact ND.
    + apply Forall_list_set'; [exact F|]. unfold cp_inv. cbn [c_name c_src c_pos c_buf]. split; [exact Hf|split; [lia|split; [reflexivity|lia]]].
Qed.

Lemma cb_start_inv c srcs : NoDup (map fst srcs) -> cb_inv c (cb_start srcs).
Proof.
  intros ND. unfold cb_start, cb_inv. cbn [cb_files cb_copiers]. split.
  - rewrite map_map. cbn. exact ND.
  - apply Forall_forall. intros x Hx. apply in_map_iff in Hx. destruct Hx as [ns [<- _]].
    unfold cp_inv. cbn. split; [reflexivity|split; [lia|exact I]].
Qed.

(* THEOREM: fills of any number of different names, their steps interleaved in ANY order: whenever a fill is done its
   file in the cache store is exactly its source -- and at every moment every file is a prefix of its source (never
   bytes of another name). *)
Theorem interleaved_fills_never_mix c srcs sched : 0 < c -> NoDup (map fst srcs) ->
  let st := cb_run c (cb_start srcs) sched in
  Forall (fun cp => cb_files st (c_name cp) = firstn (c_pos cp) (c_src cp) /\
                    (cp_done cp -> cb_files st (c_name cp) = c_src cp)) (cb_copiers st).
Proof.
  intros Hc ND st.
  assert (G : forall sched s, cb_inv c s -> cb_inv c (cb_run c s sched)).
  { clear -Hc. induction sched as [|i rest IH]; intros s H; cbn [cb_run fold_left]; [exact H|].
    apply IH. apply cb_step_inv; assumption. }
  destruct (G sched (cb_start srcs) (cb_start_inv c srcs ND)) as [_ F]. fold st in F.
  eapply Forall_impl; [|exact F]. intros cp (Hf & Hle & _). split; [exact Hf|].
  intros [_ Hd]. rewrite Hf. apply firstn_all2. exact Hd.
Qed.

(* non-vacuity: two names, chunks of 2, steps alternating *)
Example fills_demo :
  let st := cb_run 2 (cb_start [(0, [1;2;3]%N); (1, [7;8;9;10]%N)]) [0;1;0;1;0;1;0;1;1;0] in
  cb_files st 0 = [1;2;3]%N /\ cb_files st 1 = [7;8;9;10]%N.
Proof. vm_compute. split; reflexivity. Qed.
