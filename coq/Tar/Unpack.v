(* Model of tar.ReaderFS's unpacking (tar/fs.go) into a key-value FS: resolvePath, the memoised
   mkdirAll of the parent, directory entries (Mkdir, else Chmod when it exists), regular entries
   (OpenFile create|truncate, Write, Close).  Background tasks are run at once: the sequential schedule. *)
From HP Require Import Base.Prelude Base.Path KV.Types KV.FS KV.Handle KV.Run KV.Corr.
Open Scope N_scope.

(* resolvePath *)
Definition resolve (p : str) : str :=
  let c := trim_prefix (clean p) [slash] in
  match c with [] => dot | _ => c end.

Inductive tentry :=
| TDir (name : str) (perm : N)
| TFile (name : str) (perm : N) (data : list N).

Definition tname (e : tentry) : str := match e with TDir n _ | TFile n _ _ => n end.

Record ustate := mkU { u_fs : kv; u_made : list str; u_emitted : list str }.

Definition unpack_entry (u : ustate) (e : tentry) : ustate * option err :=
  let p := resolve (tname e) in
  let dir := path_dir p in
  (* cachedMkdirAll(dir, 0700) *)
  let '(fs1, made, merr) :=
    if existsb (str_eqb dir) (u_made u) then (u_fs u, u_made u, None)
    else let '(s, e) := kv_mkdirall (u_fs u) dir 448 in
         (s, match e with None => dir :: u_made u | Some _ => u_made u end, e) in
  match merr with
  | Some er => (mkU fs1 made (u_emitted u), Some er)
  | None =>
    match e with
    | TDir _ perm =>
      let mode := N.lor ModeDir perm in
      let '(fs2, me) := kv_mkdir fs1 p mode in
      match me with
      | None => (mkU fs2 made (u_emitted u), None)
      | Some er =>
        if cls_eqb (err_cls er) EEXIST then
          let '(fs3, ce) := kv_chmod fs2 p mode in (mkU fs3 made (u_emitted u), ce)
        else (mkU fs2 made (u_emitted u), Some er)
      end
    | TFile _ perm data =>
      let '(fs2, r) := kv_openfile fs1 p (N.lor F_WRONLY (N.lor F_CREATE F_TRUNC)) perm in
      match r with
      | inr er => (mkU fs2 made (u_emitted u), Some er)
      | inl h =>
        (* Write(initialBuf[:n]) is issued even for an empty file *)
        let '(fs3, _, _, we) := write_at fs2 h data (h_off h) in
        match we with
        | Some er => (mkU fs3 made (u_emitted u), Some er)
        | None => (mkU fs3 made (p :: u_emitted u), None)
        end
      end
    end
  end.

Fixpoint unpack (u : ustate) (es : list tentry) : ustate * option err :=
  match es with
  | [] => (u, None)
  | e :: rest =>
    let '(u1, er) := unpack_entry u e in
    match er with
    | Some x => (u1, Some x)
    | None => unpack u1 rest
    end
  end.

Definition uinit : ustate := mkU kv_init [] [].

(* ---- correspondence ---- *)
Definition C12_case := (list tentry * bool * list snap_entry)%type.   (* entries, unarchive error?, final tree *)

Definition C12_check (c : C12_case) : bool :=
  let '(es, failed, snap) := c in
  let '(u, er) := unpack uinit es in
  Bool.eqb (match er with Some _ => true | None => false end) failed
  && (if failed then true else snap_eqb (snapshot (u_fs u)) snap).

Definition resolve_check (c : str * str) : bool := str_eqb (resolve (fst c)) (snd c).
