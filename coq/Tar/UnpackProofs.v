(* Name normalisation of tar entries (resolvePath) and what happens to names that leave the root. *)
From HP Require Import Base.Prelude Base.Path Base.PathProofs KV.Types KV.FS KV.Handle KV.Run KV.GateProofs Tar.Unpack.
Open Scope N_scope.

(* ---- the shape of path.Clean's element stack ---- *)
Definition ok (e : str) : Prop := elem_ok e = true.

(* top of the stack first: real names above a run of ".." (none when the path is rooted) *)
Definition shape (rooted : bool) (stack : list str) : Prop :=
  exists oks k, stack = oks ++ repeat dotdot k /\ Forall ok oks /\ (rooted = true -> k = O).

Lemma elem_ok_cases e : e = [] \/ e = dot \/ e = dotdot \/ elem_ok e = true.
Proof.
  destruct (str_eqb_spec e []); [auto|]. destruct (str_eqb_spec e dot); [auto|].
  destruct (str_eqb_spec e dotdot); [auto|]. right; right; right. apply elem_ok_spec. auto.
Qed.

Lemma clean_step_shape rooted stack e : shape rooted stack -> shape rooted (clean_step rooted stack e).
Proof.
  intros (oks & k & -> & Hok & Hr). unfold clean_step.
  destruct (elem_ok_cases e) as [->|[->|[->|He]]].
  - simpl. exists oks, k. auto.
  - cbn. exists oks, k. auto.
  - cbn [str_eqb dotdot N.eqb Pos.eqb andb orb]. simpl.
    destruct oks as [|top oks'].
    + simpl. destruct k as [|k].
      * simpl. destruct rooted.
        -- exists [], O. simpl. auto.
        -- exists [], 1%nat. simpl. repeat split; auto. discriminate.
      * simpl. change (str_eqb dotdot dotdot) with true. cbn iota.
        exists [], (Datatypes.S (Datatypes.S k)). simpl. repeat split; auto.
        intros R. specialize (Hr R). discriminate.
    + simpl. inversion Hok as [|? ? Htop Hrest]; subst.
      apply elem_ok_spec in Htop. destruct Htop as (_ & _ & Hdd).
      destruct (str_eqb_spec top dotdot); [contradiction|].
      exists oks', k. auto.
  - apply elem_ok_spec in He. destruct He as (A & B & C).
    destruct (str_eqb_spec e []); [contradiction|]. destruct (str_eqb_spec e dot); [contradiction|].
    cbn [orb]. destruct (str_eqb_spec e dotdot); [contradiction|].
    exists (e :: oks), k. repeat split; auto. constructor; [apply elem_ok_spec; auto|exact Hok].
Qed.

Lemma clean_fold_shape rooted es : forall stack, shape rooted stack -> shape rooted (fold_left (clean_step rooted) es stack).
Proof. induction es as [|e es IH]; intros stack H; simpl; [exact H|]. apply IH. apply clean_step_shape. exact H. Qed.

Lemma clean_step_no_slash rooted stack e : no_slash e -> Forall no_slash stack -> Forall no_slash (clean_step rooted stack e).
Proof.
  intros He Hs. unfold clean_step. destruct (_ || _); [exact Hs|].
  destruct (str_eqb e dotdot).
  - destruct stack as [|top rest]; [destruct rooted; auto|].
    inversion Hs; subst. destruct (str_eqb top dotdot); auto.
  - constructor; assumption.
Qed.

Lemma clean_fold_no_slash rooted es : forall stack, Forall no_slash es -> Forall no_slash stack ->
  Forall no_slash (fold_left (clean_step rooted) es stack).
Proof.
  induction es as [|e es IH]; intros stack He Hs; simpl; [exact Hs|].
  inversion He; subst. apply IH; [assumption|]. apply clean_step_no_slash; assumption.
Qed.

(* the elements of a cleaned, un-rooted result *)
Definition escapes (s : str) : Prop := hd [] (split_slash s) = dotdot.
Definition all_ok (s : str) : Prop := Forall ok (split_slash s).

Lemma ok_nonempty e : ok e -> e <> [].
Proof. intros H. apply elem_ok_spec in H. tauto. Qed.

Lemma join_hd_not_slash es : es <> [] -> Forall no_slash es -> hd [] es <> [] -> hd 0 (join_slash es) <> slash.
Proof.
  intros NE NS H. destruct es as [|e r]; [congruence|]. simpl in H. inversion NS as [|? ? He Hr]; subst.
  destruct e as [|c e']; [congruence|]. destruct r; simpl; intros ->; apply He; left; reflexivity.
Qed.

Lemma repeat_snoc {A} (x : A) k : repeat x k ++ [x] = x :: repeat x k.
Proof. induction k as [|k IH]; simpl; [reflexivity|]. rewrite IH. reflexivity. Qed.

Lemma rev_repeat {A} (x : A) k : rev (repeat x k) = repeat x k.
Proof. induction k as [|k IH]; simpl; [reflexivity|]. rewrite IH. apply repeat_snoc. Qed.

Lemma stack_elements rooted stack : shape rooted stack -> Forall no_slash stack -> stack <> [] ->
  let body := join_slash (rev stack) in
  split_slash body = rev stack /\ hd 0 body <> slash /\ body <> [] /\
  (Forall ok (rev stack) \/ hd [] (rev stack) = dotdot).
Proof.
  intros (oks & k & -> & Hok & Hr) NS NE body.
  assert (NE' : rev (oks ++ repeat dotdot k) <> []).
  { intros X. apply (f_equal (@rev _)) in X. rewrite rev_involutive in X. simpl in X. contradiction. }
  assert (NS' : Forall no_slash (rev (oks ++ repeat dotdot k))) by (apply Forall_rev; exact NS).
  assert (Hhd : hd [] (rev (oks ++ repeat dotdot k)) <> []).
  { rewrite rev_app_distr. destruct k as [|k].
    - simpl. destruct oks as [|o oks'] using rev_ind; [simpl in NE; congruence|].
      rewrite rev_app_distr. simpl. apply ok_nonempty. apply Forall_app in Hok. destruct Hok as [_ Ho]. inversion Ho; assumption.
    - rewrite rev_repeat. simpl. discriminate. }
  split; [apply split_join; assumption|]. split; [apply join_hd_not_slash; assumption|]. split.
  - subst body. destruct (rev (oks ++ repeat dotdot k)) as [|e r] eqn:E; [congruence|].
    simpl in Hhd. destruct e; [congruence|]. destruct r; simpl; discriminate.
  - rewrite rev_app_distr. destruct k as [|k].
    + left. simpl. apply Forall_rev. exact Hok.
    + right. rewrite rev_repeat. reflexivity.
Qed.

(* THEOREM: a normalised entry name is "." (the root), or a path whose every element is a real name,
   or it starts with ".." -- it would leave the root. *)
Theorem resolve_shape (s : str) : resolve s = dot \/ all_ok (resolve s) \/ escapes (resolve s).
Proof.
  unfold resolve. destruct s as [|c s']; [left; reflexivity|].
  unfold clean. remember (N.eqb c slash) as rooted eqn:ER.
  remember (fold_left (clean_step rooted) (split_slash (c :: s')) []) as stack eqn:EST.
  assert (Sh : shape rooted stack) by (subst stack; apply clean_fold_shape; exists [], O; simpl; auto).
  assert (NS : Forall no_slash stack) by (subst stack; apply clean_fold_no_slash; [apply split_elems_no_slash|constructor]).
  clear EST ER.
  destruct stack as [|top rest] eqn:ES.
  - (* nothing left *)
    left. simpl. destruct rooted; reflexivity.
  - assert (NE : top :: rest <> []) by discriminate.
    destruct (stack_elements rooted (top :: rest) Sh NS NE) as (Hsplit & Hhd & Hne & Hcases).
    set (body := join_slash (rev (top :: rest))) in *.
    assert (R : trim_prefix (if rooted then slash :: body else match body with [] => dot | _ => body end) [slash] = body).
    { destruct rooted.
      - change (slash :: body) with ([slash] ++ body). unfold trim_prefix.
        assert (HP : has_prefix ([slash] ++ body) [slash] = true) by (simpl; destruct body; reflexivity).
        rewrite HP. reflexivity.
      - destruct body as [|b0 b'] eqn:EB; [congruence|]. unfold trim_prefix.
        assert (HP : has_prefix (b0 :: b') [slash] = false).
        { cbn [has_prefix]. simpl in Hhd. destruct (N.eqb_spec slash b0); [congruence|reflexivity]. }
        rewrite HP. reflexivity. }
    rewrite R. destruct body as [|b0 b'] eqn:EB; [congruence|]. right.
    unfold all_ok, escapes. rewrite Hsplit. exact Hcases.
Qed.

(* a name that leaves the root is not a valid FS path *)
Theorem escaping_is_invalid s : escapes s -> valid_path s = false.
Proof.
  unfold escapes. intros H. destruct (valid_path s) eqn:V; [|reflexivity]. exfalso.
  apply valid_path_spec in V. destruct V as [_ [->|V]]; [discriminate|].
  destruct (split_slash s) as [|e r]; [discriminate|]. simpl in H. subst e.
  inversion V as [|? ? X _]. discriminate.
Qed.

(* ---- unpacking an entry whose parent directory name is not a valid FS path changes nothing ---- *)
Definition made_ok (u : ustate) : Prop := Forall (fun d => valid_path d = true) (u_made u).

Lemma kv_mkdirall_invalid st p perm : valid_path p = false -> kv_mkdirall st p perm = (st, Some (PathErr p EINVAL)).
Proof. intros H. unfold kv_mkdirall. rewrite H. reflexivity. Qed.

Lemma kv_mkdirall_ok_valid st p perm st' : kv_mkdirall st p perm = (st', None) -> valid_path p = true.
Proof.
  intros H. destruct (valid_path p) eqn:V; [reflexivity|]. rewrite kv_mkdirall_invalid in H by exact V. discriminate.
Qed.

Theorem unpack_entry_invalid_parent u e :
  made_ok u -> valid_path (path_dir (resolve (tname e))) = false ->
  unpack_entry u e = (u, Some (PathErr (path_dir (resolve (tname e))) EINVAL)).
Proof.
  intros M V. unfold unpack_entry.
  set (dir := path_dir (resolve (tname e))) in *.
  assert (X : existsb (str_eqb dir) (u_made u) = false).
  { rewrite <- not_true_iff_false. intros X. apply existsb_exists in X. destruct X as [d [Hd Ed]].
    apply str_eqb_eq in Ed. subst d. unfold made_ok in M. rewrite Forall_forall in M. rewrite (M dir Hd) in V. discriminate. }
  rewrite X. rewrite kv_mkdirall_invalid by exact V. destruct u; reflexivity.
Qed.

Lemma unpack_entry_made_ok u e : made_ok u -> made_ok (fst (unpack_entry u e)).
Proof.
  intros M. unfold unpack_entry.
  set (dir := path_dir (resolve (tname e))).
  destruct (existsb (str_eqb dir) (u_made u)) eqn:X.
  - destruct e as [n perm|n perm data]; cbn [tname].
    + destruct (kv_mkdir _ _ _) as [fs2 [er|]]; [|exact M].
      destruct (cls_eqb _ _); [|exact M]. destruct (kv_chmod _ _ _). exact M.
    + destruct (kv_openfile _ _ _ _) as [fs2 [h|er]]; [|exact M].
      destruct (write_at _ _ _ _) as [[[fs3 ?] ?] [er|]]; exact M.
  - destruct (kv_mkdirall (u_fs u) dir 448) as [s [er|]] eqn:K; [exact M|].
    assert (M' : Forall (fun d => valid_path d = true) (dir :: u_made u)).
    { constructor; [eapply kv_mkdirall_ok_valid; exact K|exact M]. }
    destruct e as [n perm|n perm data]; cbn [tname].
    + destruct (kv_mkdir _ _ _) as [fs2 [er|]]; [|exact M'].
      destruct (cls_eqb _ _); [|exact M']. destruct (kv_chmod _ _ _). exact M'.
    + destruct (kv_openfile _ _ _ _) as [fs2 [h|er]]; [|exact M'].
      destruct (write_at _ _ _ _) as [[[fs3 ?] ?] [er|]]; exact M'.
Qed.

Lemma unpack_made_ok es : forall u, made_ok u -> made_ok (fst (unpack u es)).
Proof.
  induction es as [|e es IH]; intros u M; simpl; [exact M|].
  pose proof (unpack_entry_made_ok u e M) as M1.
  destruct (unpack_entry u e) as [u1 [er|]]; [exact M1|]. apply IH. exact M1.
Qed.

(* THEOREM: an archive that reaches an entry whose parent directory lies outside the root fails at that
   entry, and the destination is exactly what the entries before it made: the entry itself creates nothing. *)
Theorem unpack_stops_at_escaping_entry before e after :
  valid_path (path_dir (resolve (tname e))) = false ->
  forall u1, unpack uinit before = (u1, None) ->
  unpack uinit (before ++ e :: after) = (u1, Some (PathErr (path_dir (resolve (tname e))) EINVAL)).
Proof.
  intros V.
  assert (G : forall es u u1, made_ok u -> unpack u es = (u1, None) ->
              unpack u (es ++ e :: after) = (u1, Some (PathErr (path_dir (resolve (tname e))) EINVAL))).
  { induction es as [|x es IH]; intros u u1 M H; simpl in *.
    - inversion H; subst. rewrite (unpack_entry_invalid_parent u1 e M V). reflexivity.
    - pose proof (unpack_entry_made_ok u x M) as M1.
      destruct (unpack_entry u x) as [u' [er|]]; [discriminate|]. apply IH; assumption. }
  intros u1 H. apply G; [constructor|exact H].
Qed.

Example escaping_names :
  escapes (resolve (S "../x")) /\ escapes (resolve (S "a/../../x")) /\ escapes (resolve (S "a/b/../../../etc/passwd"))
  /\ valid_path (path_dir (resolve (S "../x"))) = false
  /\ valid_path (path_dir (resolve (S "a/b/../../../etc/passwd"))) = false
  /\ resolve (S "./a//b/") = S "a/b" /\ resolve (S "/x") = S "x" /\ resolve (S "/../x") = S "x".
Proof. unfold escapes. vm_compute. repeat split; reflexivity. Qed.

(* the one escaping name whose parent is the root itself: ".." -- refused by the entry's own Mkdir/OpenFile *)
Example dotdot_entry_fails :
  snd (unpack uinit [TFile (S "..") 420 [1; 2; 3]]) = Some (PathErr dotdot EINVAL)
  /\ snapshot (u_fs (fst (unpack uinit [TFile (S "..") 420 [1; 2; 3]]))) = snapshot kv_init
  /\ snd (unpack uinit [TDir (S "a/../..") 493]) = Some (PathErr dotdot EINVAL).
Proof. vm_compute. repeat split; reflexivity. Qed.
