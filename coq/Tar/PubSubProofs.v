(* Theorems about pubsub and the Open protocol (C13). *)
From HP Require Import Base.Prelude Tar.PubSub.
Open Scope nat_scope.

(* ---- pubsub ---- *)
Lemma released_emit s k : released (pstep s (PEmit k)) k = true.
Proof. unfold released; simpl. rewrite str_eqb_refl. apply orb_true_r. Qed.

Lemma released_cancel s k : released (pstep s PCancel) k = true.
Proof. reflexivity. Qed.

Lemma released_mono s a k : released s k = true -> released (pstep s a) k = true.
Proof.
  unfold released. destruct a as [k'|k'|]; cbn [pstep p_cancelled p_visited existsb]; intros H; auto.
  apply orb_true_iff in H. destruct H as [H|H]; [rewrite H; reflexivity|]. rewrite H. rewrite !orb_true_r. reflexivity.
Qed.

(* a waiter is released only by an Emit of its key or by cancellation *)
Lemma released_only_by s a k : released s k = false -> released (pstep s a) k = true ->
  a = PCancel \/ exists k', a = PEmit k' /\ str_eqb k k' = true.
Proof.
  unfold released. destruct a as [k'|k'|]; simpl; intros H1 H2; [congruence| |left; reflexivity].
  right. exists k'. split; [reflexivity|].
  apply orb_false_iff in H1. destruct H1 as [C E]. rewrite C, E in H2. simpl in H2.
  rewrite orb_false_r in H2. exact H2.
Qed.

(* ---- the Open protocol ---- *)
Definition ginv (s : gstate) : Prop :=
  (g_emitted s = true -> g_written s = g_total s)
  /\ (g_rdone s = true -> g_err s = false -> g_emitted s = true)
  /\ (g_op s = OOpenDest -> g_emitted s = true \/ (g_rdone s = true /\ g_err s = false))
  /\ (g_op s = OCheckErr -> g_emitted s = true \/ g_rdone s = true)
  /\ (forall k, g_op s = OResult (Some k) -> k = g_total s).

Lemma ginv_init total : ginv (ginit total).
Proof. unfold ginv, ginit; simpl. repeat split; intros; try discriminate. Qed.

Lemma gstep_total s s' : gstep s s' -> g_total s' = g_total s.
Proof. destruct 1; reflexivity. Qed.

Lemma gstep_inv s s' : ginv s -> gstep s s' -> ginv s'.
Proof.
  intros (I1 & I2 & I3 & I4 & I5) H.
  destruct H; destruct s as [w t wf em er rd ca op];
    unfold ginv, set_op in *; cbn [g_written g_total g_wfailed g_emitted g_err g_rdone g_cancel g_op] in *; subst;
    repeat split; intros; try discriminate;
    repeat match goal with b : bool |- _ => destruct b end; cbn in *; try discriminate;
    try (match goal with H : OResult _ = OResult _ |- _ => inversion H; subst end);
    intuition (try congruence; try lia; eauto).
Qed.

Lemma greach_inv total s : greach total s -> ginv s /\ g_total s = total.
Proof.
  induction 1 as [|s s' _ [IH Ht] Hs]; [split; [apply ginv_init|reflexivity]|].
  split; [eapply gstep_inv; eassumption|]. rewrite (gstep_total _ _ Hs). exact Ht.
Qed.

(* THEOREM: under every interleaving of writer progress, writer failure, Emit, the reader finishing
   with or without an error, cancellation at any point and the opener's own steps, an Open that
   succeeds shows exactly the entry's complete bytes. *)
Theorem open_success_is_complete total s k :
  greach total s -> g_op s = OResult (Some k) -> k = total.
Proof. intros R H. destruct (greach_inv total s R) as [(_ & _ & _ & _ & I5) Ht]. rewrite <- Ht. apply I5; exact H. Qed.

(* After a failure (an error was stored, or the writer failed before announcing the entry), an opener
   that had not yet passed the visited check can only end with an error. *)
Theorem fail_closed total s s' :
  greach total s -> g_emitted s = false -> g_op s = OCheckErr -> g_err s = true -> gstep s s' ->
  g_op s' = OCheckErr \/ g_op s' = OResult None.
Proof.
  intros R E O Er H. destruct H; cbn [set_op g_op]; try (left; assumption); try congruence.
  unfold set_op; cbn [g_op]. rewrite Er. right; reflexivity.
Qed.

(* Progress (the safety form of "every Open eventually returns"): once the reader is done and the
   context cancelled, no opener is blocked -- whatever its phase, it has an enabled step unless it
   already holds its result. *)
Theorem no_stuck_opener s : g_cancel s = true -> (forall r, g_op s <> OResult r) -> exists s', gstep s s' /\ g_op s' <> g_op s.
Proof.
  intros C N. destruct (g_op s) eqn:O.
  - exists (set_op s OWoken). split; [apply G_wait; auto|unfold set_op; cbn [g_op]; discriminate].
  - eexists. split; [apply G_check_vis; exact O|]. unfold set_op; cbn [g_op]. destruct (g_emitted s); discriminate.
  - eexists. split; [apply G_check_done; exact O|]. unfold set_op; cbn [g_op]. destruct (g_rdone s); discriminate.
  - eexists. split; [apply G_check_err; exact O|]. unfold set_op; cbn [g_op]. destruct (g_err s); discriminate.
  - eexists. split; [apply G_open; exact O|]. unfold set_op; cbn [g_op]. discriminate.
  - exfalso. apply (N r). reflexivity.
Qed.

(* and cancellation is always enabled once the reader is done (read() cancels right after readerDone) *)
Theorem reader_done_enables_cancel s : g_rdone s = true -> exists s', gstep s s' /\ g_cancel s' = true.
Proof. intros _. eexists. split; [apply G_cancel|reflexivity]. Qed.
