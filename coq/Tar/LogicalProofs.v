(* For every well-formed archive, in every entry order, the unpacking algorithm [aunpack] builds exactly the
   archive's logical tree [logical]: every entry with its node, every ancestor of an entry as a 0700
   directory unless it is an entry itself, and nothing else. *)
From HP Require Import Base.Prelude Base.Path Tar.Unpack Tar.Logical.
From Coq Require Import Permutation.
Open Scope N_scope.

(* ---- equality on paths ---- *)
Lemma apath_eqb_spec a b : reflect (a = b) (apath_eqb a b).
Proof.
  unfold apath_eqb. revert b. induction a as [|x a IH]; intros [|y b]; simpl; try (constructor; congruence).
  destruct (str_eqb_spec x y) as [->|Hne]; simpl.
  - destruct (IH b) as [->|Hne]; constructor; congruence.
  - constructor; congruence.
Qed.

Lemma apath_eqb_refl a : apath_eqb a a = true.
Proof. destruct (apath_eqb_spec a a); congruence. Qed.

Lemma apath_eqb_sym a b : apath_eqb a b = apath_eqb b a.
Proof. destruct (apath_eqb_spec a b), (apath_eqb_spec b a); congruence. Qed.

(* ---- the tree as a finite map ---- *)
Lemma lookup_set_same p n t : a_lookup p (a_set p n t) = Some n.
Proof.
  induction t as [|[q m] r IH]; simpl.
  - rewrite apath_eqb_refl. reflexivity.
  - destruct (apath_eqb q p) eqn:E; simpl; rewrite E; [reflexivity|exact IH].
Qed.

Lemma lookup_set_other p q n t : q <> p -> a_lookup q (a_set p n t) = a_lookup q t.
Proof.
  intros H. induction t as [|[k m] r IH]; simpl.
  - destruct (apath_eqb_spec p q); [congruence|reflexivity].
  - destruct (apath_eqb_spec k p) as [->|Hk]; simpl.
    + destruct (apath_eqb_spec p q); [congruence|reflexivity].
    + destruct (apath_eqb k q); [reflexivity|exact IH].
Qed.

Lemma lookup_set p q n t : a_lookup q (a_set p n t) = if apath_eqb p q then Some n else a_lookup q t.
Proof.
  destruct (apath_eqb_spec p q) as [->|H]; [apply lookup_set_same|apply lookup_set_other; congruence].
Qed.

(* ---- prefixes ---- *)
Lemma is_prefix_inits q p : is_prefix q p = true -> In q (inits p).
Proof.
  revert q. induction p as [|y p IH]; intros [|x q] H; simpl in *; auto; try discriminate.
  apply andb_true_iff in H. destruct H as [E H]. apply str_eqb_eq in E. subst y.
  right. apply in_map. apply IH. exact H.
Qed.

Lemma in_ancestors q p : In q (ancestors p) <-> is_pp q p = true.
Proof.
  unfold ancestors. rewrite filter_In. split; [tauto|]. intros H. split; [|exact H].
  apply is_prefix_inits. unfold is_pp in H. apply andb_true_iff in H. destruct H as [H _].
  apply andb_true_iff in H. tauto.
Qed.

Lemma is_pp_irrefl p : is_pp p p = false.
Proof. unfold is_pp. rewrite apath_eqb_refl. simpl. rewrite andb_false_r. reflexivity. Qed.

(* ---- MkdirAll over a set of ancestors ---- *)
Definition no_file_at (t : atree) (qs : list apath) : Prop :=
  forall q, In q qs -> forall p d, a_lookup q t <> Some (AFile p d).

Lemma mkdirall_spec qs : forall t, no_file_at t qs ->
  exists t1, a_mkdirall t qs = Some t1 /\
    forall p, a_lookup p t1 =
      match a_lookup p t with
      | Some n => Some n
      | None => if existsb (apath_eqb p) qs then Some (ADir 448) else None
      end.
Proof.
  unfold a_mkdirall. induction qs as [|q qs IH]; intros t NF; simpl.
  - exists t. split; [reflexivity|]. intros p. destruct (a_lookup p t); reflexivity.
  - assert (NFq : forall p d, a_lookup q t <> Some (AFile p d)) by (apply NF; left; reflexivity).
    destruct (a_lookup q t) as [[perm|perm d]|] eqn:L.
    + destruct (IH t) as [t1 [H1 H2]]; [intros x Hx; apply NF; right; exact Hx|].
      exists t1. split; [exact H1|]. intros p. rewrite H2.
      destruct (a_lookup p t) eqn:Lp; [reflexivity|].
      destruct (apath_eqb_spec p q) as [->|_]; [congruence|reflexivity].
    + exfalso. eapply NFq. reflexivity.
    + destruct (IH (a_set q (ADir 448) t)) as [t1 [H1 H2]].
      { intros x Hx p d. rewrite lookup_set. destruct (apath_eqb q x); [discriminate|]. apply NF. right. exact Hx. }
      exists t1. split; [exact H1|]. intros p. rewrite H2, lookup_set.
      destruct (apath_eqb_spec q p) as [->|Hqp].
      * rewrite L. rewrite apath_eqb_refl. reflexivity.
      * destruct (a_lookup p t); [reflexivity|].
        destruct (apath_eqb_spec p q); [congruence|reflexivity].
Qed.

(* ---- well-formedness as propositions ---- *)
Record wf (es : list aentry) : Prop := {
  wf_nonroot : Forall (fun e => aname e <> []) es;
  wf_nodup : NoDup (map aname es);
  wf_files : forall e f, In e es -> In f es -> is_file e = true -> is_pp (aname e) (aname f) = false
}.

Lemma nodup_b_sound l : nodup_b l = true -> NoDup l.
Proof.
  induction l as [|x r IH]; simpl; intros H; [constructor|].
  apply andb_true_iff in H. destruct H as [H1 H2]. constructor; [|apply IH; exact H2].
  intros Hin. apply negb_true_iff in H1. rewrite <- not_true_iff_false in H1. apply H1.
  apply existsb_exists. exists x. split; [exact Hin|apply apath_eqb_refl].
Qed.

Lemma wf_b_sound es : wf_b es = true -> wf es.
Proof.
  unfold wf_b. rewrite !andb_true_iff. intros [[H1 H2] H3]. constructor.
  - rewrite forallb_forall in H1. apply Forall_forall. intros e He E. specialize (H1 e He).
    rewrite E in H1. discriminate.
  - apply nodup_b_sound. exact H2.
  - intros e f He Hf Fe. rewrite forallb_forall in H3. specialize (H3 e He).
    rewrite forallb_forall in H3. specialize (H3 f Hf). rewrite Fe in H3. simpl in H3.
    apply negb_true_iff in H3. exact H3.
Qed.

Lemma NoDup_app_l {A} (l1 l2 : list A) : NoDup (l1 ++ l2) -> NoDup l1.
Proof.
  induction l2 as [|x l2 IH]; [rewrite app_nil_r; auto|].
  intros H. apply NoDup_remove_1 in H. apply IH. exact H.
Qed.

Lemma wf_app_l l1 l2 : wf (l1 ++ l2) -> wf l1.
Proof.
  intros [A B C]. constructor.
  - apply Forall_app in A. tauto.
  - rewrite map_app in B. eapply NoDup_app_l. exact B.
  - intros e f He Hf. apply C; apply in_or_app; left; assumption.
Qed.

(* ---- the logical tree of done ++ [e] ---- *)
Lemma find_name_none es p : ~ In p (map aname es) -> find (fun e => apath_eqb (aname e) p) es = None.
Proof.
  induction es as [|e es IH]; simpl; intros H; [reflexivity|].
  destruct (apath_eqb_spec (aname e) p) as [E|_]; [exfalso; apply H; left; exact E|].
  apply IH. intros X. apply H. right. exact X.
Qed.

Lemma find_app {A} (f : A -> bool) l1 l2 :
  find f (l1 ++ l2) = match find f l1 with Some x => Some x | None => find f l2 end.
Proof. induction l1 as [|x l1 IH]; simpl; [reflexivity|]. destruct (f x); [reflexivity|exact IH]. Qed.

Lemma find_some_name es p e : find (fun e => apath_eqb (aname e) p) es = Some e -> In e es /\ aname e = p.
Proof.
  intros H. apply find_some in H. destruct H as [H1 H2]. split; [exact H1|].
  destruct (apath_eqb_spec (aname e) p); [assumption|discriminate].
Qed.

Lemma logical_snoc done e p :
  ~ In (aname e) (map aname done) ->
  logical (done ++ [e]) p =
    if apath_eqb (aname e) p then Some (anode_of e)
    else match logical done p with
         | Some n => Some n
         | None => if is_pp p (aname e) then Some (ADir 448) else None
         end.
Proof.
  intros Hnew. unfold logical. rewrite find_app, existsb_app. simpl. rewrite orb_false_r.
  destruct (apath_eqb_spec (aname e) p) as [E|NE].
  - subst p. rewrite find_name_none by exact Hnew. reflexivity.
  - destruct (find _ done); [reflexivity|].
    destruct (existsb _ done); [reflexivity|]. simpl. reflexivity.
Qed.

(* ---- one entry ---- *)
Definition agrees (t : atree) (es : list aentry) : Prop := forall p, a_lookup p t = logical es p.

Lemma logical_file_is_entry es p perm d : logical es p = Some (AFile perm d) ->
  exists e, In e es /\ aname e = p /\ is_file e = true.
Proof.
  unfold logical. destruct (find _ es) as [e|] eqn:F.
  - intros H. apply find_some_name in F. destruct F as [F1 F2]. exists e. repeat split; auto.
    destruct e; simpl in *; [discriminate|reflexivity].
  - destruct (existsb _ es); discriminate.
Qed.

Lemma logical_not_entry es p : ~ In p (map aname es) ->
  logical es p = if existsb (fun e => is_pp p (aname e)) es then Some (ADir 448) else None.
Proof. intros H. unfold logical. rewrite find_name_none by exact H. reflexivity. Qed.

Lemma step_agrees done e t : wf (done ++ [e]) -> agrees t done ->
  exists t1, aunpack_entry t e = Some t1 /\ agrees t1 (done ++ [e]).
Proof.
  intros W A. destruct W as [Wroot Wnd Wfiles].
  assert (Hnew : ~ In (aname e) (map aname done)).
  { rewrite map_app in Wnd. simpl in Wnd. apply NoDup_remove_2 in Wnd. rewrite app_nil_r in Wnd. exact Wnd. }
  assert (Ine : In e (done ++ [e])) by (apply in_or_app; right; left; reflexivity).
  (* no file stands where a parent is needed *)
  assert (NF : no_file_at t (ancestors (aname e))).
  { intros q Hq perm d L. apply in_ancestors in Hq. rewrite A in L.
    apply logical_file_is_entry in L. destruct L as [f [Hf [Nf Ff]]].
    assert (X : is_pp (aname f) (aname e) = false) by (apply Wfiles; auto; apply in_or_app; left; exact Hf).
    rewrite Nf in X. congruence. }
  destruct (mkdirall_spec (ancestors (aname e)) t NF) as [t1 [M1 M2]].
  unfold aunpack_entry. rewrite M1.
  (* what is at the entry's own name before it is written *)
  assert (Lown : a_lookup (aname e) t1 = if existsb (fun f => is_pp (aname e) (aname f)) done then Some (ADir 448) else None).
  { rewrite M2, A. rewrite logical_not_entry by exact Hnew.
    destruct (existsb (fun f => is_pp (aname e) (aname f)) done); [reflexivity|].
    destruct (existsb (apath_eqb (aname e)) (ancestors (aname e))) eqn:X; [|reflexivity].
    apply existsb_exists in X. destruct X as [q [Hq Eq]]. apply in_ancestors in Hq.
    destruct (apath_eqb_spec (aname e) q) as [<-|]; [|discriminate]. rewrite is_pp_irrefl in Hq. discriminate. }
  (* the tree after the entry's own write *)
  assert (Final : forall n0 t2, t2 = a_set (aname e) n0 t1 -> n0 = anode_of e -> agrees t2 (done ++ [e])).
  { intros n0 t2 -> ->. intros p. rewrite lookup_set, logical_snoc by exact Hnew.
    destruct (apath_eqb_spec (aname e) p) as [_|NE]; [reflexivity|].
    rewrite M2, A. destruct (logical done p) eqn:LP; [reflexivity|].
    destruct (existsb (apath_eqb p) (ancestors (aname e))) eqn:X.
    - apply existsb_exists in X. destruct X as [q [Hq Eq]]. apply in_ancestors in Hq.
      destruct (apath_eqb_spec p q) as [<-|]; [|discriminate]. rewrite Hq. reflexivity.
    - destruct (is_pp p (aname e)) eqn:PP; [|reflexivity].
      exfalso. apply in_ancestors in PP. rewrite <- not_true_iff_false in X. apply X.
      apply existsb_exists. exists p. split; [exact PP|apply apath_eqb_refl]. }
  destruct e as [n perm|n perm data]; simpl aname in *.
  - (* directory entry: made, or re-moded when it exists as an implied parent *)
    rewrite Lown. destruct (existsb (fun f => is_pp n (aname f)) done);
      (eexists; split; [reflexivity|eapply Final; reflexivity]).
  - (* regular entry: nothing is at its name (a file is never an ancestor of another entry) *)
    assert (E : existsb (fun f => is_pp n (aname f)) done = false).
    { rewrite <- not_true_iff_false. intros X. apply existsb_exists in X. destruct X as [f [Hf Pf]].
      assert (Y : is_pp (aname (AEFile n perm data)) (aname f) = false)
        by (apply Wfiles; auto; apply in_or_app; left; exact Hf).
      simpl in Y. congruence. }
    rewrite Lown, E. eexists; split; [reflexivity|eapply Final; reflexivity].
Qed.

(* ---- the whole archive ---- *)
Lemma aunpack_agrees rest : forall done t, wf (done ++ rest) -> agrees t done ->
  exists t', aunpack t rest = Some t' /\ agrees t' (done ++ rest).
Proof.
  induction rest as [|e rest IH]; intros done t W A; simpl.
  - exists t. rewrite app_nil_r. split; [reflexivity|exact A].
  - assert (W1 : wf (done ++ [e])).
    { apply wf_app_l with (l2 := rest). rewrite <- app_assoc. exact W. }
    destruct (step_agrees done e t W1 A) as [t1 [S1 A1]]. rewrite S1.
    destruct (IH (done ++ [e]) t1) as [t' [U A']]; [rewrite <- app_assoc; exact W|exact A1|].
    exists t'. rewrite <- app_assoc in A'. split; [exact U|exact A'].
Qed.

Theorem aunpack_is_logical es : wf es ->
  exists t, aunpack [] es = Some t /\ forall p, a_lookup p t = logical es p.
Proof.
  intros W. destruct (aunpack_agrees es [] [] W) as [t [U A]]; [intros p; reflexivity|].
  exists t. split; [exact U|exact A].
Qed.

(* ---- the logical tree does not depend on the entry order ---- *)
Lemma same_name_same_entry l e e' : NoDup (map aname l) -> In e l -> In e' l -> aname e = aname e' -> e = e'.
Proof.
  induction l as [|x l IH]; simpl; intros ND I I' E; [contradiction|].
  apply NoDup_cons_iff in ND. destruct ND as [Hx Hl].
  destruct I as [->|I], I' as [->|I']; try reflexivity.
  - exfalso. apply Hx. rewrite E. apply in_map. exact I'.
  - exfalso. apply Hx. rewrite <- E. apply in_map. exact I.
  - apply IH; assumption.
Qed.

Lemma find_name_perm es es' p : NoDup (map aname es) -> Permutation es es' ->
  find (fun e => apath_eqb (aname e) p) es = find (fun e => apath_eqb (aname e) p) es'.
Proof.
  intros ND P.
  assert (ND' : NoDup (map aname es')) by (eapply Permutation_NoDup; [apply Permutation_map; exact P|exact ND]).
  destruct (find (fun e => apath_eqb (aname e) p) es) as [e|] eqn:F;
    destruct (find (fun e => apath_eqb (aname e) p) es') as [e'|] eqn:F'; try reflexivity.
  - apply find_some_name in F. apply find_some_name in F'. destruct F as [I N], F' as [I' N'].
    f_equal. apply (Permutation_in _ P) in I.
    apply (same_name_same_entry es'); auto. congruence.
  - exfalso. apply find_some_name in F. destruct F as [I N]. apply (Permutation_in _ P) in I.
    eapply find_none in F'; [|exact I]. rewrite N, apath_eqb_refl in F'. discriminate.
  - exfalso. apply find_some_name in F'. destruct F' as [I N]. apply (Permutation_in _ (Permutation_sym P)) in I.
    eapply find_none in F; [|exact I]. rewrite N, apath_eqb_refl in F. discriminate.
Qed.

Lemma existsb_perm {A} (f : A -> bool) l l' : Permutation l l' -> existsb f l = existsb f l'.
Proof.
  intros P. destruct (existsb f l) eqn:E; symmetry.
  - apply existsb_exists in E. destruct E as [x [I H]]. apply existsb_exists. exists x. split; [eapply Permutation_in; eauto|exact H].
  - rewrite <- not_true_iff_false in *. intros X. apply E. apply existsb_exists in X. destruct X as [x [I H]].
    apply existsb_exists. exists x. split; [eapply Permutation_in; [apply Permutation_sym; exact P|exact I]|exact H].
Qed.

Theorem logical_order_independent es es' p : NoDup (map aname es) -> Permutation es es' ->
  logical es p = logical es' p.
Proof.
  intros ND P. unfold logical. rewrite (find_name_perm es es' p ND P).
  rewrite (existsb_perm _ es es' P). reflexivity.
Qed.

Lemma wf_perm es es' : Permutation es es' -> wf es -> wf es'.
Proof.
  intros P [A B C]. constructor.
  - eapply Permutation_Forall; eauto.
  - eapply Permutation_NoDup; [apply Permutation_map; exact P|exact B].
  - intros e f He Hf. apply C; eapply Permutation_in; try apply Permutation_sym; eauto.
Qed.

(* the unpacked tree is the same whatever the order of the entries *)
Theorem aunpack_order_independent es es' : wf es -> Permutation es es' ->
  exists t t', aunpack [] es = Some t /\ aunpack [] es' = Some t' /\ forall p, a_lookup p t = a_lookup p t'.
Proof.
  intros W P. destruct (aunpack_is_logical es W) as [t [U A]].
  destruct (aunpack_is_logical es' (wf_perm es es' P W)) as [t' [U' A']].
  exists t, t'. repeat split; auto. intros p. rewrite A, A'. apply logical_order_independent; [apply W|exact P].
Qed.
