(* C13: the end of tar.ReaderFS.readErr -- the reader loop, the background writers of small files, the one-slot error
   channel [errs], the WaitGroup and the [done] channel closed by the goroutine that waits for it.

   Every background writer runs  err := writeFile(...); if err != nil { errs <- err }; wg.Done().
   The reader polls [errs] between entries (non-blocking), and after the last entry blocks in
       select { case err := <-errs: return err; case <-done: select { case err := <-errs: return err; default: return nil } }.
   A send on [errs] blocks while the slot is full.  The questions the property asks: does the reader ALWAYS return
   (so that Done() fires and every Open comes back), and can it return nil although a write failed?

   The model is a transition system over every interleaving; the theorems are invariants of every reachable state
   plus a progress/termination argument (a measure that every step decreases, and "some step is enabled while the
   reader has not returned"). *)
From HP Require Import Base.Prelude.
Open Scope nat_scope.

Inductive wphase :=
| WRunning (fails : bool)     (* writeFile in progress; [fails] is what it will return (the environment's choice, fixed at the start) *)
| WSending                    (* writeFile failed: about to send on errs (blocks while the slot is full) *)
| WDone.                      (* wg.Done() called *)

Inductive rphase :=
| RLoop                       (* between entries: polls errs, reads the next header *)
| RFinal                      (* the outer select *)
| RAfterDone                  (* done was ready: the inner select *)
| RRet (err : bool).          (* readErr returned; err = a non-nil error *)

Record wstate := mkW {
  w_slot : bool;              (* errs holds an error *)
  w_donech : bool;            (* close(done) happened *)
  w_reader : rphase;
  w_workers : list wphase;
  w_sent : nat;               (* ghost: errors sent so far *)
  w_taken : nat               (* ghost: errors received by the reader so far *)
}.

Definition winit (flags : list bool) : wstate := mkW false false RLoop (map WRunning flags) 0 0.

Definition all_done (ws : list wphase) : bool := forallb (fun p => match p with WDone => true | _ => false end) ws.

(* who moves: a worker, the goroutine that waits for the WaitGroup, or the reader (with a choice in the loop: go on to the
   final select, or -- only if [own] -- fail on its own: a bad header, a failed foreground write) *)
Inductive actor := AWorker (i : nat) | AWatcher | AReader (own : bool).

Definition wstep (st : wstate) (a : actor) : option wstate :=
  match a with
  | AWorker i =>
    match nth_error (w_workers st) i with
    | Some (WRunning true) => Some (mkW (w_slot st) (w_donech st) (w_reader st) (list_set (w_workers st) i WSending) (w_sent st) (w_taken st))
    | Some (WRunning false) => Some (mkW (w_slot st) (w_donech st) (w_reader st) (list_set (w_workers st) i WDone) (w_sent st) (w_taken st))
    | Some WSending =>
      if w_slot st then None      (* the send blocks *)
      else Some (mkW true (w_donech st) (w_reader st) (list_set (w_workers st) i WDone) (Datatypes.S (w_sent st)) (w_taken st))
    | _ => None
    end
  | AWatcher =>
    match w_reader st with
    | RLoop => None                (* the goroutine is started after the loop *)
    | _ => if all_done (w_workers st) && negb (w_donech st)
           then Some (mkW (w_slot st) true (w_reader st) (w_workers st) (w_sent st) (w_taken st)) else None
    end
  | AReader own =>
    match w_reader st with
    | RLoop =>
      if w_slot st then Some (mkW false (w_donech st) (RRet true) (w_workers st) (w_sent st) (Datatypes.S (w_taken st)))
      else if own then Some (mkW (w_slot st) (w_donech st) (RRet true) (w_workers st) (w_sent st) (w_taken st))
      else Some (mkW (w_slot st) (w_donech st) RFinal (w_workers st) (w_sent st) (w_taken st))
    | RFinal =>
      if w_slot st then Some (mkW false (w_donech st) (RRet true) (w_workers st) (w_sent st) (Datatypes.S (w_taken st)))
      else if w_donech st then Some (mkW (w_slot st) (w_donech st) RAfterDone (w_workers st) (w_sent st) (w_taken st))
      else None                    (* both channels empty: the select blocks *)
    | RAfterDone =>
      if w_slot st then Some (mkW false (w_donech st) (RRet true) (w_workers st) (w_sent st) (Datatypes.S (w_taken st)))
      else Some (mkW (w_slot st) (w_donech st) (RRet false) (w_workers st) (w_sent st) (w_taken st))
    | RRet _ => None
    end
  end.

Inductive wreach : wstate -> wstate -> Prop :=
| wreach_refl st : wreach st st
| wreach_step st a st1 st2 : wstep st a = Some st1 -> wreach st1 st2 -> wreach st st2.

(* ---------- invariant ---------- *)
(* workers whose write failed and that are past their send *)
Fixpoint failed_done (flags : list bool) (ws : list wphase) : nat :=
  match flags, ws with
  | f :: fl, w :: wl => (match w with WDone => if f then 1 else 0 | _ => 0 end) + failed_done fl wl
  | _, _ => 0
  end.

Definition phase_ok (f : bool) (p : wphase) : Prop :=
  match p with WRunning f' => f' = f | WSending => f = true | WDone => True end.

Definition winv (flags : list bool) (st : wstate) : Prop :=
  length (w_workers st) = length flags /\
  Forall2 phase_ok flags (w_workers st) /\
  w_sent st = failed_done flags (w_workers st) /\
  w_sent st = w_taken st + (if w_slot st then 1 else 0) /\
  (w_taken st = 0 \/ w_reader st = RRet true) /\
  (w_donech st = true -> all_done (w_workers st) = true) /\
  ((w_reader st = RAfterDone \/ w_reader st = RRet false) -> w_donech st = true /\ w_taken st = 0) /\
  (w_reader st = RRet false -> w_sent st = 0).

Lemma winv_init flags : winv flags (winit flags).
Proof.
  unfold winv, winit. cbn [w_workers w_sent w_taken w_slot w_reader w_donech].
  split; [apply map_length|]. split.
  - induction flags as [|f fl IH]; cbn; [constructor|]. constructor; [reflexivity|exact IH].
  - split; [|split; [reflexivity|split; [left; reflexivity|split; [discriminate|split; [intros [X|X]; discriminate X|discriminate]]]]].
    induction flags as [|f fl IH]; cbn; [reflexivity|exact IH].
Qed.

Lemma forall2_set flags ws i f p :
  Forall2 phase_ok flags ws -> nth_error flags i = Some f -> phase_ok f p -> Forall2 phase_ok flags (list_set ws i p).
Proof.
  intros H. revert i. induction H as [|f0 p0 fl wl H0 Ht IH]; intros [|i] E P; cbn in *; try discriminate.
  - inversion E; subst. constructor; [exact P|exact Ht].
  - constructor; [exact H0|apply IH; assumption].
Qed.

Lemma forall2_nth flags ws i p :
  Forall2 phase_ok flags ws -> nth_error ws i = Some p -> exists f, nth_error flags i = Some f /\ phase_ok f p.
Proof.
  intros H. revert i. induction H as [|f0 p0 fl wl H0 _ IH]; intros [|i] E; cbn in *; try discriminate.
  - inversion E; subst. exists f0. split; [reflexivity|exact H0].
  - apply IH. exact E.
Qed.

(* failed_done when worker i moves *)
Lemma failed_done_set_notdone flags ws i p q :
  nth_error ws i = Some p -> (match p with WDone => False | _ => True end) -> (match q with WDone => False | _ => True end) ->
  failed_done flags (list_set ws i q) = failed_done flags ws.
Proof.
  revert ws i. induction flags as [|f fl IH]; intros [|w wl] [|i] E P Q; cbn [failed_done list_set nth_error] in *;
    try discriminate; try reflexivity.
  - inversion E; subst. destruct p, q; try contradiction; reflexivity.
  - rewrite (IH wl i E P Q). reflexivity.
Qed.

Lemma failed_done_set_done flags ws i p f :
  nth_error ws i = Some p -> (match p with WDone => False | _ => True end) -> nth_error flags i = Some f ->
  failed_done flags (list_set ws i WDone) = failed_done flags ws + (if f then 1 else 0).
Proof.
  revert ws i. induction flags as [|f0 fl IH]; intros [|w wl] [|i] E P F; cbn [failed_done list_set nth_error] in *;
    try discriminate.
  - inversion E; inversion F; subst. destruct p; try contradiction; destruct f; lia.
  - rewrite (IH wl i E P F). lia.
Qed.

Lemma all_done_nth ws i p : all_done ws = true -> nth_error ws i = Some p -> p = WDone.
Proof.
  intros A E. unfold all_done in A. rewrite forallb_forall in A. specialize (A p (nth_error_In _ _ E)).
  destruct p; try discriminate; reflexivity.
Qed.

Theorem winv_step flags st a st1 : winv flags st -> wstep st a = Some st1 -> winv flags st1.
Proof.
  intros (L & F2 & S1 & S2 & T & D & A1 & A2) H. destruct a as [i| |own]; cbn [wstep] in H.
  - destruct (nth_error (w_workers st) i) as [p|] eqn:E; [|discriminate].
    assert (Li : i < length (w_workers st)) by (apply nth_error_Some; congruence).
    destruct (forall2_nth _ _ _ _ F2 E) as (f & Ef & Pf).
    assert (NDp : p <> WDone) by (intros ->; discriminate H).
    assert (ND : w_donech st = false).
    { destruct (w_donech st) eqn:Dn; [|reflexivity]. specialize (D eq_refl).
      pose proof (all_done_nth _ _ _ D E) as X. congruence. }
    assert (NR : w_reader st <> RAfterDone /\ w_reader st <> RRet false).
    { split; intros X; [destruct (A1 (or_introl X)) as [Y _]|destruct (A1 (or_intror X)) as [Y _]]; congruence. }
    destruct NR as [NR1 NR2].
    destruct p as [[|]| |]; try discriminate.
    + inversion H; subst st1; clear H. unfold winv; cbn [w_workers w_sent w_taken w_slot w_reader w_donech].
      split; [rewrite list_set_length; exact L|]. split; [eapply forall2_set; try eassumption; cbn in Pf |- *; congruence|].
      split; [rewrite (failed_done_set_notdone flags _ i _ WSending E I I); exact S1|].
      split; [exact S2|]. split; [exact T|]. split; [rewrite ND; discriminate|]. split; [exact A1|exact A2].
    + inversion H; subst st1; clear H. unfold winv; cbn [w_workers w_sent w_taken w_slot w_reader w_donech].
      cbn in Pf. subst f.
      split; [rewrite list_set_length; exact L|]. split; [eapply forall2_set; try eassumption; exact I|].
      split; [rewrite (failed_done_set_done flags _ i _ false E I Ef); cbn; lia|].
      split; [exact S2|]. split; [exact T|]. split; [rewrite ND; discriminate|]. split; [exact A1|exact A2].
    + destruct (w_slot st) eqn:Sl; [discriminate|]. inversion H; subst st1; clear H.
      unfold winv; cbn [w_workers w_sent w_taken w_slot w_reader w_donech]. cbn in Pf. subst f.
      split; [rewrite list_set_length; exact L|]. split; [eapply forall2_set; try eassumption; exact I|].
      split; [rewrite (failed_done_set_done flags _ i _ true E I Ef); cbn; lia|].
      split; [lia|]. split; [exact T|]. split; [rewrite ND; discriminate|]. split; [exact A1|].
      intros X. congruence.
  - destruct (w_reader st) eqn:R; try discriminate;
      (destruct (all_done (w_workers st) && negb (w_donech st)) eqn:C; [|discriminate]);
      apply Bool.andb_true_iff in C; destruct C as [C1 C2];
      inversion H; subst st1; clear H; unfold winv; cbn [w_workers w_sent w_taken w_slot w_reader w_donech];
      (split; [exact L|]; split; [exact F2|]; split; [exact S1|]; split; [exact S2|]; split; [exact T|];
       split; [intros _; exact C1|]; split; [|exact A2]).
    + intros [X|X]; discriminate X.
    + intros _. split; [reflexivity|]. destruct (A1 (or_introl eq_refl)) as [_ Y]. exact Y.
    + intros [X|X]; [discriminate X|]. split; [reflexivity|]. destruct (A1 (or_intror X)) as [_ Y]. exact Y.
  - destruct (w_reader st) eqn:R; try discriminate.
    + destruct (w_slot st) eqn:Sl; [|destruct own]; inversion H; subst st1; clear H;
        unfold winv; cbn [w_workers w_sent w_taken w_slot w_reader w_donech];
        (split; [exact L|]; split; [exact F2|]; split; [exact S1|]; split; [lia|]).
      * split; [right; reflexivity|]. split; [exact D|]. split; [intros [X|X]; discriminate X|discriminate].
      * split; [right; reflexivity|]. split; [exact D|]. split; [intros [X|X]; discriminate X|discriminate].
      * split; [destruct T as [T|T]; [left; exact T|discriminate T]|]. split; [exact D|]. split; [intros [X|X]; discriminate X|discriminate].
    + destruct (w_slot st) eqn:Sl; [|destruct (w_donech st) eqn:Dn; [|discriminate]]; inversion H; subst st1; clear H;
        unfold winv; cbn [w_workers w_sent w_taken w_slot w_reader w_donech];
        (split; [exact L|]; split; [exact F2|]; split; [exact S1|]; split; [lia|]).
      * split; [right; reflexivity|]. split; [exact D|]. split; [intros [X|X]; discriminate X|discriminate].
      * split; [destruct T as [T|T]; [left; exact T|discriminate T]|]. split; [exact D|].
        split; [|discriminate]. intros _. split; [reflexivity|]. destruct T as [T|T]; [exact T|discriminate T].
    + destruct (A1 (or_introl eq_refl)) as [Dn T0].
      destruct (w_slot st) eqn:Sl; inversion H; subst st1; clear H;
        unfold winv; cbn [w_workers w_sent w_taken w_slot w_reader w_donech];
        (split; [exact L|]; split; [exact F2|]; split; [exact S1|]; split; [lia|]).
      * split; [right; reflexivity|]. split; [exact D|]. split; [intros [X|X]; discriminate X|discriminate].
      * split; [left; exact T0|]. split; [exact D|]. split; [intros _; split; assumption|]. intros _. lia.
Qed.

Theorem winv_reach flags st st2 : winv flags st -> wreach st st2 -> winv flags st2.
Proof. intros I H. induction H as [|st a st1 st2 S _ IH]; [exact I|]. apply IH. eapply winv_step; eassumption. Qed.

(* ---------- the statements ---------- *)
Fixpoint count_true (l : list bool) : nat := match l with [] => 0 | b :: r => (if b then 1 else 0) + count_true r end.

Lemma failed_done_all_done flags : forall ws, length ws = length flags -> all_done ws = true -> failed_done flags ws = count_true flags.
Proof.
  induction flags as [|f fl IH]; intros [|w wl] L A; cbn in *; try discriminate; try reflexivity.
  apply Bool.andb_true_iff in A. destruct A as [A1 A2]. destruct w; try discriminate.
  rewrite (IH wl) by (try lia; exact A2). reflexivity.
Qed.

(* the error wins: the reader returns nil only if NO background write failed *)
Theorem nil_only_if_no_write_failed flags st :
  wreach (winit flags) st -> w_reader st = RRet false -> count_true flags = 0.
Proof.
  intros R E. pose proof (winv_reach flags _ _ (winv_init flags) R) as (L & _ & S1 & _ & _ & D & A1 & A2).
  destruct (A1 (or_intror E)) as [Dn _]. rewrite <- (failed_done_all_done flags _ L (D Dn)), <- S1. apply A2. exact E.
Qed.

(* every step uses something up: executions are finite, at most 2n + 4 steps *)
Definition wrank (p : wphase) : nat := match p with WRunning _ => 2 | WSending => 1 | WDone => 0 end.
Definition rrank (r : rphase) : nat := match r with RLoop => 3 | RFinal => 2 | RAfterDone => 1 | RRet _ => 0 end.
Definition measure (st : wstate) : nat :=
  list_sum (map wrank (w_workers st)) + (if w_donech st then 0 else 1) + rrank (w_reader st).

Lemma list_sum_set ws i p q : nth_error ws i = Some p -> wrank q < wrank p ->
  list_sum (map wrank (list_set ws i q)) < list_sum (map wrank ws).
Proof.
  unfold list_sum. revert i. induction ws as [|w wl IH]; intros [|i] E Lt; cbn in *; try discriminate.
  - inversion E; subst. lia.
  - specialize (IH i E Lt). lia.
Qed.

Theorem every_step_decreases st a st1 : wstep st a = Some st1 -> measure st1 < measure st.
Proof.
  intros H. unfold measure. destruct a as [i| |own]; cbn [wstep] in H.
  - destruct (nth_error (w_workers st) i) as [p|] eqn:E; [|discriminate].
    destruct p as [[|]| |]; try discriminate.
    + inversion H; subst st1; cbn [w_workers w_donech w_reader]. pose proof (list_sum_set _ i _ WSending E ltac:(cbn; lia)). lia.
    + inversion H; subst st1; cbn [w_workers w_donech w_reader]. pose proof (list_sum_set _ i _ WDone E ltac:(cbn; lia)). lia.
    + destruct (w_slot st); [discriminate|]. inversion H; subst st1; cbn [w_workers w_donech w_reader].
      pose proof (list_sum_set _ i _ WDone E ltac:(cbn; lia)). lia.
  - destruct (w_reader st); try discriminate;
      (destruct (all_done (w_workers st) && negb (w_donech st)) eqn:C; [|discriminate]);
      apply Bool.andb_true_iff in C; destruct C as [_ C2]; apply Bool.negb_true_iff in C2;
      inversion H; subst st1; cbn [w_workers w_donech w_reader]; rewrite C2; lia.
  - destruct (w_reader st) eqn:R; try discriminate.
    + destruct (w_slot st); [|destruct own]; inversion H; subst st1; cbn [w_workers w_donech w_reader rrank]; lia.
    + destruct (w_slot st); [|destruct (w_donech st) eqn:Dn; [|discriminate]]; inversion H; subst st1;
        cbn [w_workers w_donech w_reader rrank]; rewrite ?Dn; lia.
    + destruct (w_slot st); inversion H; subst st1; cbn [w_workers w_donech w_reader rrank]; lia.
Qed.

Lemma not_all_done_exists ws : all_done ws = false -> exists i p, nth_error ws i = Some p /\ p <> WDone.
Proof.
  induction ws as [|w wl IH]; cbn; [discriminate|]. destruct w as [f| |].
  - intros _. exists 0, (WRunning f). split; [reflexivity|discriminate].
  - intros _. exists 0, WSending. split; [reflexivity|discriminate].
  - intros H. destruct (IH H) as (i & p & E & N). exists (Datatypes.S i), p. split; assumption.
Qed.

(* while the reader has not returned, somebody can move: the reader is never blocked for good (no deadlock between the
   one-slot channel, the WaitGroup and the final select) *)
Theorem reader_never_stuck flags st :
  wreach (winit flags) st -> (forall e, w_reader st <> RRet e) -> exists a st1, wstep st a = Some st1.
Proof.
  intros R NR. pose proof (winv_reach flags _ _ (winv_init flags) R) as (L & F2 & S1 & S2 & T & D & A1 & A2).
  destruct (w_reader st) eqn:Rd.
  - exists (AReader false). cbn [wstep]. rewrite Rd. destruct (w_slot st); eexists; reflexivity.
  - destruct (w_slot st) eqn:Sl; [exists (AReader false); cbn [wstep]; rewrite Rd, Sl; eexists; reflexivity|].
    destruct (w_donech st) eqn:Dn; [exists (AReader false); cbn [wstep]; rewrite Rd, Sl, Dn; eexists; reflexivity|].
    destruct (all_done (w_workers st)) eqn:AD.
    + exists AWatcher. cbn [wstep]. rewrite Rd, AD, Dn. eexists; reflexivity.
    + destruct (not_all_done_exists _ AD) as (i & p & E & N). exists (AWorker i). cbn [wstep]. rewrite E.
      destruct p as [[|]| |]; try congruence; try (eexists; reflexivity). rewrite Sl. eexists; reflexivity.
  - exists (AReader false). cbn [wstep]. rewrite Rd. destruct (w_slot st); eexists; reflexivity.
  - exfalso. apply (NR err). reflexivity.
Qed.

(* hence from every reachable state the reader does return (and Done() can fire): by induction on the measure *)
Theorem reader_returns flags : forall n st, measure st <= n -> wreach (winit flags) st ->
  exists st2 e, wreach st st2 /\ w_reader st2 = RRet e.
Proof.
  induction n as [|n IH]; intros st M R.
  - destruct (w_reader st) eqn:Rd; try (unfold measure in M; rewrite Rd in M; cbn in M; lia).
    exists st, err. split; [apply wreach_refl|exact Rd].
  - destruct (w_reader st) eqn:Rd; try (exists st, err; split; [apply wreach_refl|exact Rd]).
    all: destruct (reader_never_stuck flags st R ltac:(intros e X; congruence)) as (a & st1 & H);
      pose proof (every_step_decreases _ _ _ H) as Lt;
      assert (R1 : wreach (winit flags) st1)
        by (clear -R H; induction R as [|s a0 s1 s2 S _ IHr]; [eapply wreach_step; [exact H|apply wreach_refl]|eapply wreach_step; [exact S|apply IHr; exact H]]);
      destruct (IH st1 ltac:(lia) R1) as (st2 & e & R2 & E2);
      exists st2, e; (split; [eapply wreach_step; eassumption|exact E2]).
Qed.

(* ---------- correspondence: all outcomes of the model for a given set of failing writes ---------- *)
Definition actors (n : nat) : list actor := AReader false :: AWatcher :: map AWorker (seq 0 n).

Fixpoint wexplore (fuel : nat) (st : wstate) : list (option bool) :=
  match fuel with
  | O => [None]
  | Datatypes.S f =>
    match w_reader st with
    | RRet e => [Some e]
    | _ =>
      let nexts := flat_map (fun a => match wstep st a with Some s1 => [s1] | None => [] end) (actors (length (w_workers st))) in
      match nexts with
      | [] => [None]                     (* deadlock *)
      | _ => flat_map (wexplore f) nexts
      end
    end
  end.

(* (which background writes fail, did UnarchiveErr report an error) : the reader never fails on its own in these runs *)
Definition C13_workers_case := (list bool * bool)%type.
Definition C13_workers_check (c : C13_workers_case) : bool :=
  let outs := wexplore (2 * length (fst c) + 6) (winit (fst c)) in
  forallb (fun o => match o with Some e => Bool.eqb e (snd c) | None => false end) outs.

Example workers_three_failures : C13_workers_check ([true; true; true; false], true) = true.
Proof. vm_compute. reflexivity. Qed.
Example workers_no_failure : C13_workers_check ([false; false; false], false) = true /\ C13_workers_check ([false; true], false) = false.
Proof. vm_compute. split; reflexivity. Qed.
