(* Model of tar/pubsub.go and of the Open protocol of tar.ReaderFS built on it (C13). *)
From HP Require Import Base.Prelude.
Open Scope nat_scope.

(* ---- pubsub: a waiter on key k is released exactly when k has been emitted or the context is cancelled ---- *)
Inductive paction := PWait (k : str) | PEmit (k : str) | PCancel.

Record pstate := mkP { p_visited : list str; p_cancelled : bool; p_waiters : list str (* keys, in start order *) }.

Definition pinit : pstate := mkP [] false [].

Definition pstep (s : pstate) (a : paction) : pstate :=
  match a with
  | PWait k => mkP (p_visited s) (p_cancelled s) (p_waiters s ++ [k])
  | PEmit k => mkP (k :: p_visited s) (p_cancelled s) (p_waiters s)
  | PCancel => mkP (p_visited s) true (p_waiters s)
  end.

Definition released (s : pstate) (k : str) : bool :=
  p_cancelled s || existsb (str_eqb k) (p_visited s).

(* which of the waiters started so far have returned, after each action *)
Fixpoint ptrace (s : pstate) (script : list paction) : list (list bool) :=
  match script with
  | [] => []
  | a :: rest => let s' := pstep s a in map (released s') (p_waiters s') :: ptrace s' rest
  end.

Definition C13_pubsub_case := (list paction * list (list bool))%type.
Definition C13_pubsub_check (c : C13_pubsub_case) : bool :=
  list_eqb (list_eqb Bool.eqb) (ptrace pinit (fst c)) (snd c).
