(* Model of tar/pubsub.go and of the Open protocol of tar.ReaderFS built on it (C13). *)
From HP Require Import Base.Prelude.
Open Scope nat_scope.

(* ---- pubsub: a waiter on key k is released exactly when k has been emitted or the context is cancelled ---- *)
Inductive paction := PWait (k : str) | PEmit (k : str) | PCancel.

Record pstate := mkP { p_visited : list str; p_cancelled : bool; p_waiters : list str (* keys, in start order *) }.

Definition pinit : pstate := mkP [] false [].

Definition pstep (s : pstate) (a : paction) : pstate :=
  match a with
  | PWait k => mkP (p_visited s) (p_cancelled s) (p_waiters s ++ [k])
  | PEmit k => mkP (k :: p_visited s) (p_cancelled s) (p_waiters s)
  | PCancel => mkP (p_visited s) true (p_waiters s)
  end.

Definition released (s : pstate) (k : str) : bool :=
  p_cancelled s || existsb (str_eqb k) (p_visited s).

(* which of the waiters started so far have returned, after each action *)
Fixpoint ptrace (s : pstate) (script : list paction) : list (list bool) :=
  match script with
  | [] => []
  | a :: rest => let s' := pstep s a in map (released s') (p_waiters s') :: ptrace s' rest
  end.

Definition C13_pubsub_case := (list paction * list (list bool))%type.
Definition C13_pubsub_check (c : C13_pubsub_case) : bool :=
  list_eqb (list_eqb Bool.eqb) (ptrace pinit (fst c)) (snd c).

(* ======================================================================================
   The Open protocol of tar.ReaderFS for one regular entry, as a transition system: a writer
   (destination writes, then Close, then Emit), the reader's end (store the error, mark done, cancel),
   caller cancellation at any time, and an opener going through Open's steps one atomic read at a
   time.  Every interleaving of these steps is a path of [pstep_rel]. *)

Inductive ophase :=
| OWaiting        (* in ps.Wait(name) *)
| OWoken          (* Wait returned *)
| OCheckDone      (* the key was not visited: look at readerCtx *)
| OCheckErr       (* look at UnarchiveErr *)
| OOpenDest       (* unarchiveFS.Open(name) *)
| OResult (r : option nat).   (* None = error, Some k = a handle showing k bytes *)

Record gstate := mkGS {
  g_written : nat;        (* bytes of the entry in the destination so far *)
  g_total : nat;          (* the entry's size *)
  g_wfailed : bool;       (* the writer hit an error (no Emit will follow) *)
  g_emitted : bool;       (* ps.Emit(name) happened: visited[name] *)
  g_err : bool;           (* unarchiveErr has been stored *)
  g_rdone : bool;         (* readerDone() *)
  g_cancel : bool;        (* callerCtx is cancelled *)
  g_op : ophase
}.

Definition ginit (total : nat) : gstate := mkGS 0 total false false false false false OWaiting.

Definition set_op (s : gstate) (p : ophase) : gstate :=
  mkGS (g_written s) (g_total s) (g_wfailed s) (g_emitted s) (g_err s) (g_rdone s) (g_cancel s) p.

Inductive gstep : gstate -> gstate -> Prop :=
| G_write s : g_written s < g_total s -> g_wfailed s = false -> g_emitted s = false ->
    gstep s (mkGS (Datatypes.S (g_written s)) (g_total s) false false (g_err s) (g_rdone s) (g_cancel s) (g_op s))
| G_writer_fail s : g_emitted s = false ->
    gstep s (mkGS (g_written s) (g_total s) true false (g_err s) (g_rdone s) (g_cancel s) (g_op s))
| G_emit s : g_written s = g_total s -> g_wfailed s = false -> g_emitted s = false ->
    gstep s (mkGS (g_written s) (g_total s) false true (g_err s) (g_rdone s) (g_cancel s) (g_op s))
| G_reader_ok s : g_emitted s = true -> g_rdone s = false -> g_err s = false ->
    gstep s (mkGS (g_written s) (g_total s) (g_wfailed s) true false true (g_cancel s) (g_op s))
| G_store_err s : g_rdone s = false ->
    gstep s (mkGS (g_written s) (g_total s) (g_wfailed s) (g_emitted s) true false (g_cancel s) (g_op s))
| G_reader_done_err s : g_err s = true -> g_rdone s = false ->
    gstep s (mkGS (g_written s) (g_total s) (g_wfailed s) (g_emitted s) true true (g_cancel s) (g_op s))
| G_cancel s :     (* by the caller at any time, or by the reader after readerDone *)
    gstep s (mkGS (g_written s) (g_total s) (g_wfailed s) (g_emitted s) (g_err s) (g_rdone s) true (g_op s))
| G_wait s : g_op s = OWaiting -> g_emitted s = true \/ g_cancel s = true -> gstep s (set_op s OWoken)
| G_check_vis s : g_op s = OWoken -> gstep s (set_op s (if g_emitted s then OCheckErr else OCheckDone))
| G_check_done s : g_op s = OCheckDone -> gstep s (set_op s (if g_rdone s then OCheckErr else OResult None))
| G_check_err s : g_op s = OCheckErr -> gstep s (set_op s (if g_err s then OResult None else OOpenDest))
| G_open s : g_op s = OOpenDest -> gstep s (set_op s (OResult (Some (g_written s)))).

Inductive greach (total : nat) : gstate -> Prop :=
| GR_init : greach total (ginit total)
| GR_step s s' : greach total s -> gstep s s' -> greach total s'.
