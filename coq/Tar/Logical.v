(* The archive's LOGICAL TREE (the specification of C12) and the unpacking algorithm of tar/fs.go over an
   abstract tree: parents made with 0700 when missing (cachedMkdirAll), a directory entry made or
   re-moded (Mkdir, else Chmod when it exists), a regular entry created with its bytes.
   Paths are lists of elements ([to_apath] of the resolved entry name; the root "." is []).
   [aunpack] is executable and compared with the implementation's final tree on every run
   ([C12_logical_check]); LogicalProofs.v proves that for every well-formed archive, in every entry
   order, it yields exactly [logical]. *)
From HP Require Import Base.Prelude Base.Path KV.Types KV.Run KV.Corr Tar.Unpack.
Open Scope N_scope.

Definition apath := list str.
Inductive anode := ADir (perm : N) | AFile (perm : N) (data : list N).
Definition atree := list (apath * anode).

Definition apath_eqb : apath -> apath -> bool := list_eqb str_eqb.

Fixpoint a_lookup (p : apath) (t : atree) : option anode :=
  match t with
  | [] => None
  | (q, n) :: r => if apath_eqb q p then Some n else a_lookup p r
  end.

Fixpoint a_set (p : apath) (n : anode) (t : atree) : atree :=
  match t with
  | [] => [(p, n)]
  | (q, m) :: r => if apath_eqb q p then (q, n) :: r else (q, m) :: a_set p n r
  end.

Fixpoint is_prefix (q p : apath) : bool :=
  match q, p with
  | [], _ => true
  | x :: q', y :: p' => str_eqb x y && is_prefix q' p'
  | _ :: _, [] => false
  end.

(* q is a proper, non-root ancestor of p *)
Definition is_pp (q p : apath) : bool :=
  is_prefix q p && negb (apath_eqb q p) && negb (apath_eqb q []).

(* all prefixes of p, shortest first *)
Fixpoint inits (p : apath) : list apath :=
  match p with
  | [] => [[]]
  | x :: r => [] :: map (cons x) (inits r)
  end.

Definition ancestors (p : apath) : list apath := filter (fun q => is_pp q p) (inits p).

Inductive aentry :=
| AEDir (name : apath) (perm : N)
| AEFile (name : apath) (perm : N) (data : list N).

Definition aname (e : aentry) : apath := match e with AEDir n _ | AEFile n _ _ => n end.
Definition is_file (e : aentry) : bool := match e with AEFile _ _ _ => true | _ => false end.
Definition anode_of (e : aentry) : anode :=
  match e with AEDir _ p => ADir p | AEFile _ p d => AFile p d end.

(* MkdirAll(parent, 0700): every missing ancestor becomes a 0700 directory; a file in the way is an error *)
Definition a_mkdir_if_missing (t : option atree) (q : apath) : option atree :=
  match t with
  | None => None
  | Some t =>
    match a_lookup q t with
    | None => Some (a_set q (ADir 448) t)
    | Some (ADir _) => Some t
    | Some (AFile _ _) => None
    end
  end.

Definition a_mkdirall (t : atree) (qs : list apath) : option atree :=
  fold_left a_mkdir_if_missing qs (Some t).

Definition aunpack_entry (t : atree) (e : aentry) : option atree :=
  match a_mkdirall t (ancestors (aname e)) with
  | None => None
  | Some t1 =>
    match e with
    | AEDir n perm =>
      match a_lookup n t1 with
      | Some (AFile _ _) => None
      | _ => Some (a_set n (ADir perm) t1)            (* Mkdir, or Chmod when it exists *)
      end
    | AEFile n perm data =>
      match a_lookup n t1 with
      | Some (ADir _) => None                           (* EISDIR *)
      | Some (AFile p0 _) => Some (a_set n (AFile p0 data) t1)   (* O_TRUNC keeps the mode *)
      | None => Some (a_set n (AFile perm data) t1)
      end
    end
  end.

Fixpoint aunpack (t : atree) (es : list aentry) : option atree :=
  match es with
  | [] => Some t
  | e :: rest => match aunpack_entry t e with None => None | Some t1 => aunpack t1 rest end
  end.

(* ---- the specification: the archive's logical tree ---- *)
Definition logical (es : list aentry) (p : apath) : option anode :=
  match find (fun e => apath_eqb (aname e) p) es with
  | Some e => Some (anode_of e)
  | None => if existsb (fun e => is_pp p (aname e)) es then Some (ADir 448) else None
  end.

(* ---- well-formed archives ---- *)
Fixpoint nodup_b (l : list apath) : bool :=
  match l with
  | [] => true
  | x :: r => negb (existsb (apath_eqb x) r) && nodup_b r
  end.

Definition wf_b (es : list aentry) : bool :=
  forallb (fun e => negb (apath_eqb (aname e) [])) es
  && nodup_b (map aname es)
  && forallb (fun e => forallb (fun f => negb (is_file e && is_pp (aname e) (aname f))) es) es.

(* ---- from tar entries ---- *)
Definition to_apath (s : str) : apath := if str_eqb s dot then [] else split_slash s.

Definition to_aentry (e : tentry) : aentry :=
  match e with
  | TDir n perm => AEDir (to_apath (resolve n)) perm
  | TFile n perm d => AEFile (to_apath (resolve n)) perm d
  end.

Definition names_valid (es : list tentry) : bool := forallb (fun e => valid_path (resolve (tname e))) es.

(* ---- correspondence: the implementation's final tree is what [aunpack] builds ---- *)
Definition node_matches (n : anode) (mode : N) (data : list N) : bool :=
  match n with
  | ADir perm => N.eqb mode (N.lor ModeDir perm) && match data with [] => true | _ => false end
  | AFile perm d => N.eqb mode perm && list_eqb N.eqb d data
  end.

Definition C12_logical_check (c : C12_case) : bool :=
  let '(es, failed, snap) := c in
  if failed then true
  else
    let aes := map to_aentry es in
    if negb (names_valid es && wf_b aes) then true
    else
      match aunpack [] aes with
      | None => false
      | Some t =>
        let others := filter (fun e : snap_entry => negb (str_eqb (fst (fst (fst e))) dot)) snap in
        Nat.eqb (length t) (length others)
        && forallb (fun e : snap_entry =>
             let '(p, md, _, d) := e in
             match a_lookup (to_apath p) t with Some n => node_matches n md d | None => false end) others
      end.

(* both models against the implementation *)
Definition C12_both (c : C12_case) : bool := C12_check c && C12_logical_check c.
