(* Store-failure propagation in the key-value FS model (C14): when the one failing store call happens
   inside Mkdir, Remove, Chmod or Chtimes, the operation returns an error and the store's records are
   exactly what they were; a fault fires at most once. *)
From HP Require Import Base.Prelude Base.Path KV.Types KV.FS KV.Handle KV.Run.
Open Scope N_scope.

(* the state only moves forward: the fault index is never changed, the call counter never decreases *)
Definition ext (a b : kv) : Prop := st_fault b = st_fault a /\ (st_calls a <= st_calls b)%nat.

(* the failing call has index in [calls a, calls b) *)
Definition fired (a b : kv) : Prop := exists f, st_fault a = Some f /\ (st_calls a <= f < st_calls b)%nat.

Lemma ext_refl a : ext a a. Proof. split; auto. Qed.
Lemma ext_trans a b c : ext a b -> ext b c -> ext a c.
Proof. intros [A B] [C D]. split; [congruence|lia]. Qed.

Lemma fired_refl a : ~ fired a a. Proof. intros (f & _ & H). lia. Qed.

Lemma fired_split a b c : ext a b -> ext b c -> fired a c -> fired a b \/ fired b c.
Proof.
  intros [A B] [C D] (f & F & H). destruct (Nat.lt_ge_cases f (st_calls b)).
  - left. exists f. split; [exact F|lia].
  - right. exists f. split; [congruence|lia].
Qed.

(* ---- one store call ---- *)
Lemma tick_spec st : ext st (fst (tick st)) /\ st_store (fst (tick st)) = st_store st
  /\ (fired st (fst (tick st)) <-> snd (tick st) = true).
Proof.
  unfold tick, ext, fired. simpl. split; [split; auto|]. split; [reflexivity|]. split.
  - intros (f & F & H). rewrite F. apply Nat.eqb_eq. lia.
  - destruct (st_fault st) as [k|]; [|discriminate]. intros E. apply Nat.eqb_eq in E. exists k. split; [reflexivity|lia].
Qed.

Definition failed_other {A} (r : A + err) : Prop := exists e, r = inr e /\ err_cls e = EOTHER.

Lemma sget_spec st p : ext st (fst (sget st p)) /\ st_store (fst (sget st p)) = st_store st
  /\ (fired st (fst (sget st p)) -> failed_other (snd (sget st p))).
Proof.
  unfold sget. destruct (tick_spec st) as (E & S & F). destruct (tick st) as [st1 bad]. cbn [fst snd] in *.
  destruct bad.
  - simpl. (split; [|split]); auto. intros _. eexists; split; reflexivity.
  - destruct (lookup (st_store st1) p); simpl; (split; [|split]); auto; intros X; apply F in X; discriminate.
Qed.

Lemma sset_spec st p r : ext st (fst (sset st p r))
  /\ (fired st (fst (sset st p r)) -> snd (sset st p r) = Some (Bare EOTHER) /\ st_store (fst (sset st p r)) = st_store st).
Proof.
  unfold sset. destruct (tick_spec st) as (E & S & F). destruct (tick st) as [st1 bad]. cbn [fst snd] in *.
  destruct bad.
  - simpl. (split; [|split]); auto.
  - destruct r; simpl; (split; [exact E|]); intros X; apply F in X; discriminate.
Qed.

Lemma snames_spec st p m : ext st (fst (snames st p m)) /\ st_store (fst (snames st p m)) = st_store st
  /\ (fired st (fst (snames st p m)) -> failed_other (snd (snames st p m))).
Proof.
  unfold snames. destruct (tick_spec st) as (E & S & F). destruct (tick st) as [st1 bad]. cbn [fst snd] in *.
  destruct bad.
  - simpl. (split; [|split]); auto. intros _. eexists; split; reflexivity.
  - destruct (is_dir m); simpl; (split; [|split]); auto; intros X; apply F in X; discriminate.
Qed.

(* ---- notDirErr ---- *)
Lemma not_dir_walk_spec fuel : forall st dir e,
  ext st (fst (not_dir_walk fuel st dir e)) /\ st_store (fst (not_dir_walk fuel st dir e)) = st_store st
  /\ (fired st (fst (not_dir_walk fuel st dir e)) -> err_cls (snd (not_dir_walk fuel st dir e)) = EOTHER).
Proof.
  induction fuel as [|fuel IH]; intros st dir e; simpl.
  - destruct (str_eqb dir dot); simpl; (split; [|split]); auto using ext_refl; intros X; exfalso; exact (fired_refl _ X).
  - destruct (str_eqb dir dot); [simpl; (split; [|split]); auto using ext_refl; intros X; exfalso; exact (fired_refl _ X)|].
    destruct (sget_spec st dir) as (E & S & F). destruct (sget st dir) as [st1 r]. cbn [fst snd] in *.
    destruct r as [rc|e'].
    + simpl. (split; [|split]); auto. intros X. destruct (F X) as (? & ? & _). discriminate.
    + destruct (cls_eqb (err_cls e') ENOENT) eqn:C.
      * destruct (IH st1 (path_dir dir) e) as (E2 & S2 & F2).
        split; [eapply ext_trans; eauto|split; [congruence|]].
        intros X. destruct (fired_split _ _ _ E E2 X) as [X1|X2]; [|apply F2; exact X2].
        destruct (F X1) as (e0 & Q & Cl). inversion Q; subst. rewrite Cl in C. discriminate.
      * simpl. (split; [|split]); auto. intros X. destruct (F X) as (e0 & Q & Cl). inversion Q; subst. exact Cl.
Qed.

Lemma not_dir_err_spec st p e :
  ext st (fst (not_dir_err st p e)) /\ st_store (fst (not_dir_err st p e)) = st_store st
  /\ (fired st (fst (not_dir_err st p e)) -> err_cls (snd (not_dir_err st p e)) = EOTHER).
Proof.
  unfold not_dir_err. destruct (_ && _); [apply not_dir_walk_spec|].
  simpl. (split; [|split]); auto using ext_refl. intros X. exfalso. exact (fired_refl _ X).
Qed.

Lemma get_file_spec st p :
  ext st (fst (get_file st p)) /\ st_store (fst (get_file st p)) = st_store st
  /\ (fired st (fst (get_file st p)) -> failed_other (snd (get_file st p))).
Proof.
  unfold get_file. destruct (negb (valid_path p)).
  - simpl. (split; [|split]); auto using ext_refl. intros X. exfalso. exact (fired_refl _ X).
  - destruct (sget_spec st p) as (E & S & F). destruct (sget st p) as [st1 r]. cbn [fst snd] in *.
    destruct r as [rc|e].
    + simpl. (split; [|split]); auto. intros X. destruct (F X) as (? & ? & _). discriminate.
    + destruct (not_dir_err_spec st1 p e) as (E2 & S2 & F2). destruct (not_dir_err st1 p e) as [st2 e'] eqn:ND. cbn [fst snd] in *.
      split; [eapply ext_trans; eauto|split; [congruence|]].
      intros X. exists e'. split; [reflexivity|].
      destruct (fired_split _ _ _ E E2 X) as [X1|X2]; [|apply F2; exact X2].
      (* the Get itself failed: notDirErr leaves a non-ENOENT error alone *)
      destruct (F X1) as (e0 & Q & Cl). inversion Q; subst e0.
      unfold not_dir_err in ND. rewrite Cl in ND. simpl in ND. inversion ND; subst. exact Cl.
Qed.

Lemma kv_stat_spec st p :
  ext st (fst (kv_stat st p)) /\ st_store (fst (kv_stat st p)) = st_store st
  /\ (fired st (fst (kv_stat st p)) -> failed_other (snd (kv_stat st p))).
Proof.
  unfold kv_stat. destruct (get_file_spec st p) as (E & S & F). destruct (get_file st p) as [st1 r]. cbn [fst snd] in *.
  destruct r as [f|e]; simpl; (split; [|split]); auto.
  intros X. destruct (F X) as (e0 & Q & Cl). inversion Q; subst. eexists; split; [reflexivity|exact Cl].
Qed.

(* ---- saving a directory or metadata-only record: no data load, one Set ---- *)
Lemma f_data_spec st h : ext st (fst (fst (f_data st h))) /\ st_store (fst (fst (f_data st h))) = st_store st
  /\ (fired st (fst (fst (f_data st h))) -> snd (f_data st h) = false).
Proof.
  unfold f_data. destruct (h_loaded h); [simpl; (split; [|split]); auto using ext_refl; intros X; exfalso; exact (fired_refl _ X)|].
  destruct (h_fresh h); [simpl; (split; [|split]); auto using ext_refl; intros X; exfalso; exact (fired_refl _ X)|].
  unfold sdata. destruct (tick_spec st) as (E & S & F). destruct (tick st) as [st1 bad]. cbn [fst snd] in *.
  (split; [|split]); auto. intros X. apply F in X. subst bad. reflexivity.
Qed.

Lemma set_file_spec st p f :
  ext st (fst (fst (set_file st p f)))
  /\ (fired st (fst (fst (set_file st p f))) ->
        snd (set_file st p f) <> None /\ st_store (fst (fst (set_file st p f))) = st_store st).
Proof.
  unfold set_file. destruct f as [h|].
  - assert (D : let r := (if is_regular (f_mode h) then f_data st h else (st, h, true)) in
                ext st (fst (fst r)) /\ st_store (fst (fst r)) = st_store st /\ (fired st (fst (fst r)) -> snd r = false)).
    { destruct (is_regular (f_mode h)); [apply f_data_spec|].
      simpl. (split; [|split]); auto using ext_refl. intros X. exfalso. exact (fired_refl _ X). }
    destruct (if is_regular (f_mode h) then f_data st h else (st, h, true)) as [[st1 h1] okb]. simpl in D.
    destruct D as (E & S & F). destruct okb; simpl.
    + destruct (negb (valid_path p)); simpl.
      * split; [exact E|]. intros X. apply F in X. discriminate.
      * destruct (sset_spec st1 p (Some (mkRec (f_mode h1) (f_mtime h1) (h_cell h1)))) as (E2 & F2).
        destruct (sset st1 p _) as [st2 e]. cbn [fst snd] in *. split; [eapply ext_trans; eauto|].
        intros X. destruct (fired_split _ _ _ E E2 X) as [X1|X2]; [apply F in X1; discriminate|].
        destruct (F2 X2) as [-> S2]. split; [discriminate|congruence].
    + split; [exact E|]. intros _. split; [discriminate|exact S].
  - destruct (negb (valid_path p)); simpl.
    + split; [apply ext_refl|]. intros X. exfalso. exact (fired_refl _ X).
    + destruct (sset_spec st p None) as (E2 & F2). destruct (sset st p None) as [st2 e]. cbn [fst snd] in *.
      split; [exact E2|]. intros X. destruct (F2 X) as [-> S2]. split; [discriminate|exact S2].
Qed.

Lemma save_spec st h :
  ext st (fst (fst (save st h)))
  /\ (fired st (fst (fst (save st h))) -> snd (save st h) <> None /\ st_store (fst (fst (save st h))) = st_store st).
Proof.
  unfold save. destruct (set_file_spec st (h_path h) (Some h)) as (E & F).
  destruct (set_file st (h_path h) (Some h)) as [[st1 h1] e]. cbn [fst snd] in *. split; [exact E|exact F].
Qed.

Lemma new_file_spec st p fl m : ext st (fst (new_file st p fl m)) /\ st_store (fst (new_file st p fl m)) = st_store st
  /\ st_calls (fst (new_file st p fl m)) = st_calls st.
Proof. unfold new_file, alloc_cell, set_heap, ext. simpl. (split; [|split]); auto. Qed.

Lemma failed_other_not_enoent {A} (r : A + err) e : failed_other r -> r = inr e -> cls_eqb (err_cls e) ENOENT = false.
Proof. intros (e0 & Q & C) R. rewrite R in Q. inversion Q; subst. rewrite C. reflexivity. Qed.

(* ---- Mkdir ---- *)
Theorem mkdir_fault_is_reported st p perm :
  fired st (fst (kv_mkdir st p perm)) ->
  snd (kv_mkdir st p perm) <> None /\ st_store (fst (kv_mkdir st p perm)) = st_store st.
Proof.
  unfold kv_mkdir. destruct (kv_stat_spec st p) as (E1 & S1 & F1). destruct (kv_stat st p) as [st1 r1]. cbn [fst snd] in *.
  destruct r1 as [f|e].
  - simpl. intros _. split; [discriminate|exact S1].
  - destruct (negb (cls_eqb (err_cls e) ENOENT)) eqn:NC.
    + simpl. intros _. split; [discriminate|exact S1].
    + assert (NF1 : ~ fired st st1).
      { intros X. pose proof (failed_other_not_enoent _ e (F1 X) eq_refl) as C. rewrite C in NC. discriminate. }
      (* the parent check *)
      assert (P : let r := (if str_eqb p dot then (st1, None)
                            else let '(st2, r2) := kv_stat st1 (path_dir p) in
                                 match r2 with
                                 | inr e2 => (st2, Some (wrap p e2))
                                 | inl par => if is_dir (f_mode par) then (st2, None) else (st2, Some (PathErr p ENOTDIR))
                                 end) in
                  ext st1 (fst r) /\ st_store (fst r) = st_store st1 /\ (fired st1 (fst r) -> snd r <> None)).
      { destruct (str_eqb p dot).
        - simpl. (split; [|split]); auto using ext_refl. intros X. exfalso. exact (fired_refl _ X).
        - destruct (kv_stat_spec st1 (path_dir p)) as (E2 & S2 & F2). destruct (kv_stat st1 (path_dir p)) as [st2 r2]. cbn [fst snd] in *.
          destruct r2 as [par|e2].
          + destruct (is_dir (f_mode par)); simpl; (split; [|split]); auto; intros X; destruct (F2 X) as (? & ? & _); discriminate.
          + simpl. (split; [|split]); auto. discriminate. }
      destruct (if str_eqb p dot then _ else _) as [st2 perr]. simpl in P. destruct P as (E2 & S2 & F2).
      destruct perr as [e2|].
      * simpl. intros _. split; [discriminate|congruence].
      * destruct (new_file_spec st2 p 0 (N.lor ModeDir (N.land perm ModePerm))) as (E3 & S3 & C3).
        destruct (new_file st2 p 0 _) as [st3 f] eqn:NFE. cbn [fst snd] in *.
        destruct (save_spec st3 f) as (E4 & F4). destruct (save st3 f) as [[st4 f'] e4]. cbn [fst snd] in *.
        intros X.
        assert (E13 : ext st st3) by (eapply ext_trans; [exact E1|eapply ext_trans; eauto]).
        destruct (fired_split _ _ _ E13 E4 X) as [X1|X4].
        -- exfalso. destruct (fired_split st st1 st3 E1 (ext_trans _ _ _ E2 E3) X1) as [Y|Y]; [exact (NF1 Y)|].
           destruct (fired_split st1 st2 st3 E2 E3 Y) as [Z|Z]; [apply F2 in Z; congruence|].
           destruct Z as (k & _ & Hk). lia.
        -- destruct (F4 X4) as [Ne S4]. split; [destruct e4; [discriminate|congruence]|congruence].
Qed.

(* ---- Chmod / Chtimes ---- *)
Theorem chmod_fault_is_reported st p m :
  fired st (fst (kv_chmod st p m)) ->
  snd (kv_chmod st p m) <> None /\ st_store (fst (kv_chmod st p m)) = st_store st.
Proof.
  unfold kv_chmod. destruct (get_file_spec st p) as (E1 & S1 & F1). destruct (get_file st p) as [st1 r]. cbn [fst snd] in *.
  destruct r as [f|e].
  - destruct (save_spec st1 (with_mode_ov f (chmod_mode (f_mode f) m))) as (E2 & F2).
    destruct (save st1 _) as [[st2 f'] e2]. cbn [fst snd] in *. intros X.
    destruct (fired_split _ _ _ E1 E2 X) as [X1|X2]; [destruct (F1 X1) as (? & ? & _); discriminate|].
    destruct (F2 X2) as [Ne S2]. split; [destruct e2; [discriminate|congruence]|congruence].
  - simpl. intros _. split; [discriminate|exact S1].
Qed.

Theorem chtimes_fault_is_reported st p t :
  fired st (fst (kv_chtimes st p t)) ->
  snd (kv_chtimes st p t) <> None /\ st_store (fst (kv_chtimes st p t)) = st_store st.
Proof.
  unfold kv_chtimes. destruct (get_file_spec st p) as (E1 & S1 & F1). destruct (get_file st p) as [st1 r]. cbn [fst snd] in *.
  destruct r as [f|e].
  - destruct (save_spec st1 (with_mtime_ov f (Explicit t))) as (E2 & F2).
    destruct (save st1 _) as [[st2 f'] e2]. cbn [fst snd] in *. intros X.
    destruct (fired_split _ _ _ E1 E2 X) as [X1|X2]; [destruct (F1 X1) as (? & ? & _); discriminate|].
    destruct (F2 X2) as [Ne S2]. split; [destruct e2; [discriminate|congruence]|congruence].
  - simpl. intros _. split; [discriminate|exact S1].
Qed.

(* ---- Remove ---- *)
Lemma f_names_spec st h : ext st (fst (fst (f_names st h))) /\ st_store (fst (fst (f_names st h))) = st_store st
  /\ (fired st (fst (fst (f_names st h))) -> failed_other (snd (f_names st h))).
Proof.
  unfold f_names. destruct (h_names h).
  - simpl. (split; [|split]); auto using ext_refl. intros X. exfalso. exact (fired_refl _ X).
  - destruct (h_fresh h).
    + simpl. (split; [|split]); auto using ext_refl. intros X. exfalso. exact (fired_refl _ X).
    + destruct (snames_spec st (h_path h) (h_mode h)) as (E & S & F). destruct (snames st _ _) as [st1 r]. cbn [fst snd] in *.
      (split; [|split]); auto.
Qed.

Theorem remove_fault_is_reported st p :
  fired st (fst (kv_remove st p)) ->
  snd (kv_remove st p) <> None /\ st_store (fst (kv_remove st p)) = st_store st.
Proof.
  unfold kv_remove. destruct (get_file_spec st p) as (E1 & S1 & F1). destruct (get_file st p) as [st1 r]. cbn [fst snd] in *.
  destruct r as [f|e]; [|simpl; intros _; split; [discriminate|exact S1]].
  destruct (str_eqb p dot); [simpl; intros _; split; [discriminate|exact S1]|].
  assert (B : let r := (if is_dir (f_mode f) then
                          let '(st2, _, ns) := f_names st1 f in
                          match ns with
                          | inr e => (st2, Some (wrap p e))
                          | inl [] => (st2, None)
                          | inl _ => (st2, Some (PathErr p ENOTEMPTY))
                          end
                        else (st1, None)) in
              ext st1 (fst r) /\ st_store (fst r) = st_store st1 /\ (fired st1 (fst r) -> snd r <> None)).
  { destruct (is_dir (f_mode f)).
    - destruct (f_names_spec st1 f) as (E2 & S2 & F2). destruct (f_names st1 f) as [[st2 f2] ns]. cbn [fst snd] in *.
      destruct ns as [[|x l]|e]; simpl; (split; [|split]); auto; try discriminate;
        intros X; destruct (F2 X) as (? & ? & _); discriminate.
    - simpl. (split; [|split]); auto using ext_refl. intros X. exfalso. exact (fired_refl _ X). }
  destruct (if is_dir (f_mode f) then _ else _) as [st2 blocked]. simpl in B. destruct B as (E2 & S2 & F2).
  destruct blocked as [e|].
  - simpl. intros _. split; [discriminate|congruence].
  - destruct (set_file_spec st2 p None) as (E3 & F3). destruct (set_file st2 p None) as [[st3 x] e3]. cbn [fst snd] in *.
    intros X. assert (E12 : ext st st2) by (eapply ext_trans; eauto).
    destruct (fired_split _ _ _ E12 E3 X) as [X1|X3].
    + exfalso. destruct (fired_split _ _ _ E1 E2 X1) as [Y|Y].
      * destruct (F1 Y) as (? & ? & _). discriminate.
      * apply F2 in Y. congruence.
    + destruct (F3 X3) as [Ne S3]. split; [destruct e3; [discriminate|congruence]|congruence].
Qed.

(* ---- a fault fires at most once: after it, the model is the fault-free model ---- *)
Theorem fault_fires_once a b c : ext a b -> ext b c -> fired a b -> ~ fired b c.
Proof.
  intros [A B] [C D] (f & F & H) (g & G & K). rewrite A in G. rewrite F in G. inversion G; subst. lia.
Qed.

Theorem no_fault_never_fires a b : st_fault a = None -> ~ fired a b.
Proof. intros H (f & F & _). congruence. Qed.
