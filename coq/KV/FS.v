(* Key-value FS model: the namespace operations of keyvalue/fs.go (as they stand in /repo),
   transcribed call by call.  mem.FS forwards every method to keyvalue.FS unchanged. *)
From HP Require Import Base.Prelude Base.Path KV.Types.
Open Scope N_scope.

Definition f_mode (h : handle) : N := match h_mode_ov h with Some m => m | None => h_mode h end.
Definition f_mtime (h : handle) : mtime := match h_mtime_ov h with Some m => m | None => h_mtime h end.

Definition mk_file (p : str) (r : rec) : handle :=
  mkH p (r_cell r) (r_mode r) (r_mtime r) None None 0%Z 0 WRO false false false None false None.

Definition set_loaded (h : handle) (bad : bool) : handle :=
  mkH (h_path h) (h_cell h) (h_mode h) (h_mtime h) (h_mode_ov h) (h_mtime_ov h) (h_off h) (h_flag h)
      (h_wrap h) true bad (h_fresh h) (h_names h) (h_closed h) (h_size h).

(* fileData.Data(): memoised; the first evaluation on a record from the store is a store call *)
Definition f_data (st : kv) (h : handle) : kv * handle * bool :=
  if h_loaded h then (st, h, negb (h_data_err h))
  else if h_fresh h then (st, set_loaded h false, true)
  else let '(st1, bad) := sdata st in (st1, set_loaded h bad, negb bad).

(* runOnceFileRecord.Size(): the record's Size() is asked once and remembered; once the data has been
   loaded successfully the live length of the blob is reported instead *)
Definition with_size (h : handle) (n : nat) : handle :=
  mkH (h_path h) (h_cell h) (h_mode h) (h_mtime h) (h_mode_ov h) (h_mtime_ov h) (h_off h) (h_flag h)
      (h_wrap h) (h_loaded h) (h_data_err h) (h_fresh h) (h_names h) (h_closed h) (Some n).

Definition f_size (st : kv) (h : handle) : handle * nat :=
  let live := length (cell st (h_cell h)) in
  let memo := match h_size h with Some n => n | None => if h_fresh h then O else live end in
  (with_size h memo, if h_loaded h && negb (h_data_err h) then live else memo).

(* notDirErr: a not-exist error becomes ErrNotDir when the nearest existing ancestor is not a directory;
   one Get (its own transaction) per ancestor looked at *)
Fixpoint not_dir_walk (fuel : nat) (st : kv) (dir : str) (e : err) : kv * err :=
  if str_eqb dir dot then (st, e)
  else match fuel with
  | O => (st, e)
  | Datatypes.S f =>
    let '(st1, r) := sget st dir in
    match r with
    | inl rc => (st1, if is_dir (r_mode rc) then e else Bare ENOTDIR)
    | inr e' => if cls_eqb (err_cls e') ENOENT then not_dir_walk f st1 (path_dir dir) e else (st1, e')
    end
  end.

Definition not_dir_err (st : kv) (p : str) (e : err) : kv * err :=
  if cls_eqb (err_cls e) ENOENT && negb (str_eqb p dot)
  then not_dir_walk (length p) st (path_dir p) e
  else (st, e).

(* getFile *)
Definition get_file (st : kv) (p : str) : kv * (handle + err) :=
  if negb (valid_path p) then (st, inr (Bare EINVAL))
  else
    let '(st1, r) := sget st p in
    match r with
    | inl rc => (st1, inl (mk_file p rc))
    | inr e => let '(st2, e') := not_dir_err st1 p e in (st2, inr e')
    end.

(* setFile(path, file) / setFile(path, nil); returns the file object with its memo updated *)
Definition set_file (st : kv) (p : str) (f : option handle) : kv * option handle * option err :=
  match f with
  | None =>
      if negb (valid_path p) then (st, None, Some (Bare EINVAL))
      else let '(st1, e) := sset st p None in (st1, None, e)
  | Some h =>
      let '(st1, h1, ok) :=
        if is_regular (f_mode h) then f_data st h else (st, h, true) in
      if negb ok then (st1, Some h1, Some (Bare EOTHER))
      else if negb (valid_path p) then (st1, Some h1, Some (Bare EINVAL))
      else
        let '(st2, e) := sset st1 p (Some (mkRec (f_mode h1) (f_mtime h1) (h_cell h1))) in
        (st2, Some h1, e)
  end.

Definition save (st : kv) (h : handle) : kv * handle * option err :=
  let '(st1, h1, e) := set_file st (h_path h) (Some h) in
  (st1, match h1 with Some x => x | None => h end, e).

(* newFile / newDir: the record's blob is allocated by the FS *)
Definition new_file (st : kv) (p : str) (flag : N) (mode : N) : kv * handle :=
  let '(st1, c) := alloc_cell st [] in
  (st1, mkH p c mode Clock None None 0%Z flag WRO false false true None false None).

Definition kv_stat (st : kv) (p : str) : kv * (handle + err) :=
  let '(st1, r) := get_file st p in
  match r with
  | inl f => (st1, inl f)
  | inr e => (st1, inr (wrap p e))
  end.

Definition kv_mkdir (st : kv) (p : str) (perm : N) : kv * option err :=
  let '(st1, r) := kv_stat st p in
  match r with
  | inl _ => (st1, Some (PathErr p EEXIST))
  | inr e =>
    if negb (cls_eqb (err_cls e) ENOENT) then (st1, Some e)
    else
      let '(st2, perr) :=
        if str_eqb p dot then (st1, None)
        else
          let '(st2, r2) := kv_stat st1 (path_dir p) in
          match r2 with
          | inr e2 => (st2, Some (wrap p e2))
          | inl par => if is_dir (f_mode par) then (st2, None) else (st2, Some (PathErr p ENOTDIR))
          end in
      match perr with
      | Some e => (st2, Some e)
      | None =>
        let '(st3, f) := new_file st2 p 0 (N.lor ModeDir (N.land perm ModePerm)) in
        let '(st4, _, e) := save st3 f in
        (st4, option_map (wrap p) e)
      end
  end.

(* name, Dir(name), ..., "." *)
Fixpoint ancestors (fuel : nat) (p : str) : list str :=
  if str_eqb p dot then [dot]
  else match fuel with
       | O => [p]
       | Datatypes.S f => p :: ancestors f (path_dir p)
       end.

(* getFileRecords: one transaction with a Get per path *)
Fixpoint get_records (st : kv) (ps : list str) : kv * list (rec + err) :=
  match ps with
  | [] => (st, [])
  | p :: rest =>
    let '(st1, r) := sget st p in
    let '(st2, rs) := get_records st1 rest in
    (st2, r :: rs)
  end.

(* findMissingDirs' scan: deepest first *)
Fixpoint scan_missing (ps : list str) (rs : list (rec + err)) (acc : list str) : list str + err :=
  match ps, rs with
  | p :: ps', r :: rs' =>
    match r with
    | inr e => if cls_eqb (err_cls e) ENOENT then scan_missing ps' rs' (acc ++ [p])
               else inr (PathErr p (err_cls e))
    | inl rc => if is_dir (r_mode rc) then inl acc else inr (PathErr p ENOTDIR)
    end
  | _, _ => inl acc
  end.

Fixpoint make_dirs (st : kv) (ps : list str) (perm : N) : kv * option err :=
  match ps with
  | [] => (st, None)
  | p :: rest =>
    let '(st1, f) := new_file st p 0 (N.lor ModeDir (N.land perm ModePerm)) in
    let '(st2, _, e) := save st1 f in
    match e with
    | Some e => if cls_eqb (err_cls e) EEXIST then make_dirs st2 rest perm else (st2, Some (wrap p e))
    | None => make_dirs st2 rest perm
    end
  end.

Definition kv_mkdirall (st : kv) (p : str) (perm : N) : kv * option err :=
  if negb (valid_path p) then (st, Some (PathErr p EINVAL))
  else
    let ps := ancestors (length p) p in
    let '(st1, rs) := get_records st ps in
    match scan_missing ps rs [] with
    | inr e => (st1, Some e)
    | inl missing => make_dirs st1 (rev missing) perm
    end.

(* file.Truncate on the underlying *file (used by OpenFile's O_TRUNC and by handles) *)
Definition resize (d : list N) (n : nat) : list N :=
  if Nat.leb n (length d) then firstn n d else d ++ zeros (n - length d).

Definition stamp_clock (h : handle) : handle :=
  mkH (h_path h) (h_cell h) (h_mode h) (h_mtime h) (h_mode_ov h) (Some Clock) (h_off h) (h_flag h)
      (h_wrap h) (h_loaded h) (h_data_err h) (h_fresh h) (h_names h) (h_closed h) (h_size h).

Definition file_truncate (st : kv) (h : handle) (size : Z) : kv * handle * option err :=
  if h_closed h then (st, h, Some (PathErr (h_path h) ECLOSED))
  else if is_dir (f_mode h) then (st, h, Some (PathErr (h_path h) EISDIR))
  else
    (* currentSize: loads the data *)
    let '(st1, h1, ok) := f_data st h in
    let '(h1, len) := (let '(h', n) := f_size st1 h1 in (h', Z.of_nat n)) in
    if (size <? 0)%Z then (st1, h1, Some (PathErr (h_path h) EINVAL))
    else if (size =? len)%Z then (st1, h1, None)
    else if negb ok then (st1, h1, Some (PathErr (h_path h) EOTHER))
    else
      let st2 := set_cell st1 (h_cell h1) (resize (cell st1 (h_cell h1)) (Z.to_nat size)) in
      let h2 := stamp_clock h1 in
      let '(st3, h3, e) := save st2 h2 in
      (st3, h3, option_map (wrap (h_path h)) e).

Definition with_open (h : handle) (flag : N) (w : wrapper) : handle :=
  mkH (h_path h) (h_cell h) (h_mode h) (h_mtime h) (h_mode_ov h) (h_mtime_ov h) (h_off h) flag
      w (h_loaded h) (h_data_err h) (h_fresh h) (h_names h) (h_closed h) (h_size h).

Definition pick_wrapper (flag : N) : wrapper :=
  if has_flag flag F_WRONLY then WWO else if has_flag flag F_RDWR then WRW else WRO.

Definition dir_open_mask : N := N.lor F_CREATE (N.lor F_WRONLY (N.lor F_RDWR F_TRUNC)).

(* OpenFile: returns the file object to register as a handle (when the caller keeps it) *)
Definition kv_openfile (st : kv) (p : str) (flag perm : N) : kv * (handle + err) :=
  let create := has_flag flag F_CREATE in
  let ps := if create then [p; path_dir p] else [p] in
  if negb (forallb valid_path ps) then (st, inr (PathErr p EINVAL))
  else
    let '(st1, rs) := get_records st ps in
    let r0 := nth 0 rs (inr (Bare EOTHER)) in
    let r1 := nth 1 rs (inr (Bare EOTHER)) in
    let '(st2, res) :=
      match r0 with
      | inl rc =>
        if create && has_flag flag F_EXCL then (st1, inr (PathErr p EEXIST))
        else if is_dir (r_mode rc) && has_flag flag dir_open_mask then (st1, inr (PathErr p EISDIR))
        else (st1, inl (mk_file p rc))
      | inr e =>
        if cls_eqb (err_cls e) ENOENT && create then
          match r1 with
          | inr e1 => let '(stx, e1') := not_dir_err st1 (path_dir p) e1 in (stx, inr (wrap p e1'))
          | inl par =>
            if negb (is_dir (r_mode par)) then (st1, inr (PathErr p ENOTDIR))
            else
              let '(sta, f) := new_file st1 p flag (N.land perm ModePerm) in
              let '(stb, f', e) := save sta f in
              match e with
              | Some e => (stb, inr (wrap p e))
              | None => (stb, inl f')
              end
          end
        else let '(stx, e') := not_dir_err st1 p e in (stx, inr (wrap p e'))
      end in
    match res with
    | inr e => (st2, inr e)
    | inl f =>
      let f1 := with_open f flag (pick_wrapper flag) in
      if has_flag flag F_TRUNC then
        let '(st3, f2, e) := file_truncate st2 f1 0%Z in
        match e with
        | Some e => (st3, inr (wrap p e))
        | None => (st3, inl f2)
        end
      else (st2, inl f1)
    end.

(* fileData.ReadDirNames(): memoised *)
Definition set_names (h : handle) (n : list str + err) : handle :=
  mkH (h_path h) (h_cell h) (h_mode h) (h_mtime h) (h_mode_ov h) (h_mtime_ov h) (h_off h) (h_flag h)
      (h_wrap h) (h_loaded h) (h_data_err h) (h_fresh h) (Some n) (h_closed h) (h_size h).

Definition f_names (st : kv) (h : handle) : kv * handle * (list str + err) :=
  match h_names h with
  | Some r => (st, h, r)
  | None =>
    if h_fresh h then
      (* a handle that created its file holds a record of its own (newFile), not one the store returned: its
         ReadDirNames answers ErrNotDir without a store call *)
      (st, set_names h (inr (Bare ENOTDIR)), inr (Bare ENOTDIR))
    else
    let '(st1, r) := snames st (h_path h) (h_mode h) in
    (st1, set_names h r, r)
  end.

Definition kv_remove (st : kv) (p : str) : kv * option err :=
  let '(st1, r) := get_file st p in
  match r with
  | inr e => (st1, Some (wrap p e))
  | inl f =>
    if str_eqb p dot then (st1, Some (PathErr p EINVAL))
    else
      let '(st2, blocked) :=
        if is_dir (f_mode f) then
          let '(st2, _, ns) := f_names st1 f in
          match ns with
          | inr e => (st2, Some (wrap p e))
          | inl [] => (st2, None)
          | inl _ => (st2, Some (PathErr p ENOTEMPTY))
          end
        else (st1, None) in
      match blocked with
      | Some e => (st2, Some e)
      | None =>
        let '(st3, _, e) := set_file st2 p None in
        (st3, option_map (wrap p) e)
      end
  end.

(* Rename; the directory case recurses over the children (fuel bounds the depth) *)
Fixpoint kv_rename (fuel : nat) (st : kv) (o n : str) : kv * option err :=
  match fuel with
  | O => (st, Some (Bare EOTHER))   (* out of fuel: excluded by the theorems' statements *)
  | Datatypes.S fuel' =>
    if negb (valid_path o) || negb (valid_path n) then (st, Some (LinkErr o n EINVAL))
    else
    let '(st1, r) := get_file st o in
    match r with
    | inr e => (st1, Some (wrap_link o n e))
    | inl fo =>
        (* oldFile.Stat(): a regular file's handle Stat loads the data (error ignored, memoised) *)
        let '(st1, fo) := if is_regular (f_mode fo) then (let '(s, f', _) := f_data st1 fo in (s, f')) else (st1, fo) in
        let '(st2, perr) :=
          if negb (str_eqb o n) && negb (str_eqb n dot) then
            let '(st2, rp) := get_file st1 (path_dir n) in
            match rp with
            | inr e => (st2, Some (wrap_link o n e))
            | inl par => if is_dir (f_mode par) then (st2, None) else (st2, Some (LinkErr o n ENOTDIR))
            end
          else (st1, None) in
        match perr with
        | Some e => (st2, Some e)
        | None =>
          let '(st3, rn) := get_file st2 n in
          let new_is_dir := match rn with inl fn => is_dir (f_mode fn) | inr _ => false end in
          let new_unknown := match rn with inr en => negb (cls_eqb (err_cls en) ENOENT) | inl _ => false end in
          if new_unknown then (st3, Some (wrap_link o n (match rn with inr en => en | inl _ => Bare EOTHER end)))
          else if new_is_dir then (st3, Some (LinkErr o n EEXIST))
          else if negb (is_dir (f_mode fo)) then
            if str_eqb o n then (st3, None)
            else
              let '(st4, fo1, ok) := f_data st3 fo in
              if negb ok then (st4, Some (LinkErr o n EOTHER))
              else
                (* one transaction: Set new, Set old nil; every Set is attempted, first error reported *)
                let '(st5, e1) := sset st4 n (Some (mkRec (f_mode fo1) (f_mtime fo1) (h_cell fo1))) in
                let '(st6, e2) := sset st5 o None in
                (st6, option_map (wrap_link o n) (match e1 with Some e => Some e | None => e2 end))
          else
            if str_eqb o dot || has_prefix n (o ++ [slash]) then (st3, Some (LinkErr o n EINVAL))
            else match rn with
            | inl _ => (st3, Some (LinkErr o n ENOTDIR))
            | inr en =>
              if negb (cls_eqb (err_cls en) ENOENT) then (st3, Some (wrap_link o n en))
              else
                let '(st4, fo1, ns) := f_names st3 fo in
                match ns with
                | inr e => (st4, Some (wrap_link o n e))
                | inl names =>
                  let '(st5, _, e) := set_file st4 n (Some fo1) in
                  match e with
                  | Some e => (st5, Some (wrap_link o n e))
                  | None =>
                    let fix children (st : kv) (l : list str) : kv * option err :=
                      match l with
                      | [] => (st, None)
                      | c :: l' =>
                        let '(st', e) := kv_rename fuel' st (join2 o c) (join2 n c) in
                        match e with
                        | Some e => (st', Some e)
                        | None => children st' l'
                        end
                      end in
                    let '(st6, e) := children st5 names in
                    match e with
                    | Some e => (st6, Some e)
                    | None => let '(st7, _, e) := set_file st6 o None in (st7, option_map (wrap_link o n) e)
                    end
                  end
                end
            end
        end
    end
  end.

Definition with_mode_ov (h : handle) (m : N) : handle :=
  mkH (h_path h) (h_cell h) (h_mode h) (h_mtime h) (Some m) (h_mtime_ov h) (h_off h) (h_flag h)
      (h_wrap h) (h_loaded h) (h_data_err h) (h_fresh h) (h_names h) (h_closed h) (h_size h).
Definition with_mtime_ov (h : handle) (m : mtime) : handle :=
  mkH (h_path h) (h_cell h) (h_mode h) (h_mtime h) (h_mode_ov h) (Some m) (h_off h) (h_flag h)
      (h_wrap h) (h_loaded h) (h_data_err h) (h_fresh h) (h_names h) (h_closed h) (h_size h).

Definition chmod_mode (old m : N) : N :=
  N.lor (N.ldiff old chmod_bits) (N.land m chmod_bits).

Definition kv_chmod (st : kv) (p : str) (m : N) : kv * option err :=
  let '(st1, r) := get_file st p in
  match r with
  | inr e => (st1, Some (wrap p e))
  | inl f =>
    let '(st2, _, e) := save st1 (with_mode_ov f (chmod_mode (f_mode f) m)) in
    (st2, option_map (wrap p) e)
  end.

Definition kv_chtimes (st : kv) (p : str) (mt : Z) : kv * option err :=
  let '(st1, r) := get_file st p in
  match r with
  | inr e => (st1, Some (wrap p e))
  | inl f =>
    let '(st2, _, e) := save st1 (with_mtime_ov f (Explicit mt)) in
    (st2, option_map (wrap p) e)
  end.
