(* Functional specifications of the simple namespace operations of the key-value FS model on a well-formed,
   fault-free state (C01/C05): exactly when each succeeds, what the store is afterwards, and which error a
   failure carries.  The error of every single-name operation names the caller's path, in every state. *)
From HP Require Import Base.Prelude Base.Path Base.PathProofs Base.DirProofs KV.Types KV.FS KV.Handle KV.Run KV.TreeProofs.
Open Scope N_scope.

(* ---- notDirErr: ENOENT stays ENOENT below a directory, becomes ENOTDIR below a file ---- *)
Definition enoent_or_enotdir (c : cls) : Prop := c = ENOENT \/ c = ENOTDIR.

Lemma not_dir_walk_cls fuel : forall st dir e, nf st -> err_cls e = ENOENT ->
  enoent_or_enotdir (err_cls (snd (not_dir_walk fuel st dir e))).
Proof.
  induction fuel as [|f IH]; intros st dir e H C; simpl.
  - destruct (str_eqb dir dot); left; exact C.
  - destruct (str_eqb dir dot); [left; exact C|].
    destruct (sget_nf st dir H) as [R E]. destruct (sget st dir) as [st1 r]. cbn [fst snd] in *. subst r.
    destruct (lookup (st_store st) dir) as [rc|].
    + cbn [snd]. destruct (is_dir (r_mode rc)); [left; exact C|right; reflexivity].
    + cbn [err_cls cls_eqb]. apply IH; [apply R|exact C].
Qed.

Lemma not_dir_walk_below_dir fuel st dir e : nf st -> has_dir (st_store st) dir ->
  snd (not_dir_walk (Datatypes.S fuel) st dir e) = e.
Proof.
  intros H (rc & L & D). simpl. destruct (str_eqb dir dot); [reflexivity|].
  destruct (sget_nf st dir H) as [R E]. destruct (sget st dir) as [st1 r]. cbn [fst snd] in *. subst r.
  rewrite L. cbn [snd]. rewrite D. reflexivity.
Qed.

Lemma not_dir_err_cls st p e : nf st -> err_cls e = ENOENT -> enoent_or_enotdir (err_cls (snd (not_dir_err st p e))).
Proof.
  intros H C. unfold not_dir_err. destruct (_ && _); [apply not_dir_walk_cls; assumption|left; exact C].
Qed.

Lemma not_dir_err_below_dir st p e : nf st -> p <> [] -> (p = dot \/ has_dir (st_store st) (path_dir p)) ->
  snd (not_dir_err st p e) = e.
Proof.
  intros H NE P. unfold not_dir_err. destruct (cls_eqb (err_cls e) ENOENT); [|reflexivity]. cbn [andb].
  destruct (str_eqb_spec p dot) as [->|D]; [reflexivity|]. cbn [negb].
  destruct P as [->|P]; [congruence|]. destruct p as [|c p']; [congruence|]. cbn [length].
  apply not_dir_walk_below_dir; assumption.
Qed.

(* ---- Stat / getFile on a good state ---- *)
Lemma get_file_spec_good st p : nf st ->
  match lookup (st_store st) p with
  | Some rc => valid_path p = true -> snd (get_file st p) = inl (mk_file p rc)
  | None => valid_path p = true -> exists e, snd (get_file st p) = inr e /\ enoent_or_enotdir (err_cls e)
                                   /\ ((p = dot \/ has_dir (st_store st) (path_dir p)) -> e = Bare ENOENT)
  end.
Proof.
  intros H. unfold get_file. destruct (lookup (st_store st) p) as [rc|] eqn:L; intros V; rewrite V; cbn [negb].
  - destruct (sget_nf st p H) as [R E]. destruct (sget st p) as [st1 r]. cbn [fst snd] in *. subst r. rewrite L. reflexivity.
  - destruct (sget_nf st p H) as [R E]. destruct (sget st p) as [st1 r]. cbn [fst snd] in *. subst r. rewrite L.
    pose proof (not_dir_err_cls st1 p (Bare ENOENT) (proj2 R) eq_refl) as C.
    pose proof (not_dir_err_below_dir st1 p (Bare ENOENT) (proj2 R) (valid_path_nonempty p V)) as B.
    destruct (not_dir_err st1 p (Bare ENOENT)) as [st2 e']. cbn [fst snd] in *.
    exists e'. split; [reflexivity|]. split; [exact C|]. intros P. apply B. rewrite (proj1 R). exact P.
Qed.

(* ---- Stat ---- *)
Theorem kv_stat_spec st p : good st ->
  st_store (fst (kv_stat st p)) = st_store st /\
  (valid_path p = false -> snd (kv_stat st p) = inr (PathErr p EINVAL)) /\
  (valid_path p = true -> forall rc, lookup (st_store st) p = Some rc -> snd (kv_stat st p) = inl (mk_file p rc)) /\
  (valid_path p = true -> lookup (st_store st) p = None ->
     exists c, snd (kv_stat st p) = inr (PathErr p c) /\ enoent_or_enotdir c /\
               ((p = dot \/ has_dir (st_store st) (path_dir p)) -> c = ENOENT)).
Proof.
  intros G. destruct (kv_stat_nf st p (proj1 G)) as [R1 E1].
  pose proof (get_file_spec_good st p (proj1 G)) as GS.
  unfold kv_stat in *. destruct (get_file st p) as [st1 r1]. cbn [fst snd] in *.
  split; [destruct r1; apply R1|]. split; [|split].
  - intros V. destruct r1 as [f|e]; cbn [snd] in *.
    + destruct E1 as (rc & _ & _ & V'). congruence.
    + destruct E1 as [[_ X]|[V' _]]; [exact (f_equal inr X)|congruence].
  - intros V rc L. rewrite L in GS. rewrite (GS V). reflexivity.
  - intros V L. rewrite L in GS. destruct (GS V) as (e & -> & C & B). exists (err_cls e). split; [reflexivity|].
    split; [exact C|]. intros P. rewrite (B P). reflexivity.
Qed.

(* a record that needs no data load (a directory, or metadata of anything already loaded) is always written *)
Lemma save_nodata_nf st h : nf st -> is_regular (f_mode h) = false -> valid_path (h_path h) = true ->
  snd (save st h) = None /\
  st_store (fst (fst (save st h))) = insert (st_store st) (h_path h) (mkRec (f_mode h) (f_mtime h) (h_cell h)).
Proof.
  intros H R V. unfold save, set_file. rewrite R. cbn [negb]. rewrite V. cbn [negb].
  destruct (sset_nf st (h_path h) (Some (mkRec (f_mode h) (f_mtime h) (h_cell h))) H) as (_ & E & S).
  destruct (sset st (h_path h) _) as [st2 e]. cbn [fst snd] in *. auto.
Qed.

(* ---- Mkdir ---- *)
Theorem kv_mkdir_spec st p perm : good st ->
  let s := st_store st in
  let r := kv_mkdir st p perm in
  (valid_path p = false -> snd r = Some (PathErr p EINVAL) /\ st_store (fst r) = s) /\
  (valid_path p = true -> lookup s p <> None -> snd r = Some (PathErr p EEXIST) /\ st_store (fst r) = s) /\
  (valid_path p = true -> lookup s p = None -> has_dir s (path_dir p) ->
     snd r = None /\ exists rc, st_store (fst r) = insert s p rc /\ r_mode rc = N.lor ModeDir (N.land perm ModePerm)) /\
  (valid_path p = true -> lookup s p = None -> ~ has_dir s (path_dir p) ->
     exists c, snd r = Some (PathErr p c) /\ enoent_or_enotdir c /\ st_store (fst r) = s).
Proof.
  intros G. cbn zeta. unfold kv_mkdir.
  destruct (kv_stat_spec st p G) as (S1 & A1 & B1 & C1).
  destruct (kv_stat_nf st p (proj1 G)) as [R1 _].
  destruct (kv_stat st p) as [st1 r1]. cbn [fst snd] in *.
  pose proof (good_ro _ _ G R1) as G1.
  split; [|split; [|split]].
  - intros V. rewrite (A1 V). cbn [err_cls cls_eqb negb fst snd]. split; [reflexivity|exact S1].
  - intros V L. destruct (lookup (st_store st) p) as [rc|] eqn:Lp; [|congruence].
    rewrite (B1 V rc eq_refl). split; [reflexivity|exact S1].
  - intros V L HD. destruct (C1 V L) as (c & -> & _ & Cl).
    assert (Dp : p <> dot).
    { intros ->. destruct (wf_root _ (proj2 G)) as (rr & Lr & _). congruence. }
    rewrite (Cl (or_intror HD)). cbn [err_cls cls_eqb negb].
    destruct (str_eqb_spec p dot); [contradiction|].
    destruct (kv_stat_spec st1 (path_dir p) G1) as (S2 & _ & B2 & _).
    destruct (kv_stat_nf st1 (path_dir p) (proj1 G1)) as [R2 _].
    destruct (kv_stat st1 (path_dir p)) as [st2 r2]. cbn [fst snd] in *.
    destruct HD as (pr & Lpr & Dpr). rewrite <- S1 in Lpr.
    rewrite (B2 (valid_path_parent p V) pr Lpr). cbn [f_mode mk_file h_mode_ov h_mode]. rewrite Dpr.
    destruct (new_file_ro st2 p 0 (N.lor ModeDir (N.land perm ModePerm)) (proj2 R2)) as [S3 N3].
    pose proof (new_file_path st2 p 0 (N.lor ModeDir (N.land perm ModePerm))) as [P3 M3].
    destruct (new_file st2 p 0 (N.lor ModeDir (N.land perm ModePerm))) as [st3 f]. cbn [fst snd] in *.
    destruct (save_nodata_nf st3 f N3) as [E4 S4].
    { rewrite M3. apply is_regular_not_dir. apply is_dir_lor_ModeDir. }
    { rewrite P3. exact V. }
    destruct (save st3 f) as [[st4 f'] e4]. cbn [fst snd] in *. subst e4. cbn [option_map fst snd].
    split; [reflexivity|]. eexists. split; [rewrite S4, P3, S3, S2, S1; reflexivity|]. cbn [r_mode]. exact M3.
  - intros V L NH. destruct (C1 V L) as (c & -> & Cc & _).
    destruct Cc as [->| ->]; cbn [err_cls cls_eqb negb].
    2: { exists ENOTDIR. repeat split; auto. right; reflexivity. }
    destruct (str_eqb_spec p dot) as [->|Dp].
    { exfalso. destruct (wf_root _ (proj2 G)) as (rr & Lr & _). congruence. }
    destruct (kv_stat_spec st1 (path_dir p) G1) as (S2 & _ & B2 & C2).
    destruct (kv_stat st1 (path_dir p)) as [st2 r2]. cbn [fst snd] in *.
    destruct (lookup (st_store st1) (path_dir p)) as [pr|] eqn:Lp.
    + rewrite (B2 (valid_path_parent p V) pr eq_refl). cbn [f_mode mk_file h_mode_ov h_mode].
      destruct (is_dir (r_mode pr)) eqn:Dpr.
      * exfalso. apply NH. exists pr. rewrite <- S1. auto.
      * exists ENOTDIR. cbn [fst snd]. repeat split; [right; reflexivity|congruence].
    + destruct (C2 (valid_path_parent p V) eq_refl) as (c & -> & Cc & _).
      exists c. cbn [wrap err_cls fst snd]. repeat split; [exact Cc|congruence].
Qed.

(* ---- writing back a record opened from the store ---- *)
Lemma set_loaded_fields h b : f_mode (set_loaded h b) = f_mode h /\ f_mtime (set_loaded h b) = f_mtime h
  /\ h_cell (set_loaded h b) = h_cell h.
Proof. destruct h; repeat split; reflexivity. Qed.

Lemma save_nf_ok st h : nf st -> valid_path (h_path h) = true -> (h_loaded h = true -> h_data_err h = false) ->
  snd (save st h) = None /\
  st_store (fst (fst (save st h))) = insert (st_store st) (h_path h) (mkRec (f_mode h) (f_mtime h) (h_cell h)).
Proof.
  intros H V LD. unfold save, set_file.
  assert (D : let x := (if is_regular (f_mode h) then f_data st h else (st, h, true)) in
              ro st (fst (fst x)) /\ snd x = true /\ f_mode (snd (fst x)) = f_mode h
              /\ f_mtime (snd (fst x)) = f_mtime h /\ h_cell (snd (fst x)) = h_cell h).
  { destruct (is_regular (f_mode h)); [|cbn [fst snd]; repeat split; auto].
    unfold f_data. destruct (h_loaded h) eqn:L.
    - cbn [fst snd]. rewrite (LD eq_refl). repeat split; auto.
    - destruct (h_fresh h).
      + cbn [fst snd]. destruct (set_loaded_fields h false) as (A & B & C). repeat split; auto.
      + unfold sdata. destruct (tick_nf st H) as [R B]. destruct (tick st) as [st1 bad]. cbn [fst snd] in *. subst bad.
        destruct (set_loaded_fields h false) as (A & B' & C). repeat split; auto; apply R. }
  destruct (if is_regular (f_mode h) then f_data st h else (st, h, true)) as [[st1 h1] okb]. cbn [fst snd] in D.
  destruct D as (R & -> & M & T & C). cbn [negb]. rewrite V. cbn [negb].
  destruct (sset_nf st1 (h_path h) (Some (mkRec (f_mode h1) (f_mtime h1) (h_cell h1))) (proj2 R)) as (_ & E & S).
  destruct (sset st1 (h_path h) _) as [st2 e]. cbn [fst snd] in *. split; [exact E|].
  rewrite S, (proj1 R), M, T, C. reflexivity.
Qed.

(* ---- Chmod / Chtimes ---- *)
Theorem kv_chmod_spec st p m : good st ->
  let s := st_store st in
  let r := kv_chmod st p m in
  (valid_path p = false -> snd r = Some (PathErr p EINVAL) /\ st_store (fst r) = s) /\
  (valid_path p = true -> lookup s p = None ->
     exists c, snd r = Some (PathErr p c) /\ enoent_or_enotdir c /\ st_store (fst r) = s) /\
  (valid_path p = true -> forall rc, lookup s p = Some rc ->
     snd r = None /\ st_store (fst r) = insert s p (mkRec (chmod_mode (r_mode rc) m) (r_mtime rc) (r_cell rc))).
Proof.
  intros G. cbn zeta. unfold kv_chmod.
  destruct (get_file_nf st p (proj1 G)) as [R1 E1]. pose proof (get_file_spec_good st p (proj1 G)) as GS.
  destruct (get_file st p) as [st1 r1]. cbn [fst snd] in *.
  split; [|split].
  - intros V. destruct r1 as [f|e]; [destruct E1 as (? & _ & _ & X); congruence|].
    destruct E1 as [[_ ->]|[X _]]; [|congruence]. cbn [wrap err_cls fst snd]. split; [reflexivity|apply R1].
  - intros V L. rewrite L in GS. destruct (GS V) as (e & -> & C & _). exists (err_cls e).
    cbn [wrap fst snd]. repeat split; [exact C|apply R1].
  - intros V rc L. rewrite L in GS. rewrite (GS V).
    destruct (save_nf_ok st1 (with_mode_ov (mk_file p rc) (chmod_mode (f_mode (mk_file p rc)) m)) (proj2 R1)) as [E S];
      [exact V|discriminate|].
    destruct (save st1 _) as [[st2 f'] e2]. cbn [fst snd] in *. subst e2. split; [reflexivity|].
    rewrite S, (proj1 R1). reflexivity.
Qed.

Theorem kv_chtimes_spec st p t : good st ->
  let s := st_store st in
  let r := kv_chtimes st p t in
  (valid_path p = false -> snd r = Some (PathErr p EINVAL) /\ st_store (fst r) = s) /\
  (valid_path p = true -> lookup s p = None ->
     exists c, snd r = Some (PathErr p c) /\ enoent_or_enotdir c /\ st_store (fst r) = s) /\
  (valid_path p = true -> forall rc, lookup s p = Some rc ->
     snd r = None /\ st_store (fst r) = insert s p (mkRec (r_mode rc) (Explicit t) (r_cell rc))).
Proof.
  intros G. cbn zeta. unfold kv_chtimes.
  destruct (get_file_nf st p (proj1 G)) as [R1 E1]. pose proof (get_file_spec_good st p (proj1 G)) as GS.
  destruct (get_file st p) as [st1 r1]. cbn [fst snd] in *.
  split; [|split].
  - intros V. destruct r1 as [f|e]; [destruct E1 as (? & _ & _ & X); congruence|].
    destruct E1 as [[_ ->]|[X _]]; [|congruence]. cbn [wrap err_cls fst snd]. split; [reflexivity|apply R1].
  - intros V L. rewrite L in GS. destruct (GS V) as (e & -> & C & _). exists (err_cls e).
    cbn [wrap fst snd]. repeat split; [exact C|apply R1].
  - intros V rc L. rewrite L in GS. rewrite (GS V).
    destruct (save_nf_ok st1 (with_mtime_ov (mk_file p rc) (Explicit t)) (proj2 R1)) as [E S];
      [exact V|discriminate|].
    destruct (save st1 _) as [[st2 f'] e2]. cbn [fst snd] in *. subst e2. split; [reflexivity|].
    rewrite S, (proj1 R1). reflexivity.
Qed.

(* ---- Remove ---- *)
Theorem kv_remove_spec st p : good st ->
  let s := st_store st in
  let r := kv_remove st p in
  (valid_path p = false -> snd r = Some (PathErr p EINVAL) /\ st_store (fst r) = s) /\
  (valid_path p = true -> lookup s p = None ->
     exists c, snd r = Some (PathErr p c) /\ enoent_or_enotdir c /\ st_store (fst r) = s) /\
  (snd (kv_remove st dot) = Some (PathErr dot EINVAL) /\ st_store (fst (kv_remove st dot)) = s) /\
  (valid_path p = true -> p <> dot -> forall rc, lookup s p = Some rc ->
     if is_dir (r_mode rc) && match child_names p s with [] => false | _ => true end
     then snd r = Some (PathErr p ENOTEMPTY) /\ st_store (fst r) = s
     else snd r = None /\ st_store (fst r) = remove_key s p).
Proof.
  intros G. cbn zeta.
  assert (Root : snd (kv_remove st dot) = Some (PathErr dot EINVAL) /\ st_store (fst (kv_remove st dot)) = st_store st).
  { unfold kv_remove. destruct (get_file_nf st dot (proj1 G)) as [R1 _].
    pose proof (get_file_spec_good st dot (proj1 G)) as GS. destruct (wf_root _ (proj2 G)) as (rr & Lr & _).
    rewrite Lr in GS. destruct (get_file st dot) as [st1 r1]. cbn [fst snd] in *. rewrite (GS eq_refl).
    cbn [str_eqb dot N.eqb Pos.eqb andb fst snd]. split; [reflexivity|apply R1]. }
  unfold kv_remove.
  destruct (get_file_nf st p (proj1 G)) as [R1 E1]. pose proof (get_file_spec_good st p (proj1 G)) as GS.
  destruct (get_file st p) as [st1 r1]. cbn [fst snd] in *.
  split; [|split; [|split]].
  - intros V. destruct r1 as [f|e]; [destruct E1 as (? & _ & _ & X); congruence|].
    destruct E1 as [[_ ->]|[X _]]; [|congruence]. cbn [wrap err_cls fst snd]. split; [reflexivity|apply R1].
  - intros V L. rewrite L in GS. destruct (GS V) as (e & -> & C & _). exists (err_cls e).
    cbn [wrap fst snd]. repeat split; [exact C|apply R1].
  - exact Root.
  - intros V Dp rc L. rewrite L in GS. rewrite (GS V).
    destruct (str_eqb_spec p dot); [contradiction|].
    cbn [f_mode mk_file h_mode_ov h_mode].
    destruct (is_dir (r_mode rc)) eqn:D; cbn [andb].
    + unfold f_names. cbn [h_names h_fresh mk_file]. unfold snames.
      destruct (tick_nf st1 (proj2 R1)) as [Rt Bt]. destruct (tick st1) as [stt bad]. cbn [fst snd] in *. subst bad.
      cbn [h_path h_mode mk_file]. rewrite D. rewrite (proj1 Rt), (proj1 R1).
      destruct (child_names p (st_store st)) as [|x l]; cbn [fst snd].
      * destruct (set_file_none_nf stt p (proj2 Rt)) as [_ Alt]. unfold set_file in *. rewrite V in *. cbn [negb] in *.
        destruct (sset_nf stt p None (proj2 Rt)) as (_ & E & S). destruct (sset stt p None) as [st3 e3]. cbn [fst snd] in *.
        subst e3. cbn [option_map]. split; [reflexivity|]. rewrite S, (proj1 Rt), (proj1 R1). reflexivity.
      * split; [reflexivity|]. rewrite (proj1 Rt), (proj1 R1). reflexivity.
    + unfold set_file. rewrite V. cbn [negb].
      destruct (sset_nf st1 p None (proj2 R1)) as (_ & E & S). destruct (sset st1 p None) as [st3 e3]. cbn [fst snd] in *.
      subst e3. cbn [option_map]. split; [reflexivity|]. rewrite S, (proj1 R1). reflexivity.
Qed.

(* ---- every failure of a single-name operation is a PathError naming the caller's path: in EVERY state,
        store failures included ---- *)
Definition names_path (p : str) (e : err) : Prop := exists c, e = PathErr p c.

Lemma wrap_names p e : names_path p (wrap p e).
Proof. eexists; reflexivity. Qed.

Theorem kv_stat_err_typed st p e : snd (kv_stat st p) = inr e -> names_path p e.
Proof. unfold kv_stat. destruct (get_file st p) as [st1 [f|e0]]; cbn [snd]; intros H; inversion H. apply wrap_names. Qed.

Theorem kv_mkdir_err_typed st p perm e : snd (kv_mkdir st p perm) = Some e -> names_path p e.
Proof.
  unfold kv_mkdir. pose proof (kv_stat_err_typed st p) as T1. destruct (kv_stat st p) as [st1 [f|e1]]; cbn [snd] in *.
  - intros H. inversion H. eexists; reflexivity.
  - destruct (negb (cls_eqb (err_cls e1) ENOENT)); [intros H; inversion H; subst; apply T1; reflexivity|].
    destruct (str_eqb p dot).
    + destruct (new_file st1 p 0 _) as [st3 f]. destruct (save st3 f) as [[st4 f'] [e4|]]; cbn [snd option_map]; intros H; inversion H. apply wrap_names.
    + destruct (kv_stat st1 (path_dir p)) as [st2 [par|e2]].
      * destruct (is_dir (f_mode par)); [|intros H; inversion H; eexists; reflexivity].
        destruct (new_file st2 p 0 _) as [st3 f]. destruct (save st3 f) as [[st4 f'] [e4|]]; cbn [snd option_map]; intros H; inversion H. apply wrap_names.
      * intros H; inversion H. apply wrap_names.
Qed.

Theorem kv_chmod_err_typed st p m e : snd (kv_chmod st p m) = Some e -> names_path p e.
Proof.
  unfold kv_chmod. destruct (get_file st p) as [st1 [f|e1]]; cbn [snd].
  - destruct (save st1 _) as [[st2 f'] [e2|]]; cbn [snd option_map]; intros H; inversion H. apply wrap_names.
  - intros H; inversion H. apply wrap_names.
Qed.

Theorem kv_chtimes_err_typed st p t e : snd (kv_chtimes st p t) = Some e -> names_path p e.
Proof.
  unfold kv_chtimes. destruct (get_file st p) as [st1 [f|e1]]; cbn [snd].
  - destruct (save st1 _) as [[st2 f'] [e2|]]; cbn [snd option_map]; intros H; inversion H. apply wrap_names.
  - intros H; inversion H. apply wrap_names.
Qed.

Theorem kv_remove_err_typed st p e : snd (kv_remove st p) = Some e -> names_path p e.
Proof.
  unfold kv_remove. destruct (get_file st p) as [st1 [f|e1]]; cbn [snd]; [|intros H; inversion H; apply wrap_names].
  destruct (str_eqb p dot); [intros H; inversion H; eexists; reflexivity|].
  destruct (is_dir (f_mode f)).
  - destruct (f_names st1 f) as [[st2 f2] [[|x l]|e2]]; cbn [snd].
    + destruct (set_file st2 p None) as [[st3 x3] [e3|]]; cbn [snd option_map]; intros H; inversion H. apply wrap_names.
    + intros H; inversion H. eexists; reflexivity.
    + intros H; inversion H. apply wrap_names.
  - destruct (set_file st1 p None) as [[st3 x3] [e3|]]; cbn [snd option_map]; intros H; inversion H. apply wrap_names.
Qed.

Theorem kv_openfile_err_typed st p flag perm e : snd (kv_openfile st p flag perm) = inr e -> names_path p e.
Proof.
  unfold kv_openfile.
  destruct (negb (forallb valid_path _)); [intros H; inversion H; eexists; reflexivity|].
  destruct (get_records st _) as [st1 rs].
  assert (Ph : forall x : kv * (handle + err),
            (forall e0, snd x = inr e0 -> names_path p e0) ->
            forall e0, snd (let '(st2, res) := x in
                     match res with
                     | inr e => (st2, inr e)
                     | inl f =>
                       let f1 := with_open f flag (pick_wrapper flag) in
                       if has_flag flag F_TRUNC then
                         let '(st3, f2, e) := file_truncate st2 f1 0%Z in
                         match e with
                         | Some e => (st3, inr (wrap p e))
                         | None => (st3, inl f2)
                         end
                       else (st2, inl f1)
                     end) = inr e0 -> names_path p e0).
  { intros [st2 [f|e1]] T e0; cbn [snd] in *.
    - destruct (has_flag flag F_TRUNC); [|discriminate].
      destruct (file_truncate st2 _ 0%Z) as [[st3 f2] [e3|]]; cbn [snd]; intros H; inversion H. apply wrap_names.
    - intros H. apply T. exact H. }
  apply Ph. clear Ph. intros e0.
  destruct (nth 0 rs (inr (Bare EOTHER))) as [rc|e1].
  - destruct (_ && has_flag flag F_EXCL); [cbn [snd]; intros H; inversion H; eexists; reflexivity|].
    destruct (_ && has_flag flag dir_open_mask); cbn [snd]; intros H; inversion H. eexists; reflexivity.
  - destruct (cls_eqb (err_cls e1) ENOENT && has_flag flag F_CREATE).
    + destruct (nth 1 rs (inr (Bare EOTHER))) as [par|e2].
      * destruct (negb (is_dir (r_mode par))); [cbn [snd]; intros H; inversion H; eexists; reflexivity|].
        destruct (new_file st1 p flag _) as [sta f]. destruct (save sta f) as [[stb f'] [e3|]]; cbn [snd]; intros H; inversion H. apply wrap_names.
      * destruct (not_dir_err st1 (path_dir p) e2) as [stx e2']. cbn [snd]. intros H; inversion H. apply wrap_names.
    + destruct (not_dir_err st1 p e1) as [stx e1']. cbn [snd]. intros H; inversion H. apply wrap_names.
Qed.
