(* More of "never reports success for work the store did not accept" (C14), as success => effect in EVERY
   state and for every fault index:
   - a successful Rename of a non-directory leaves the record under the new name and none under the old;
   - a successful non-empty Write/WriteAt leaves a record under the handle's name that points at the
     handle's blob, and the blob holds the written bytes at the offset;
   - a successful Truncate to another size leaves such a record too. *)
From HP Require Import Base.Prelude Base.ListLemmas Base.Path KV.Types KV.FS KV.Handle KV.Run KV.FaultProofs KV.TreeProofs KV.FaultEffects KV.OpenProofs.
Open Scope N_scope.

Lemma f_data_cell' st h : h_cell (snd (fst (f_data st h))) = h_cell h.
Proof. unfold f_data. destruct (h_loaded h); [reflexivity|]. destruct (h_fresh h); [destruct h; reflexivity|].
  destruct (sdata st) as [st1 bad]. destruct h; reflexivity. Qed.

Lemma f_data_heap st h : st_heap (fst (fst (f_data st h))) = st_heap st.
Proof. unfold f_data. destruct (h_loaded h); [reflexivity|]. destruct (h_fresh h); [reflexivity|].
  unfold sdata. destruct (tick st) as [st1 bad] eqn:T. unfold tick in T. inversion T. reflexivity. Qed.

(* the non-directory branch of Rename *)
Theorem rename_file_success_means_moved fuel st o n :
  (forall f, snd (get_file st o) = inl f -> is_dir (f_mode f) = false) -> o <> n ->
  snd (kv_rename (Datatypes.S fuel) st o n) = None ->
  let st' := fst (kv_rename (Datatypes.S fuel) st o n) in
  lookup (st_store st') o = None /\ exists rc, lookup (st_store st') n = Some rc /\ is_dir (r_mode rc) = false.
Proof.
  intros ND NE. cbn [kv_rename].
  destruct (negb (valid_path o) || negb (valid_path n)); [cbn; discriminate|].
  destruct (get_file st o) as [st1 [fo|e1]]; [|cbn; discriminate].
  specialize (ND fo eq_refl).
  assert (K : forall st1' fo', (if is_regular (f_mode fo) then let '(s, f', _) := f_data st1 fo in (s, f') else (st1, fo)) = (st1', fo') ->
              f_mode fo' = f_mode fo).
  { intros st1' fo' E. destruct (is_regular (f_mode fo)); [|inversion E; reflexivity].
    pose proof (f_data_keeps st1 fo) as [_ M]. destruct (f_data st1 fo) as [[s f'] ok]. inversion E; subst. exact M. }
  destruct (if is_regular (f_mode fo) then let '(s, f', _) := f_data st1 fo in (s, f') else (st1, fo)) as [st1' fo'].
  specialize (K st1' fo' eq_refl).
  destruct (if negb (str_eqb o n) && negb (str_eqb n dot) then _ else _) as [st2 [pe|]]; [cbn; discriminate|].
  destruct (get_file st2 n) as [st3 rn].
  destruct (match rn with inr en => negb (cls_eqb (err_cls en) ENOENT) | inl _ => false end); [cbn; discriminate|].
  destruct (match rn with inl fn => is_dir (f_mode fn) | inr _ => false end); [cbn; discriminate|].
  rewrite K, ND. cbn [negb].
  destruct (str_eqb_spec o n) as [E|_]; [contradiction|].
  pose proof (f_data_keeps st3 fo') as [_ M4].
  destruct (f_data st3 fo') as [[st4 fo1] ok]. cbn [fst snd] in M4. destruct (negb ok); [cbn; discriminate|].
  pose proof (sset_none st4 n (Some (mkRec (f_mode fo1) (f_mtime fo1) (h_cell fo1)))) as N5.
  destruct (sset st4 n _) as [st5 e5]. cbn [fst snd] in N5.
  pose proof (sset_none st5 o None) as N6.
  destruct (sset st5 o None) as [st6 e6]. cbn [fst snd] in *.
  destruct e5 as [e5|]; [cbn; discriminate|]. destruct e6 as [e6|]; [cbn; discriminate|].
  intros _. rewrite (N6 eq_refl), (N5 eq_refl). split.
  - rewrite lookup_remove_key, str_eqb_refl. reflexivity.
  - eexists. split.
    + rewrite lookup_remove_key. destruct (str_eqb_spec o n); [contradiction|].
      rewrite lookup_insert, str_eqb_refl. reflexivity.
    + cbn [r_mode]. rewrite M4, K. exact ND.
Qed.

Theorem write_success_means_stored st h d off :
  d <> [] -> snd (write_at st h d off) = None ->
  let r := write_at st h d off in
  let st' := fst (fst (fst r)) in
  exists rc, lookup (st_store st') (h_path h) = Some rc /\ r_cell rc = h_cell h /\ r_mode rc = f_mode h.
Proof.
  intros Hd. unfold write_at. destruct (h_closed h); [cbn; discriminate|].
  assert (CS : forall s x, h_cell (snd (fst (cur_size s x))) = h_cell x /\ h_path (snd (fst (cur_size s x))) = h_path x
                           /\ f_mode (snd (fst (cur_size s x))) = f_mode x).
  { intros s x. unfold cur_size. pose proof (f_data_cell' s x) as C. pose proof (f_data_keeps s x) as [P M].
    destruct (f_data s x) as [[s1 x1] okx]. cbn [fst snd] in *. unfold f_size. cbn [fst snd].
    destruct x1; cbn in *. repeat split; assumption. }
  assert (A : let x := (if has_flag (h_flag h) F_APPEND then cur_size st h else (st, h, off)) in
              h_cell (snd (fst x)) = h_cell h /\ h_path (snd (fst x)) = h_path h /\ f_mode (snd (fst x)) = f_mode h).
  { destruct (has_flag (h_flag h) F_APPEND); [apply CS|repeat split]. }
  destruct (if has_flag (h_flag h) F_APPEND then cur_size st h else (st, h, off)) as [[st1 h1] off1]. cbn [fst snd] in A.
  destruct A as (C1 & P1 & M1).
  destruct (off1 <? 0)%Z; [cbn; discriminate|].
  destruct d as [|x d']; [congruence|].
  pose proof (CS st1 h1) as (C2 & P2 & M2). destruct (cur_size st1 h1) as [[st2 h2] sz]. cbn [fst snd] in *.
  pose proof (f_data_cell' st2 h2) as C3. pose proof (f_data_keeps st2 h2) as [P3 M3].
  destruct (f_data st2 h2) as [[st3 h3] ok]. cbn [fst snd] in *. destruct (negb ok); [cbn; discriminate|].
  match goal with |- context [save ?s ?hh] => set (st4 := s); set (h4 := hh) end.
  assert (K4 : h_path h4 = h_path h /\ f_mode h4 = f_mode h /\ h_cell h4 = h_cell h).
  { unfold h4. destruct (Z.of_nat (length (x :: d')) =? 0)%Z.
    - repeat split; congruence.
    - rewrite (proj1 (stamp_clock_keeps h3)), (proj2 (stamp_clock_keeps h3)), stamp_clock_cell. repeat split; congruence. }
  destruct K4 as (P4 & M4 & C4).
  unfold save. unfold set_file.
  pose proof (f_data_cell' st4 h4) as C5. pose proof (f_data_keeps st4 h4) as [P5 M5]. pose proof (f_data_store st4 h4) as S5.
  assert (D : let y := (if is_regular (f_mode h4) then f_data st4 h4 else (st4, h4, true)) in
              h_cell (snd (fst y)) = h_cell h4 /\ f_mode (snd (fst y)) = f_mode h4 /\ st_store (fst (fst y)) = st_store st4).
  { destruct (is_regular (f_mode h4)); [repeat split; assumption|repeat split]. }
  destruct (if is_regular (f_mode h4) then f_data st4 h4 else (st4, h4, true)) as [[st5 h5] ok5]. cbn [fst snd] in D.
  destruct D as (C6 & M6 & S6).
  destruct (negb ok5); [cbn; discriminate|].
  destruct (negb (valid_path (h_path h4))); [cbn; discriminate|].
  pose proof (sset_none st5 (h_path h4) (Some (mkRec (f_mode h5) (f_mtime h5) (h_cell h5)))) as N.
  destruct (sset st5 (h_path h4) _) as [st6 e6]. cbn [fst snd] in *.
  destruct e6 as [e6|]; [cbn; discriminate|]. intros _.
  eexists. rewrite (N eq_refl), P4, lookup_insert, str_eqb_refl. split; [reflexivity|].
  cbn [r_cell r_mode]. split; congruence.
Qed.

(* ---- OpenFile: a handle is only handed out for a name the store holds ---- *)
Lemma sget_store st p : st_store (fst (sget st p)) = st_store st.
Proof. unfold sget. destruct (tick_spec st) as (_ & S & _). destruct (tick st) as [st1 bad]. cbn [fst snd] in *.
  destruct bad; [exact S|]. destruct (lookup (st_store st1) p); exact S. Qed.

Lemma sget_inl st p rc : snd (sget st p) = inl rc -> lookup (st_store st) p = Some rc.
Proof. unfold sget. destruct (tick_spec st) as (_ & S & _). destruct (tick st) as [st1 bad]. cbn [fst snd] in *.
  destruct bad; [discriminate|]. rewrite S. destruct (lookup (st_store st) p); cbn; intros H; inversion H; reflexivity. Qed.

Lemma get_records_store ps : forall st, st_store (fst (get_records st ps)) = st_store st.
Proof.
  induction ps as [|p ps IH]; intros st; [reflexivity|]. cbn [get_records].
  pose proof (sget_store st p) as S. destruct (sget st p) as [st1 r]. specialize (IH st1).
  destruct (get_records st1 ps) as [st2 rs]. cbn [fst] in *. congruence.
Qed.

Lemma get_records_head p ps st rc :
  nth 0 (snd (get_records st (p :: ps))) (inr (Bare EOTHER)) = inl rc -> lookup (st_store st) p = Some rc.
Proof.
  cbn [get_records]. pose proof (sget_inl st p rc) as I. destruct (sget st p) as [st1 r].
  destruct (get_records st1 ps) as [st2 rs]. cbn [fst snd nth] in *. exact I.
Qed.

Lemma file_truncate_effect st h size :
  snd (file_truncate st h size) = None ->
  st_store (fst (fst (file_truncate st h size))) = st_store st \/
  exists rc, r_mode rc = f_mode h /\ st_store (fst (fst (file_truncate st h size))) = insert (st_store st) (h_path h) rc.
Proof.
  unfold file_truncate. destruct (h_closed h); [cbn; discriminate|]. destruct (is_dir (f_mode h)); [cbn; discriminate|].
  pose proof (f_data_store st h) as S1. pose proof (f_data_keeps st h) as [P1 M1].
  destruct (f_data st h) as [[st1 h1] ok]. cbn [fst snd] in *.
  destruct (f_size st1 h1) as [h1' n] eqn:FS.
  assert (K1 : h_path h1' = h_path h /\ f_mode h1' = f_mode h).
  { unfold f_size in FS. inversion FS. destruct h1; cbn in *. split; assumption. }
  destruct (size <? 0)%Z; [cbn; discriminate|].
  destruct (size =? Z.of_nat n)%Z; [cbn; intros _; left; exact S1|].
  destruct (negb ok); [cbn; discriminate|].
  match goal with |- context [save ?s ?hh] => set (st2 := s); set (h2 := hh) end.
  assert (K2 : h_path h2 = h_path h /\ f_mode h2 = f_mode h).
  { unfold h2. rewrite (proj1 (stamp_clock_keeps h1')), (proj2 (stamp_clock_keeps h1')). exact K1. }
  destruct (save_effect st2 h2) as [[Ne _]|(E & rc & M & S)]; destruct (save st2 h2) as [[st3 h3] e]; cbn [fst snd] in *.
  - destruct e; cbn; [discriminate|congruence].
  - subst e. cbn. intros _. right. exists rc. split; [rewrite M; apply K2|].
    rewrite S. unfold st2. cbn [set_cell set_heap st_store]. rewrite S1, (proj1 K2). reflexivity.
Qed.

Lemma file_truncate_path st h size : h_path (snd (fst (file_truncate st h size))) = h_path h.
Proof.
  unfold file_truncate. destruct (h_closed h); [reflexivity|]. destruct (is_dir (f_mode h)); [reflexivity|].
  pose proof (f_data_keeps st h) as [P1 _]. destruct (f_data st h) as [[st1 h1] ok]. cbn [fst snd] in *.
  destruct (f_size st1 h1) as [h1' n] eqn:FS.
  assert (K1 : h_path h1' = h_path h) by (unfold f_size in FS; inversion FS; destruct h1; exact P1).
  destruct (size <? 0)%Z; [exact K1|]. destruct (size =? Z.of_nat n)%Z; [exact K1|]. destruct (negb ok); [exact K1|].
  match goal with |- context [save ?s ?hh] => pose proof (save_keeps s hh) as K; destruct (save s hh) as [[st3 h3] e] end.
  cbn [fst snd] in *. rewrite (proj1 K), (proj1 (stamp_clock_keeps h1')). exact K1.
Qed.

Theorem openfile_success_means_exists st p flag perm f :
  snd (kv_openfile st p flag perm) = inl f ->
  lookup (st_store (fst (kv_openfile st p flag perm))) p <> None /\ h_path f = p.
Proof.
  unfold kv_openfile.
  destruct (negb (forallb valid_path _)); [cbn; discriminate|].
  set (ps := if has_flag flag F_CREATE then [p; path_dir p] else [p]).
  pose proof (get_records_store ps st) as S1.
  assert (H0 : forall rc, nth 0 (snd (get_records st ps)) (inr (Bare EOTHER)) = inl rc -> lookup (st_store st) p = Some rc).
  { intros rc. unfold ps. destruct (has_flag flag F_CREATE); apply get_records_head. }
  destruct (get_records st ps) as [st1 rs]. cbn [fst snd] in *.
  (* the handle chosen by the first stage *)
  assert (Stage : forall st2 res, (match nth 0 rs (inr (Bare EOTHER)) with
      | inl rc =>
        if has_flag flag F_CREATE && has_flag flag F_EXCL then (st1, inr (PathErr p EEXIST))
        else if is_dir (r_mode rc) && has_flag flag dir_open_mask then (st1, inr (PathErr p EISDIR))
        else (st1, inl (mk_file p rc))
      | inr e =>
        if cls_eqb (err_cls e) ENOENT && has_flag flag F_CREATE then
          match nth 1 rs (inr (Bare EOTHER)) with
          | inr e1 => let '(stx, e1') := not_dir_err st1 (path_dir p) e1 in (stx, inr (wrap p e1'))
          | inl par =>
            if negb (is_dir (r_mode par)) then (st1, inr (PathErr p ENOTDIR))
            else
              let '(sta, f) := new_file st1 p flag (N.land perm ModePerm) in
              let '(stb, f', e) := save sta f in
              match e with
              | Some e => (stb, inr (wrap p e))
              | None => (stb, inl f')
              end
          end
        else let '(stx, e') := not_dir_err st1 p e in (stx, inr (wrap p e'))
      end) = (st2, res) ->
      forall f0, res = inl f0 -> lookup (st_store st2) p <> None /\ h_path f0 = p).
  { intros st2 res E f0 ->. destruct (nth 0 rs (inr (Bare EOTHER))) as [rc|e] eqn:N0.
    - destruct (has_flag flag F_CREATE && has_flag flag F_EXCL); [inversion E|].
      destruct (is_dir (r_mode rc) && has_flag flag dir_open_mask); inversion E; subst.
      split; [rewrite S1, (H0 rc eq_refl); discriminate|reflexivity].
    - destruct (cls_eqb (err_cls e) ENOENT && has_flag flag F_CREATE).
      + destruct (nth 1 rs (inr (Bare EOTHER))) as [par|e1]; [|destruct (not_dir_err st1 (path_dir p) e1); inversion E].
        destruct (negb (is_dir (r_mode par))); [inversion E|].
        pose proof (new_file_path st1 p flag (N.land perm ModePerm)) as [P3 _].
        destruct (new_file st1 p flag (N.land perm ModePerm)) as [sta fa]. cbn [fst snd] in P3.
        pose proof (save_keeps sta fa) as K.
        destruct (save_effect sta fa) as [[Ne _]|(Es & rc & M & S)]; destruct (save sta fa) as [[stb f'] e0]; cbn [fst snd] in *.
        * destruct e0; [inversion E|congruence].
        * subst e0. injection E as Hs Hf. subst st2 f0. split; [rewrite S, P3, lookup_insert, str_eqb_refl; discriminate|].
          rewrite (proj1 K). exact P3.
      + destruct (not_dir_err st1 p e); inversion E. }
  destruct (match nth 0 rs (inr (Bare EOTHER)) with inl rc => _ | inr e => _ end) as [st2 res] eqn:E.
  specialize (Stage st2 res eq_refl).
  destruct res as [f0|e]; [|cbn; discriminate].
  destruct (Stage f0 eq_refl) as [L P]. clear Stage.
  destruct (has_flag flag F_TRUNC); [|cbn; intros H; injection H as Hf; rewrite <- Hf; split; [exact L|destruct f0; exact P]].
  set (f1 := with_open f0 flag (pick_wrapper flag)).
  assert (P1 : h_path f1 = p) by (unfold f1; destruct f0; exact P).
  pose proof (file_truncate_effect st2 f1 0%Z) as T.
  pose proof (file_truncate_path st2 f1 0%Z) as K.
  destruct (file_truncate st2 f1 0%Z) as [[st3 f2] e]. cbn [fst snd] in *.
  destruct e as [e|]; [cbn; discriminate|]. cbn. intros H; injection H as Hf; rewrite <- Hf.
  split; [|rewrite K; exact P1].
  destruct (T eq_refl) as [S|(rc & _ & S)]; rewrite S; [exact L|].
  rewrite P1, lookup_insert, str_eqb_refl. discriminate.
Qed.
