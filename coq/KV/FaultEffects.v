(* "Never reports success for work the store did not accept" (C14), as success => effect, in EVERY state and
   for every fault index: a successful Mkdir / creating OpenFile leaves a record under the name, a successful
   Remove leaves none, a successful Chmod leaves the record with the new permission bits. *)
From HP Require Import Base.Prelude Base.Path KV.Types KV.FS KV.Handle KV.Run KV.FaultProofs KV.TreeProofs.
Open Scope N_scope.

Lemma sset_none st p r : snd (sset st p r) = None ->
  st_store (fst (sset st p r)) = match r with Some x => insert (st_store st) p x | None => remove_key (st_store st) p end.
Proof.
  unfold sset. destruct (tick_spec st) as (_ & S & _). destruct (tick st) as [st1 bad]. cbn [fst snd] in *.
  destruct bad; [discriminate|]. destruct r; cbn [fst snd]; intros _; rewrite S; reflexivity.
Qed.

Lemma f_data_store st h : st_store (fst (fst (f_data st h))) = st_store st.
Proof. destruct (f_data_spec st h) as (_ & S & _). exact S. Qed.

(* setFile / save: either nothing changed, or the call succeeded and wrote exactly one record *)
Lemma set_file_some_effect st p h :
  let r := set_file st p (Some h) in
  (snd r <> None /\ st_store (fst (fst r)) = st_store st) \/
  (snd r = None /\ exists rc, r_mode rc = f_mode h /\ st_store (fst (fst r)) = insert (st_store st) p rc).
Proof.
  cbn zeta. unfold set_file.
  assert (D : let x := (if is_regular (f_mode h) then f_data st h else (st, h, true)) in
              st_store (fst (fst x)) = st_store st /\ f_mode (snd (fst x)) = f_mode h).
  { destruct (is_regular (f_mode h)); [split; [apply f_data_store|apply f_data_keeps]|split; reflexivity]. }
  destruct (if is_regular (f_mode h) then f_data st h else (st, h, true)) as [[st1 h1] okb]. cbn [fst snd] in D. destruct D as [S M].
  destruct okb; cbn [negb]; [|left; cbn [fst snd]; split; [discriminate|exact S]].
  destruct (negb (valid_path p)); [left; cbn [fst snd]; split; [discriminate|exact S]|].
  pose proof (sset_none st1 p (Some (mkRec (f_mode h1) (f_mtime h1) (h_cell h1)))) as N.
  destruct (sset_spec st1 p (Some (mkRec (f_mode h1) (f_mtime h1) (h_cell h1)))) as (_ & F).
  destruct (sset st1 p _) as [st2 e] eqn:SS. cbn [fst snd] in *.
  destruct e as [e|].
  - left. split; [discriminate|].
    (* a refused Set changes nothing *)
    unfold sset in SS. destruct (tick_spec st1) as (_ & S1 & _). destruct (tick st1) as [stt bad]. cbn [fst snd] in *.
    destruct bad; inversion SS; subst; cbn [st_store]; congruence.
  - right. split; [reflexivity|]. eexists. split; [|rewrite (N eq_refl), S; reflexivity]. exact M.
Qed.

Lemma save_effect st h :
  let r := save st h in
  (snd r <> None /\ st_store (fst (fst r)) = st_store st) \/
  (snd r = None /\ exists rc, r_mode rc = f_mode h /\ st_store (fst (fst r)) = insert (st_store st) (h_path h) rc).
Proof.
  cbn zeta. unfold save. pose proof (set_file_some_effect st (h_path h) h) as X.
  destruct (set_file st (h_path h) (Some h)) as [[st1 h1] e]. exact X.
Qed.

Lemma new_file_store st p fl m : st_store (fst (new_file st p fl m)) = st_store st.
Proof. reflexivity. Qed.

Lemma kv_stat_store st p : st_store (fst (kv_stat st p)) = st_store st.
Proof. destruct (kv_stat_spec st p) as (_ & S & _). exact S. Qed.

Theorem mkdir_success_means_stored st p perm :
  snd (kv_mkdir st p perm) = None ->
  exists rc, lookup (st_store (fst (kv_mkdir st p perm))) p = Some rc /\ is_dir (r_mode rc) = true.
Proof.
  unfold kv_mkdir. destruct (kv_stat st p) as [st1 [f|e]]; cbn [fst snd]; [discriminate|].
  destruct (negb (cls_eqb (err_cls e) ENOENT)); [discriminate|].
  assert (Fin : forall st2, snd (let '(st3, f) := new_file st2 p 0 (N.lor ModeDir (N.land perm ModePerm)) in
                                 let '(st4, _, e0) := save st3 f in (st4, option_map (wrap p) e0)) = None ->
           exists rc, lookup (st_store (fst (let '(st3, f) := new_file st2 p 0 (N.lor ModeDir (N.land perm ModePerm)) in
                                 let '(st4, _, e0) := save st3 f in (st4, option_map (wrap p) e0)))) p = Some rc /\ is_dir (r_mode rc) = true).
  { intros st2. pose proof (new_file_path st2 p 0 (N.lor ModeDir (N.land perm ModePerm))) as [P3 M3].
    destruct (new_file st2 p 0 (N.lor ModeDir (N.land perm ModePerm))) as [st3 f]. cbn [fst snd] in *.
    destruct (save_effect st3 f) as [[Ne _]|(E & rc & M & S)]; destruct (save st3 f) as [[st4 f'] e0]; cbn [fst snd] in *.
    - destruct e0; [discriminate|congruence].
    - subst e0. intros _. exists rc. rewrite S, P3, lookup_insert, str_eqb_refl. split; [reflexivity|].
      rewrite M, M3. apply is_dir_lor_ModeDir. }
  destruct (str_eqb p dot); [apply Fin|].
  destruct (kv_stat st1 (path_dir p)) as [st2 [par|e2]]; [|cbn [fst snd]; discriminate].
  destruct (is_dir (f_mode par)); [apply Fin|cbn [fst snd]; discriminate].
Qed.

Theorem remove_success_means_gone st p :
  snd (kv_remove st p) = None -> lookup (st_store (fst (kv_remove st p))) p = None.
Proof.
  unfold kv_remove. destruct (get_file st p) as [st1 [f|e]]; cbn [fst snd]; [|discriminate].
  destruct (str_eqb p dot); [discriminate|].
  assert (Fin : forall st2, snd (let '(st3, _, e) := set_file st2 p None in (st3, option_map (wrap p) e)) = None ->
                lookup (st_store (fst (let '(st3, _, e) := set_file st2 p None in (st3, option_map (wrap p) e)))) p = None).
  { intros st2. unfold set_file. destruct (negb (valid_path p)); [cbn [fst snd option_map]; discriminate|].
    pose proof (sset_none st2 p None) as N. destruct (sset st2 p None) as [st3 e]. cbn [fst snd] in *.
    destruct e; [discriminate|]. intros _. rewrite (N eq_refl), lookup_remove_key, str_eqb_refl. reflexivity. }
  destruct (is_dir (f_mode f)); [|apply Fin].
  destruct (f_names st1 f) as [[st2 f2] [[|x l]|e]]; cbn [fst snd]; [apply Fin|discriminate|discriminate].
Qed.

Lemma get_file_inl_path st p f : snd (get_file st p) = inl f -> exists rc, f = mk_file p rc.
Proof.
  unfold get_file. destruct (negb (valid_path p)); [discriminate|].
  destruct (sget st p) as [st1 [rc|e]]; cbn [snd].
  - intros H. inversion H. exists rc. reflexivity.
  - destruct (not_dir_err st1 p e). discriminate.
Qed.

Theorem chmod_success_means_stored st p m :
  snd (kv_chmod st p m) = None ->
  exists rc, lookup (st_store (fst (kv_chmod st p m))) p = Some rc
             /\ N.land (r_mode rc) chmod_bits = N.land m chmod_bits.
Proof.
  unfold kv_chmod. pose proof (get_file_inl_path st p) as I.
  destruct (get_file st p) as [st1 [f|e]]; cbn [fst snd] in *; [|discriminate].
  destruct (I f eq_refl) as (rc0 & ->). clear I.
  destruct (save_effect st1 (with_mode_ov (mk_file p rc0) (chmod_mode (f_mode (mk_file p rc0)) m))) as [[Ne _]|(E & rc & M & S)];
    destruct (save st1 _) as [[st2 f'] e2]; cbn [fst snd] in *.
  - destruct e2; [discriminate|congruence].
  - subst e2. intros _. exists rc. split; [rewrite S; cbn [h_path with_mode_ov mk_file]; rewrite lookup_insert, str_eqb_refl; reflexivity|].
    rewrite M. cbn [f_mode with_mode_ov h_mode_ov]. unfold chmod_mode.
    apply N.bits_inj. intros i. rewrite !N.land_spec, N.lor_spec, N.ldiff_spec, N.land_spec.
    destruct (N.testbit chmod_bits i); [rewrite andb_false_r, andb_true_r; reflexivity|rewrite !andb_false_r; reflexivity].
Qed.
