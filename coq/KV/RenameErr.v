(* C05 for Rename: every failure of the key-value FS's Rename, in EVERY state (store failures and
   ill-formed stores included), is a LinkError; for a source that is not a directory it names exactly
   the caller's two names; for a directory it names them or, when moving a descendant failed, that
   descendant's old and new names (the caller's names extended by the same relative path). *)
From HP Require Import Base.Prelude Base.Path KV.Types KV.FS KV.TreeProofs.
Open Scope N_scope.

(* (o', n') is (o, n) extended by the same child names *)
Inductive under (o n : str) : str -> str -> Prop :=
| under_here : under o n o n
| under_child c o' n' : under (join2 o c) (join2 n c) o' n' -> under o n o' n'.

Definition typed (o n : str) (e : err) : Prop :=
  e = Bare EOTHER \/ exists o' n' c, under o n o' n' /\ e = LinkErr o' n' c.

Lemma typed_here o n c : typed o n (LinkErr o n c).
Proof. right. exists o, n, c. split; [constructor|reflexivity]. Qed.

Lemma typed_wrap o n e : typed o n (wrap_link o n e).
Proof. apply typed_here. Qed.

Lemma typed_child o n c e : typed (join2 o c) (join2 n c) e -> typed o n e.
Proof.
  intros [->|(o' & n' & k & U & ->)]; [left; reflexivity|].
  right. exists o', n', k. split; [eapply under_child; exact U|reflexivity].
Qed.

Ltac brk H :=
  match type of H with
  | context [match ?x with _ => _ end] =>
    lazymatch x with
    | context [match _ with _ => _ end] => fail
    | _ => let E := fresh "E" in destruct x eqn:E
    end
  end.

Theorem kv_rename_err_typed fuel : forall st o n e,
  snd (kv_rename fuel st o n) = Some e -> typed o n e.
Proof.
  induction fuel as [|fuel IH]; intros st o n e H.
  - cbn in H. inversion H. left. reflexivity.
  - cbn [kv_rename] in H.
    destruct (negb (valid_path o) || negb (valid_path n)); [cbn in H; inversion H; apply typed_here|].
    destruct (get_file st o) as [st1 [fo|e1]]; [|cbn in H; inversion H; apply typed_wrap].
    destruct (if is_regular (f_mode fo) then let '(s, f', _) := f_data st1 fo in (s, f') else (st1, fo)) as [st1' fo'].
    destruct (if negb (str_eqb o n) && negb (str_eqb n dot)
              then let '(st2, rp) := get_file st1' (path_dir n) in
                   match rp with
                   | inl par => if is_dir (f_mode par) then (st2, None) else (st2, Some (LinkErr o n ENOTDIR))
                   | inr e0 => (st2, Some (wrap_link o n e0))
                   end
              else (st1', None)) as [st2 perr] eqn:EP.
    assert (TP : forall e0, perr = Some e0 -> typed o n e0).
    { intros e0 ->. destruct (negb (str_eqb o n) && negb (str_eqb n dot)); [|inversion EP].
      destruct (get_file st1' (path_dir n)) as [s2 [par|e2]].
      - destruct (is_dir (f_mode par)); inversion EP. apply typed_here.
      - inversion EP. apply typed_wrap. }
    destruct perr as [pe|]; [cbn in H; inversion H; subst; apply TP; reflexivity|]. clear TP EP.
    destruct (get_file st2 n) as [st3 rn].
    destruct (match rn with inr en => negb (cls_eqb (err_cls en) ENOENT) | inl _ => false end);
      [cbn in H; inversion H; apply typed_wrap|].
    destruct (match rn with inl fn => is_dir (f_mode fn) | inr _ => false end);
      [cbn in H; inversion H; apply typed_here|].
    destruct (negb (is_dir (f_mode fo'))).
    + destruct (str_eqb o n); [cbn in H; discriminate|].
      destruct (f_data st3 fo') as [[st4 fo1] ok]. destruct (negb ok); [cbn in H; inversion H; apply typed_here|].
      destruct (sset st4 n _) as [st5 e5]. destruct (sset st5 o None) as [st6 e6].
      cbn [snd] in H. destruct e5 as [e5|]; [|destruct e6 as [e6|]]; cbn in H; inversion H; apply typed_wrap.
    + destruct (str_eqb o dot || has_prefix n (o ++ [slash])); [cbn in H; inversion H; apply typed_here|].
      destruct rn as [fn|en]; [cbn in H; inversion H; apply typed_here|].
      destruct (negb (cls_eqb (err_cls en) ENOENT)); [cbn in H; inversion H; apply typed_wrap|].
      destruct (f_names st3 fo') as [[st4 fo1] [names|e4]]; [|cbn in H; inversion H; apply typed_wrap].
      destruct (set_file st4 n (Some fo1)) as [[st5 x5] [e5|]]; [cbn in H; inversion H; apply typed_wrap|].
      assert (CH : forall names st5 st6 e6,
                 (fix children (st : kv) (l : list str) {struct l} : kv * option err :=
                    match l with
                    | [] => (st, None)
                    | c :: l' =>
                      let '(st', e) := kv_rename fuel st (join2 o c) (join2 n c) in
                      match e with
                      | Some e => (st', Some e)
                      | None => children st' l'
                      end
                    end) st5 names = (st6, Some e6) -> typed o n e6).
      { clear -IH. induction names as [|c l IHl]; intros st5 st6 e6 E; [inversion E|].
        pose proof (IH st5 (join2 o c) (join2 n c)) as T.
        destruct (kv_rename fuel st5 (join2 o c) (join2 n c)) as [st' [e'|]].
        - inversion E; subst. eapply typed_child. apply T. reflexivity.
        - eapply IHl. exact E. }
      match type of H with context [(fix children (st : kv) (l : list str) {struct l} : kv * option err := _) ?ss ?ll] =>
        destruct ((fix children (st : kv) (l : list str) {struct l} : kv * option err :=
                    match l with
                    | [] => (st, None)
                    | c :: l' =>
                      let '(st', e) := kv_rename fuel st (join2 o c) (join2 n c) in
                      match e with
                      | Some e => (st', Some e)
                      | None => children st' l'
                      end
                    end) ss ll) as [st6 e6] eqn:EC
      end.
      destruct e6 as [e6|]; [cbn in H; inversion H; subst; eapply CH; exact EC|].
      destruct (set_file st6 o None) as [[st7 x7] [e7|]]; cbn in H; inversion H. apply typed_wrap.
Qed.

(* a source that is not a directory: exactly the caller's two names, in every state *)
Theorem kv_rename_file_err_typed fuel st o n e :
  (forall f, snd (get_file st o) = inl f -> is_dir (f_mode f) = false) ->
  snd (kv_rename (Datatypes.S fuel) st o n) = Some e -> exists c, e = LinkErr o n c.
Proof.
  intros ND H. cbn [kv_rename] in H.
  destruct (negb (valid_path o) || negb (valid_path n)); [cbn in H; inversion H; eexists; reflexivity|].
  destruct (get_file st o) as [st1 [fo|e1]]; [|cbn in H; inversion H; eexists; reflexivity].
  specialize (ND fo eq_refl).
  assert (K : forall st1' fo', (if is_regular (f_mode fo) then let '(s, f', _) := f_data st1 fo in (s, f') else (st1, fo)) = (st1', fo') ->
              f_mode fo' = f_mode fo).
  { intros st1' fo' E. destruct (is_regular (f_mode fo)); [|inversion E; reflexivity].
    pose proof (f_data_keeps st1 fo) as [_ M]. destruct (f_data st1 fo) as [[s f'] ok]. inversion E; subst. exact M. }
  destruct (if is_regular (f_mode fo) then let '(s, f', _) := f_data st1 fo in (s, f') else (st1, fo)) as [st1' fo'].
  specialize (K st1' fo' eq_refl).
  destruct (if negb (str_eqb o n) && negb (str_eqb n dot)
            then let '(st2, rp) := get_file st1' (path_dir n) in
                 match rp with
                 | inl par => if is_dir (f_mode par) then (st2, None) else (st2, Some (LinkErr o n ENOTDIR))
                 | inr e0 => (st2, Some (wrap_link o n e0))
                 end
            else (st1', None)) as [st2 perr] eqn:EP.
  assert (TP : forall e0, perr = Some e0 -> exists c, e0 = LinkErr o n c).
  { intros e0 ->. destruct (negb (str_eqb o n) && negb (str_eqb n dot)); [|inversion EP].
    destruct (get_file st1' (path_dir n)) as [s2 [par|e2]].
    - destruct (is_dir (f_mode par)); inversion EP. eexists; reflexivity.
    - inversion EP. eexists; reflexivity. }
  destruct perr as [pe|]; [cbn in H; inversion H; subst; apply TP; reflexivity|]. clear TP EP.
  destruct (get_file st2 n) as [st3 rn].
  destruct (match rn with inr en => negb (cls_eqb (err_cls en) ENOENT) | inl _ => false end);
    [cbn in H; inversion H; eexists; reflexivity|].
  destruct (match rn with inl fn => is_dir (f_mode fn) | inr _ => false end);
    [cbn in H; inversion H; eexists; reflexivity|].
  rewrite K, ND in H. cbn [negb] in H.
  destruct (str_eqb o n); [cbn in H; discriminate|].
  destruct (f_data st3 fo') as [[st4 fo1] ok]. destruct (negb ok); [cbn in H; inversion H; eexists; reflexivity|].
  destruct (sset st4 n _) as [st5 e5]. destruct (sset st5 o None) as [st6 e6].
  cbn [snd] in H. destruct e5 as [e5|]; [|destruct e6 as [e6|]]; cbn in H; inversion H; eexists; reflexivity.
Qed.
