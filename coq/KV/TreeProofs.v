(* The key-value FS keeps its namespace a well-formed tree (C03): the root is a directory, every key is a
   valid path, and every key's parent is a key that is a directory -- after every fault-free namespace
   operation, successful or failed. *)
From HP Require Import Base.Prelude Base.Path Base.PathProofs Base.DirProofs KV.Types KV.FS KV.Handle KV.Run.
Open Scope N_scope.

Definition store := list (str * rec).

Definition has_dir (s : store) (p : str) : Prop := exists r, lookup s p = Some r /\ is_dir (r_mode r) = true.

(* a key is the root or a path of real names (ValidPath without the UTF-8 clause, which parents inherit) *)
Definition key_ok (p : str) : Prop := p = dot \/ elems_ok p.

Lemma valid_key_ok p : valid_path p = true -> key_ok p.
Proof. intros V. destruct (str_eqb_spec p dot); [left; assumption|right; apply valid_elems_ok; assumption]. Qed.

Lemma key_ok_parent p : key_ok p -> key_ok (path_dir p).
Proof. intros [->|E]; [left; reflexivity|]. destruct (path_dir_elems_ok p E); [left|right]; assumption. Qed.

Record wf_store (s : store) : Prop := {
  wf_root : has_dir s dot;
  wf_valid : forall p r, lookup s p = Some r -> key_ok p;
  wf_parent : forall p r, lookup s p = Some r -> p <> dot -> has_dir s (path_dir p)
}.

(* p has no entry below it *)
Definition childless (s : store) (p : str) : Prop :=
  forall k rk, lookup s k = Some rk -> k <> dot -> path_dir k <> p.

(* ---- the association list ---- *)
Lemma lookup_remove_key s p q : lookup (remove_key s p) q = if str_eqb p q then None else lookup s q.
Proof.
  unfold remove_key. induction s as [|[k v] s IH]; simpl.
  - destruct (str_eqb p q); reflexivity.
  - destruct (str_eqb_spec k p) as [->|NE]; simpl.
    + rewrite IH. destruct (str_eqb_spec p q); [reflexivity|reflexivity].
    + rewrite IH. destruct (str_eqb_spec k q) as [->|NQ].
      * destruct (str_eqb_spec p q); [congruence|reflexivity].
      * reflexivity.
Qed.

Lemma lookup_insert s p r q : lookup (insert s p r) q = if str_eqb p q then Some r else lookup s q.
Proof.
  unfold insert. simpl. destruct (str_eqb_spec p q) as [->|NE]; [reflexivity|].
  rewrite lookup_remove_key. destruct (str_eqb_spec p q); [congruence|reflexivity].
Qed.

(* ---- the two ways the store changes ---- *)
Lemma wf_insert s p r : wf_store s -> key_ok p ->
  (p = dot \/ has_dir s (path_dir p)) ->
  (is_dir (r_mode r) = true \/ (p <> dot /\ childless s p)) ->
  wf_store (insert s p r).
Proof.
  intros [Rt Va Pa] Vp Par Kind.
  assert (Sub : forall q, has_dir s q -> (q <> p \/ is_dir (r_mode r) = true) -> has_dir (insert s p r) q).
  { intros q (rq & Lq & Dq) C. unfold has_dir. rewrite lookup_insert.
    destruct (str_eqb_spec p q) as [->|NE].
    - destruct C as [C|C]; [congruence|]. exists r. auto.
    - exists rq. auto. }
  constructor.
  - apply Sub; [exact Rt|]. destruct Kind as [K|[K _]]; [right; exact K|left; congruence].
  - intros q rq. rewrite lookup_insert. destruct (str_eqb_spec p q) as [->|NE]; [intros _; exact Vp|apply Va].
  - intros q rq. rewrite lookup_insert. destruct (str_eqb_spec p q) as [<-|NE].
    + intros _ D. destruct Par as [->|Par]; [congruence|]. apply Sub; [exact Par|].
      left. destruct Vp as [->|Vp]; [congruence|]. apply path_dir_neq_elems. exact Vp.
    + intros L D. apply Sub; [eapply Pa; eauto|].
      destruct Kind as [K|[_ K]]; [right; exact K|left; eapply K; eauto].
Qed.

Lemma wf_delete s p : wf_store s -> p <> dot -> childless s p -> wf_store (remove_key s p).
Proof.
  intros [Rt Va Pa] D Ch.
  assert (Sub : forall q, has_dir s q -> q <> p -> has_dir (remove_key s p) q).
  { intros q (rq & Lq & Dq) NE. exists rq. rewrite lookup_remove_key.
    destruct (str_eqb_spec p q); [congruence|auto]. }
  constructor.
  - apply Sub; [exact Rt|congruence].
  - intros q rq. rewrite lookup_remove_key. destruct (str_eqb p q); [discriminate|apply Va].
  - intros q rq. rewrite lookup_remove_key. destruct (str_eqb_spec p q) as [|NE]; [discriminate|].
    intros L Dq. apply Sub; [eapply Pa; eauto|eapply Ch; eauto].
Qed.

(* a regular file (or anything that is not a directory) has nothing below it *)
Lemma nondir_childless s p r : wf_store s -> lookup s p = Some r -> is_dir (r_mode r) = false -> childless s p.
Proof.
  intros W L D k rk Lk Dk E. destruct (wf_parent s W k rk Lk Dk) as (pr & Lp & Dp).
  rewrite E, L in Lp. inversion Lp; subst. congruence.
Qed.

(* a missing path has nothing below it *)
Lemma missing_childless s p : wf_store s -> lookup s p = None -> childless s p.
Proof.
  intros W L k rk Lk Dk E. destruct (wf_parent s W k rk Lk Dk) as (pr & Lp & _). rewrite E, L in Lp. discriminate.
Qed.

(* ---- fault-free evaluation of the primitives ---- *)
Definition nf (st : kv) : Prop := st_fault st = None.
(* read-only: the records and the absence of a fault are what they were *)
Definition ro (st st' : kv) : Prop := st_store st' = st_store st /\ nf st'.

Lemma ro_refl st : nf st -> ro st st. Proof. intros H; split; auto. Qed.
Lemma ro_trans a b c : ro a b -> ro b c -> ro a c.
Proof. intros [A B] [C D]. split; [congruence|exact D]. Qed.

Lemma tick_nf st : nf st -> ro st (fst (tick st)) /\ snd (tick st) = false.
Proof. unfold nf, ro, tick. intros H. simpl. rewrite H. repeat split; reflexivity. Qed.

Lemma sget_nf st p : nf st ->
  ro st (fst (sget st p)) /\
  snd (sget st p) = match lookup (st_store st) p with Some r => inl r | None => inr (Bare ENOENT) end.
Proof.
  intros H. unfold sget. destruct (tick_nf st H) as [[S N] B]. destruct (tick st) as [st1 bad]. cbn [fst snd] in *. subst bad.
  rewrite S. destruct (lookup (st_store st) p); simpl; repeat split; auto.
Qed.

Lemma not_dir_walk_nf fuel : forall st dir e, nf st -> ro st (fst (not_dir_walk fuel st dir e)).
Proof.
  induction fuel as [|fuel IH]; intros st dir e H; simpl.
  - destruct (str_eqb dir dot); apply ro_refl; exact H.
  - destruct (str_eqb dir dot); [apply ro_refl; exact H|].
    destruct (sget_nf st dir H) as [R _]. destruct (sget st dir) as [st1 r]. simpl in R.
    destruct r as [rc|e']; [exact R|]. destruct (cls_eqb (err_cls e') ENOENT); [|exact R].
    eapply ro_trans; [exact R|]. apply IH. apply R.
Qed.

Lemma not_dir_err_nf st p e : nf st -> ro st (fst (not_dir_err st p e)).
Proof. intros H. unfold not_dir_err. destruct (_ && _); [apply not_dir_walk_nf; exact H|apply ro_refl; exact H]. Qed.

(* getFile: the record under a valid name, or an error and nothing changed *)
Lemma get_file_nf st p : nf st ->
  ro st (fst (get_file st p)) /\
  match snd (get_file st p) with
  | inl f => exists rc, lookup (st_store st) p = Some rc /\ f = mk_file p rc /\ valid_path p = true
  | inr e => (valid_path p = false /\ e = Bare EINVAL) \/ (valid_path p = true /\ lookup (st_store st) p = None)
  end.
Proof.
  intros H. unfold get_file. destruct (valid_path p) eqn:V; simpl.
  - destruct (sget_nf st p H) as [R E]. destruct (sget st p) as [st1 r]. cbn [fst snd] in *. subst r.
    destruct (lookup (st_store st) p) as [rc|] eqn:L.
    + simpl. split; [exact R|]. exists rc. auto.
    + pose proof (not_dir_err_nf st1 p (Bare ENOENT) (proj2 R)) as R2.
      destruct (not_dir_err st1 p (Bare ENOENT)) as [st2 e']. cbn [fst snd] in *. split; [eapply ro_trans; eauto|auto].
  - split; [apply ro_refl; exact H|auto].
Qed.

Lemma kv_stat_nf st p : nf st ->
  ro st (fst (kv_stat st p)) /\
  match snd (kv_stat st p) with
  | inl f => exists rc, lookup (st_store st) p = Some rc /\ f = mk_file p rc /\ valid_path p = true
  | inr e => (valid_path p = false /\ e = PathErr p EINVAL) \/ (valid_path p = true /\ lookup (st_store st) p = None)
  end.
Proof.
  intros H. unfold kv_stat. destruct (get_file_nf st p H) as [R E]. destruct (get_file st p) as [st1 r]. cbn [fst snd] in *.
  destruct r as [f|e]; simpl; [split; [exact R|exact E]|]. split; [exact R|].
  destruct E as [[V ->]|E]; [left; split; [exact V|reflexivity]|right; exact E].
Qed.

(* ---- mode bits ---- *)
Lemma ModeDir_bit m : N.testbit (N.land m ModeDir) 31 = N.testbit m 31.
Proof. rewrite N.land_spec. change ModeDir with (2 ^ 31). rewrite N.pow2_bits_true. apply andb_true_r. Qed.

Lemma is_dir_bit m : is_dir m = N.testbit m 31.
Proof.
  unfold is_dir. destruct (N.testbit m 31) eqn:B.
  - destruct (N.eqb_spec (N.land m ModeDir) 0) as [E|_]; [|reflexivity].
    pose proof (ModeDir_bit m) as X. rewrite E, B in X. rewrite N.bits_0 in X. discriminate.
  - destruct (N.eqb_spec (N.land m ModeDir) 0) as [_|NE]; [reflexivity|]. exfalso. apply NE.
    apply N.bits_inj_0. intros i. rewrite N.land_spec. change ModeDir with (2 ^ 31).
    destruct (N.eq_dec i 31) as [->|Hi]; [rewrite B; reflexivity|].
    rewrite N.pow2_bits_false by congruence. apply andb_false_r.
Qed.

Lemma is_dir_lor_ModeDir x : is_dir (N.lor ModeDir x) = true.
Proof. rewrite is_dir_bit, N.lor_spec. change ModeDir with (2 ^ 31). rewrite N.pow2_bits_true. reflexivity. Qed.

Lemma is_dir_land_perm x : is_dir (N.land x ModePerm) = false.
Proof. rewrite is_dir_bit, N.land_spec. replace (N.testbit ModePerm 31) with false by reflexivity. apply andb_false_r. Qed.

Lemma is_regular_not_dir m : is_dir m = true -> is_regular m = false.
Proof.
  rewrite is_dir_bit. intros B. unfold is_regular. apply N.eqb_neq. intros E.
  assert (X : N.testbit (N.land m ModeType) 31 = true).
  { rewrite N.land_spec, B. reflexivity. }
  rewrite E, N.bits_0 in X. discriminate.
Qed.

Lemma chmod_mode_is_dir old m : is_dir (chmod_mode old m) = is_dir old.
Proof.
  rewrite !is_dir_bit. unfold chmod_mode. rewrite N.lor_spec, N.ldiff_spec, N.land_spec.
  replace (N.testbit chmod_bits 31) with false by reflexivity. rewrite andb_false_r, orb_false_r. apply andb_true_r.
Qed.

(* ---- handle bookkeeping that leaves path and mode alone ---- *)
Lemma f_data_keeps st h : h_path (snd (fst (f_data st h))) = h_path h /\ f_mode (snd (fst (f_data st h))) = f_mode h.
Proof.
  unfold f_data. destruct (h_loaded h); [auto|]. destruct (h_fresh h); [destruct h; auto|].
  destruct (sdata st). destruct h; auto.
Qed.

Lemma f_data_nf st h : nf st -> ro st (fst (fst (f_data st h))).
Proof.
  intros H. unfold f_data. destruct (h_loaded h); [apply ro_refl; exact H|].
  destruct (h_fresh h); [apply ro_refl; exact H|]. unfold sdata.
  destruct (tick_nf st H) as [R _]. destruct (tick st). exact R.
Qed.

(* ---- Set ---- *)
Lemma sset_nf st p r : nf st ->
  nf (fst (sset st p r)) /\ snd (sset st p r) = None /\
  st_store (fst (sset st p r)) = match r with Some x => insert (st_store st) p x | None => remove_key (st_store st) p end.
Proof.
  intros H. unfold sset. destruct (tick_nf st H) as [[S N] B]. destruct (tick st) as [st1 bad]. cbn [fst snd] in *. subst bad.
  destruct r; simpl; rewrite S; repeat split; auto.
Qed.

(* setFile(path, file): refused with nothing changed, or one record written under the path with the file's mode *)
Lemma set_file_some_nf st p h : nf st ->
  let r := set_file st p (Some h) in
  nf (fst (fst r)) /\
  (((exists e0, snd r = Some e0 /\ cls_eqb (err_cls e0) EEXIST = false) /\ st_store (fst (fst r)) = st_store st) \/
   (snd r = None /\ valid_path p = true /\
    exists rc, r_mode rc = f_mode h /\ st_store (fst (fst r)) = insert (st_store st) p rc)).
Proof.
  intros H. unfold set_file.
  assert (D : let x := (if is_regular (f_mode h) then f_data st h else (st, h, true)) in
              ro st (fst (fst x)) /\ f_mode (snd (fst x)) = f_mode h).
  { destruct (is_regular (f_mode h)); [split; [apply f_data_nf; exact H|apply f_data_keeps]|split; [apply ro_refl; exact H|reflexivity]]. }
  destruct (if is_regular (f_mode h) then f_data st h else (st, h, true)) as [[st1 h1] okb]. simpl in D. destruct D as [[S N] M].
  destruct okb; simpl.
  - destruct (valid_path p) eqn:V; simpl.
    + destruct (sset_nf st1 p (Some (mkRec (f_mode h1) (f_mtime h1) (h_cell h1))) N) as (N2 & E2 & S2).
      destruct (sset st1 p _) as [st2 e]. cbn [fst snd] in *. split; [exact N2|]. right. subst e. repeat split; auto.
      eexists. split; [|rewrite S2, S; reflexivity]. exact M.
    + split; [exact N|]. left. split; [eexists; split; reflexivity|exact S].
  - split; [exact N|]. left. split; [eexists; split; reflexivity|exact S].
Qed.

Lemma set_file_none_nf st p : nf st ->
  let r := set_file st p None in
  nf (fst (fst r)) /\
  ((snd r <> None /\ st_store (fst (fst r)) = st_store st) \/
   (snd r = None /\ st_store (fst (fst r)) = remove_key (st_store st) p)).
Proof.
  intros H. unfold set_file. destruct (valid_path p); simpl.
  - destruct (sset_nf st p None H) as (N2 & E2 & S2). destruct (sset st p None) as [st2 e]. cbn [fst snd] in *.
    split; [exact N2|]. right. auto.
  - split; [exact H|]. left. split; [discriminate|reflexivity].
Qed.

Lemma save_nf st h : nf st ->
  let r := save st h in
  nf (fst (fst r)) /\
  (((exists e0, snd r = Some e0 /\ cls_eqb (err_cls e0) EEXIST = false) /\ st_store (fst (fst r)) = st_store st) \/
   (snd r = None /\ valid_path (h_path h) = true /\
    exists rc, r_mode rc = f_mode h /\ st_store (fst (fst r)) = insert (st_store st) (h_path h) rc)).
Proof.
  intros H. unfold save. pose proof (set_file_some_nf st (h_path h) h H) as X.
  destruct (set_file st (h_path h) (Some h)) as [[st1 h1] e]. exact X.
Qed.

(* ---- the invariant carried through an operation ---- *)
Definition good (st : kv) : Prop := nf st /\ wf_store (st_store st).

Lemma good_ro st st' : good st -> ro st st' -> good st'.
Proof. intros [N W] [S N']. split; [exact N'|rewrite S; exact W]. Qed.

(* a handle that stands for an existing record of the same kind *)
Definition hfaith (s : store) (h : handle) : Prop :=
  exists r0, lookup s (h_path h) = Some r0 /\ is_dir (r_mode r0) = is_dir (f_mode h).

Lemma save_good st h : good st -> hfaith (st_store st) h -> good (fst (fst (save st h))).
Proof.
  intros [N W] (r0 & L & K). destruct (save_nf st h N) as [N' [[_ S]|(_ & V & rc & M & S)]];
    (split; [exact N'|]); rewrite S; [exact W|].
  apply wf_insert; [exact W|eapply wf_valid; eauto| |].
  - destruct (str_eqb_spec (h_path h) dot) as [E|NE]; [left; exact E|right; eapply wf_parent; eauto].
  - rewrite M. destruct (is_dir (f_mode h)) eqn:D; [left; reflexivity|right]. split.
    + intros E. destruct (wf_root _ W) as (rr & Lr & Dr). rewrite E in L. rewrite L in Lr. inversion Lr; subst. congruence.
    + eapply nondir_childless; eauto.
Qed.

(* creating a new entry below an existing directory *)
Lemma save_new_good st h : good st -> valid_path (h_path h) = true -> h_path h <> dot ->
  has_dir (st_store st) (path_dir (h_path h)) -> lookup (st_store st) (h_path h) = None ->
  good (fst (fst (save st h))).
Proof.
  intros [N W] V D P L. destruct (save_nf st h N) as [N' [[_ S]|(_ & _ & rc & M & S)]];
    (split; [exact N'|]); rewrite S; [exact W|].
  apply wf_insert; [exact W|apply valid_key_ok; exact V|right; exact P|].
  destruct (is_dir (r_mode rc)); [left; reflexivity|right; split; [exact D|apply missing_childless; assumption]].
Qed.

Lemma new_file_ro st p fl m : nf st -> ro st (fst (new_file st p fl m)).
Proof. intros H. unfold new_file, alloc_cell, set_heap, ro, nf. simpl. auto. Qed.

Lemma new_file_path st p fl m : h_path (snd (new_file st p fl m)) = p /\ f_mode (snd (new_file st p fl m)) = m.
Proof. unfold new_file, alloc_cell. simpl. auto. Qed.

(* ---- Mkdir ---- *)
Theorem kv_mkdir_good st p perm : good st -> good (fst (kv_mkdir st p perm)).
Proof.
  intros G. unfold kv_mkdir. destruct (kv_stat_nf st p (proj1 G)) as [R1 E1]. destruct (kv_stat st p) as [st1 r1]. cbn [fst snd] in *.
  pose proof (good_ro _ _ G R1) as G1.
  destruct r1 as [f|e]; [exact G1|].
  destruct (negb (cls_eqb (err_cls e) ENOENT)) eqn:C; [exact G1|].
  destruct E1 as [[V ->]|[V L]]; [discriminate|].
  destruct (str_eqb_spec p dot) as [->|Dp].
  { exfalso. destruct (wf_root _ (proj2 G)) as (rr & Lr & _). congruence. }
  destruct (kv_stat_nf st1 (path_dir p) (proj1 G1)) as [R2 E2]. destruct (kv_stat st1 (path_dir p)) as [st2 r2]. cbn [fst snd] in *.
  pose proof (good_ro _ _ G1 R2) as G2.
  destruct r2 as [par|e2]; [|exact G2].
  destruct (is_dir (f_mode par)) eqn:Dpar; [|exact G2].
  destruct (new_file_ro st2 p 0 (N.lor ModeDir (N.land perm ModePerm)) (proj1 G2)) as [S3 N3].
  pose proof (new_file_path st2 p 0 (N.lor ModeDir (N.land perm ModePerm))) as [P3 M3].
  destruct (new_file st2 p 0 (N.lor ModeDir (N.land perm ModePerm))) as [st3 f]. cbn [fst snd] in *.
  assert (G3 : good st3) by (split; [exact N3|rewrite S3; apply G2]).
  destruct E2 as (rc & Lp & -> & Vd).
  pose proof (save_new_good st3 f G3) as X. destruct (save st3 f) as [[st4 f'] e4]. cbn [fst snd] in *.
  apply X; rewrite ?P3; auto.
  - exists rc. rewrite S3, (proj1 R2). split; [exact Lp|exact Dpar].
  - rewrite S3, (proj1 R2), (proj1 R1). exact L.
Qed.

(* ---- Chmod / Chtimes: the record is rewritten with the same kind ---- *)
Lemma mk_file_path p rc : h_path (mk_file p rc) = p /\ f_mode (mk_file p rc) = r_mode rc.
Proof. unfold mk_file, f_mode. simpl. auto. Qed.

Theorem kv_chmod_good st p m : good st -> good (fst (kv_chmod st p m)).
Proof.
  intros G. unfold kv_chmod. destruct (get_file_nf st p (proj1 G)) as [R1 E1]. destruct (get_file st p) as [st1 r]. cbn [fst snd] in *.
  pose proof (good_ro _ _ G R1) as G1. destruct r as [f|e]; [|exact G1].
  destruct E1 as (rc & L & -> & V).
  pose proof (save_good st1 (with_mode_ov (mk_file p rc) (chmod_mode (f_mode (mk_file p rc)) m)) G1) as X.
  destruct (save st1 _) as [[st2 f'] e2]. cbn [fst snd] in *. apply X.
  exists rc. split; [rewrite (proj1 R1); exact L|].
  unfold with_mode_ov, f_mode at 1. cbn. rewrite chmod_mode_is_dir. reflexivity.
Qed.

Theorem kv_chtimes_good st p t : good st -> good (fst (kv_chtimes st p t)).
Proof.
  intros G. unfold kv_chtimes. destruct (get_file_nf st p (proj1 G)) as [R1 E1]. destruct (get_file st p) as [st1 r]. cbn [fst snd] in *.
  pose proof (good_ro _ _ G R1) as G1. destruct r as [f|e]; [|exact G1].
  destruct E1 as (rc & L & -> & V).
  pose proof (save_good st1 (with_mtime_ov (mk_file p rc) (Explicit t)) G1) as X.
  destruct (save st1 _) as [[st2 f'] e2]. cbn [fst snd] in *. apply X.
  exists rc. split; [rewrite (proj1 R1); exact L|reflexivity].
Qed.

(* ---- the directory listing sees every child ---- *)
Lemma contains_byte_no_slash s : no_slash s -> contains_byte slash s = false.
Proof.
  unfold contains_byte. induction s as [|c s IH]; intros H; [reflexivity|]. cbn [existsb].
  rewrite IH by (intros X; apply H; right; exact X).
  destruct (N.eqb_spec slash c) as [<-|_]; [exfalso; apply H; left; reflexivity|reflexivity].
Qed.

Lemma has_prefix_app' a b : has_prefix (a ++ b) a = true.
Proof. induction a as [|x a IH]; simpl; [destruct b; reflexivity|]. rewrite N.eqb_refl. exact IH. Qed.

Lemma skipn_app_exact {A} (a b : list A) : skipn (length a) (a ++ b) = b.
Proof. induction a; simpl; auto. Qed.

Lemma child_name_of_child p k : elems_ok k -> path_dir k = p -> child_name p k <> None.
Proof.
  intros E D. unfold child_name. destruct (elems_shape k E) as [[NS Hd]|(a & b & -> & NS & Ea & Eb & Hd)].
  - rewrite Hd in D. subst p. cbn [str_eqb dot N.eqb Pos.eqb andb].
    destruct (str_eqb_spec k dot) as [->|_]; [exfalso; exact (elems_ok_not_dot _ E eq_refl)|].
    rewrite contains_byte_no_slash by exact NS. discriminate.
  - rewrite Hd in D. subst p. destruct (str_eqb_spec a dot) as [->|_]; [exfalso; exact (elems_ok_not_dot _ Ea eq_refl)|].
    replace (a ++ slash :: b) with ((a ++ [slash]) ++ b) by (rewrite <- app_assoc; reflexivity).
    rewrite has_prefix_app', skipn_app_exact, contains_byte_no_slash by exact NS. discriminate.
Qed.

Lemma lookup_in s k r : lookup s k = Some r -> exists r', In (k, r') s.
Proof.
  induction s as [|[k0 v] s IH]; simpl; [discriminate|].
  destruct (str_eqb_spec k0 k) as [->|NE]; [intros _; exists v; left; reflexivity|].
  intros H. destruct (IH H) as [r' I]. exists r'. right. exact I.
Qed.

Lemma child_names_in p s k r' : In (k, r') s -> child_name p k <> None -> child_names p s <> [].
Proof.
  induction s as [|[k0 v] s IH]; simpl; [contradiction|].
  intros [E|I] C.
  - inversion E; subst. destruct (child_name p k); [discriminate|congruence].
  - destruct (child_name p k0); [discriminate|]. apply IH; assumption.
Qed.

Lemma empty_listing_childless s p : wf_store s -> child_names p s = [] -> childless s p.
Proof.
  intros W C k rk L Dk E.
  destruct (wf_valid _ W k rk L) as [->|Ek]; [congruence|].
  destruct (lookup_in s k rk L) as [r' I].
  apply (child_names_in p s k r' I); [apply child_name_of_child; assumption|exact C].
Qed.

(* ---- Remove ---- *)
Theorem kv_remove_good st p : good st -> good (fst (kv_remove st p)).
Proof.
  intros G. unfold kv_remove. destruct (get_file_nf st p (proj1 G)) as [R1 E1]. destruct (get_file st p) as [st1 r]. cbn [fst snd] in *.
  pose proof (good_ro _ _ G R1) as G1. destruct r as [f|e]; [|exact G1].
  destruct (str_eqb_spec p dot) as [->|Dp]; [exact G1|].
  destruct E1 as (rc & L & -> & V).
  assert (B : let r := (if is_dir (f_mode (mk_file p rc)) then
                          let '(st2, _, ns) := f_names st1 (mk_file p rc) in
                          match ns with
                          | inr e => (st2, Some (wrap p e))
                          | inl [] => (st2, None)
                          | inl _ => (st2, Some (PathErr p ENOTEMPTY))
                          end
                        else (st1, None)) in
              ro st1 (fst r) /\ (snd r = None -> childless (st_store st1) p)).
  { destruct (is_dir (f_mode (mk_file p rc))) eqn:D.
    - unfold f_names. cbn [h_names h_fresh mk_file]. unfold snames.
      destruct (tick_nf st1 (proj1 G1)) as [Rt Bt]. destruct (tick st1) as [stt bad]. cbn [fst snd] in *. subst bad.
      cbn [h_path h_mode mk_file]. change (r_mode rc) with (f_mode (mk_file p rc)). rewrite D.
      destruct (child_names p (st_store stt)) as [|x l] eqn:CN; cbn [fst snd]; (split; [exact Rt|]); [|discriminate].
      intros _. apply empty_listing_childless; [apply G1|]. rewrite <- (proj1 Rt). exact CN.
    - cbn [fst snd]. split; [apply ro_refl; apply G1|]. intros _.
      eapply nondir_childless; [apply G1|rewrite (proj1 R1); exact L|exact D]. }
  destruct (if is_dir (f_mode (mk_file p rc)) then _ else _) as [st2 blocked]. cbn [fst snd] in B. destruct B as [R2 Ch].
  pose proof (good_ro _ _ G1 R2) as G2.
  destruct blocked as [e|]; [exact G2|].
  destruct (set_file_none_nf st2 p (proj1 G2)) as [N3 [[_ S3]|[_ S3]]];
    destruct (set_file st2 p None) as [[st3 x] e3]; cbn [fst snd] in *; (split; [exact N3|]); rewrite S3; [apply G2|].
  apply wf_delete; [apply G2|exact Dp|]. rewrite (proj1 R2). apply Ch. reflexivity.
Qed.

(* ---- handles through the bookkeeping functions ---- *)
Definition keeps (h h' : handle) : Prop := h_path h' = h_path h /\ f_mode h' = f_mode h.

Lemma keeps_refl h : keeps h h. Proof. split; reflexivity. Qed.
Lemma keeps_trans a b c : keeps a b -> keeps b c -> keeps a c.
Proof. intros [A B] [C D]. split; congruence. Qed.

Lemma hfaith_keeps s h h' : hfaith s h -> keeps h h' -> hfaith s h'.
Proof. intros (r0 & L & K) [P M]. exists r0. rewrite P, M. auto. Qed.

Lemma f_data_keeps' st h : keeps h (snd (fst (f_data st h))).
Proof. destruct (f_data_keeps st h). split; assumption. Qed.

Lemma stamp_clock_keeps h : keeps h (stamp_clock h).
Proof. destruct h; split; reflexivity. Qed.

Lemma with_open_keeps h fl w : keeps h (with_open h fl w).
Proof. destruct h; split; reflexivity. Qed.

Lemma f_size_keeps st h : keeps h (fst (f_size st h)).
Proof. unfold f_size. destruct h; split; reflexivity. Qed.

Lemma cur_size_spec st h : nf st -> ro st (fst (fst (cur_size st h))) /\ keeps h (snd (fst (cur_size st h))).
Proof.
  intros H. unfold cur_size. pose proof (f_data_nf st h H) as R. pose proof (f_data_keeps' st h) as K.
  destruct (f_data st h) as [[st1 h1] ok]. cbn [fst snd] in *.
  pose proof (f_size_keeps st1 h1) as K2. destruct (f_size st1 h1) as [h2 n]. cbn [fst snd] in *.
  split; [exact R|eapply keeps_trans; eauto].
Qed.

Lemma set_cell_ro st c d : nf st -> ro st (set_cell st c d).
Proof. intros H. unfold set_cell, set_heap, ro, nf. simpl. auto. Qed.

Lemma set_file_handle st p h : match snd (fst (set_file st p (Some h))) with Some h1 => keeps h h1 | None => True end.
Proof.
  unfold set_file.
  assert (D : keeps h (snd (fst (if is_regular (f_mode h) then f_data st h else (st, h, true))))).
  { destruct (is_regular (f_mode h)); [apply f_data_keeps'|apply keeps_refl]. }
  destruct (if is_regular (f_mode h) then f_data st h else (st, h, true)) as [[st1 h1] okb]. cbn [fst snd] in D.
  destruct okb; cbn [negb]; [|exact D]. destruct (negb (valid_path p)); [exact D|].
  destruct (sset st1 p _). exact D.
Qed.

Lemma save_faith st h : good st -> hfaith (st_store st) h ->
  good (fst (fst (save st h))) /\ hfaith (st_store (fst (fst (save st h)))) (snd (fst (save st h))) /\ keeps h (snd (fst (save st h))).
Proof.
  intros G F. pose proof (save_good st h G F) as G'.
  assert (K : keeps h (snd (fst (save st h)))).
  { unfold save. pose proof (set_file_handle st (h_path h) h) as X.
    destruct (set_file st (h_path h) (Some h)) as [[st1 [h1|]] e]; cbn [fst snd] in *; [exact X|apply keeps_refl]. }
  split; [exact G'|]. split; [|exact K].
  destruct (save_nf st h (proj1 G)) as [_ [[_ S]|(_ & _ & rc & M & S)]]; rewrite S.
  - eapply hfaith_keeps; eauto.
  - exists rc. rewrite (proj1 K), lookup_insert, str_eqb_refl. split; [reflexivity|]. rewrite M, (proj2 K). reflexivity.
Qed.

(* ---- Truncate and WriteAt through a faithful handle ---- *)
Lemma file_truncate_faith st h size : good st -> hfaith (st_store st) h ->
  let r := file_truncate st h size in
  good (fst (fst r)) /\ hfaith (st_store (fst (fst r))) (snd (fst r)).
Proof.
  intros G F. unfold file_truncate.
  destruct (h_closed h); [split; assumption|].
  destruct (is_dir (f_mode h)); [split; assumption|].
  pose proof (f_data_nf st h (proj1 G)) as R1. pose proof (f_data_keeps' st h) as K1.
  destruct (f_data st h) as [[st1 h1] ok]. cbn [fst snd] in *.
  pose proof (f_size_keeps st1 h1) as K2. destruct (f_size st1 h1) as [h2 n]. cbn [fst snd] in *.
  pose proof (good_ro _ _ G R1) as G1.
  assert (F2 : hfaith (st_store st1) h2).
  { rewrite (proj1 R1). eapply hfaith_keeps; [exact F|eapply keeps_trans; eauto]. }
  destruct (size <? 0)%Z; [split; assumption|].
  destruct (size =? Z.of_nat n)%Z; [split; assumption|].
  destruct (negb ok); [split; assumption|].
  set (st2 := set_cell st1 (h_cell h2) (resize (cell st1 (h_cell h2)) (Z.to_nat size))).
  assert (G2 : good st2) by (eapply good_ro; [exact G1|apply set_cell_ro; apply G1]).
  assert (F3 : hfaith (st_store st2) (stamp_clock h2)) by (eapply hfaith_keeps; [exact F2|apply stamp_clock_keeps]).
  destruct (save_faith st2 (stamp_clock h2) G2 F3) as (G3 & F4 & _).
  destruct (save st2 (stamp_clock h2)) as [[st3 h3] e]. cbn [fst snd] in *. split; assumption.
Qed.

Lemma write_at_good st h d off : good st -> hfaith (st_store st) h -> good (fst (fst (fst (write_at st h d off)))).
Proof.
  intros G F. unfold write_at. destruct (h_closed h); [exact G|].
  assert (A : let x := (if has_flag (h_flag h) F_APPEND then cur_size st h else (st, h, off)) in
              ro st (fst (fst x)) /\ keeps h (snd (fst x))).
  { destruct (has_flag (h_flag h) F_APPEND); [apply cur_size_spec; apply G|split; [apply ro_refl; apply G|apply keeps_refl]]. }
  destruct (if has_flag (h_flag h) F_APPEND then cur_size st h else (st, h, off)) as [[st1 h1] off1]. cbn [fst snd] in A.
  destruct A as [R1 K1]. pose proof (good_ro _ _ G R1) as G1.
  destruct (off1 <? 0)%Z; [exact G1|].
  destruct d as [|d0 d']; [exact G1|].
  destruct (cur_size_spec st1 h1 (proj1 G1)) as [R2 K2]. destruct (cur_size st1 h1) as [[st2 h2] sz]. cbn [fst snd] in *.
  pose proof (good_ro _ _ G1 R2) as G2.
  pose proof (f_data_nf st2 h2 (proj1 G2)) as R3. pose proof (f_data_keeps' st2 h2) as K3.
  destruct (f_data st2 h2) as [[st3 h3] ok]. cbn [fst snd] in *.
  pose proof (good_ro _ _ G2 R3) as G3.
  destruct (negb ok); [exact G3|].
  match goal with |- context [save ?s ?hh] => set (st4 := s); set (h4 := hh) end.
  assert (G4 : good st4) by (eapply good_ro; [exact G3|apply set_cell_ro; apply G3]).
  assert (F4 : hfaith (st_store st4) h4).
  { unfold st4. cbn [set_cell set_heap st_store]. rewrite (proj1 R3), (proj1 R2), (proj1 R1).
    eapply hfaith_keeps; [exact F|].
    eapply keeps_trans; [exact K1|]. eapply keeps_trans; [exact K2|]. eapply keeps_trans; [exact K3|].
    unfold h4. destruct (_ =? 0)%Z; [apply keeps_refl|apply stamp_clock_keeps]. }
  destruct (save_faith st4 h4 G4 F4) as (G5 & _ & _). destruct (save st4 h4) as [[st5 h5] e]. exact G5.
Qed.

(* ---- several Gets in one transaction ---- *)
Definition look (s : store) (p : str) : rec + err :=
  match lookup s p with Some r => inl r | None => inr (Bare ENOENT) end.

Lemma get_records_nf ps : forall st, nf st ->
  ro st (fst (get_records st ps)) /\ snd (get_records st ps) = map (look (st_store st)) ps.
Proof.
  induction ps as [|p ps IH]; intros st H; simpl.
  - split; [apply ro_refl; exact H|reflexivity].
  - destruct (sget_nf st p H) as [R1 E1]. destruct (sget st p) as [st1 r]. cbn [fst snd] in *.
    destruct (IH st1 (proj2 R1)) as [R2 E2]. destruct (get_records st1 ps) as [st2 rs]. cbn [fst snd] in *.
    split; [eapply ro_trans; eauto|]. rewrite E1, E2, (proj1 R1). reflexivity.
Qed.

(* ---- OpenFile ---- *)
Theorem kv_openfile_faith st p flag perm : good st ->
  let r := kv_openfile st p flag perm in
  good (fst r) /\ match snd r with inl f => hfaith (st_store (fst r)) f | inr _ => True end.
Proof.
  intros G. unfold kv_openfile.
  set (create := has_flag flag F_CREATE).
  set (ps := if create then [p; path_dir p] else [p]).
  destruct (forallb valid_path ps) eqn:VA; cbn [negb]; [|split; [exact G|exact I]].
  assert (Vp : valid_path p = true).
  { unfold ps in VA. destruct create; simpl in VA; apply andb_true_iff in VA; tauto. }
  destruct (get_records_nf ps st (proj1 G)) as [R1 E1]. destruct (get_records st ps) as [st1 rs]. cbn [fst snd] in *.
  pose proof (good_ro _ _ G R1) as G1.
  assert (E0 : nth 0 rs (inr (Bare EOTHER)) = look (st_store st) p).
  { rewrite E1. unfold ps. destruct create; reflexivity. }
  rewrite E0.
  (* the first phase: which file object, if any *)
  assert (Ph : let x :=
      match look (st_store st) p with
      | inl rc =>
        if create && has_flag flag F_EXCL then (st1, inr (PathErr p EEXIST))
        else if is_dir (r_mode rc) && has_flag flag dir_open_mask then (st1, inr (PathErr p EISDIR))
        else (st1, inl (mk_file p rc))
      | inr e =>
        if cls_eqb (err_cls e) ENOENT && create then
          match nth 1 rs (inr (Bare EOTHER)) with
          | inr e1 => let '(stx, e1') := not_dir_err st1 (path_dir p) e1 in (stx, inr (wrap p e1'))
          | inl par =>
            if negb (is_dir (r_mode par)) then (st1, inr (PathErr p ENOTDIR))
            else
              let '(sta, f) := new_file st1 p flag (N.land perm ModePerm) in
              let '(stb, f', e) := save sta f in
              match e with
              | Some e => (stb, inr (wrap p e))
              | None => (stb, inl f')
              end
          end
        else let '(stx, e') := not_dir_err st1 p e in (stx, inr (wrap p e'))
      end in
    good (fst x) /\ match snd x with inl f => hfaith (st_store (fst x)) f | inr _ => True end).
  { unfold look. destruct (lookup (st_store st) p) as [rc|] eqn:L.
    - destruct (create && has_flag flag F_EXCL); [split; [exact G1|exact I]|].
      destruct (is_dir (r_mode rc) && has_flag flag dir_open_mask); [split; [exact G1|exact I]|].
      cbn [fst snd]. split; [exact G1|]. exists rc. rewrite (proj1 R1). split; [exact L|reflexivity].
    - cbn [err_cls cls_eqb andb]. destruct create eqn:C.
      + assert (E1' : nth 1 rs (inr (Bare EOTHER)) = look (st_store st) (path_dir p)).
        { rewrite E1. unfold ps. reflexivity. }
        rewrite E1'. unfold look. destruct (lookup (st_store st) (path_dir p)) as [par|] eqn:LP.
        * destruct (is_dir (r_mode par)) eqn:DP; cbn [negb]; [|split; [exact G1|exact I]].
          destruct (new_file_ro st1 p flag (N.land perm ModePerm) (proj1 G1)) as [S3 N3].
          pose proof (new_file_path st1 p flag (N.land perm ModePerm)) as [P3 M3].
          destruct (new_file st1 p flag (N.land perm ModePerm)) as [sta f]. cbn [fst snd] in *.
          assert (Ga : good sta) by (split; [exact N3|rewrite S3; apply G1]).
          assert (Dp : p <> dot).
          { intros ->. destruct (wf_root _ (proj2 G)) as (rr & Lr & _). congruence. }
          pose proof (save_new_good sta f Ga) as X.
          pose proof (save_nf sta f (proj1 Ga)) as Y.
          pose proof (set_file_handle sta (h_path f) f) as Z.
          unfold save in *. destruct (set_file sta (h_path f) (Some f)) as [[stb h1] e]. cbn [fst snd] in *.
          assert (Gb : good stb).
          { apply X; rewrite ?P3; auto.
            - exists par. rewrite S3, (proj1 R1). split; [exact LP|exact DP].
            - rewrite S3, (proj1 R1). exact L. }
          destruct e as [e|]; cbn [fst snd]; [split; [exact Gb|exact I]|]. split; [exact Gb|].
          destruct Y as [_ [[(e0 & Ne & _) _]|(_ & _ & rc & M & S)]]; [congruence|].
          destruct h1 as [h1|]; cbn [fst snd] in *.
          -- exists rc. rewrite (proj1 Z), S, lookup_insert, str_eqb_refl. split; [reflexivity|]. rewrite M, (proj2 Z). reflexivity.
          -- exists rc. rewrite S, lookup_insert, str_eqb_refl. split; [reflexivity|]. rewrite M. reflexivity.
        * pose proof (not_dir_err_nf st1 (path_dir p) (Bare ENOENT) (proj1 G1)) as R2.
          destruct (not_dir_err st1 (path_dir p) (Bare ENOENT)) as [stx e1']. cbn [fst snd] in *.
          split; [eapply good_ro; eauto|exact I].
      + cbn [andb]. pose proof (not_dir_err_nf st1 p (Bare ENOENT) (proj1 G1)) as R2.
        destruct (not_dir_err st1 p (Bare ENOENT)) as [stx e']. cbn [fst snd] in *.
        split; [eapply good_ro; eauto|exact I]. }
  match goal with |- context [let '(st2, res) := ?x in _] => destruct x as [st2 res] end.
  cbn [fst snd] in Ph. destruct Ph as [G2 F2].
  destruct res as [f|e]; [|split; [exact G2|exact I]].
  pose proof (hfaith_keeps _ _ _ F2 (with_open_keeps f flag (pick_wrapper flag))) as F3.
  destruct (has_flag flag F_TRUNC); [|split; [exact G2|exact F3]].
  destruct (file_truncate_faith st2 (with_open f flag (pick_wrapper flag)) 0%Z G2 F3) as [G3 F4].
  destruct (file_truncate st2 _ 0%Z) as [[st3 f2] e]. cbn [fst snd] in *.
  destruct e; cbn [fst snd]; split; auto.
Qed.

Theorem kv_writefile_good st p d perm : good st -> good (fst (kv_writefile st p d perm)).
Proof.
  intros G. unfold kv_writefile.
  destruct (kv_openfile_faith st p (N.lor F_WRONLY (N.lor F_CREATE F_TRUNC)) perm G) as [G1 F1].
  destruct (kv_openfile st p _ perm) as [st1 r]. cbn [fst snd] in *.
  destruct r as [h|e]; [|exact G1].
  pose proof (write_at_good st1 h d (h_off h) G1 F1) as X.
  destruct (write_at st1 h d (h_off h)) as [[[st2 h2] n] e]. exact X.
Qed.

(* ---- the readers change no record ---- *)
Lemma read_at_ro st h len off : nf st -> ro st (fst (fst (fst (read_at st h len off)))).
Proof.
  intros H. unfold read_at. destruct (h_closed h); [apply ro_refl; exact H|].
  destruct (cur_size_spec st h H) as [R1 _]. destruct (cur_size st h) as [[st1 h1] mx]. cbn [fst snd] in *.
  destruct (mx <=? off)%Z; [exact R1|].
  pose proof (f_data_nf st1 h1 (proj2 R1)) as R2. destruct (f_data st1 h1) as [[st2 h2] ok]. cbn [fst snd] in *.
  destruct (negb ok); [eapply ro_trans; eauto|]. destruct (off <? 0)%Z; eapply ro_trans; eauto.
Qed.

Lemma stat_children_ro dir names : forall st, nf st -> ro st (fst (stat_children st dir names)).
Proof.
  induction names as [|nm rest IH]; intros st H; simpl; [apply ro_refl; exact H|].
  destruct (kv_stat_nf st (join2 dir nm) H) as [R1 _]. destruct (kv_stat st (join2 dir nm)) as [st1 r]. cbn [fst snd] in *.
  destruct r as [f|e]; [|exact R1].
  pose proof (IH st1 (proj2 R1)) as R2. destruct (stat_children st1 dir rest) as [st2 rs]. cbn [fst snd] in *.
  destruct rs; eapply ro_trans; eauto.
Qed.

Lemma f_names_ro st h : nf st -> ro st (fst (fst (f_names st h))).
Proof.
  intros H. unfold f_names. destruct (h_names h); [apply ro_refl; exact H|].
  destruct (h_fresh h); [apply ro_refl; exact H|].
  unfold snames. destruct (tick_nf st H) as [R B]. destruct (tick st) as [st1 bad]. cbn [fst snd] in *. subst bad.
  destruct (is_dir (h_mode h)); exact R.
Qed.

Lemma read_dir_ro st h n : nf st -> ro st (fst (fst (fst (read_dir st h n)))).
Proof.
  intros H. unfold read_dir. destruct (h_closed h); [apply ro_refl; exact H|].
  pose proof (f_names_ro st h H) as R1. destruct (f_names st h) as [[st1 h1] ns]. cbn [fst snd] in *.
  destruct ns as [names|e]; [|exact R1].
  destruct (if (n <=? 0)%Z then _ else _) as [[s e] eof].
  destruct eof; [exact R1|].
  pose proof (stat_children_ro (h_path h) (sublist (Z.to_nat s) (Z.to_nat e) names) st1 (proj2 R1)) as R2.
  destruct (stat_children st1 (h_path h) _) as [st2 r]. cbn [fst snd] in *.
  destruct r; eapply ro_trans; eauto.
Qed.

Theorem kv_readdir_good st p : good st -> good (fst (kv_readdir st p)).
Proof.
  intros G. unfold kv_readdir. destruct (kv_openfile_faith st p O_RDONLY 0 G) as [G1 _].
  destruct (kv_openfile st p O_RDONLY 0) as [st1 r]. cbn [fst snd] in *. destruct r as [h|e]; [|exact G1].
  pose proof (read_dir_ro st1 h (-1)%Z (proj1 G1)) as R. destruct (read_dir st1 h (-1)%Z) as [[[st2 h2] l] e]. cbn [fst snd] in *.
  destruct e; eapply good_ro; eauto.
Qed.

Theorem kv_readfile_good st p : good st -> good (fst (kv_readfile st p)).
Proof.
  intros G. unfold kv_readfile. destruct (kv_openfile_faith st p O_RDONLY 0 G) as [G1 _].
  destruct (kv_openfile st p O_RDONLY 0) as [st1 r]. cbn [fst snd] in *. destruct r as [h|e]; [|exact G1].
  assert (A : let x := (if is_regular (f_mode h) then (let '(s, h', _) := f_data st1 h in (s, h')) else (st1, h)) in ro st1 (fst x)).
  { destruct (is_regular (f_mode h)); [|apply ro_refl; apply G1].
    pose proof (f_data_nf st1 h (proj1 G1)) as R. destruct (f_data st1 h) as [[s h'] ok]. exact R. }
  destruct (if is_regular (f_mode h) then _ else _) as [st2 h1]. cbn [fst snd] in A.
  pose proof (good_ro _ _ G1 A) as G2.
  pose proof (read_at_ro st2 h1 (Datatypes.S (length (cell st2 (h_cell h1)))) 0%Z (proj1 G2)) as R3.
  destruct (read_at st2 h1 _ 0%Z) as [[[st3 h3] d] e]. cbn [fst snd] in *.
  pose proof (good_ro _ _ G2 R3) as G3.
  destruct e as [e0|]; [|exact G3]. destruct e0 as [pp cc|oo nn cc|cc]; try exact G3. destruct cc; exact G3.
Qed.

(* ---- RemoveAll: Stat, Remove and ReadDir composed ---- *)
Lemma remove_all_good fuel : forall st p, good st -> good (fst (remove_all fuel st p)).
Proof.
  induction fuel as [|fuel IH]; intros st p G; simpl; [exact G|].
  destruct (kv_stat_nf st p (proj1 G)) as [R1 _]. destruct (kv_stat st p) as [st1 r]. cbn [fst snd] in *.
  pose proof (good_ro _ _ G R1) as G1. destruct r as [f|e]; [|exact G1].
  destruct (negb (is_dir (f_mode f))).
  - pose proof (kv_remove_good st1 p G1) as G2. destruct (kv_remove st1 p) as [st2 e]. exact G2.
  - pose proof (kv_readdir_good st1 p G1) as G2. destruct (kv_readdir st1 p) as [st2 rd]. cbn [fst snd] in *.
    destruct rd as [entries|e]; [|exact G2].
    assert (Go : forall l st0, good st0 ->
              good (fst ((fix go (st : kv) (l : list (str * N)) : kv * option err :=
                            match l with
                            | [] => (st, None)
                            | (nm, _) :: l' =>
                              let '(st', e) := remove_all fuel st (join2 p nm) in
                              match e with
                              | Some e => (st', Some (wrap p e))
                              | None => go st' l'
                              end
                            end) st0 l))).
    { induction l as [|[nm md] l IHl]; intros st0 G0; [exact G0|].
      pose proof (IH st0 (join2 p nm) G0) as Gx. destruct (remove_all fuel st0 (join2 p nm)) as [st' e]. cbn [fst snd] in *.
      destruct e; [exact Gx|apply IHl; exact Gx]. }
    specialize (Go entries st2 G2).
    match goal with |- context [let '(st3, e) := ?x in _] => destruct x as [st3 e] end. cbn [fst snd] in Go.
    destruct e; [exact Go|].
    pose proof (kv_remove_good st3 p Go) as G4. destruct (kv_remove st3 p) as [st4 e4]. exact G4.
Qed.

(* ---- MkdirAll ---- *)
(* deepest first; every element's parent is the next one; the last is the root *)
Inductive chain : list str -> Prop :=
| chain_dot : chain [dot]
| chain_cons p l : elems_ok p -> hd dot l = path_dir p -> chain l -> chain (p :: l).

Lemma ancestors_hd fuel p : hd dot (ancestors fuel p) = p.
Proof. destruct fuel; simpl; destruct (str_eqb_spec p dot) as [->|]; reflexivity. Qed.

Lemma ancestors_dot fuel : ancestors fuel dot = [dot].
Proof. destruct fuel; reflexivity. Qed.

Lemma ancestors_chain fuel : forall p, key_ok p -> (length p <= fuel)%nat -> chain (ancestors fuel p).
Proof.
  induction fuel as [|f IH]; intros p K L.
  - destruct K as [->|E]; [constructor|]. exfalso. apply (elems_ok_nonempty p E). destruct p; [reflexivity|simpl in L; lia].
  - destruct K as [->|E]; [constructor|]. simpl.
    destruct (str_eqb_spec p dot) as [->|_]; [constructor|].
    constructor; [exact E|apply ancestors_hd|].
    destruct (elems_shape p E) as [[_ H]|(a & b & Eq & _ & Ea & _ & H)]; rewrite H.
    + rewrite ancestors_dot. constructor.
    + apply IH; [right; exact Ea|]. rewrite Eq, app_length in L. simpl in L. lia.
Qed.

Lemma scan_spec s : forall ps acc out, scan_missing ps (map (look s) ps) acc = inl out ->
  exists missing rest, ps = missing ++ rest /\ out = acc ++ missing /\ (rest = [] \/ has_dir s (hd dot rest)).
Proof.
  induction ps as [|p ps IH]; intros acc out H; simpl in H.
  - inversion H; subst. exists [], []. split; [reflexivity|]. split; [symmetry; apply app_nil_r|left; reflexivity].
  - unfold look at 1 in H. destruct (lookup s p) as [rc|] eqn:L.
    + destruct (is_dir (r_mode rc)) eqn:D; [|discriminate]. inversion H; subst.
      exists [], (p :: ps). split; [reflexivity|]. split; [symmetry; apply app_nil_r|]. right. exists rc. auto.
    + cbn [err_cls cls_eqb] in H. destruct (IH _ _ H) as (missing & rest & -> & -> & R).
      exists (p :: missing), rest. split; [reflexivity|]. split; [rewrite <- app_assoc; reflexivity|exact R].
Qed.

Lemma make_dirs_app perm l1 : forall st l2,
  make_dirs st (l1 ++ l2) perm =
    let '(s1, e) := make_dirs st l1 perm in
    match e with Some x => (s1, Some x) | None => make_dirs s1 l2 perm end.
Proof.
  induction l1 as [|q l1 IH]; intros st l2; [reflexivity|]. cbn [app make_dirs].
  destruct (new_file st q 0 _) as [st1 f]. destruct (save st1 f) as [[st2 f'] e].
  destruct e as [e|]; [|apply IH]. destruct (cls_eqb (err_cls e) EEXIST); [apply IH|reflexivity].
Qed.

(* writing a directory record below an existing directory (or at the root) *)
Lemma save_dir_good st h : good st -> key_ok (h_path h) -> (h_path h = dot \/ has_dir (st_store st) (path_dir (h_path h))) ->
  is_dir (f_mode h) = true ->
  let r := save st h in
  good (fst (fst r)) /\
  ((exists e0, snd r = Some e0 /\ cls_eqb (err_cls e0) EEXIST = false) \/
   (snd r = None /\ has_dir (st_store (fst (fst r))) (h_path h) /\
    forall q, has_dir (st_store st) q -> has_dir (st_store (fst (fst r))) q)).
Proof.
  intros [N W] K P D. destruct (save_nf st h N) as [N' [[E S]|(E & _ & rc & M & S)]];
    cbn zeta; (split; [split; [exact N'|]|]); rewrite ?S.
  - exact W.
  - left. exact E.
  - apply wf_insert; auto. left. rewrite M. exact D.
  - right. split; [exact E|]. split.
    + exists rc. rewrite lookup_insert, str_eqb_refl. split; [reflexivity|rewrite M; exact D].
    + intros q (rq & Lq & Dq). unfold has_dir. rewrite lookup_insert.
      destruct (str_eqb (h_path h) q); [exists rc; split; [reflexivity|rewrite M; exact D]|exists rq; auto].
Qed.

Lemma make_dirs_chain perm rest : rest <> [] -> forall ms st, chain (ms ++ rest) -> good st ->
  has_dir (st_store st) (hd dot rest) ->
  let r := make_dirs st (rev ms) perm in
  good (fst r) /\ (snd r = None -> has_dir (st_store (fst r)) (hd dot (ms ++ rest))
                                  /\ forall q, has_dir (st_store st) q -> has_dir (st_store (fst r)) q).
Proof.
  intros NE. induction ms as [|m ms IH]; intros st C G HD; cbn zeta.
  - simpl. split; [exact G|]. intros _. split; [exact HD|auto].
  - cbn [rev app]. rewrite make_dirs_app.
    inversion C as [E0|? ? Em Hp C']; subst.
    { exfalso. destruct ms; [simpl in *; congruence|discriminate]. }
    destruct (IH st C' G HD) as [G1 F1]. destruct (make_dirs st (rev ms) perm) as [s1 e1]. cbn [fst snd] in *.
    destruct e1 as [x|]; [split; [exact G1|discriminate]|].
    destruct (F1 eq_refl) as [HD1 Mono1]. rewrite Hp in HD1.
    cbn [make_dirs].
    destruct (new_file_ro s1 m 0 (N.lor ModeDir (N.land perm ModePerm)) (proj1 G1)) as [S3 N3].
    pose proof (new_file_path s1 m 0 (N.lor ModeDir (N.land perm ModePerm))) as [P3 M3].
    destruct (new_file s1 m 0 (N.lor ModeDir (N.land perm ModePerm))) as [st3 f]. cbn [fst snd] in *.
    assert (G3 : good st3) by (split; [exact N3|rewrite S3; apply G1]).
    assert (X : let r := save st3 f in
                good (fst (fst r)) /\
                ((exists e0, snd r = Some e0 /\ cls_eqb (err_cls e0) EEXIST = false) \/
                 (snd r = None /\ has_dir (st_store (fst (fst r))) (h_path f) /\
                  forall q, has_dir (st_store st3) q -> has_dir (st_store (fst (fst r))) q))).
    { apply save_dir_good; [exact G3|rewrite P3; right; exact Em|rewrite P3, S3; right; exact HD1|rewrite M3; apply is_dir_lor_ModeDir]. }
    destruct (save st3 f) as [[st4 f'] e4]. cbn [fst snd] in X. destruct X as [G4 [(e0 & -> & Cl)|(-> & HDm & Mono)]].
    + rewrite Cl. cbn [fst snd]. split; [exact G4|discriminate].
    + cbn [fst snd]. split; [exact G4|]. intros _. rewrite P3 in HDm. split; [exact HDm|].
      intros q Hq. apply Mono. rewrite S3. apply Mono1. exact Hq.
Qed.

Theorem kv_mkdirall_good st p perm : good st -> good (fst (kv_mkdirall st p perm)).
Proof.
  intros G. unfold kv_mkdirall. destruct (valid_path p) eqn:V; cbn [negb]; [|exact G].
  pose proof (ancestors_chain (length p) p (valid_key_ok p V) (le_n _)) as C.
  destruct (get_records_nf (ancestors (length p) p) st (proj1 G)) as [R1 E1].
  destruct (get_records st (ancestors (length p) p)) as [st1 rs]. cbn [fst snd] in *.
  pose proof (good_ro _ _ G R1) as G1. rewrite E1.
  destruct (scan_missing (ancestors (length p) p) (map (look (st_store st)) (ancestors (length p) p)) []) as [missing|e] eqn:SC; [|exact G1].
  destruct (scan_spec _ _ _ _ SC) as (ms & rest & Eq & -> & RR). cbn [app].
  rewrite Eq in C.
  assert (NE : rest <> []).
  { intros ->. rewrite app_nil_r in *. 
    (* the chain ends at the root, which exists: it cannot be among the missing *)
    clear - C SC Eq G. exfalso.
    assert (In dot ms). { clear - C. induction C; [left; reflexivity|right; assumption]. }
    assert (Forall (fun q => lookup (st_store st) q = None) ms).
    { clear - SC Eq. rewrite Eq in SC. clear Eq. revert SC. generalize (@nil str). induction ms as [|m ms IH]; intros acc H; [constructor|].
      simpl in H. unfold look at 1 in H. destruct (lookup (st_store st) m) eqn:L.
      - destruct (is_dir (r_mode r)); [|discriminate]. inversion H as [X]. exfalso.
        apply (f_equal (@length _)) in X. rewrite app_length in X. simpl in X. lia.
      - constructor; [exact L|]. cbn [err_cls cls_eqb] in H. apply (IH (acc ++ [m])). rewrite <- app_assoc. exact H. }
    rewrite Forall_forall in H0. specialize (H0 dot H). destruct (wf_root _ (proj2 G)) as (rr & Lr & _). congruence. }
  destruct RR as [->|HD]; [congruence|].
  assert (HD1 : has_dir (st_store st1) (hd dot rest)) by (rewrite (proj1 R1); exact HD).
  destruct (make_dirs_chain perm rest NE ms st1 C G1 HD1) as [G2 _].
  destruct (make_dirs st1 (rev ms) perm) as [st2 e2]. exact G2.
Qed.

(* ---- Rename ---- *)
(* n is k itself or an ancestor of k, following path.Dir *)
Inductive anc (n : str) : str -> Prop :=
| anc_refl : anc n n
| anc_step k : k <> dot -> anc n (path_dir k) -> anc n k.

Lemma anc_exists s n k : wf_store s -> lookup s k <> None -> anc n k -> lookup s n <> None.
Proof.
  intros W L A. induction A as [|k D A IH]; [exact L|]. apply IH.
  destruct (lookup s k) as [r|] eqn:E; [|congruence].
  destruct (wf_parent s W k r E D) as (pr & Lp & _). congruence.
Qed.

Lemma anc_trans a b c : anc a b -> anc b c -> anc a c.
Proof. intros AB BC. induction BC as [|k D A IH]; [exact AB|]. apply anc_step; assumption. Qed.

Lemma in_lookup s k r : In (k, r) s -> lookup s k <> None.
Proof.
  induction s as [|[k0 v] s IH]; simpl; [contradiction|]. intros [E|I].
  - inversion E; subst. rewrite str_eqb_refl. discriminate.
  - destruct (str_eqb k0 k); [discriminate|apply IH; exact I].
Qed.

Lemma has_prefix_split s p : has_prefix s p = true -> s = p ++ skipn (length p) s.
Proof.
  revert s. induction p as [|x p IH]; intros s H; [reflexivity|].
  destruct s as [|y s]; simpl in H; [discriminate|]. apply andb_true_iff in H. destruct H as [E H].
  apply N.eqb_eq in E. subst y. simpl. f_equal. apply IH. exact H.
Qed.

Lemma no_slash_of_contains s : contains_byte slash s = false -> no_slash s.
Proof.
  unfold contains_byte. induction s as [|c s IH]; intros H X; [contradiction|]. cbn [existsb] in H.
  apply orb_false_iff in H. destruct H as [H1 H2]. destruct X as [->|X]; [rewrite N.eqb_refl in H1; discriminate|exact (IH H2 X)].
Qed.

Lemma child_name_some p k c : p <> dot -> child_name p k = Some c -> k = p ++ slash :: c /\ no_slash c.
Proof.
  intros D. unfold child_name. destruct (str_eqb_spec p dot); [contradiction|].
  destruct (has_prefix k (p ++ [slash])) eqn:HP; [|discriminate].
  destruct (contains_byte slash (skipn (length (p ++ [slash])) k)) eqn:C; [discriminate|].
  intros X. inversion X; subst c. split; [|apply no_slash_of_contains; exact C].
  rewrite (has_prefix_split _ _ HP) at 1. rewrite <- app_assoc. reflexivity.
Qed.

Lemma child_names_spec p s c : In c (child_names p s) -> exists k r, In (k, r) s /\ child_name p k = Some c.
Proof.
  induction s as [|[k0 v] s IH]; simpl; [contradiction|].
  destruct (child_name p k0) as [c0|] eqn:E.
  - intros [<-|I]; [exists k0, v; auto|]. destruct (IH I) as (k & r & I2 & C). exists k, r. auto.
  - intros I. destruct (IH I) as (k & r & I2 & C). exists k, r. auto.
Qed.

Lemma child_names_member p s k r' c : In (k, r') s -> child_name p k = Some c -> In c (child_names p s).
Proof.
  induction s as [|[k0 v] s IH]; simpl; [contradiction|]. intros [E|I] C.
  - inversion E; subst. rewrite C. left. reflexivity.
  - destruct (child_name p k0); [right|]; apply IH; assumption.
Qed.

Lemma child_name_compute p b : p <> dot -> no_slash b -> child_name p (p ++ slash :: b) = Some b.
Proof.
  intros D Nb. unfold child_name. destruct (str_eqb_spec p dot); [contradiction|].
  replace (p ++ slash :: b) with ((p ++ [slash]) ++ b) by (rewrite <- app_assoc; reflexivity).
  rewrite has_prefix_app', skipn_app_exact, contains_byte_no_slash by exact Nb. reflexivity.
Qed.

(* what a successful Rename(o, n) with o <> n leaves behind *)
Definition ren_post (st st' : kv) (o n : str) : Prop :=
  lookup (st_store st') o = None /\
  forall k, lookup (st_store st') k <> None -> lookup (st_store st) k <> None \/ anc n k.

Definition ren_ok (fuel : nat) : Prop := forall st o n, good st ->
  good (fst (kv_rename fuel st o n)) /\
  (snd (kv_rename fuel st o n) = None -> o <> n -> ren_post st (fst (kv_rename fuel st o n)) o n).

Lemma anc_child n c : elems_ok n -> elems_ok c -> no_slash c -> anc n (join2 n c).
Proof.
  intros En Ec Nc. apply anc_step.
  - rewrite join2_elems by assumption. intros X. apply (f_equal (@length _)) in X. rewrite app_length in X.
    simpl in X. pose proof (elems_ok_nonempty n En). destruct n; [congruence|simpl in X; lia].
  - rewrite path_dir_join2_elems by assumption. constructor.
Qed.

Lemma children_loop fuel' o n : ren_ok fuel' -> elems_ok o -> elems_ok n -> o <> n -> ~ anc n o ->
  (forall b, n <> o ++ slash :: b) ->
  forall names st, good st -> Forall (fun c => elems_ok c /\ no_slash c) names ->
  (forall k, lookup (st_store st) k <> None -> k <> dot -> path_dir k = o -> exists c, In c names /\ k = o ++ slash :: c) ->
  let r := (fix children (st : kv) (l : list str) : kv * option err :=
              match l with
              | [] => (st, None)
              | c :: l' =>
                let '(st', e) := kv_rename fuel' st (join2 o c) (join2 n c) in
                match e with
                | Some e => (st', Some e)
                | None => children st' l'
                end
              end) st names in
  good (fst r) /\
  (snd r = None -> childless (st_store (fst r)) o /\
                   forall k, lookup (st_store (fst r)) k <> None -> lookup (st_store st) k <> None \/ anc n k).
Proof.
  intros IH Eo En Ne NA NC. induction names as [|c rest IHl]; intros st G FA Cov; cbn zeta.
  - cbn [fst snd]. split; [exact G|]. intros _. split; [|auto].
    intros k rk L Dk E. destruct (Cov k ltac:(congruence) Dk E) as (c & [] & _).
  - inversion FA as [|? ? HC FA']; subst. destruct HC as [Ec Nc].
    destruct (IH st (join2 o c) (join2 n c) G) as [G1 P1].
    destruct (kv_rename fuel' st (join2 o c) (join2 n c)) as [st' e]. cbn [fst snd] in *.
    destruct e as [e|]; [cbn [fst snd]; split; [exact G1|discriminate]|].
    assert (Jo : join2 o c = o ++ slash :: c) by (apply join2_elems; assumption).
    assert (Jn : join2 n c = n ++ slash :: c) by (apply join2_elems; assumption).
    assert (NEc : join2 o c <> join2 n c).
    { rewrite Jo, Jn. intros X. apply Ne. apply (f_equal (@rev _)) in X. rewrite !rev_app_distr in X.
      apply app_inv_head in X. apply (f_equal (@rev _)) in X. rewrite !rev_involutive in X. exact X. }
    destruct (P1 eq_refl NEc) as [Gone Frame].
    assert (Cov' : forall k, lookup (st_store st') k <> None -> k <> dot -> path_dir k = o ->
                   exists c0, In c0 rest /\ k = o ++ slash :: c0).
    { intros k L Dk E. destruct (Frame k L) as [Lb|A].
      - destruct (Cov k Lb Dk E) as (c0 & [<-|I] & Ek); [|exists c0; auto].
        exfalso. rewrite Ek, <- Jo in L. congruence.
      - exfalso. assert (A' : anc n k) by (apply (anc_trans n (join2 n c) k); [apply anc_child; assumption|exact A]).
        destruct A' as [|k0 D0 A0].
        + destruct (child_shape n o En E) as (b & Eb & _); [intros ->; inversion Eo as [|? ? X _]; discriminate|].
          exact (NC b Eb).
        + rewrite E in A0. exact (NA A0). }
    destruct (IHl st' G1 FA' Cov') as [G2 P2].
    match goal with |- context [(fix children (st : kv) (l : list str) {struct l} : kv * option err := _) st' rest] =>
      destruct ((fix children (st : kv) (l : list str) {struct l} : kv * option err :=
              match l with
              | [] => (st, None)
              | c :: l' =>
                let '(st', e) := kv_rename fuel' st (join2 o c) (join2 n c) in
                match e with
                | Some e => (st', Some e)
                | None => children st' l'
                end
              end) st' rest) as [st'' e'']
    end.
    cbn [fst snd] in *. split; [exact G2|]. intros E2. destruct (P2 E2) as [Ch Fr]. split; [exact Ch|].
    intros k L. destruct (Fr k L) as [L1|A]; [|right; exact A].
    destruct (Frame k L1) as [L0|A]; [left; exact L0|right].
    apply (anc_trans n (join2 n c) k); [apply anc_child; assumption|exact A].
Qed.

Lemma set_names_keeps h r : keeps h (set_names h r).
Proof. destruct h; split; reflexivity. Qed.

Lemma elems_ok_of_valid p : valid_path p = true -> p <> dot -> elems_ok p.
Proof. apply valid_elems_ok. Qed.

Theorem kv_rename_ok fuel : ren_ok fuel.
Proof.
  induction fuel as [|fuel' IH]; intros st o n G.
  { simpl. split; [exact G|discriminate]. }
  cbn [kv_rename].
  destruct (valid_path o) eqn:Vo; [|cbn [negb orb fst snd]; split; [exact G|discriminate]].
  destruct (valid_path n) eqn:Vn; [|cbn [negb orb fst snd]; split; [exact G|discriminate]].
  cbn [negb orb].
  destruct (get_file_nf st o (proj1 G)) as [R1 E1]. destruct (get_file st o) as [st1 r]. cbn [fst snd] in *.
  pose proof (good_ro _ _ G R1) as G1.
  destruct r as [fo|e]; [|cbn [fst snd]; split; [exact G1|discriminate]].
  destruct E1 as (rc & Lo & -> & _).
  (* Stat of the old file: may load the data *)
  assert (A : let x := (if is_regular (f_mode (mk_file o rc))
                        then (let '(s, f', _) := f_data st1 (mk_file o rc) in (s, f')) else (st1, mk_file o rc)) in
              ro st1 (fst x) /\ keeps (mk_file o rc) (snd x) /\ (is_regular (f_mode (mk_file o rc)) = false -> snd x = mk_file o rc)).
  { destruct (is_regular (f_mode (mk_file o rc))).
    - pose proof (f_data_nf st1 (mk_file o rc) (proj1 G1)) as R. pose proof (f_data_keeps' st1 (mk_file o rc)) as K.
      destruct (f_data st1 (mk_file o rc)) as [[s f'] ok]. cbn [fst snd] in *.
      split; [exact R|]. split; [exact K|]. intros X; discriminate X.
    - cbn [fst snd]. split; [apply ro_refl; apply G1|]. split; [apply keeps_refl|]. intros _; reflexivity. }
  destruct (if is_regular (f_mode (mk_file o rc)) then _ else _) as [st1' fo]. cbn [fst snd] in A. destruct A as (R1' & Kfo & Same).
  pose proof (good_ro _ _ G1 R1') as G1'.
  assert (S01 : st_store st1' = st_store st) by (rewrite (proj1 R1'), (proj1 R1); reflexivity).
  (* the new name's parent *)
  assert (B : let x := (if negb (str_eqb o n) && negb (str_eqb n dot) then
                          let '(st2, rp) := get_file st1' (path_dir n) in
                          match rp with
                          | inr e => (st2, Some (wrap_link o n e))
                          | inl par => if is_dir (f_mode par) then (st2, None) else (st2, Some (LinkErr o n ENOTDIR))
                          end
                        else (st1', None)) in
              ro st1' (fst x) /\ (snd x = None -> o <> n -> n <> dot -> has_dir (st_store st) (path_dir n))).
  { destruct (str_eqb_spec o n) as [->|NE]; cbn [negb andb]; [split; [apply ro_refl; apply G1'|congruence]|].
    destruct (str_eqb_spec n dot) as [->|ND]; cbn [negb]; [split; [apply ro_refl; apply G1'|congruence]|].
    destruct (get_file_nf st1' (path_dir n) (proj1 G1')) as [R2 E2]. destruct (get_file st1' (path_dir n)) as [st2 rp]. cbn [fst snd] in *.
    destruct rp as [par|e]; [|split; [exact R2|discriminate]].
    destruct E2 as (rp & Lp & -> & _). destruct (is_dir (f_mode (mk_file (path_dir n) rp))) eqn:D; cbn [fst snd]; (split; [exact R2|]); [|discriminate].
    intros _ _ _. exists rp. rewrite <- S01. split; [exact Lp|exact D]. }
  destruct (if negb (str_eqb o n) && negb (str_eqb n dot) then _ else _) as [st2 perr]. cbn [fst snd] in B. destruct B as [R2 Par].
  pose proof (good_ro _ _ G1' R2) as G2.
  assert (S02 : st_store st2 = st_store st) by (rewrite (proj1 R2); exact S01).
  destruct perr as [e|]; [cbn [fst snd]; split; [exact G2|discriminate]|].
  destruct (get_file_nf st2 n (proj1 G2)) as [R3 E3]. destruct (get_file st2 n) as [st3 rn]. cbn [fst snd] in *.
  pose proof (good_ro _ _ G2 R3) as G3.
  assert (S03 : st_store st3 = st_store st) by (rewrite (proj1 R3); exact S02).
  destruct (match rn with inr en => negb (cls_eqb (err_cls en) ENOENT) | inl _ => false end) eqn:Unk;
    [cbn [fst snd]; split; [exact G3|discriminate]|].
  destruct (match rn with inl fn => is_dir (f_mode fn) | inr _ => false end) eqn:NewDir;
    [cbn [fst snd]; split; [exact G3|discriminate]|].
  (* what is at the new name: a non-directory, or nothing *)
  assert (Nn : n <> dot /\ childless (st_store st) n /\ (lookup (st_store st) n = None \/ exists rn0, lookup (st_store st) n = Some rn0 /\ is_dir (r_mode rn0) = false)).
  { destruct rn as [fn|en].
    - destruct E3 as (rn0 & Ln & -> & _). rewrite S02 in Ln.
      assert (Dn : is_dir (r_mode rn0) = false) by exact NewDir.
      split; [|split; [eapply nondir_childless; [apply G|exact Ln|exact Dn]|right; eauto]].
      intros ->. destruct (wf_root _ (proj2 G)) as (rr & Lr & Dr). congruence.
    - destruct E3 as [[V _]|[_ Ln]]; [congruence|]. rewrite S02 in Ln.
      split; [|split; [apply missing_childless; [apply G|exact Ln]|left; exact Ln]].
      intros ->. destruct (wf_root _ (proj2 G)) as (rr & Lr & _). congruence. }
  destruct Nn as (NDn & Chn & Ln).
  assert (Mfo : f_mode fo = r_mode rc) by (rewrite (proj2 Kfo); reflexivity).
  assert (Pfo : h_path fo = o) by (rewrite (proj1 Kfo); reflexivity).
  destruct (is_dir (f_mode fo)) eqn:Dfo; cbn [negb].
  2: { (* ---- a non-directory ---- *)
    destruct (str_eqb_spec o n) as [->|NE]; [cbn [fst snd]; split; [exact G3|congruence]|].
    pose proof (f_data_nf st3 fo (proj1 G3)) as R4. pose proof (f_data_keeps' st3 fo) as K4.
    destruct (f_data st3 fo) as [[st4 fo1] ok]. cbn [fst snd] in *.
    destruct ok; cbn [negb]; [|cbn [fst snd]; split; [eapply good_ro; eauto|discriminate]].
    destruct (sset_nf st4 n (Some (mkRec (f_mode fo1) (f_mtime fo1) (h_cell fo1))) (proj2 R4)) as (N5 & E5 & S5).
    destruct (sset st4 n _) as [st5 e1]. cbn [fst snd] in *. subst e1.
    destruct (sset_nf st5 o None N5) as (N6 & E6 & S6). destruct (sset st5 o None) as [st6 e2]. cbn [fst snd] in *. subst e2.
    assert (S04 : st_store st4 = st_store st) by (rewrite (proj1 R4); exact S03).
    set (rec5 := mkRec (f_mode fo1) (f_mtime fo1) (h_cell fo1)) in *.
    assert (D5 : is_dir (r_mode rec5) = false) by (unfold rec5; cbn [r_mode]; rewrite (proj2 K4); exact Dfo).
    assert (HDp : has_dir (st_store st) (path_dir n)) by (apply Par; auto).
    assert (W5 : wf_store (insert (st_store st) n rec5)).
    { apply wf_insert; [apply G|apply valid_key_ok; exact Vn|right; exact HDp|right; split; assumption]. }
    assert (Do : o <> dot).
    { intros ->. destruct (wf_root _ (proj2 G)) as (rr & Lr & Dr). rewrite Lo in Lr. inversion Lr; subst. rewrite Mfo in Dfo. congruence. }
    assert (Cho : childless (insert (st_store st) n rec5) o).
    { intros k rk L Dk E. rewrite lookup_insert in L. destruct (str_eqb_spec n k) as [<-|NK].
      - destruct HDp as (pr & Lp & Dp). rewrite E, Lo in Lp. inversion Lp; subst. rewrite Mfo in Dfo. congruence.
      - revert E. eapply nondir_childless; [apply G|exact Lo|rewrite <- Mfo; exact Dfo|exact L|exact Dk]. }
    cbn [fst snd]. split.
    - split; [exact N6|]. rewrite S6, S5, S04. apply wf_delete; assumption.
    - intros _ _. split.
      + rewrite S6, lookup_remove_key, str_eqb_refl. reflexivity.
      + intros k. rewrite S6, S5, S04, lookup_remove_key. destruct (str_eqb o k); [congruence|].
        rewrite lookup_insert. destruct (str_eqb_spec n k) as [<-|_]; [right; constructor|left; assumption]. }
  (* ---- a directory ---- *)
  destruct (str_eqb_spec o dot) as [->|Do]; [cbn [orb fst snd]; split; [exact G3|discriminate]|]. cbn [orb].
  destruct (has_prefix n (o ++ [slash])) eqn:HP; [cbn [fst snd]; split; [exact G3|discriminate]|].
  destruct rn as [fn|en]; [cbn [fst snd]; split; [exact G3|discriminate]|].
  cbn [negb] in Unk. rewrite Unk. cbn [negb].
  destruct Ln as [Ln|(rn0 & Ln & _)]; [|destruct E3 as [[V _]|[_ L3]]; [congruence|rewrite S02 in L3; congruence]].
  assert (NE : o <> n) by (intros ->; congruence).
  assert (Eo : elems_ok o) by (apply elems_ok_of_valid; assumption).
  assert (En : elems_ok n) by (apply elems_ok_of_valid; assumption).
  assert (Rg : is_regular (f_mode (mk_file o rc)) = false).
  { apply is_regular_not_dir. rewrite <- (proj2 Kfo). exact Dfo. }
  rewrite (Same Rg) in *. clear Same Kfo.
  (* the listing of the old directory *)
  unfold f_names. cbn [h_names h_fresh mk_file]. unfold snames.
  destruct (tick_nf st3 (proj1 G3)) as [R4 B4]. destruct (tick st3) as [st4 bad]. cbn [fst snd] in *. subst bad.
  cbn [h_path h_mode mk_file]. change (r_mode rc) with (f_mode (mk_file o rc)). rewrite Dfo.
  pose proof (good_ro _ _ G3 R4) as G4.
  assert (S04 : st_store st4 = st_store st) by (rewrite (proj1 R4); exact S03).
  set (fo1 := set_names (mk_file o rc) (inl (child_names o (st_store st4)))).
  assert (Mfo1 : f_mode fo1 = r_mode rc) by reflexivity.
  destruct (set_file_some_nf st4 n fo1 (proj1 G4)) as [N5 Alt].
  destruct (set_file st4 n (Some fo1)) as [[st5 x5] e5]. cbn [fst snd] in N5, Alt.
  destruct Alt as [[(e0 & E5 & _) S5]|(E5 & _ & rc5 & M5 & S5)]; subst e5;
    [cbn [fst snd]; split; [split; [exact N5|rewrite S5; apply G4]|discriminate]|].
  assert (HDp : has_dir (st_store st) (path_dir n)) by (apply Par; auto).
  assert (D5 : is_dir (r_mode rc5) = true) by (rewrite M5, Mfo1, <- Mfo; exact Dfo).
  assert (G5 : good st5).
  { split; [exact N5|]. rewrite S5, S04. apply wf_insert; [apply G|apply valid_key_ok; exact Vn|right; exact HDp|left; exact D5]. }
  assert (NA : ~ anc n o).
  { intros A. apply (anc_exists (st_store st) n o (proj2 G)) in A; [congruence|congruence]. }
  assert (NC : forall b, n <> o ++ slash :: b).
  { intros b ->. replace (o ++ slash :: b) with ((o ++ [slash]) ++ b) in HP by (rewrite <- app_assoc; reflexivity).
    rewrite has_prefix_app' in HP. discriminate. }
  assert (FA : Forall (fun c => elems_ok c /\ no_slash c) (child_names o (st_store st4))).
  { apply Forall_forall. intros c Hc. destruct (child_names_spec _ _ _ Hc) as (k & rk & Ik & Ck).
    destruct (child_name_some o k c Do Ck) as [Ek Nc]. split; [|exact Nc].
    pose proof (in_lookup _ _ _ Ik) as Lk. destruct (lookup (st_store st4) k) as [rk'|] eqn:Lk'; [|congruence].
    destruct (wf_valid _ (proj2 G4) k rk' Lk') as [Kd|Ke].
    - exfalso. rewrite Ek in Kd. apply (f_equal (@length _)) in Kd. rewrite app_length in Kd. simpl in Kd.
      pose proof (elems_ok_nonempty o Eo). destruct o; [congruence|simpl in Kd; lia].
    - rewrite Ek in Ke. apply elems_ok_app in Ke. tauto. }
  assert (Cov : forall k, lookup (st_store st5) k <> None -> k <> dot -> path_dir k = o ->
                exists c, In c (child_names o (st_store st4)) /\ k = o ++ slash :: c).
  { intros k L Dk E. rewrite S5, lookup_insert in L. destruct (str_eqb_spec n k) as [Enk|NK].
    - exfalso. subst k. destruct (child_shape n o En E Do) as (b & Eb & _). exact (NC b Eb).
    - destruct (lookup (st_store st4) k) as [rk|] eqn:Lk; [|congruence].
      destruct (wf_valid _ (proj2 G4) k rk Lk) as [Kd|Ke]; [congruence|].
      destruct (child_shape k o Ke E Do) as (b & Eb & Nb & _).
      destruct (lookup_in _ _ _ Lk) as (r' & Ik).
      exists b. split; [|exact Eb]. eapply child_names_member; [exact Ik|]. rewrite Eb. apply child_name_compute; assumption. }
  destruct (children_loop fuel' o n IH Eo En NE NA NC (child_names o (st_store st4)) st5 G5 FA Cov) as [G6 P6].
  match goal with |- context [(fix children (st : kv) (l : list str) {struct l} : kv * option err := _) st5 _] =>
    destruct ((fix children (st : kv) (l : list str) {struct l} : kv * option err :=
              match l with
              | [] => (st, None)
              | c :: l' =>
                let '(st', e) := kv_rename fuel' st (join2 o c) (join2 n c) in
                match e with
                | Some e => (st', Some e)
                | None => children st' l'
                end
              end) st5 (child_names o (st_store st4))) as [st6 e6]
  end.
  cbn [fst snd] in *. destruct e6 as [e6|]; [cbn [fst snd]; split; [exact G6|discriminate]|].
  destruct (P6 eq_refl) as [Ch6 Fr6].
  destruct (set_file_none_nf st6 o (proj1 G6)) as [N7 [[Ne7 S7]|[E7 S7]]];
    destruct (set_file st6 o None) as [[st7 x7] e7]; cbn [fst snd] in *.
  - split; [split; [exact N7|rewrite S7; apply G6]|]. intros X. exfalso. apply Ne7. destruct e7; [discriminate X|reflexivity].
  - split; [split; [exact N7|rewrite S7; apply wf_delete; [apply G6|exact Do|exact Ch6]]|].
    intros _ _. split.
    + rewrite S7, lookup_remove_key, str_eqb_refl. reflexivity.
    + intros k. rewrite S7, lookup_remove_key. destruct (str_eqb o k); [congruence|]. intros L.
      destruct (Fr6 k L) as [L5|A]; [|right; exact A].
      rewrite S5, lookup_insert in L5. destruct (str_eqb_spec n k) as [<-|_]; [right; constructor|].
      left. rewrite <- S04. exact L5.
Qed.

Theorem kv_rename_good st o n : good st -> good (fst (kv_rename (rename_fuel st) st o n)).
Proof. intros G. apply kv_rename_ok. exact G. Qed.

(* ---- every namespace operation, every history ---- *)
(* the namespace alphabet of C01/C03: OpenFile is issued as open + close; operations on handles that outlive
   the step (Open, H) are the subject of C02/C17 *)
Definition ns_op (o : op) : Prop := match o with Open _ _ _ | H _ _ => False | _ => True end.

Theorem step_good st o : good st -> ns_op o -> good (fst (step st o)).
Proof.
  intros G N. destruct o; try contradiction; unfold step.
  - pose proof (kv_mkdir_good st p perm G) as X. destruct (kv_mkdir st p perm). exact X.
  - pose proof (kv_mkdirall_good st p perm G) as X. destruct (kv_mkdirall st p perm). exact X.
  - destruct (kv_openfile_faith st p flag perm G) as [X _]. destruct (kv_openfile st p flag perm) as [s [h|e]]; exact X.
  - pose proof (kv_writefile_good st p d perm G) as X. destruct (kv_writefile st p d perm). exact X.
  - pose proof (kv_remove_good st p G) as X. destruct (kv_remove st p). exact X.
  - unfold kv_removeall. destruct (negb (valid_path p)); [exact G|].
    pose proof (remove_all_good (Datatypes.S (length (st_store st))) st p G) as X. destruct (remove_all _ st p). exact X.
  - pose proof (kv_rename_good st o n G) as X. destruct (kv_rename (rename_fuel st) st o n). exact X.
  - pose proof (kv_chmod_good st p m G) as X. destruct (kv_chmod st p m). exact X.
  - pose proof (kv_chtimes_good st p t G) as X. destruct (kv_chtimes st p t). exact X.
  - destruct (kv_stat_nf st p (proj1 G)) as [R _]. destruct (kv_stat st p) as [s [f|e]]; eapply good_ro; eauto.
  - pose proof (kv_readdir_good st p G) as X. destruct (kv_readdir st p) as [s [l|e]]; exact X.
  - pose proof (kv_readfile_good st p G) as X. destruct (kv_readfile st p) as [s [l|e]]; exact X.
Qed.

Lemma kv_init_good : good kv_init.
Proof.
  split; [reflexivity|]. constructor.
  - exists (mkRec (N.lor ModeDir 438) Clock 0%nat). split; reflexivity.
  - intros p r. unfold kv_init. cbn [st_store lookup]. destruct (str_eqb_spec dot p) as [<-|]; [intros _; left; reflexivity|discriminate].
  - intros p r. unfold kv_init. cbn [st_store lookup]. destruct (str_eqb_spec dot p) as [<-|]; [congruence|discriminate].
Qed.

Theorem history_good ops : Forall ns_op ops -> good (exec ops).
Proof.
  unfold exec. intros F.
  assert (X : forall st, good st -> good (fold_left (fun s o => fst (step s o)) ops st)).
  { induction F as [|o ops No F IH]; intros st G; simpl; [exact G|]. apply IH. apply step_good; assumption. }
  apply X. exact kv_init_good.
Qed.

(* what the invariant means for a user of the file system *)
Theorem parent_lists_child s p r : wf_store s -> lookup s p = Some r -> p <> dot ->
  has_dir s (path_dir p) /\ exists c, child_name (path_dir p) p = Some c /\ In c (child_names (path_dir p) s).
Proof.
  intros W L D. split; [eapply wf_parent; eauto|].
  destruct (wf_valid s W p r L) as [->|E]; [congruence|].
  pose proof (child_name_of_child (path_dir p) p E eq_refl) as C.
  destruct (child_name (path_dir p) p) as [c|] eqn:CN; [|congruence].
  exists c. split; [reflexivity|]. destruct (lookup_in s p r L) as (r' & I). eapply child_names_member; eauto.
Qed.
