(* The ValidPath gate of the key-value FS (C04) and of the Sub view and mount FS built on it. *)
From HP Require Import Base.Prelude Base.Path Base.PathProofs KV.Types KV.FS KV.Handle KV.Run KV.HandleProofs.
Open Scope N_scope.

Lemma get_file_invalid st p : valid_path p = false -> get_file st p = (st, inr (Bare EINVAL)).
Proof. intros H. unfold get_file. rewrite H. reflexivity. Qed.

Lemma kv_stat_invalid st p : valid_path p = false -> kv_stat st p = (st, inr (PathErr p EINVAL)).
Proof. intros H. unfold kv_stat. rewrite (get_file_invalid st p H). reflexivity. Qed.

Lemma kv_openfile_invalid st p flag perm : valid_path p = false -> kv_openfile st p flag perm = (st, inr (PathErr p EINVAL)).
Proof. intros H. unfold kv_openfile. destruct (has_flag flag F_CREATE); simpl; rewrite H; reflexivity. Qed.

(* which names an operation mentions *)
Definition names_of (o : op) : list str :=
  match o with
  | Mkdir p _ | MkdirAll p _ | Open p _ _ | OpenClose p _ _ | WriteFile p _ _ | Remove p | RemoveAll p
  | Chmod p _ | Chtimes p _ | Stat p | ReadDir p | ReadFile p => [p]
  | Rename a b => [a; b]
  | H _ _ => []
  end.

Definition is_einval (v : obs) : Prop := exists e, v = VErr e /\ err_cls e = EINVAL.

Lemma gate1 st o p : names_of o = [p] -> valid_path p = false ->
  fst (step st o) = st /\ snd (step st o) = VErr (PathErr p EINVAL).
Proof.
  intros Hn Hv. destruct o; simpl in Hn; inversion Hn; subst.
  - unfold step, kv_mkdir. rewrite (kv_stat_invalid st p Hv). split; reflexivity.
  - unfold step, kv_mkdirall. rewrite Hv. split; reflexivity.
  - unfold step. rewrite (kv_openfile_invalid st p flag perm Hv). split; reflexivity.
  - unfold step. rewrite (kv_openfile_invalid st p flag perm Hv). split; reflexivity.
  - unfold step, kv_writefile. rewrite (kv_openfile_invalid st p _ perm Hv). split; reflexivity.
  - unfold step, kv_remove. rewrite (get_file_invalid st p Hv). split; reflexivity.
  - unfold step, kv_removeall. rewrite Hv. split; reflexivity.
  - unfold step, kv_chmod. rewrite (get_file_invalid st p Hv). split; reflexivity.
  - unfold step, kv_chtimes. rewrite (get_file_invalid st p Hv). split; reflexivity.
  - unfold step. rewrite (kv_stat_invalid st p Hv). split; reflexivity.
  - unfold step, kv_readdir. rewrite (kv_openfile_invalid st p _ _ Hv). split; reflexivity.
  - unfold step, kv_readfile. rewrite (kv_openfile_invalid st p _ _ Hv). split; reflexivity.
Qed.

Lemma gate_rename st a b : valid_path a = false \/ valid_path b = false ->
  fst (step st (Rename a b)) = st /\ snd (step st (Rename a b)) = VErr (LinkErr a b EINVAL).
Proof.
  intros H. unfold step, rename_fuel. cbn [kv_rename].
  assert (X : negb (valid_path a) || negb (valid_path b) = true).
  { destruct H as [H|H]; rewrite H; simpl; [reflexivity|apply orb_true_r]. }
  rewrite X. split; reflexivity.
Qed.

(* THEOREM: every operation of the key-value FS called with a name that is not a valid FS path -- for
   Rename: if either name is not -- fails with an error matching ErrInvalid that names the caller's
   path(s) and leaves the WHOLE state unchanged: no record, no byte, no handle differs, not even a store
   call is made. *)
Theorem kv_gate st o : (exists p, In p (names_of o) /\ valid_path p = false) ->
  fst (step st o) = st /\ is_einval (snd (step st o)).
Proof.
  intros (p & Hin & Hv).
  destruct (names_of o) as [|x [|y [|z r]]] eqn:N; simpl in Hin.
  - contradiction.
  - destruct Hin as [<-|[]]. destruct (gate1 st o x N Hv) as [A B]. split; [exact A|]. rewrite B. eexists; split; reflexivity.
  - destruct o; simpl in N; try discriminate. inversion N; subst.
    assert (H : valid_path x = false \/ valid_path y = false) by (destruct Hin as [<-|[<-|[]]]; auto).
    destruct (gate_rename st x y H) as [A B]. split; [exact A|]. rewrite B. eexists; split; reflexivity.
  - destruct o; simpl in N; discriminate.
Qed.

(* conversely, a valid name is never refused AS INVALID by the gate: the gate's test is ValidPath itself,
   so backslash, colon and every other byte but '/' are ordinary name bytes *)
Theorem gate_accepts_valid st p : valid_path p = true ->
  get_file st p <> (st, inr (Bare EINVAL)) \/ exists st' r, get_file st p = (st', r) /\ r <> inr (Bare EINVAL).
Proof.
  intros Hv. right. unfold get_file. rewrite Hv. cbn [negb].
  destruct (sget st p) as [st1 r] eqn:S. destruct r as [rc|e].
  - eexists; eexists; split; [reflexivity|discriminate].
  - destruct (not_dir_err st1 p e) as [st2 e'] eqn:N. eexists; eexists; split; [reflexivity|].
    intros X; inversion X; subst.
    (* the errors getFile can produce for a valid name: not-exist / not-a-directory / a store failure *)
    unfold sget in S. destruct (tick st) as [s0 bad]. destruct bad.
    + inversion S; subst. unfold not_dir_err in N. simpl in N. inversion N.
    + destruct (lookup (st_store s0) p); inversion S; subst.
      unfold not_dir_err in N. simpl in N. destruct (negb (str_eqb p dot)); [|inversion N].
      assert (W : forall fuel s d, snd (not_dir_walk fuel s d (Bare ENOENT)) <> Bare EINVAL).
      { induction fuel as [|f IH]; intros s d; simpl; destruct (str_eqb d dot); simpl; try discriminate.
        destruct (sget s d) as [sx rx] eqn:SX. destruct rx as [rc|ex]; simpl.
        - destruct (is_dir (r_mode rc)); discriminate.
        - destruct (cls_eqb (err_cls ex) ENOENT) eqn:CE; simpl; [apply IH|].
          unfold sget in SX. destruct (tick s) as [sy by']. destruct by'; [inversion SX; subst; discriminate|].
          destruct (lookup (st_store sy) d); inversion SX; subst. discriminate. }
      apply (W (length p) st1 (path_dir p)). rewrite N. reflexivity.
Qed.
