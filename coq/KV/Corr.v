(* Correspondence predicates between the kv model and what the implementation did.
   Each property compares only the observables it is about (projection). *)
From HP Require Import Base.Prelude Base.Path KV.Types KV.FS KV.Handle KV.Run.
Open Scope N_scope.

Definition err_eqb (a b : err) : bool :=
  match a, b with
  | PathErr p c, PathErr q d => str_eqb p q && cls_eqb c d
  | LinkErr o n c, LinkErr o' n' d => str_eqb o o' && str_eqb n n' && cls_eqb c d
  | Bare c, Bare d => cls_eqb c d
  | _, _ => false
  end.

Definition opt_eqb {A} (eqb : A -> A -> bool) (a b : option A) : bool :=
  match a, b with
  | None, None => true
  | Some x, Some y => eqb x y
  | _, _ => false
  end.

Definition entry_eqb (a b : str * N) : bool := str_eqb (fst a) (fst b) && N.eqb (snd a) (snd b).

Definition hres_eqb (a b : hres) : bool :=
  match a, b with
  | HRBytes d e, HRBytes d' e' => str_eqb d d' && opt_eqb err_eqb e e'
  | HRN n e, HRN n' e' => Z.eqb n n' && opt_eqb err_eqb e e'
  | HRErr e, HRErr e' => opt_eqb err_eqb e e'
  | HRInfo n m s, HRInfo n' m' s' => str_eqb n n' && N.eqb m m' && Z.eqb s s'
  | HREntries l e, HREntries l' e' => list_eqb entry_eqb l l' && opt_eqb err_eqb e e'
  | HRBad, HRBad => true
  | _, _ => false
  end.

Definition obs_eqb (a b : obs) : bool :=
  match a, b with
  | VOk, VOk => true
  | VErr e, VErr e' => err_eqb e e'
  | VHandle i, VHandle j => Nat.eqb i j
  | VInfo n m s t, VInfo n' m' s' t' => str_eqb n n' && N.eqb m m' && Z.eqb s s' && mtime_eqb t t'
  | VEntries l, VEntries l' => list_eqb entry_eqb l l'
  | VBytes d, VBytes d' => str_eqb d d'
  | VH r, VH r' => hres_eqb r r'
  | _, _ => false
  end.

Definition snap_entry_eqb (a b : snap_entry) : bool :=
  let '(p, m, t, d) := a in let '(p', m', t', d') := b in
  str_eqb p p' && N.eqb m m' && mtime_eqb t t' && str_eqb d d'.

Definition snap_eqb (a b : list snap_entry) : bool := list_eqb snap_entry_eqb a b.

(* projections *)
Definition forget_err (e : option err) : option err :=
  match e with
  | Some (Bare EEOF) => Some (Bare EEOF)
  | Some _ => Some (Bare EOTHER)
  | None => None
  end.

(* success/failure and returned data only (C01, C02, C03): which error is C05's business *)
Definition proj_success (o : obs) : obs :=
  match o with
  | VErr _ => VErr (Bare EOTHER)
  | VH (HRBytes d e) => VH (HRBytes d (forget_err e))
  | VH (HRN n e) => VH (HRN n (forget_err e))
  | VH (HRErr e) => VH (HRErr (forget_err e))
  | VH (HREntries l e) => VH (HREntries (map (fun _ => ([], 0)) l) (forget_err e))  (* page size only: order of a page is the store's *)
  | x => x
  end.

Definition kv_case := (list op * list (obs * list snap_entry))%type.

Definition steps_eqb (proj : obs -> obs) (m i : list (obs * list snap_entry)) : bool :=
  list_eqb (fun a b => obs_eqb (proj (fst a)) (proj (fst b)) && snap_eqb (snd a) (snd b)) m i.

(* C01/C03: success, data and the whole tree after every step *)
Definition C01_check (c : kv_case) : bool := steps_eqb proj_success (run kv_init (fst c)) (snd c).

(* C05: the full error values *)
Definition C05_check (c : kv_case) : bool := steps_eqb (fun o => o) (run kv_init (fst c)) (snd c).

(* io/fs.ValidPath vs the model's valid_path *)
Definition validpath_check (c : str * bool) : bool := Bool.eqb (valid_path (fst c)) (snd c).

(* C16: results only (the tree is not part of the comparison) *)
Definition C16_check (c : kv_case) : bool :=
  list_eqb (fun a b => obs_eqb (proj_success (fst a)) (proj_success (fst b))) (run kv_init (fst c)) (snd c).

(* C14: the same history with the store call number [fault] failing *)
Definition with_fault (st : kv) (f : option nat) : kv :=
  mkKV (st_store st) (st_heap st) (st_handles st) (st_calls st) f.
Definition C14_case := (option nat * kv_case)%type.
Definition C14_check (c : C14_case) : bool :=
  steps_eqb proj_success (run (with_fault kv_init (fst c)) (fst (snd c))) (snd (snd c)).
