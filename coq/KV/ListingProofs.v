(* Paging theorems for the key-value directory handle (C16). *)
From HP Require Import Base.Prelude Base.ListLemmas Base.Path KV.Types KV.FS KV.Handle KV.Run KV.HandleProofs.
Open Scope nat_scope.

(* ---- the pure pager: what ReadDir(n>0) does with the memoised name list and the offset ---- *)
Definition page (names : list str) (off n : nat) : option (list str * nat) :=
  if Nat.leb (length names) off then None                    (* io.EOF *)
  else Some (sublist off (Nat.min (off + n) (length names)) names, Nat.min (off + n) (length names)).

(* read with the page sizes [ns] (all positive) until they run out or EOF *)
Fixpoint pages (names : list str) (off : nat) (ns : list nat) : list (list str) * nat :=
  match ns with
  | [] => ([], off)
  | n :: rest =>
    match page names off n with
    | None => ([], off)
    | Some (p, off') => let '(ps, o) := pages names off' rest in (p :: ps, o)
    end
  end.

Lemma sublist_app_adjacent {A} (l : list A) a b c : a <= b -> b <= c -> c <= length l ->
  sublist a b l ++ sublist b c l = sublist a c l.
Proof.
  intros H1 H2 H3. apply nth_error_ext. intros i.
  rewrite nth_error_app, !nth_error_sublist, sublist_length by lia.
  destruct (Nat.ltb_spec i (b - a)); destruct (Nat.ltb_spec i (c - a)); try lia; try reflexivity.
  - destruct (Nat.ltb_spec (i - (b - a)) (c - b)); [f_equal; lia|lia].
  - destruct (Nat.ltb_spec (i - (b - a)) (c - b)); [lia|reflexivity].
Qed.

(* every page is non-empty, at most n long, and the pages are consecutive pieces of the listing *)
Theorem pages_consecutive names : forall ns off, Forall (fun n => 0 < n) ns -> off <= length names ->
  let '(ps, o) := pages names off ns in
  concat ps = sublist off o names /\ off <= o <= length names /\ Forall (fun p => p <> []) ps.
Proof.
  induction ns as [|n rest IH]; intros off Hpos Hoff; simpl.
  - unfold sublist. rewrite Nat.sub_diag. simpl. repeat split; auto.
  - inversion Hpos as [|? ? Hn Hrest]; subst. unfold page.
    destruct (Nat.leb_spec (length names) off) as [Hle|Hlt].
    + unfold sublist. rewrite Nat.sub_diag. simpl. repeat split; auto.
    + specialize (IH (Nat.min (off + n) (length names)) Hrest ltac:(lia)).
      destruct (pages names (Nat.min (off + n) (length names)) rest) as [ps o].
      destruct IH as (IH1 & IH2 & IH3). simpl. rewrite IH1. split; [|split].
      * apply sublist_app_adjacent; lia.
      * lia.
      * constructor; [|exact IH3]. intros E. apply (f_equal (@length _)) in E.
        rewrite sublist_length in E by lia. simpl in E. lia.
Qed.

(* THEOREM: paging with any positive sizes that add up to at least the number of children delivers
   every child exactly once, in the listing's order, and nothing else. *)
Theorem pages_partition names ns : Forall (fun n => 0 < n) ns -> length names <= fold_right Nat.add 0 ns ->
  concat (fst (pages names 0 ns)) = names.
Proof.
  intros Hpos Hsum.
  assert (G : forall ns off, Forall (fun n => 0 < n) ns -> off <= length names ->
              length names <= off + fold_right Nat.add 0 ns -> snd (pages names off ns) = length names).
  { clear. induction ns as [|n rest IH]; intros off Hpos Hoff Hs; simpl in *; [lia|].
    inversion Hpos; subst. unfold page. destruct (Nat.leb_spec (length names) off); [simpl; lia|].
    specialize (IH (Nat.min (off + n) (length names)) ltac:(assumption) ltac:(lia) ltac:(lia)).
    destruct (pages names (Nat.min (off + n) (length names)) rest). simpl in *. exact IH. }
  pose proof (pages_consecutive names ns 0 Hpos ltac:(lia)) as H.
  specialize (G ns 0 Hpos ltac:(lia) ltac:(lia)).
  destruct (pages names 0 ns) as [ps o]. simpl in *. destruct H as (H & _ & _). subst o.
  rewrite H. unfold sublist. simpl. rewrite Nat.sub_0_r. apply firstn_all.
Qed.

(* io.EOF exactly when no entries remain *)
Theorem page_eof_iff names off n : page names off n = None <-> length names <= off.
Proof. unfold page. destruct (Nat.leb_spec (length names) off); split; intros; try discriminate; try lia; reflexivity. Qed.

Theorem page_never_empty names off n p o : 0 < n -> page names off n = Some (p, o) -> p <> [] /\ length p <= n.
Proof.
  unfold page. intros Hn. destruct (Nat.leb_spec (length names) off); [discriminate|].
  intros E; inversion E; subst. split.
  - intros X. apply (f_equal (@length _)) in X. rewrite sublist_length in X by lia. simpl in X. lia.
  - rewrite sublist_length by lia. lia.
Qed.

(* ---- the model's ReadDir is that pager ---- *)
Lemma stat_children_names dir names : forall st st' l, stat_children st dir names = (st', inl l) -> map fst l = names.
Proof.
  induction names as [|nm rest IH]; intros st st' l H; simpl in H; [inversion H; reflexivity|].
  destruct (kv_stat st (join2 dir nm)) as [st1 r]. destruct r as [f|e]; [|discriminate].
  destruct (stat_children st1 dir rest) as [st2 rs] eqn:C. destruct rs as [l'|e]; [|discriminate].
  inversion H; subst. simpl. f_equal. eapply IH; exact C.
Qed.

Theorem read_dir_is_page st h n names :
  h_closed h = false -> h_names h = Some (inl names) -> (0 < n)%Z -> (0 <= h_off h)%Z ->
  let '(st', h', l, e) := read_dir st h n in
  match page names (Z.to_nat (h_off h)) (Z.to_nat n) with
  | None => l = [] /\ e = Some (Bare EEOF) /\ h' = h
  | Some (p, o) => e = None -> map fst l = p /\ h_off h' = Z.of_nat o
  end.
Proof.
  intros C N Hn Hoff. unfold read_dir. rewrite C. unfold f_names. rewrite N.
  destruct (Z.leb_spec n 0); [lia|].
  unfold page.
  destruct (Z.leb_spec (Z.of_nat (length names)) (h_off h)) as [Hle|Hlt];
    destruct (Nat.leb_spec (length names) (Z.to_nat (h_off h))) as [Hle'|Hlt']; try lia.
  - repeat split; reflexivity.
  - destruct (stat_children st (h_path h) _) as [st2 r] eqn:S. destruct r as [l|er]; [|intros X; discriminate].
    intros _. apply stat_children_names in S. split.
    + rewrite S. f_equal. lia.
    + simpl. lia.
Qed.

(* a non-positive count returns every entry that remains (all of them on a fresh handle) and leaves the
   handle at the end *)
Theorem read_dir_rest st h n names :
  h_closed h = false -> h_names h = Some (inl names) -> (n <= 0)%Z -> (0 <= h_off h <= Z.of_nat (length names))%Z ->
  let '(st', h', l, e) := read_dir st h n in
  e = None -> map fst l = skipn (Z.to_nat (h_off h)) names /\ h_off h' = Z.of_nat (length names).
Proof.
  intros C N Hn Hoff. unfold read_dir. rewrite C. unfold f_names. rewrite N.
  destruct (Z.leb_spec n 0); [|lia].
  destruct (stat_children st (h_path h) _) as [st2 r] eqn:S. destruct r as [l|er]; [|intros X; discriminate].
  intros _. apply stat_children_names in S. rewrite S. split.
  - rewrite Z.min_l by lia. rewrite Nat2Z.id. unfold sublist.
    rewrite firstn_all2; [reflexivity|]. rewrite skipn_length. lia.
  - simpl. lia.
Qed.

Theorem read_dir_all st h n names :
  h_closed h = false -> h_names h = Some (inl names) -> (n <= 0)%Z -> h_off h = 0%Z ->
  let '(st', h', l, e) := read_dir st h n in e = None -> map fst l = names.
Proof.
  intros C N Hn H0. pose proof (read_dir_rest st h n names C N Hn ltac:(lia)) as H.
  destruct (read_dir st h n) as [[[st' h'] l] e]. intros E. destruct (H E) as [H1 _]. rewrite H1, H0. reflexivity.
Qed.

(* ---- paging with arbitrary counts: positive = at most n more, non-positive = all that remain ---- *)
Definition zpage (names : list str) (off : nat) (n : Z) : option (list str * nat) :=
  if (n <=? 0)%Z then Some (skipn off names, length names) else page names off (Z.to_nat n).

Fixpoint zpages (names : list str) (off : nat) (ns : list Z) : list (list str) * nat :=
  match ns with
  | [] => ([], off)
  | n :: rest =>
    match zpage names off n with
    | None => ([], off)
    | Some (p, off') => let '(ps, o) := zpages names off' rest in (p :: ps, o)
    end
  end.

Lemma sublist_to_end {A} (l : list A) off : off <= length l -> sublist off (length l) l = skipn off l.
Proof. intros H. unfold sublist. apply firstn_all2. rewrite skipn_length. lia. Qed.

Theorem zpages_consecutive names : forall ns off, off <= length names ->
  let '(ps, o) := zpages names off ns in
  concat ps = sublist off o names /\ off <= o <= length names.
Proof.
  induction ns as [|n rest IH]; intros off Hoff; simpl.
  - unfold sublist. rewrite Nat.sub_diag. simpl. split; auto.
  - unfold zpage. destruct (Z.leb_spec n 0) as [Hn|Hn].
    + specialize (IH (length names) ltac:(lia)).
      destruct (zpages names (length names) rest) as [ps o]. destruct IH as [IH1 IH2].
      assert (o = length names) by lia. subst o. simpl. rewrite IH1.
      unfold sublist at 1. rewrite Nat.sub_diag. simpl. rewrite app_nil_r.
      split; [symmetry; apply sublist_to_end; lia|lia].
    + unfold page. destruct (Nat.leb_spec (length names) off) as [Hle|Hlt].
      * unfold sublist. rewrite Nat.sub_diag. simpl. split; auto.
      * specialize (IH (Nat.min (off + Z.to_nat n) (length names)) ltac:(lia)).
        destruct (zpages names (Nat.min (off + Z.to_nat n) (length names)) rest) as [ps o].
        destruct IH as (IH1 & IH2). simpl. rewrite IH1. split; [apply sublist_app_adjacent; lia|lia].
Qed.

(* any sequence of counts that reaches the end has delivered every child exactly once, in order *)
Theorem zpages_partition names ns : snd (zpages names 0 ns) = length names -> concat (fst (zpages names 0 ns)) = names.
Proof.
  intros H. pose proof (zpages_consecutive names ns 0 ltac:(lia)) as G.
  destruct (zpages names 0 ns) as [ps o]. simpl in *. destruct G as [G _]. subst o. rewrite G.
  unfold sublist. simpl. rewrite Nat.sub_0_r. apply firstn_all.
Qed.

(* ... and it does reach the end as soon as one count is non-positive *)
Theorem zpages_nonpositive_reaches_end names : forall ns off, off <= length names ->
  Exists (fun n => (n <= 0)%Z) ns -> snd (zpages names off ns) = length names.
Proof.
  induction ns as [|n rest IH]; intros off Hoff Hex; [inversion Hex|]. simpl. unfold zpage.
  destruct (Z.leb_spec n 0) as [Hn|Hn].
  - pose proof (zpages_consecutive names rest (length names) ltac:(lia)) as G.
    destruct (zpages names (length names) rest) as [ps o]. simpl. lia.
  - inversion Hex as [? ? H0|? ? Hrest]; subst; [lia|].
    unfold page. destruct (Nat.leb_spec (length names) off) as [Hle|Hlt]; [simpl; lia|].
    specialize (IH (Nat.min (off + Z.to_nat n) (length names)) ltac:(lia) Hrest).
    destruct (zpages names (Nat.min (off + Z.to_nat n) (length names)) rest). simpl in *. exact IH.
Qed.

(* the handle's ReadDir, for every count, is that pager *)
Theorem read_dir_is_zpage st h n names :
  h_closed h = false -> h_names h = Some (inl names) -> (0 <= h_off h <= Z.of_nat (length names))%Z ->
  let '(st', h', l, e) := read_dir st h n in
  match zpage names (Z.to_nat (h_off h)) n with
  | None => l = [] /\ e = Some (Bare EEOF) /\ h' = h
  | Some (p, o) => e = None -> map fst l = p /\ h_off h' = Z.of_nat o
  end.
Proof.
  intros C N Hoff. unfold zpage. destruct (Z.leb_spec n 0) as [Hn|Hn].
  - exact (read_dir_rest st h n names C N Hn Hoff).
  - apply read_dir_is_page; try assumption; lia.
Qed.

(* listing a non-directory fails with ErrNotDir (no store failure) *)
Theorem read_dir_notdir st h n :
  st_fault st = None -> h_closed h = false -> h_names h = None -> is_dir (h_mode h) = false ->
  let '(_, _, l, e) := read_dir st h n in l = [] /\ e = Some (PathErr (h_path h) ENOTDIR).
Proof.
  intros NF C N D. unfold read_dir. rewrite C. unfold f_names. rewrite N.
  destruct (h_fresh h); [split; reflexivity|]. unfold snames.
  rewrite (surjective_pairing (tick st)). rewrite (tick_nofault st NF). rewrite D. split; reflexivity.
Qed.

(* the by-name listing is sorted *)
Inductive sorted_by_name : list (str * N) -> Prop :=
| SBN_nil : sorted_by_name []
| SBN_one x : sorted_by_name [x]
| SBN_cons x y l : str_ltb (fst y) (fst x) = false -> sorted_by_name (y :: l) -> sorted_by_name (x :: y :: l).

Lemma str_ltb_asym a : forall b, str_ltb a b = true -> str_ltb b a = false.
Proof.
  induction a as [|p a IH]; intros [|q b]; simpl; try discriminate; auto.
  destruct (N.ltb_spec p q); destruct (N.ltb_spec q p); try lia; try discriminate; auto.
Qed.

Lemma insert_entry_head x l : exists z rest, insert_entry x l = z :: rest /\ (z = x \/ exists t, l = z :: t).
Proof.
  destruct l as [|y l]; simpl; [exists x, []; auto|].
  destruct (str_ltb (fst y) (fst x)); [exists y, (insert_entry x l); split; [reflexivity|right; eauto]|exists x, (y :: l); auto].
Qed.

Lemma insert_entry_sorted x l : sorted_by_name l -> sorted_by_name (insert_entry x l).
Proof.
  induction 1 as [|y|y z l Hyz Hs IH]; simpl.
  - constructor.
  - destruct (str_ltb (fst y) (fst x)) eqn:E.
    + constructor; [apply str_ltb_asym; exact E|constructor].
    + constructor; [exact E|constructor].
  - destruct (str_ltb (fst y) (fst x)) eqn:E.
    + simpl in IH. destruct (str_ltb (fst z) (fst x)) eqn:E2.
      * constructor; [exact Hyz|exact IH].
      * constructor; [apply str_ltb_asym; exact E|exact IH].
    + constructor; [exact E|]. constructor; assumption.
Qed.

Theorem sort_entries_sorted l : sorted_by_name (sort_entries l).
Proof. induction l as [|x l IH]; simpl; [constructor|]. apply insert_entry_sorted. exact IH. Qed.

(* ... and holds exactly the entries of the page it sorted (a permutation: nothing lost, nothing doubled) *)
From Coq Require Import Permutation.
Lemma insert_entry_perm x l : Permutation (x :: l) (insert_entry x l).
Proof.
  induction l as [|y l IH]; simpl; [apply Permutation_refl|].
  destruct (str_ltb (fst y) (fst x)); [|apply Permutation_refl].
  eapply perm_trans; [apply perm_swap|]. apply perm_skip. exact IH.
Qed.

Theorem sort_entries_perm l : Permutation l (sort_entries l).
Proof.
  induction l as [|x l IH]; simpl; [constructor|].
  eapply perm_trans; [apply perm_skip; exact IH|apply insert_entry_perm].
Qed.
