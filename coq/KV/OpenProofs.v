(* Functional specification of OpenFile (every flag combination) and of Rename of a regular file on a
   well-formed, fault-free state of the key-value FS model (C01). *)
From HP Require Import Base.Prelude Base.Path Base.PathProofs Base.DirProofs KV.Types KV.FS KV.Handle KV.Run
  KV.TreeProofs KV.SpecProofs.
Open Scope N_scope.

Lemma save_keeps st h : keeps h (snd (fst (save st h))).
Proof.
  unfold save. pose proof (set_file_handle st (h_path h) h) as X.
  destruct (set_file st (h_path h) (Some h)) as [[st1 [h1|]] e]; cbn [fst snd] in *; [exact X|apply keeps_refl].
Qed.

Lemma stamp_clock_mtime h : f_mtime (stamp_clock h) = Clock.
Proof. destruct h; reflexivity. Qed.
Lemma stamp_clock_cell h : h_cell (stamp_clock h) = h_cell h.
Proof. destruct h; reflexivity. Qed.
Lemma with_size_cell h n : h_cell (with_size h n) = h_cell h.
Proof. destruct h; reflexivity. Qed.

(* ---- Truncate(0) through a handle just obtained from the store or just created ---- *)
Definition usable (h : handle) : Prop := h_closed h = false /\ (h_loaded h = true -> h_data_err h = false).

Lemma file_truncate0_spec st h : nf st -> usable h -> is_dir (f_mode h) = false -> valid_path (h_path h) = true ->
  let r := file_truncate st h 0%Z in
  snd r = None /\ keeps h (snd (fst r)) /\
  (st_store (fst (fst r)) = st_store st \/
   st_store (fst (fst r)) = insert (st_store st) (h_path h) (mkRec (f_mode h) Clock (h_cell h))).
Proof.
  intros H (C & LE) D V. unfold file_truncate. rewrite C, D.
  assert (FD : exists st1 h1, f_data st h = (st1, h1, true) /\ ro st st1 /\ keeps h h1 /\ h_loaded h1 = true
               /\ h_data_err h1 = false /\ h_cell h1 = h_cell h /\ h_closed h1 = false).
  { unfold f_data. destruct (h_loaded h) eqn:L.
    - exists st, h. rewrite (LE eq_refl). repeat split; auto.
    - destruct (h_fresh h).
      + exists st, (set_loaded h false). repeat split; auto; try (destruct h; reflexivity).
      + unfold sdata. destruct (tick_nf st H) as [R B]. destruct (tick st) as [st1 bad]. cbn [fst snd] in *. subst bad.
        exists st1, (set_loaded h false). repeat split; auto; try apply R; destruct h; reflexivity. }
  destruct FD as (st1 & h1 & -> & R1 & K1 & L1 & E1 & C1 & Cl1).
  unfold f_size. rewrite L1, E1. cbn [andb negb fst snd].
  set (h2 := with_size h1 _).
  assert (K2 : keeps h h2) by (eapply keeps_trans; [exact K1|destruct h1; split; reflexivity]).
  cbn [Z.ltb Z.compare].
  destruct (0 =? Z.of_nat (length (cell st1 (h_cell h1))))%Z.
  - cbn [fst snd]. split; [reflexivity|]. split; [exact K2|]. left. apply R1.
  - cbn [negb].
    set (st2 := set_cell st1 (h_cell h2) (resize (cell st1 (h_cell h2)) (Z.to_nat 0))).
    assert (N2 : nf st2) by apply R1.
    destruct (save_nf_ok st2 (stamp_clock h2) N2) as [E S].
    { rewrite (proj1 (stamp_clock_keeps h2)), (proj1 K2). exact V. }
    { intros _. unfold h2. destruct h1. cbn in *. exact E1. }
    destruct (save st2 (stamp_clock h2)) as [[st3 h3] e] eqn:SV. cbn [fst snd] in *.
    pose proof (save_keeps st2 (stamp_clock h2)) as K3. rewrite SV in K3. cbn [fst snd] in K3.
    split; [rewrite E; reflexivity|]. split; [eapply keeps_trans; [exact K2|eapply keeps_trans; [apply stamp_clock_keeps|exact K3]]|].
    right. rewrite S. unfold st2. cbn [set_cell set_heap st_store]. rewrite (proj1 R1).
    rewrite (proj1 (stamp_clock_keeps h2)), (proj1 K2).
    rewrite (proj2 (stamp_clock_keeps h2)), (proj2 K2), stamp_clock_mtime, stamp_clock_cell.
    unfold h2. rewrite with_size_cell, C1. reflexivity.
Qed.

(* ---- flags ---- *)
Lemma has_flag_bit fl k : has_flag fl (2 ^ k) = N.testbit fl k.
Proof.
  unfold has_flag. destruct (N.testbit fl k) eqn:B.
  - destruct (N.eqb_spec (N.land fl (2 ^ k)) 0) as [E|_]; [|reflexivity].
    assert (X : N.testbit (N.land fl (2 ^ k)) k = true) by (rewrite N.land_spec, B, N.pow2_bits_true; reflexivity).
    rewrite E, N.bits_0 in X. discriminate.
  - destruct (N.eqb_spec (N.land fl (2 ^ k)) 0) as [_|NE]; [reflexivity|]. exfalso. apply NE.
    apply N.bits_inj_0. intros i. rewrite N.land_spec. destruct (N.eq_dec i k) as [->|Hi]; [rewrite B; reflexivity|].
    rewrite N.pow2_bits_false by congruence. apply andb_false_r.
Qed.

Lemma trunc_in_dir_mask fl : has_flag fl F_TRUNC = true -> has_flag fl dir_open_mask = true.
Proof.
  change F_TRUNC with (2 ^ 4). rewrite has_flag_bit. intros B. unfold has_flag.
  destruct (N.eqb_spec (N.land fl dir_open_mask) 0) as [E|_]; [|reflexivity].
  assert (X : N.testbit (N.land fl dir_open_mask) 4 = true) by (rewrite N.land_spec, B; reflexivity).
  rewrite E, N.bits_0 in X. discriminate.
Qed.

(* the store after writing record r under p, described by its look-ups *)
Definition store_upd (s : store) (p : str) (r : rec) (s' : store) : Prop :=
  forall q, lookup s' q = if str_eqb p q then Some r else lookup s q.

Lemma store_upd_insert s p r : store_upd s p r (insert s p r).
Proof. intros q. apply lookup_insert. Qed.

Lemma with_open_usable h fl w : usable h -> usable (with_open h fl w).
Proof. destruct h; auto. Qed.

Lemma f_data_usable_nf st h : nf st -> usable h -> usable (snd (fst (f_data st h))).
Proof.
  intros H [Cl LE]. unfold f_data. destruct (h_loaded h) eqn:L; [split; [exact Cl|intros _; apply LE; reflexivity]|].
  destruct (h_fresh h); [destruct h; split; [exact Cl|reflexivity]|].
  unfold sdata. destruct (tick_nf st H) as [_ B]. destruct (tick st) as [st1 bad]. cbn [fst snd] in *. subst bad.
  destruct h; split; [exact Cl|reflexivity].
Qed.

Lemma save_usable_nf st h : nf st -> usable h -> usable (snd (fst (save st h))).
Proof.
  intros H U. unfold save, set_file. destruct (is_regular (f_mode h)).
  - pose proof (f_data_usable_nf st h H U) as U1. destruct (f_data st h) as [[st1 h1] ok]. cbn [fst snd] in *.
    destruct (negb ok); [exact U1|]. destruct (negb (valid_path (h_path h))); [exact U1|].
    destruct (sset st1 (h_path h) _). exact U1.
  - cbn [negb]. destruct (negb (valid_path (h_path h))); [exact U|]. destruct (sset st (h_path h) _). exact U.
Qed.

Lemma f_data_cell st h : h_cell (snd (fst (f_data st h))) = h_cell h.
Proof.
  unfold f_data. destruct (h_loaded h); [reflexivity|]. destruct (h_fresh h); [destruct h; reflexivity|].
  destruct (sdata st). destruct h; reflexivity.
Qed.

Lemma save_cell st h : h_cell (snd (fst (save st h))) = h_cell h.
Proof.
  unfold save, set_file. destruct (is_regular (f_mode h)).
  - pose proof (f_data_cell st h) as X. destruct (f_data st h) as [[st1 h1] ok]. cbn [fst snd] in *.
    destruct (negb ok); [exact X|]. destruct (negb (valid_path (h_path h))); [exact X|].
    destruct (sset st1 (h_path h) _). exact X.
  - cbn [negb]. destruct (negb (valid_path (h_path h))); [reflexivity|]. destruct (sset st (h_path h) _). reflexivity.
Qed.

Lemma with_open_cell h fl w : h_cell (with_open h fl w) = h_cell h.
Proof. destruct h; reflexivity. Qed.

Theorem kv_openfile_spec st p flag perm : good st ->
  let s := st_store st in
  let r := kv_openfile st p flag perm in
  let create := has_flag flag F_CREATE in
  (valid_path p = false -> snd r = inr (PathErr p EINVAL) /\ st_store (fst r) = s) /\
  (valid_path p = true -> forall rc, lookup s p = Some rc ->
     if create && has_flag flag F_EXCL then snd r = inr (PathErr p EEXIST) /\ st_store (fst r) = s
     else if is_dir (r_mode rc) && has_flag flag dir_open_mask then snd r = inr (PathErr p EISDIR) /\ st_store (fst r) = s
     else (exists f, snd r = inl f /\ keeps (mk_file p rc) f) /\
          (st_store (fst r) = s \/
           (has_flag flag F_TRUNC = true /\ st_store (fst r) = insert s p (mkRec (r_mode rc) Clock (r_cell rc))))) /\
  (valid_path p = true -> lookup s p = None ->
     if create then
       match lookup s (path_dir p) with
       | Some par =>
         if is_dir (r_mode par)
         then (exists f, snd r = inl f /\ h_path f = p /\ f_mode f = N.land perm ModePerm) /\
              exists c, store_upd s p (mkRec (N.land perm ModePerm) Clock c) (st_store (fst r))
         else snd r = inr (PathErr p ENOTDIR) /\ st_store (fst r) = s
       | None => exists c, snd r = inr (PathErr p c) /\ enoent_or_enotdir c /\ st_store (fst r) = s
       end
     else exists c, snd r = inr (PathErr p c) /\ enoent_or_enotdir c /\ st_store (fst r) = s).
Proof.
  intros G. cbn zeta. unfold kv_openfile.
  set (create := has_flag flag F_CREATE).
  set (ps := if create then [p; path_dir p] else [p]).
  split; [|split].
  - intros V. assert (X : forallb valid_path ps = false) by (unfold ps; destruct create; simpl; rewrite V; reflexivity).
    rewrite X. cbn [negb fst snd]. auto.
  - intros V rc L.
    assert (X : forallb valid_path ps = true).
    { unfold ps; destruct create; simpl; rewrite V, ?(valid_path_parent p V); reflexivity. }
    rewrite X. cbn [negb].
    destruct (get_records_nf ps st (proj1 G)) as [R1 E1]. destruct (get_records st ps) as [st1 rs]. cbn [fst snd] in *.
    assert (E0 : nth 0 rs (inr (Bare EOTHER)) = inl rc).
    { rewrite E1. unfold ps. destruct create; cbn [map nth]; unfold look; rewrite L; reflexivity. }
    rewrite E0.
    destruct (create && has_flag flag F_EXCL); [cbn [fst snd]; split; [reflexivity|apply R1]|].
    destruct (is_dir (r_mode rc) && has_flag flag dir_open_mask) eqn:DM; [cbn [fst snd]; split; [reflexivity|apply R1]|].
    cbn [fst snd].
    destruct (has_flag flag F_TRUNC) eqn:T.
    + assert (Dd : is_dir (r_mode rc) = false).
      { destruct (is_dir (r_mode rc)); [|reflexivity]. rewrite (trunc_in_dir_mask flag T) in DM. discriminate. }
      destruct (file_truncate0_spec st1 (with_open (mk_file p rc) flag (pick_wrapper flag)) (proj2 R1)) as (E & K & S).
      { apply with_open_usable. split; [reflexivity|discriminate]. }
      { exact Dd. }
      { exact V. }
      destruct (file_truncate st1 _ 0%Z) as [[st3 f2] e]. cbn [fst snd] in *. subst e. cbn [fst snd].
      split; [exists f2; split; [reflexivity|eapply keeps_trans; [apply with_open_keeps|exact K]]|].
      destruct S as [S|S]; [left; rewrite S; apply R1|right]. split; [reflexivity|]. rewrite S, (proj1 R1). reflexivity.
    + cbn [fst snd]. split; [eexists; split; [reflexivity|apply with_open_keeps]|left; apply R1].
  - intros V L.
    assert (X : forallb valid_path ps = true).
    { unfold ps; destruct create; simpl; rewrite V, ?(valid_path_parent p V); reflexivity. }
    rewrite X. cbn [negb].
    destruct (get_records_nf ps st (proj1 G)) as [R1 E1]. destruct (get_records st ps) as [st1 rs]. cbn [fst snd] in *.
    assert (E0 : nth 0 rs (inr (Bare EOTHER)) = inr (Bare ENOENT)).
    { rewrite E1. unfold ps. destruct create; cbn [map nth]; unfold look; rewrite L; reflexivity. }
    rewrite E0. cbn [err_cls cls_eqb andb].
    assert (NP : p <> []) by (apply valid_path_nonempty; exact V).
    destruct create eqn:C.
    + assert (E1' : nth 1 rs (inr (Bare EOTHER)) = look (st_store st) (path_dir p)) by (rewrite E1; reflexivity).
      rewrite E1'. unfold look. destruct (lookup (st_store st) (path_dir p)) as [par|] eqn:LP.
      * destruct (is_dir (r_mode par)) eqn:DP; cbn [negb]; [|cbn [fst snd]; split; [reflexivity|apply R1]].
        destruct (new_file_ro st1 p flag (N.land perm ModePerm) (proj2 R1)) as [S3 N3].
        pose proof (new_file_path st1 p flag (N.land perm ModePerm)) as [P3 M3].
        assert (Fr : usable (snd (new_file st1 p flag (N.land perm ModePerm))) /\ f_mtime (snd (new_file st1 p flag (N.land perm ModePerm))) = Clock)
          by (unfold new_file, alloc_cell; cbn; repeat split; discriminate).
        destruct (new_file st1 p flag (N.land perm ModePerm)) as [sta f]. cbn [fst snd] in *. destruct Fr as [Uf Tf].
        destruct (save_nf_ok sta f N3) as [E S]; [rewrite P3; exact V|apply Uf|].
        pose proof (save_keeps sta f) as Kf.
        pose proof (save_usable_nf sta f N3 Uf) as Uf'.
        pose proof (save_cell sta f) as Cf.
        destruct (save_nf sta f N3) as [Nb _].
        destruct (save sta f) as [[stb f'] e]. cbn [fst snd] in *. subst e.
        assert (Sb : store_upd (st_store st) p (mkRec (N.land perm ModePerm) Clock (h_cell f)) (st_store stb)).
        { rewrite S, P3, S3, (proj1 R1), M3, Tf. apply store_upd_insert. }
        destruct (has_flag flag F_TRUNC).
        -- destruct (file_truncate0_spec stb (with_open f' flag (pick_wrapper flag)) Nb) as (E & K & S').
           { apply with_open_usable. exact Uf'. }
           { rewrite (proj2 (with_open_keeps f' flag (pick_wrapper flag))), (proj2 Kf), M3. apply is_dir_land_perm. }
           { rewrite (proj1 (with_open_keeps f' flag (pick_wrapper flag))), (proj1 Kf), P3. exact V. }
           destruct (file_truncate stb _ 0%Z) as [[st3 f2] e]. cbn [fst snd] in *. subst e. cbn [fst snd].
           split.
           ++ exists f2. split; [reflexivity|].
              rewrite (proj1 K), (proj2 K), (proj1 (with_open_keeps f' _ _)), (proj2 (with_open_keeps f' _ _)), (proj1 Kf), (proj2 Kf). auto.
           ++ exists (h_cell f). destruct S' as [S'|S']; rewrite S'; [exact Sb|].
              intros q. rewrite lookup_insert, (Sb q).
              rewrite (proj1 (with_open_keeps f' _ _)), (proj1 Kf), P3.
              destruct (str_eqb p q); [|reflexivity].
              rewrite (proj2 (with_open_keeps f' _ _)), (proj2 Kf), M3.
              f_equal. f_equal. rewrite with_open_cell. exact Cf.
        -- cbn [fst snd]. split.
           ++ exists (with_open f' flag (pick_wrapper flag)). split; [reflexivity|].
              rewrite (proj1 (with_open_keeps f' _ _)), (proj2 (with_open_keeps f' _ _)), (proj1 Kf), (proj2 Kf). auto.
           ++ exists (h_cell f). exact Sb.
      * pose proof (not_dir_err_nf st1 (path_dir p) (Bare ENOENT) (proj2 R1)) as R2.
        pose proof (not_dir_err_cls st1 (path_dir p) (Bare ENOENT) (proj2 R1) eq_refl) as Cl.
        destruct (not_dir_err st1 (path_dir p) (Bare ENOENT)) as [stx e1']. cbn [fst snd] in *.
        exists (err_cls e1'). split; [reflexivity|]. split; [exact Cl|]. rewrite (proj1 R2). apply R1.
    + pose proof (not_dir_err_nf st1 p (Bare ENOENT) (proj2 R1)) as R2.
      pose proof (not_dir_err_cls st1 p (Bare ENOENT) (proj2 R1) eq_refl) as Cl.
      destruct (not_dir_err st1 p (Bare ENOENT)) as [stx e']. cbn [fst snd] in *.
      exists (err_cls e'). split; [reflexivity|]. split; [exact Cl|]. rewrite (proj1 R2). apply R1.
Qed.

(* ---- Rename of something that is not a directory ---- *)
Theorem kv_rename_file_spec fuel st o n rc : good st ->
  valid_path o = true -> valid_path n = true ->
  lookup (st_store st) o = Some rc -> is_dir (r_mode rc) = false ->
  let s := st_store st in
  let r := kv_rename (Datatypes.S fuel) st o n in
  (o = n -> snd r = None /\ st_store (fst r) = s) /\
  (o <> n -> ~ has_dir s (path_dir n) -> exists c, snd r = Some (LinkErr o n c) /\ st_store (fst r) = s) /\
  (o <> n -> has_dir s (path_dir n) -> forall rn, lookup s n = Some rn -> is_dir (r_mode rn) = true ->
     snd r = Some (LinkErr o n EEXIST) /\ st_store (fst r) = s) /\
  (o <> n -> has_dir s (path_dir n) ->
     (lookup s n = None \/ exists rn, lookup s n = Some rn /\ is_dir (r_mode rn) = false) ->
     snd r = None /\ st_store (fst r) = remove_key (insert s n (mkRec (r_mode rc) (r_mtime rc) (r_cell rc))) o).
Proof.
  intros G Vo Vn Lo Do. cbn zeta. cbn [kv_rename]. rewrite Vo, Vn. cbn [negb orb].
  destruct (get_file_nf st o (proj1 G)) as [R1 _]. pose proof (get_file_spec_good st o (proj1 G)) as GS.
  rewrite Lo in GS. destruct (get_file st o) as [st1 r1]. cbn [fst snd] in *. rewrite (GS Vo).
  assert (Dn : o <> dot).
  { intros ->. destruct (wf_root _ (proj2 G)) as (rr & Lr & Dr). rewrite Lo in Lr. inversion Lr; subst. congruence. }
  (* Stat of the old file *)
  assert (A : let x := (if is_regular (f_mode (mk_file o rc))
                        then (let '(s, f', _) := f_data st1 (mk_file o rc) in (s, f')) else (st1, mk_file o rc)) in
              ro st1 (fst x) /\ keeps (mk_file o rc) (snd x) /\ usable (snd x)
              /\ f_mtime (snd x) = r_mtime rc /\ h_cell (snd x) = r_cell rc).
  { destruct (is_regular (f_mode (mk_file o rc))).
    - pose proof (f_data_nf st1 (mk_file o rc) (proj2 R1)) as R. pose proof (f_data_keeps' st1 (mk_file o rc)) as K.
      pose proof (f_data_usable_nf st1 (mk_file o rc) (proj2 R1)) as U. pose proof (f_data_cell st1 (mk_file o rc)) as Cc.
      assert (T : f_mtime (snd (fst (f_data st1 (mk_file o rc)))) = r_mtime rc).
      { unfold f_data. cbn [h_loaded h_fresh mk_file]. destruct (sdata st1). reflexivity. }
      destruct (f_data st1 (mk_file o rc)) as [[s f'] ok]. cbn [fst snd] in *.
      split; [exact R|]. split; [exact K|]. split; [apply U; split; [reflexivity|discriminate]|]. split; [exact T|exact Cc].
    - cbn [fst snd]. split; [apply ro_refl; apply R1|]. split; [apply keeps_refl|]. split; [split; [reflexivity|discriminate]|]. split; reflexivity. }
  destruct (if is_regular (f_mode (mk_file o rc)) then _ else _) as [st1' fo]. cbn [fst snd] in A.
  destruct A as (R1' & Kfo & Ufo & Tfo & Cfo).
  assert (S01 : st_store st1' = st_store st) by (rewrite (proj1 R1'), (proj1 R1); reflexivity).
  assert (Mfo : f_mode fo = r_mode rc) by (rewrite (proj2 Kfo); reflexivity).
  split; [|split; [|split]].
  - (* same name *)
    intros <-. rewrite str_eqb_refl. cbn [negb andb].
    destruct (get_file_nf st1' o (proj2 R1')) as [R3 _]. pose proof (get_file_spec_good st1' o (proj2 R1')) as GS3.
    rewrite S01, Lo in GS3. destruct (get_file st1' o) as [st3 rn]. cbn [fst snd] in *. rewrite (GS3 Vo).
    cbn [f_mode mk_file h_mode_ov h_mode]. rewrite Do, Mfo, Do. cbn [negb].
    cbn [fst snd]. split; [reflexivity|]. rewrite (proj1 R3). exact S01.
  - intros NE NH. destruct (str_eqb_spec o n); [contradiction|]. cbn [negb andb].
    destruct (str_eqb_spec n dot) as [->|NDn].
    { exfalso. apply NH. change (path_dir dot) with dot. apply (wf_root _ (proj2 G)). }
    cbn [negb].
    destruct (get_file_nf st1' (path_dir n) (proj2 R1')) as [R2 E2]. pose proof (get_file_spec_good st1' (path_dir n) (proj2 R1')) as GS2.
    rewrite S01 in GS2. destruct (get_file st1' (path_dir n)) as [st2 rp]. cbn [fst snd] in *.
    destruct (lookup (st_store st) (path_dir n)) as [pr|] eqn:Lp.
    + rewrite (GS2 (valid_path_parent n Vn)). cbn [f_mode mk_file h_mode_ov h_mode].
      destruct (is_dir (r_mode pr)) eqn:Dp; [exfalso; apply NH; exists pr; auto|].
      cbn [fst snd]. eexists. split; [reflexivity|]. rewrite (proj1 R2). exact S01.
    + destruct (GS2 (valid_path_parent n Vn)) as (e & -> & _ & _). cbn [fst snd wrap_link].
      eexists. split; [reflexivity|]. rewrite (proj1 R2). exact S01.
  - intros NE (pr & Lp & Dp) rn Ln Drn. destruct (str_eqb_spec o n); [contradiction|]. cbn [negb andb].
    assert (Step : forall st2, ro st1' st2 ->
              let '(st3, rn') := get_file st2 n in
              rn' = inl (mk_file n rn) /\ st_store st3 = st_store st).
    { intros st2 R2. destruct (get_file_nf st2 n (proj2 R2)) as [R3 _]. pose proof (get_file_spec_good st2 n (proj2 R2)) as GS3.
      rewrite (proj1 R2), S01, Ln in GS3. destruct (get_file st2 n) as [st3 rn']. cbn [fst snd] in *.
      split; [exact (GS3 Vn)|]. rewrite (proj1 R3), (proj1 R2). exact S01. }
    destruct (str_eqb_spec n dot) as [->|NDn]; cbn [negb].
    + specialize (Step st1' (ro_refl _ (proj2 R1'))). destruct (get_file st1' dot) as [st3 rn']. destruct Step as [-> S3].
      cbn [f_mode mk_file h_mode_ov h_mode]. rewrite Drn. cbn [fst snd]. auto.
    + destruct (get_file_nf st1' (path_dir n) (proj2 R1')) as [R2 _]. pose proof (get_file_spec_good st1' (path_dir n) (proj2 R1')) as GS2.
      rewrite S01, Lp in GS2. destruct (get_file st1' (path_dir n)) as [st2 rp]. cbn [fst snd] in *.
      rewrite (GS2 (valid_path_parent n Vn)). cbn [f_mode mk_file h_mode_ov h_mode]. rewrite Dp.
      specialize (Step st2 R2). destruct (get_file st2 n) as [st3 rn']. destruct Step as [-> S3].
      cbn [f_mode mk_file h_mode_ov h_mode]. rewrite Drn. cbn [fst snd]. auto.
  - intros NE (pr & Lp & Dp) Ln. destruct (str_eqb_spec o n); [contradiction|]. cbn [negb andb].
    assert (NDn : n <> dot).
    { intros ->. destruct (wf_root _ (proj2 G)) as (rr & Lr & Dr). destruct Ln as [Ln|(rn & Ln & Dn')]; congruence. }
    destruct (str_eqb_spec n dot); [contradiction|]. cbn [negb].
    destruct (get_file_nf st1' (path_dir n) (proj2 R1')) as [R2 _]. pose proof (get_file_spec_good st1' (path_dir n) (proj2 R1')) as GS2.
    rewrite S01, Lp in GS2. destruct (get_file st1' (path_dir n)) as [st2 rp]. cbn [fst snd] in *.
    rewrite (GS2 (valid_path_parent n Vn)). cbn [f_mode mk_file h_mode_ov h_mode]. rewrite Dp.
    destruct (get_file_nf st2 n (proj2 R2)) as [R3 _]. pose proof (get_file_spec_good st2 n (proj2 R2)) as GS3.
    rewrite (proj1 R2), S01 in GS3. destruct (get_file st2 n) as [st3 rn']. cbn [fst snd] in *.
    assert (S03 : st_store st3 = st_store st) by (rewrite (proj1 R3), (proj1 R2); exact S01).
    assert (Branch : (match rn' with inr en => negb (cls_eqb (err_cls en) ENOENT) | inl _ => false end) = false
                     /\ (match rn' with inl fn => is_dir (f_mode fn) | inr _ => false end) = false).
    { destruct Ln as [Ln|(rn & Ln & Dn')]; rewrite Ln in GS3.
      - destruct (GS3 Vn) as (e & -> & _ & B). rewrite (B (or_intror (ex_intro _ pr (conj Lp Dp)))). split; reflexivity.
      - rewrite (GS3 Vn). split; [reflexivity|exact Dn']. }
    destruct Branch as [-> ->]. rewrite Mfo, Do. cbn [negb].
    destruct (str_eqb_spec o n); [contradiction|].
    assert (FD : exists st4 fo1, f_data st3 fo = (st4, fo1, true) /\ ro st3 st4 /\ f_mode fo1 = f_mode fo
                 /\ f_mtime fo1 = f_mtime fo /\ h_cell fo1 = h_cell fo).
    { unfold f_data. destruct Ufo as [_ LE]. destruct (h_loaded fo) eqn:L.
      - exists st3, fo. rewrite (LE eq_refl). repeat split; auto. apply R3.
      - destruct (h_fresh fo).
        + exists st3, (set_loaded fo false). destruct (set_loaded_fields fo false) as (A1 & A2 & A3). repeat split; auto. apply R3.
        + unfold sdata. destruct (tick_nf st3 (proj2 R3)) as [Rt Bt]. destruct (tick st3) as [st4 bad]. cbn [fst snd] in *. subst bad.
          exists st4, (set_loaded fo false). destruct (set_loaded_fields fo false) as (A1 & A2 & A3). repeat split; auto; apply Rt. }
    destruct FD as (st4 & fo1 & -> & R4 & M1 & T1 & C1). cbn [negb].
    destruct (sset_nf st4 n (Some (mkRec (f_mode fo1) (f_mtime fo1) (h_cell fo1))) (proj2 R4)) as (N5 & E5 & S5).
    destruct (sset st4 n _) as [st5 e1]. cbn [fst snd] in *. subst e1.
    destruct (sset_nf st5 o None N5) as (N6 & E6 & S6). destruct (sset st5 o None) as [st6 e2]. cbn [fst snd] in *. subst e2.
    split; [reflexivity|]. rewrite S6, S5, (proj1 R4), S03, M1, T1, C1, Mfo, Tfo, Cfo. reflexivity.
Qed.

(* ---- ReadFile returns the bytes of the record's blob ---- *)
From HP Require Import KV.HandleProofs.

Lemma has_flag_zero b : has_flag 0 b = false.
Proof. unfold has_flag. rewrite N.land_0_l. reflexivity. Qed.

Lemma sublist_all {A} (l : list A) n : (length l <= n)%nat -> sublist 0 n l = l.
Proof. intros H. unfold sublist. simpl. rewrite Nat.sub_0_r. apply firstn_all2. exact H. Qed.

Theorem kv_readfile_spec st p rc : good st -> valid_path p = true ->
  lookup (st_store st) p = Some rc -> is_regular (r_mode rc) = true ->
  snd (kv_readfile st p) = inl (cell st (r_cell rc)) /\ st_store (fst (kv_readfile st p)) = st_store st.
Proof.
  intros G V L Reg. unfold kv_readfile, kv_openfile. unfold O_RDONLY. rewrite !has_flag_zero.
  cbn [forallb]. rewrite V. cbn [andb negb].
  destruct (get_records_nf [p] st (proj1 G)) as [R1 E1]. pose proof (same_hh_heap st (fst (get_records st [p]))) as H1.
  assert (HH1 : same_hh st (fst (get_records st [p]))).
  { cbn [get_records]. pose proof (sget_hh st p) as X. destruct (sget st p) as [s1 r1]. exact X. }
  specialize (H1 HH1).
  destruct (get_records st [p]) as [st1 rs]. cbn [fst snd] in *.
  rewrite E1. cbn [map nth]. unfold look. rewrite L. rewrite andb_false_r. cbn [fst snd].
  set (h := with_open (mk_file p rc) 0 (pick_wrapper 0)).
  assert (Mh : f_mode h = r_mode rc) by reflexivity. rewrite Mh, Reg.
  pose proof (f_data_makes_ready st1 h (proj2 R1) eq_refl eq_refl) as FD.
  destruct (f_data st1 h) as [[st2 h1] ok]. destruct FD as (-> & Rd & Hp & Sp & Cc).
  pose proof (read_at_spec st2 h1 (Datatypes.S (length (cell st2 (h_cell h1)))) 0%Z Rd) as RS.
  destruct (read_at st2 h1 _ 0%Z) as [[[st3 h3] d] e]. cbn zeta in RS. destruct RS as (-> & A & B).
  assert (Cell : cell st2 (h_cell h1) = cell st (r_cell rc)).
  { unfold cell. rewrite Hp, H1, Cc. reflexivity. }
  destruct (length (cell st2 (h_cell h1))) as [|k] eqn:Len.
  - destruct (A ltac:(lia)) as [-> ->]. cbn [fst snd]. split; [|rewrite Sp; apply R1].
    f_equal. rewrite <- Cell. destruct (cell st2 (h_cell h1)); [reflexivity|discriminate].
  - destruct (B ltac:(lia)) as (-> & Ee & _).
    assert (E' : e = Some (Bare EEOF)) by (apply Ee; lia). subst e.
    cbn [fst snd]. split; [|rewrite Sp; apply R1]. f_equal. rewrite <- Cell.
    replace (Z.min (0 + Z.of_nat (Datatypes.S (Datatypes.S k))) (Z.of_nat (Datatypes.S k))) with (Z.of_nat (Datatypes.S k)) by lia.
    rewrite Nat2Z.id. cbn [Z.to_nat]. apply sublist_all. rewrite Len. lia.
Qed.

(* ---- WriteAt through a ready handle: what the store holds afterwards ---- *)
Lemma write_at_store st h d off :
  nf st -> ready h -> valid_path (h_path h) = true ->
  has_flag (h_flag h) F_APPEND = false -> (0 <= off)%Z -> d <> [] ->
  st_store (fst (fst (fst (write_at st h d off)))) = insert (st_store st) (h_path h) (mkRec (f_mode h) Clock (h_cell h)).
Proof.
  intros NF R VP AP Hoff Hd. unfold write_at. destruct R as (L & E & C). rewrite C, AP.
  destruct (Z.ltb_spec off 0); [lia|]. destruct d as [|x d']; [congruence|].
  destruct (cur_size_ready st h (conj L (conj E C))) as (h1 & CS & R1 & Hc1 & _ & _ & P1 & M1 & _).
  rewrite CS. rewrite (f_data_ready st h1 R1). cbn [negb].
  assert (NZ : (Z.of_nat (length (x :: d')) =? 0)%Z = false) by (apply Z.eqb_neq; simpl; lia).
  rewrite NZ.
  match goal with |- context [save ?s ?hh] => set (st4 := s); set (h4 := hh) end.
  destruct (save_nf_ok st4 h4) as [_ S].
  { exact NF. }
  { unfold h4. rewrite (proj1 (stamp_clock_keeps h1)), P1. exact VP. }
  { intros _. unfold h4. destruct R1 as (_ & E1 & _). destruct h1; exact E1. }
  destruct (save st4 h4) as [[st5 h5] e]. cbn [fst snd] in *. rewrite S.
  unfold h4. rewrite (proj1 (stamp_clock_keeps h1)), (proj2 (stamp_clock_keeps h1)), stamp_clock_mtime, stamp_clock_cell, P1, M1, Hc1.
  reflexivity.
Qed.

Lemma is_regular_land_perm x : is_regular (N.land x ModePerm) = true.
Proof.
  unfold is_regular. apply N.eqb_eq. apply N.bits_inj_0. intros i. rewrite !N.land_spec.
  destruct (N.testbit ModePerm i) eqn:P; [|rewrite andb_false_r; reflexivity].
  (* bits 0..8 of ModePerm are not type bits *)
  assert (Hi : (i < 9)%N).
  { destruct (N.lt_ge_cases i 9) as [H|H]; [exact H|]. exfalso.
    assert (N.testbit ModePerm i = false) by (apply N.bits_above_log2; change (N.log2 ModePerm) with 8; lia). congruence. }
  replace (N.testbit ModeType i) with false; [apply andb_false_r|].
  symmetry. destruct (N.eq_dec i 0) as [->|]; [reflexivity|]. destruct (N.eq_dec i 1) as [->|]; [reflexivity|].
  destruct (N.eq_dec i 2) as [->|]; [reflexivity|]. destruct (N.eq_dec i 3) as [->|]; [reflexivity|].
  destruct (N.eq_dec i 4) as [->|]; [reflexivity|]. destruct (N.eq_dec i 5) as [->|]; [reflexivity|].
  destruct (N.eq_dec i 6) as [->|]; [reflexivity|]. destruct (N.eq_dec i 7) as [->|]; [reflexivity|].
  destruct (N.eq_dec i 8) as [->|]; [reflexivity|]. lia.
Qed.

(* ---- creating a new regular file: the handle OpenFile returns ---- *)
Lemma get_records_heap ps : forall st, st_heap (fst (get_records st ps)) = st_heap st.
Proof.
  induction ps as [|p ps IH]; intros st; [reflexivity|]. cbn [get_records].
  pose proof (same_hh_heap _ _ (sget_hh st p)) as H1. destruct (sget st p) as [st1 r]. cbn [fst] in H1.
  specialize (IH st1). destruct (get_records st1 ps) as [st2 rs]. cbn [fst] in *. congruence.
Qed.

Lemma nth_app_new {A} (l : list A) x d : nth (length l) (l ++ [x]) d = x.
Proof. rewrite app_nth2 by lia. rewrite Nat.sub_diag. reflexivity. Qed.

Lemma kv_openfile_create_new st p flag perm : good st -> valid_path p = true ->
  lookup (st_store st) p = None -> has_dir (st_store st) (path_dir p) ->
  has_flag flag F_CREATE = true ->
  let r := kv_openfile st p flag perm in
  let c := length (st_heap st) in
  exists f, snd r = inl f /\ ready f /\ h_path f = p /\ f_mode f = N.land perm ModePerm /\ h_cell f = c
            /\ h_off f = 0%Z /\ h_flag f = flag
            /\ st_heap (fst r) = st_heap st ++ [[]] /\ nf (fst r)
            /\ st_store (fst r) = insert (st_store st) p (mkRec (N.land perm ModePerm) Clock c).
Proof.
  intros G V L (par & LP & DP) CR. cbn zeta. unfold kv_openfile. rewrite CR.
  cbn [forallb]. rewrite V, (valid_path_parent p V). cbn [andb negb].
  destruct (get_records_nf [p; path_dir p] st (proj1 G)) as [R1 E1].
  pose proof (get_records_heap [p; path_dir p] st) as H1.
  destruct (get_records st [p; path_dir p]) as [st1 rs]. cbn [fst snd] in *.
  rewrite E1. cbn [map nth]. unfold look. rewrite L, LP. cbn [err_cls cls_eqb andb]. rewrite DP. cbn [negb].
  unfold new_file, alloc_cell. cbn [fst snd].
  set (sta := set_heap st1 (st_heap st1 ++ [[]])).
  set (f := mkH p (length (st_heap st1)) (N.land perm ModePerm) Clock None None 0%Z flag WRO false false true None false None).
  assert (Na : nf sta) by apply R1.
  destruct (save_nf_ok sta f Na) as [E S]; [exact V|discriminate|].
  pose proof (save_hh sta f) as HHs.
  assert (F' : snd (fst (save sta f)) = set_loaded f false).
  { unfold save, set_file. cbn [f_mode f h_mode_ov h_mode]. rewrite is_regular_land_perm.
    unfold f_data. cbn [h_loaded h_fresh f]. cbn [negb]. change (h_path f) with p. rewrite V. cbn [negb].
    destruct (sset sta p _). reflexivity. }
  destruct (save sta f) as [[stb f'] e]. cbn [fst snd] in *. subst e f'.
  assert (Hb : st_heap stb = st_heap st ++ [[]]).
  { rewrite (same_hh_heap _ _ HHs). unfold sta. cbn [set_heap st_heap]. rewrite H1. reflexivity. }
  assert (Nb : nf stb).
  { destruct HHs as (_ & _ & X). unfold nf. rewrite <- X. exact Na. }
  assert (Sb : st_store stb = insert (st_store st) p (mkRec (N.land perm ModePerm) Clock (length (st_heap st)))).
  { rewrite S. unfold sta. cbn [set_heap st_store h_path f f_mode f_mtime h_mode_ov h_mtime_ov h_mode h_mtime h_cell].
    rewrite (proj1 R1), H1. reflexivity. }
  set (f1 := with_open (set_loaded f false) flag (pick_wrapper flag)).
  assert (Rf1 : ready f1) by (repeat split; reflexivity).
  assert (Cf1 : h_cell f1 = length (st_heap st)) by (cbn; rewrite H1; reflexivity).
  destruct (has_flag flag F_TRUNC).
  - (* O_TRUNC on the empty new file changes nothing *)
    unfold file_truncate. cbn [h_closed f1 with_open set_loaded f].
    assert (Dm : is_dir (f_mode f1) = false) by (cbn; apply is_dir_land_perm). rewrite Dm.
    rewrite (f_data_ready stb f1 Rf1). unfold f_size. cbn [h_loaded h_data_err f1 with_open set_loaded f andb negb fst snd].
    assert (Len : length (cell stb (h_cell f1)) = O).
    { unfold cell. rewrite Hb, Cf1, nth_app_new. reflexivity. }
    cbn [h_cell f1 with_open set_loaded f] in Len |- *. rewrite Len. cbn [Z.of_nat Z.ltb Z.eqb Z.compare].
    cbn [fst snd]. eexists. split; [reflexivity|]. repeat split; auto; try (cbn; rewrite H1; reflexivity).
  - cbn [fst snd]. exists f1. split; [reflexivity|]. repeat split; auto; try (cbn; rewrite H1; reflexivity).
Qed.

(* ---- WriteFullFile to a new name, then ReadFile: the same bytes ---- *)
Theorem write_new_then_read st p d perm : good st -> valid_path p = true ->
  lookup (st_store st) p = None -> has_dir (st_store st) (path_dir p) -> d <> [] ->
  let st' := fst (kv_writefile st p d perm) in
  snd (kv_writefile st p d perm) = None /\ snd (kv_readfile st' p) = inl d.
Proof.
  intros G V L HD Hd. cbn zeta.
  pose proof (kv_writefile_good st p d perm G) as G'.
  unfold kv_writefile in *.
  destruct (kv_openfile_create_new st p (N.lor F_WRONLY (N.lor F_CREATE F_TRUNC)) perm G V L HD eq_refl)
    as (f & Ef & Rf & Pf & Mf & Cf & Of & Ff & Hb & Nb & Sb).
  destruct (kv_openfile st p (N.lor F_WRONLY (N.lor F_CREATE F_TRUNC)) perm) as [st1 r]. cbn [fst snd] in *. subst r.
  assert (Vf : valid_path (h_path f) = true) by (rewrite Pf; exact V).
  assert (Af : has_flag (h_flag f) F_APPEND = false) by (rewrite Ff; reflexivity).
  assert (Bound : (h_cell f < length (st_heap st1))%nat) by (rewrite Cf, Hb, app_length; simpl; lia).
  pose proof (write_at_spec st1 f d (h_off f) Nb Rf Vf Bound Af ltac:(rewrite Of; lia) Hd) as WS.
  pose proof (write_at_store st1 f d (h_off f) Nb Rf Vf Af ltac:(rewrite Of; lia) Hd) as WSt.
  destruct (write_at st1 f d (h_off f)) as [[[st2 h2] n] e]. cbn zeta in WS. cbn [fst snd] in *.
  destruct WS as (-> & _ & Cell). split; [reflexivity|].
  assert (Cd : cell st2 (h_cell f) = d).
  { rewrite Cell. rewrite Of. cbn [Z.add Z.to_nat].
    assert (E0 : cell st1 (h_cell f) = []) by (unfold cell; rewrite Hb, Cf, nth_app_new; reflexivity).
    rewrite E0. cbn [length Z.of_nat].
    destruct (Z.ltb_spec 0 (Z.of_nat (length d))) as [_|X]; [|destruct d; [congruence|simpl in X; lia]].
    cbn [app]. rewrite Z.sub_0_r, Nat2Z.id. unfold splice. cbn [firstn app Nat.add].
    unfold zeros. rewrite skipn_all2 by (rewrite repeat_length; lia). apply app_nil_r. }
  destruct (kv_readfile_spec st2 p (mkRec (f_mode f) Clock (h_cell f)) G' V) as [RD _].
  - rewrite WSt, Pf, lookup_insert, str_eqb_refl. reflexivity.
  - cbn [r_mode]. rewrite Mf. apply is_regular_land_perm.
  - rewrite RD. cbn [r_cell]. rewrite Cd. reflexivity.
Qed.

(* ---- MkdirAll: on success the directory exists and nothing was lost; on failure nothing changed ---- *)
Lemma ancestors_valid fuel : forall p, valid_path p = true -> Forall (fun q => valid_path q = true) (ancestors fuel p).
Proof.
  induction fuel as [|f IH]; intros p V; simpl; destruct (str_eqb p dot); repeat constructor; auto.
  apply IH. apply valid_path_parent. exact V.
Qed.

Lemma make_dirs_ok perm qs : forall st, nf st -> Forall (fun q => valid_path q = true) qs ->
  snd (make_dirs st qs perm) = None.
Proof.
  induction qs as [|q qs IH]; intros st H F; [reflexivity|]. inversion F as [|? ? Vq Fq]; subst. cbn [make_dirs].
  destruct (new_file_ro st q 0 (N.lor ModeDir (N.land perm ModePerm)) H) as [S3 N3].
  pose proof (new_file_path st q 0 (N.lor ModeDir (N.land perm ModePerm))) as [P3 M3].
  destruct (new_file st q 0 (N.lor ModeDir (N.land perm ModePerm))) as [st3 f]. cbn [fst snd] in *.
  destruct (save_nodata_nf st3 f N3) as [E S].
  { rewrite M3. apply is_regular_not_dir. apply is_dir_lor_ModeDir. }
  { rewrite P3. exact Vq. }
  destruct (save_nf st3 f N3) as [N4 _].
  destruct (save st3 f) as [[st4 f'] e]. cbn [fst snd] in *. subst e. apply IH; assumption.
Qed.

Theorem kv_mkdirall_spec st p perm : good st -> valid_path p = true ->
  let r := kv_mkdirall st p perm in
  (snd r = None /\ has_dir (st_store (fst r)) p /\ forall q, has_dir (st_store st) q -> has_dir (st_store (fst r)) q)
  \/ (snd r <> None /\ st_store (fst r) = st_store st).
Proof.
  intros G V. cbn zeta. unfold kv_mkdirall. rewrite V. cbn [negb].
  pose proof (ancestors_chain (length p) p (valid_key_ok p V) (le_n _)) as C.
  pose proof (ancestors_valid (length p) p V) as AV.
  pose proof (ancestors_hd (length p) p) as HDp.
  destruct (get_records_nf (ancestors (length p) p) st (proj1 G)) as [R1 E1].
  destruct (get_records st (ancestors (length p) p)) as [st1 rs]. cbn [fst snd] in *.
  pose proof (good_ro _ _ G R1) as G1. rewrite E1.
  destruct (scan_missing (ancestors (length p) p) (map (look (st_store st)) (ancestors (length p) p)) []) as [missing|e] eqn:SC;
    [|right; cbn [fst snd]; split; [discriminate|apply R1]].
  destruct (scan_spec _ _ _ _ SC) as (ms & rest & Eq & -> & RR). cbn [app].
  rewrite Eq in C, AV, HDp.
  assert (NE : rest <> []).
  { intros ->. rewrite app_nil_r in *. exfalso.
    assert (In dot ms) by (clear - C; induction C; [left; reflexivity|right; assumption]).
    assert (Forall (fun q => lookup (st_store st) q = None) ms).
    { clear - SC Eq. rewrite Eq in SC. clear Eq. revert SC. generalize (@nil str). induction ms as [|m ms IH]; intros acc H; [constructor|].
      simpl in H. unfold look at 1 in H. destruct (lookup (st_store st) m) eqn:L.
      - destruct (is_dir (r_mode r)); [|discriminate]. inversion H as [X]. exfalso.
        apply (f_equal (@length _)) in X. rewrite app_length in X. simpl in X. lia.
      - constructor; [exact L|]. cbn [err_cls cls_eqb] in H. apply (IH (acc ++ [m])). rewrite <- app_assoc. exact H. }
    rewrite Forall_forall in H0. specialize (H0 dot H). destruct (wf_root _ (proj2 G)) as (rr & Lr & _). congruence. }
  destruct RR as [->|HD]; [congruence|].
  assert (HD1 : has_dir (st_store st1) (hd dot rest)) by (rewrite (proj1 R1); exact HD).
  destruct (make_dirs_chain perm rest NE ms st1 C G1 HD1) as [G2 P2].
  pose proof (make_dirs_ok perm (rev ms) st1 (proj1 G1)) as OK.
  destruct (make_dirs st1 (rev ms) perm) as [st2 e2]. cbn [fst snd] in *.
  assert (E2 : e2 = None) by (apply OK; apply Forall_rev; apply Forall_app in AV; tauto). subst e2.
  left. destruct (P2 eq_refl) as [Hp Mono]. split; [reflexivity|]. split; [rewrite <- HDp; exact Hp|].
  intros q Hq. apply Mono. rewrite (proj1 R1). exact Hq.
Qed.

(* ---- RemoveAll: when it reports success the name is gone ---- *)
Lemma swallow_none_cases e : (match e with Some e' => if cls_eqb (err_cls e') ENOENT then None else Some e' | None => None end) = None ->
  e = None \/ exists e', e = Some e' /\ err_cls e' = ENOENT.
Proof.
  destruct e as [e'|]; [|auto]. destruct (cls_eqb (err_cls e') ENOENT) eqn:C; [|discriminate].
  intros _. right. exists e'. split; [reflexivity|]. destruct (err_cls e'); try discriminate; reflexivity.
Qed.

Lemma remove_then_gone st p : good st -> valid_path p = true ->
  (snd (kv_remove st p) = None \/ exists e', snd (kv_remove st p) = Some e' /\ err_cls e' = ENOENT) ->
  lookup (st_store (fst (kv_remove st p))) p = None.
Proof.
  intros G V H. destruct (kv_remove_spec st p G) as (_ & B & C & D).
  destruct (lookup (st_store st) p) as [rc|] eqn:L.
  - destruct (str_eqb_spec p dot) as [->|Dp].
    + destruct C as [E _]. rewrite E in H. destruct H as [H|(e' & H & Cl)]; [discriminate|]. inversion H; subst. discriminate.
    + specialize (D V Dp rc eq_refl).
      destruct (is_dir (r_mode rc) && match child_names p (st_store st) with [] => false | _ => true end).
      * destruct D as [E _]. rewrite E in H. destruct H as [H|(e' & H & Cl)]; [discriminate|]. inversion H; subst. discriminate.
      * destruct D as [_ S]. rewrite S, lookup_remove_key, str_eqb_refl. reflexivity.
  - destruct (B V eq_refl) as (c & E & _ & S). rewrite S. exact L.
Qed.

Theorem remove_all_success_means_gone fuel : forall st p, good st ->
  snd (remove_all fuel st p) = None -> lookup (st_store (fst (remove_all fuel st p))) p = None.
Proof.
  induction fuel as [|fuel IH]; intros st p G; [discriminate|]. cbn [remove_all].
  destruct (kv_stat_spec st p G) as (S1 & A1 & B1 & C1).
  destruct (kv_stat_nf st p (proj1 G)) as [R1 E1].
  destruct (kv_stat st p) as [st1 r]. cbn [fst snd] in *.
  pose proof (good_ro _ _ G R1) as G1.
  destruct r as [f|e].
  - destruct E1 as (rc & L & -> & V).
    destruct (negb (is_dir (f_mode (mk_file p rc)))).
    + pose proof (remove_then_gone st1 p G1 V) as X. destruct (kv_remove st1 p) as [st2 e]. cbn [fst snd] in *.
      intros H. apply X. apply swallow_none_cases. exact H.
    + pose proof (kv_readdir_good st1 p G1) as G2. destruct (kv_readdir st1 p) as [st2 rd]. cbn [fst snd] in *.
      destruct rd as [entries|e]; [|discriminate].
      assert (Go : forall l st0, good st0 ->
                good (fst ((fix go (st : kv) (l : list (str * N)) : kv * option err :=
                              match l with
                              | [] => (st, None)
                              | (nm, _) :: l' =>
                                let '(st', e) := remove_all fuel st (join2 p nm) in
                                match e with
                                | Some e => (st', Some (wrap p e))
                                | None => go st' l'
                                end
                              end) st0 l))).
      { induction l as [|[nm md] l IHl]; intros st0 G0; [exact G0|].
        pose proof (remove_all_good fuel st0 (join2 p nm) G0) as Gx. destruct (remove_all fuel st0 (join2 p nm)) as [st' e]. cbn [fst snd] in *.
        destruct e; [exact Gx|apply IHl; exact Gx]. }
      specialize (Go entries st2 G2).
      match goal with |- context [let '(st3, e) := ?x in _] => destruct x as [st3 e] end. cbn [fst snd] in Go.
      destruct e; [discriminate|].
      pose proof (remove_then_gone st3 p Go V) as X. destruct (kv_remove st3 p) as [st4 e4]. cbn [fst snd] in *.
      intros H. apply X. apply swallow_none_cases. exact H.
  - cbn [fst snd]. destruct (cls_eqb (err_cls e) ENOENT) eqn:C; [|discriminate]. intros _.
    destruct E1 as [[V ->]|[V L]]; [discriminate|]. rewrite (proj1 R1). exact L.
Qed.
