(* Key-value FS model: package helpers with their fallbacks (fs.go of /repo, on an FS that, like
   mem.FS, has no RemoveAll/ReadDir/ReadFile/WriteFile of its own), the operation alphabet,
   one step, observations and tree snapshots. *)
From HP Require Import Base.Prelude Base.Path KV.Types KV.FS KV.Handle.
Open Scope N_scope.

Definition O_RDONLY : N := 0.

(* io/fs.ReadFile: Open, Stat, Read until EOF, Close *)
Definition kv_readfile (st : kv) (p : str) : kv * (list N + err) :=
  let '(st1, r) := kv_openfile st p O_RDONLY 0 in
  match r with
  | inr e => (st1, inr e)
  | inl h =>
    let '(st2, h1) := if is_regular (f_mode h) then (let '(s, h', _) := f_data st1 h in (s, h')) else (st1, h) in
    let size := length (cell st2 (h_cell h1)) in
    let '(st3, _, d, e) := read_at st2 h1 (Datatypes.S size) 0%Z in
    match e with
    | Some (Bare EEOF) | None => (st3, inl d)
    | Some e => (st3, inr e)
    end
  end.

(* io/fs.ReadDir: Open, ReadDir(-1), sort by name, Close *)
Fixpoint insert_entry (x : str * N) (l : list (str * N)) : list (str * N) :=
  match l with
  | [] => [x]
  | y :: l' => if str_ltb (fst y) (fst x) then y :: insert_entry x l' else x :: l
  end.
Definition sort_entries (l : list (str * N)) : list (str * N) := fold_right insert_entry [] l.

Definition kv_readdir (st : kv) (p : str) : kv * (list (str * N) + err) :=
  let '(st1, r) := kv_openfile st p O_RDONLY 0 in
  match r with
  | inr e => (st1, inr e)
  | inl h =>
    let '(st2, _, l, e) := read_dir st1 h (-1)%Z in
    match e with
    | Some e => (st2, inr e)
    | None => (st2, inl (sort_entries l))
    end
  end.

(* WriteFullFile fallback: OpenFile(WRONLY|CREATE|TRUNC), Write, Close *)
Definition kv_writefile (st : kv) (p : str) (d : list N) (perm : N) : kv * option err :=
  let '(st1, r) := kv_openfile st p (N.lor F_WRONLY (N.lor F_CREATE F_TRUNC)) perm in
  match r with
  | inr e => (st1, Some e)
  | inl h =>
    let '(st2, _, _, e) := write_at st1 h d (h_off h) in (st2, e)
  end.

(* RemoveAll fallback *)
Fixpoint remove_all (fuel : nat) (st : kv) (p : str) : kv * option err :=
  match fuel with
  | O => (st, Some (Bare EOTHER))
  | Datatypes.S fuel' =>
    let '(st1, r) := kv_stat st p in
    match r with
    | inr e => (st1, if cls_eqb (err_cls e) ENOENT then None else Some e)
    | inl f =>
      if negb (is_dir (f_mode f)) then
        let '(st2, e) := kv_remove st1 p in
        (st2, match e with Some e' => if cls_eqb (err_cls e') ENOENT then None else Some e' | None => None end)
      else
        let '(st2, rd) := kv_readdir st1 p in
        match rd with
        | inr e => (st2, Some (wrap p e))
        | inl entries =>
          let fix go (st : kv) (l : list (str * N)) : kv * option err :=
            match l with
            | [] => (st, None)
            | (nm, _) :: l' =>
              let '(st', e) := remove_all fuel' st (join2 p nm) in
              match e with
              | Some e => (st', Some (wrap p e))
              | None => go st' l'
              end
            end in
          let '(st3, e) := go st2 entries in
          match e with
          | Some e => (st3, Some e)
          | None =>
            let '(st4, e) := kv_remove st3 p in
            (st4, match e with Some e' => if cls_eqb (err_cls e') ENOENT then None else Some e' | None => None end)
          end
        end
    end
  end.

Definition kv_removeall (st : kv) (p : str) : kv * option err :=
  if negb (valid_path p) then (st, Some (PathErr p EINVAL))
  else remove_all (Datatypes.S (length (st_store st))) st p.

Inductive op :=
| Mkdir (p : str) (perm : N)
| MkdirAll (p : str) (perm : N)
| Open (p : str) (flag perm : N)
| OpenClose (p : str) (flag perm : N)   (* OpenFile then Close at once *)
| WriteFile (p : str) (d : list N) (perm : N)
| Remove (p : str)
| RemoveAll (p : str)
| Rename (o n : str)
| Chmod (p : str) (m : N)
| Chtimes (p : str) (t : Z)
| Stat (p : str)
| ReadDir (p : str)
| ReadFile (p : str)
| H (i : nat) (o : hop).

Inductive obs :=
| VOk
| VErr (e : err)
| VHandle (i : nat)
| VInfo (name : str) (mode : N) (size : Z) (mt : mtime)
| VEntries (l : list (str * N))
| VBytes (d : list N)
| VH (r : hres)
| VPanic.

Definition of_err (e : option err) : obs := match e with Some e => VErr e | None => VOk end.

Definition rename_fuel (st : kv) : nat := Datatypes.S (Datatypes.S (length (st_store st))).

Definition step (st : kv) (o : op) : kv * obs :=
  match o with
  | Mkdir p perm => let '(s, e) := kv_mkdir st p perm in (s, of_err e)
  | MkdirAll p perm => let '(s, e) := kv_mkdirall st p perm in (s, of_err e)
  | Open p flag perm =>
    let '(s, r) := kv_openfile st p flag perm in
    match r with
    | inr e => (s, VErr e)
    | inl h => (set_handles s (st_handles s ++ [h]), VHandle (length (st_handles s)))
    end
  | OpenClose p flag perm =>
    let '(s, r) := kv_openfile st p flag perm in
    match r with inr e => (s, VErr e) | inl _ => (s, VOk) end
  | WriteFile p d perm => let '(s, e) := kv_writefile st p d perm in (s, of_err e)
  | Remove p => let '(s, e) := kv_remove st p in (s, of_err e)
  | RemoveAll p => let '(s, e) := kv_removeall st p in (s, of_err e)
  | Rename a b => let '(s, e) := kv_rename (rename_fuel st) st a b in (s, of_err e)
  | Chmod p m => let '(s, e) := kv_chmod st p m in (s, of_err e)
  | Chtimes p t => let '(s, e) := kv_chtimes st p t in (s, of_err e)
  | Stat p =>
    let '(s, r) := kv_stat st p in
    match r with
    | inr e => (s, VErr e)
    | inl f => (s, VInfo (path_base p) (f_mode f) (Z.of_nat (length (cell s (h_cell f)))) (f_mtime f))
    end
  | ReadDir p =>
    let '(s, r) := kv_readdir st p in
    match r with inr e => (s, VErr e) | inl l => (s, VEntries l) end
  | ReadFile p =>
    let '(s, r) := kv_readfile st p in
    match r with inr e => (s, VErr e) | inl d => (s, VBytes d) end
  | H i o => let '(s, r) := hstep st i o in (s, VH r)
  end.

(* keyvalue.NewFS: Mkdir(".", 0666) on an empty store *)
Definition kv_init : kv :=
  mkKV [(dot, mkRec (N.lor ModeDir 438) Clock 0%nat)] [[]] [] 0%nat None.

(* tree snapshot: every record, sorted by path; bytes of regular files *)
Definition snap_entry := (str * N * mtime * list N)%type.

Fixpoint insert_snap (x : snap_entry) (l : list snap_entry) : list snap_entry :=
  match l with
  | [] => [x]
  | y :: l' => if str_ltb (fst (fst (fst y))) (fst (fst (fst x))) then y :: insert_snap x l' else x :: l
  end.

Definition snapshot (st : kv) : list snap_entry :=
  fold_right insert_snap []
    (map (fun kvp => let '(k, r) := kvp in
                     (k, r_mode r, r_mtime r, if is_regular (r_mode r) then cell st (r_cell r) else []))
         (st_store st)).

Fixpoint run (st : kv) (ops : list op) : list (obs * list snap_entry) :=
  match ops with
  | [] => []
  | o :: rest => let '(st', v) := step st o in (v, snapshot st') :: run st' rest
  end.

Definition exec (ops : list op) : kv := fold_left (fun s o => fst (step s o)) ops kv_init.
