(* Theorems about open handles of the key-value FS model (C02, C17, parts of C16). *)
From HP Require Import Base.Prelude Base.ListLemmas Base.Path KV.Types KV.FS KV.Handle KV.Run.
Open Scope N_scope.

Ltac case_all :=
  repeat match goal with
  | |- context [match ?x with _ => _ end] =>
      match type of x with
      | _ => destruct x eqn:?
      end
  | |- context [if ?b then _ else _] => destruct b eqn:?
  end.

(* ---- which components of the state the store primitives touch ---- *)
Lemma tick_fields st : let st' := fst (tick st) in
  st_store st' = st_store st /\ st_heap st' = st_heap st /\ st_handles st' = st_handles st /\ st_fault st' = st_fault st.
Proof. unfold tick; simpl; auto. Qed.

Lemma tick_nofault st : st_fault st = None -> snd (tick st) = false.
Proof. unfold tick; simpl; intros ->; reflexivity. Qed.

Definition same_hh (a b : kv) : Prop :=
  st_heap a = st_heap b /\ st_handles a = st_handles b /\ st_fault a = st_fault b.

Lemma same_hh_refl a : same_hh a a. Proof. repeat split. Qed.
Lemma same_hh_trans a b c : same_hh a b -> same_hh b c -> same_hh a c.
Proof. intros (A & B & C) (D & E & F). repeat split; congruence. Qed.

Lemma sget_hh st p : same_hh st (fst (sget st p)).
Proof. unfold sget, tick; simpl. case_all; repeat split. Qed.

Lemma sset_hh st p r : same_hh st (fst (sset st p r)).
Proof. unfold sset, tick, set_store; simpl. case_all; repeat split. Qed.

Lemma sdata_hh st : same_hh st (fst (sdata st)).
Proof. unfold sdata, tick; simpl. repeat split. Qed.

Lemma snames_hh st p m : same_hh st (fst (snames st p m)).
Proof. unfold snames, tick; simpl. case_all; repeat split. Qed.

Lemma f_data_hh st h : same_hh st (fst (fst (f_data st h))).
Proof. unfold f_data. case_all; simpl; try apply same_hh_refl. inversion Heqp; subst. apply sdata_hh. Qed.

Lemma set_file_hh st p f : same_hh st (fst (fst (set_file st p f))).
Proof.
  unfold set_file. destruct f as [h|].
  - destruct (is_regular (f_mode h)) eqn:R.
    + destruct (f_data st h) as [[st1 h1] ok] eqn:D. pose proof (f_data_hh st h) as H1. rewrite D in H1. simpl in H1.
      destruct ok; simpl; [|exact H1]. destruct (valid_path p); simpl; [|exact H1].
      destruct (sset st1 p _) as [st2 e] eqn:S. simpl. pose proof (sset_hh st1 p (Some (mkRec (f_mode h1) (f_mtime h1) (h_cell h1)))) as H2.
      rewrite S in H2. eapply same_hh_trans; eassumption.
    + simpl. destruct (valid_path p); simpl; [|apply same_hh_refl].
      destruct (sset st p _) as [st2 e] eqn:S. simpl. pose proof (sset_hh st p (Some (mkRec (f_mode h) (f_mtime h) (h_cell h)))) as H2.
      rewrite S in H2. exact H2.
  - destruct (valid_path p); simpl; [|apply same_hh_refl].
    destruct (sset st p None) as [st1 e] eqn:S. simpl. pose proof (sset_hh st p None) as H. rewrite S in H. exact H.
Qed.

Lemma save_hh st h : same_hh st (fst (fst (save st h))).
Proof.
  unfold save. destruct (set_file st (h_path h) (Some h)) as [[st1 h1] e] eqn:S. simpl.
  pose proof (set_file_hh st (h_path h) (Some h)) as H. rewrite S in H. exact H.
Qed.

(* ---- independence: an operation on handle i never changes another handle ---- *)
Lemma put_handle_other st i j h : i <> j -> nth_error (st_handles (put_handle st i h)) j = nth_error (st_handles st) j.
Proof. intros H. unfold put_handle, set_handles; simpl. apply nth_error_list_set_neq. exact H. Qed.

Definition handles_same_except (i : nat) (a b : kv) : Prop :=
  forall j, i <> j -> nth_error (st_handles b) j = nth_error (st_handles a) j.

Lemma hse_refl i a : handles_same_except i a a. Proof. intros j _; reflexivity. Qed.
Lemma hse_of_eq i a b : st_handles a = st_handles b -> handles_same_except i a b.
Proof. intros H j _. rewrite H. reflexivity. Qed.
Lemma hse_put i a b h : st_handles a = st_handles b -> handles_same_except i a (put_handle b i h).
Proof. intros H j Hj. rewrite put_handle_other by exact Hj. rewrite H. reflexivity. Qed.

Lemma not_dir_walk_hh fuel : forall st d e, same_hh st (fst (not_dir_walk fuel st d e)).
Proof.
  induction fuel as [|f IH]; intros st d e; simpl; destruct (str_eqb d dot); simpl; try apply same_hh_refl.
  destruct (sget st d) as [st1 r] eqn:S. pose proof (sget_hh st d) as H. rewrite S in H. simpl in H.
  destruct r as [rc|e']; simpl; [exact H|].
  destruct (cls_eqb (err_cls e') ENOENT); simpl; [|exact H].
  eapply same_hh_trans; [exact H|apply IH].
Qed.

Lemma not_dir_err_hh st p e : same_hh st (fst (not_dir_err st p e)).
Proof. unfold not_dir_err. destruct (_ && _); simpl; [apply not_dir_walk_hh|apply same_hh_refl]. Qed.

Lemma get_file_hh st p : same_hh st (fst (get_file st p)).
Proof.
  unfold get_file. destruct (valid_path p); simpl; [|apply same_hh_refl].
  destruct (sget st p) as [st1 r] eqn:S. pose proof (sget_hh st p) as H. rewrite S in H. simpl in H.
  destruct r as [rc|e]; simpl; [exact H|].
  destruct (not_dir_err st1 p e) as [st2 e'] eqn:N. simpl.
  pose proof (not_dir_err_hh st1 p e) as H2. rewrite N in H2. eapply same_hh_trans; eassumption.
Qed.

Lemma kv_stat_hh st p : same_hh st (fst (kv_stat st p)).
Proof.
  unfold kv_stat. destruct (get_file st p) as [st1 r] eqn:G. pose proof (get_file_hh st p) as H. rewrite G in H.
  destruct r; exact H.
Qed.

Lemma stat_children_hh dir names : forall st, same_hh st (fst (stat_children st dir names)).
Proof.
  induction names as [|nm rest IH]; intros st; simpl; [apply same_hh_refl|].
  destruct (kv_stat st (join2 dir nm)) as [st1 r] eqn:K. pose proof (kv_stat_hh st (join2 dir nm)) as H. rewrite K in H. simpl in H.
  destruct r as [f|e]; simpl; [|exact H].
  destruct (stat_children st1 dir rest) as [st2 rs] eqn:C. pose proof (IH st1) as H2. rewrite C in H2. simpl in H2.
  destruct rs; simpl; eapply same_hh_trans; eassumption.
Qed.

Lemma f_names_hh st h : same_hh st (fst (fst (f_names st h))).
Proof.
  unfold f_names. destruct (h_names h); simpl; [apply same_hh_refl|].
  destruct (h_fresh h); [simpl; apply same_hh_refl|].
  destruct (snames st (h_path h) (h_mode h)) as [st1 r] eqn:S. simpl.
  pose proof (snames_hh st (h_path h) (h_mode h)) as H. rewrite S in H. exact H.
Qed.

Lemma cur_size_hh st h : same_hh st (fst (fst (cur_size st h))).
Proof.
  unfold cur_size. destruct (f_data st h) as [[st1 h1] ok] eqn:D. pose proof (f_data_hh st h) as H. rewrite D in H.
  simpl in H. destruct (f_size st1 h1). simpl. exact H.
Qed.

Lemma read_at_hh st h len off : same_hh st (fst (fst (fst (read_at st h len off)))).
Proof.
  unfold read_at. destruct (h_closed h); simpl; [apply same_hh_refl|].
  destruct (cur_size st h) as [[st1 h1] mx] eqn:C. pose proof (cur_size_hh st h) as H. rewrite C in H. simpl in H.
  destruct (mx <=? off)%Z; simpl; [exact H|].
  destruct (f_data st1 h1) as [[st2 h2] ok] eqn:D. pose proof (f_data_hh st1 h1) as H2. rewrite D in H2. simpl in H2.
  assert (H3 : same_hh st st2) by (eapply same_hh_trans; eassumption).
  destruct ok; simpl; [|exact H3]. destruct (off <? 0)%Z; simpl; exact H3.
Qed.

Lemma read_dir_hh st h n : same_hh st (fst (fst (fst (read_dir st h n)))).
Proof.
  unfold read_dir. destruct (h_closed h); simpl; [apply same_hh_refl|].
  destruct (f_names st h) as [[st1 h1] ns] eqn:F. pose proof (f_names_hh st h) as H. rewrite F in H. simpl in H.
  destruct ns as [names|e]; simpl; [|exact H].
  destruct (if (n <=? 0)%Z then _ else _) as [[s e] eof]. destruct eof; simpl; [exact H|].
  destruct (stat_children st1 (h_path h) _) as [st2 r] eqn:C.
  pose proof (stat_children_hh (h_path h) (sublist (Z.to_nat s) (Z.to_nat e) names) st1) as H2. rewrite C in H2. simpl in H2.
  destruct r; simpl; eapply same_hh_trans; eassumption.
Qed.

(* handles (not the heap) are untouched by truncation and writes *)
Definition same_handles (a b : kv) : Prop := st_handles a = st_handles b /\ st_fault a = st_fault b.
Lemma hh_handles a b : same_hh a b -> same_handles a b.
Proof. intros (_ & H & F). split; assumption. Qed.
Lemma same_handles_trans a b c : same_handles a b -> same_handles b c -> same_handles a c.
Proof. intros (A & B) (C & D). split; congruence. Qed.
Lemma set_cell_handles st c d : same_handles st (set_cell st c d).
Proof. split; reflexivity. Qed.

Lemma file_truncate_handles st h size : same_handles st (fst (fst (file_truncate st h size))).
Proof.
  unfold file_truncate. destruct (h_closed h); cbn [fst]; [split; reflexivity|].
  destruct (is_dir (f_mode h)); cbn [fst]; [split; reflexivity|].
  destruct (f_data st h) as [[st1 h1] ok] eqn:D. pose proof (hh_handles _ _ (f_data_hh st h)) as H. rewrite D in H. cbn [fst] in H.
  destruct (f_size st1 h1) as [h1' n]. cbn [fst].
  destruct (size <? 0)%Z; cbn [fst]; [exact H|]. destruct (size =? Z.of_nat n)%Z; cbn [fst]; [exact H|].
  destruct ok; cbn [negb fst]; [|exact H].
  destruct (save (set_cell st1 (h_cell h1') (resize (cell st1 (h_cell h1')) (Z.to_nat size))) (stamp_clock h1')) as [[st3 h3] e] eqn:S. cbn [fst].
  pose proof (hh_handles _ _ (save_hh (set_cell st1 (h_cell h1') (resize (cell st1 (h_cell h1')) (Z.to_nat size))) (stamp_clock h1'))) as H2.
  rewrite S in H2. cbn [fst] in H2.
  eapply same_handles_trans; [exact H|]. eapply same_handles_trans; [apply set_cell_handles|exact H2].
Qed.

Lemma write_at_handles st h d off : same_handles st (fst (fst (fst (write_at st h d off)))).
Proof.
  unfold write_at. destruct (h_closed h); simpl; [split; reflexivity|].
  destruct (if has_flag (h_flag h) F_APPEND then cur_size st h else (st, h, off)) as [[st1 h1] off1] eqn:A.
  assert (H1 : same_handles st st1).
  { destruct (has_flag (h_flag h) F_APPEND).
    - pose proof (hh_handles _ _ (cur_size_hh st h)) as X. rewrite A in X. exact X.
    - inversion A; subst. split; reflexivity. }
  destruct (off1 <? 0)%Z; simpl; [exact H1|].
  destruct d as [|x d']; simpl; [exact H1|].
  destruct (cur_size st1 h1) as [[st2 h2] sz] eqn:C. pose proof (hh_handles _ _ (cur_size_hh st1 h1)) as H2. rewrite C in H2. simpl in H2.
  destruct (f_data st2 h2) as [[st3 h3] ok] eqn:D. pose proof (hh_handles _ _ (f_data_hh st2 h2)) as H3. rewrite D in H3. simpl in H3.
  assert (H4 : same_handles st st3) by (eapply same_handles_trans; [exact H1|eapply same_handles_trans; eassumption]).
  destruct ok; simpl; [|exact H4].
  match goal with |- context [save ?a ?b] => destruct (save a b) as [[st5 h5] e] eqn:S; pose proof (hh_handles _ _ (save_hh a b)) as H5; rewrite S in H5 end.
  simpl in *. eapply same_handles_trans; [exact H4|]. eapply same_handles_trans; [apply set_cell_handles|exact H5].
Qed.

(* THEOREM (independence): an operation on handle i leaves every other handle exactly as it was --
   position, flags, validity. *)
Theorem hstep_independent st i o j :
  i <> j -> nth_error (st_handles (fst (hstep st i o))) j = nth_error (st_handles st) j.
Proof.
  intros Hij. unfold hstep. destruct (nth_error (st_handles st) i) as [h|] eqn:E; [|reflexivity].
  destruct (allowed (h_wrap h) o) eqn:Al; cbn [negb].
  - destruct o; cbn [fst].
    + (* read *) destruct (h_wrap h); try reflexivity;
        (destruct (read_at st h len (h_off h)) as [[[st1 h1] d] e] eqn:R;
         pose proof (read_at_hh st h len (h_off h)) as H; rewrite R in H; destruct H as (_ & H & _); simpl in H; cbn [fst];
         rewrite put_handle_other by exact Hij; rewrite <- H; reflexivity).
    + destruct (read_at st h len off) as [[[st1 h1] d] e] eqn:R.
      pose proof (read_at_hh st h len off) as H; rewrite R in H; destruct H as (_ & H & _); simpl in H; cbn [fst].
      rewrite put_handle_other by exact Hij; rewrite <- H; reflexivity.
    + (* write *) destruct (h_closed h); [reflexivity|].
      destruct (if has_flag (h_flag h) F_APPEND && negb match d with [] => true | _ => false end then _ else (st, h)) as [st0 h0] eqn:A.
      assert (H0 : st_handles st = st_handles st0).
      { destruct (has_flag (h_flag h) F_APPEND && negb match d with [] => true | _ => false end).
        - destruct (cur_size st h) as [[s h'] z] eqn:C. inversion A; subst.
          pose proof (cur_size_hh st h) as X. rewrite C in X. destruct X as (_ & X & _). exact X.
        - inversion A; reflexivity. }
      destruct (write_at st0 h0 d (h_off h0)) as [[[st1 h1] n] e] eqn:W.
      pose proof (write_at_handles st0 h0 d (h_off h0)) as H; rewrite W in H; destruct H as [H _]; simpl in H; cbn [fst].
      rewrite put_handle_other by exact Hij. simpl in H. rewrite <- H, <- H0. reflexivity.
    + destruct (h_closed h); [reflexivity|]. destruct (has_flag (h_flag h) F_APPEND); [reflexivity|].
      destruct (write_at st h d off) as [[[st1 h1] n] e] eqn:W.
      pose proof (write_at_handles st h d off) as H; rewrite W in H; destruct H as [H _]; simpl in H; cbn [fst].
      rewrite put_handle_other by exact Hij. simpl in H. rewrite <- H. reflexivity.
    + (* seek *) destruct (h_closed h); [reflexivity|].
      destruct (if (whence =? 0)%Z then _ else _) as [[st1 h1] base] eqn:B.
      assert (H : st_handles st = st_handles st1).
      { destruct (whence =? 0)%Z; [inversion B; reflexivity|]. destruct (whence =? 1)%Z; [inversion B; reflexivity|].
        destruct (whence =? 2)%Z; [|inversion B; reflexivity].
        destruct (cur_size st h) as [[s h'] z] eqn:C. inversion B; subst.
        pose proof (cur_size_hh st h) as X. rewrite C in X. destruct X as (_ & X & _). exact X. }
      destruct base as [b|]; cbn [fst]; [destruct (b + off <? 0)%Z; cbn [fst]|];
        rewrite put_handle_other by exact Hij; rewrite <- H; reflexivity.
    + (* truncate *) destruct (h_wrap h); try reflexivity;
        (destruct (file_truncate st h size) as [[st1 h1] e] eqn:T;
         pose proof (file_truncate_handles st h size) as H; rewrite T in H; destruct H as [H _]; simpl in H; cbn [fst];
         rewrite put_handle_other by exact Hij; simpl in H; rewrite <- H; reflexivity).
    + (* stat *) destruct (h_closed h); [reflexivity|].
      destruct (if is_regular (f_mode h) then _ else (st, h)) as [st1 h1] eqn:S.
      assert (H : st_handles st = st_handles st1).
      { destruct (is_regular (f_mode h)); [|inversion S; reflexivity].
        destruct (f_data st h) as [[s h'] ok] eqn:D. inversion S; subst.
        pose proof (f_data_hh st h) as X. rewrite D in X. destruct X as (_ & X & _). exact X. }
      destruct (f_size st1 h1). cbn [fst]. rewrite put_handle_other by exact Hij. rewrite <- H. reflexivity.
    + (* readdir *) destruct (read_dir st h n) as [[[st1 h1] l] e] eqn:R.
      pose proof (read_dir_hh st h n) as H; rewrite R in H; destruct H as (_ & H & _); simpl in H; cbn [fst].
      rewrite put_handle_other by exact Hij; rewrite <- H; reflexivity.
    + (* chmod *) destruct (h_closed h); [reflexivity|].
      destruct (save st _) as [[st1 h1] e] eqn:S.
      match type of S with save ?a ?b = _ => pose proof (save_hh a b) as H end. rewrite S in H. destruct H as (_ & H & _).
      cbn [fst]. rewrite put_handle_other by exact Hij. simpl in H. rewrite <- H. reflexivity.
    + reflexivity.
    + (* close *) destruct (h_closed h); [reflexivity|]. cbn [fst]. apply put_handle_other; exact Hij.
  - (* method not offered by the wrapper *)
    destruct (negb (h_closed h) && is_regular (f_mode h)); cbn [fst]; [|reflexivity].
    destruct (f_data st h) as [[s h'] ok] eqn:D. cbn [fst].
    pose proof (f_data_hh st h) as X. rewrite D in X. destruct X as (_ & X & _).
    rewrite put_handle_other by exact Hij. simpl in X. rewrite <- X. reflexivity.
Qed.

(* ---- closed handles ---- *)
Definition hres_err (r : hres) : option err :=
  match r with
  | HRBytes _ e | HRN _ e | HRErr e | HREntries _ e => e
  | HRInfo _ _ _ => None
  | HRBad => Some (Bare EOTHER)
  end.

Lemma read_at_closed st h len off : h_closed h = true -> read_at st h len off = (st, h, [], Some (closed_err h)).
Proof. intros C. unfold read_at. rewrite C. reflexivity. Qed.

Lemma write_at_closed st h d off : h_closed h = true -> write_at st h d off = (st, h, 0%Z, Some (closed_err h)).
Proof. intros C. unfold write_at. rewrite C. reflexivity. Qed.

Lemma read_dir_closed st h n : h_closed h = true -> read_dir st h n = (st, h, [], Some (closed_err h)).
Proof. intros C. unfold read_dir. rewrite C. reflexivity. Qed.

Lemma file_truncate_closed st h s : h_closed h = true -> file_truncate st h s = (st, h, Some (closed_err h)).
Proof. intros C. unfold file_truncate. rewrite C. reflexivity. Qed.

(* THEOREM (closed handles fail cleanly): after Close every method -- Read, ReadAt, Write, WriteAt,
   Seek, Truncate, Stat, ReadDir, Chmod, Sync, Close -- returns an error matching ErrClosed that names
   the handle's path; the store and every file's bytes are untouched.  (The model has no panic outcome
   for handle methods at all; that the code has none either is what the correspondence checks.) *)
Theorem closed_fails st i o h :
  nth_error (st_handles st) i = Some h -> h_closed h = true ->
  hres_err (snd (hstep st i o)) = Some (closed_err h)
  /\ st_store (fst (hstep st i o)) = st_store st /\ st_heap (fst (hstep st i o)) = st_heap st.
Proof.
  intros E C. unfold hstep. rewrite E.
  destruct (allowed (h_wrap h) o) eqn:Al; cbn [negb].
  - destruct o; cbn [fst snd].
    + destruct (h_wrap h); rewrite ?C; rewrite ?(read_at_closed _ _ _ _ C); cbn; auto.
    + rewrite (read_at_closed _ _ _ _ C). cbn; auto.
    + rewrite C. cbn; auto.
    + rewrite C. cbn; auto.
    + rewrite C. cbn; auto.
    + destruct (h_wrap h); rewrite ?C; rewrite ?(file_truncate_closed _ _ _ C); cbn; auto.
    + rewrite C. cbn; auto.
    + rewrite (read_dir_closed _ _ _ C). cbn; auto.
    + rewrite C. cbn; auto.
    + unfold not_impl. rewrite C. cbn; auto.
    + rewrite C. cbn; auto.
  - rewrite C. cbn [negb andb fst snd]. unfold not_impl. rewrite C.
    destruct o; cbn; auto.
Qed.

(* ---- a read-only handle never changes any file's bytes; a write-only handle never reveals any ---- *)
Lemma same_hh_heap a b : same_hh a b -> st_heap b = st_heap a.
Proof. intros (H & _ & _). symmetry; exact H. Qed.

Theorem ro_never_writes st i o h :
  nth_error (st_handles st) i = Some h -> h_wrap h = WRO ->
  st_heap (fst (hstep st i o)) = st_heap st.
Proof.
  intros E W. unfold hstep. rewrite E, W.
  destruct o; cbn [allowed negb fst].
  - destruct (read_at st h len (h_off h)) as [[[st1 h1] d] e] eqn:R. cbn [fst].
    pose proof (read_at_hh st h len (h_off h)) as H. rewrite R in H. apply same_hh_heap in H. exact H.
  - destruct (read_at st h len off) as [[[st1 h1] d] e] eqn:R. cbn [fst].
    pose proof (read_at_hh st h len off) as H. rewrite R in H. apply same_hh_heap in H. exact H.
  - destruct (negb (h_closed h) && is_regular (f_mode h)); cbn [fst]; [|reflexivity].
    destruct (f_data st h) as [[s h'] ok] eqn:D. cbn [fst]. pose proof (f_data_hh st h) as H. rewrite D in H. apply same_hh_heap in H. exact H.
  - destruct (negb (h_closed h) && is_regular (f_mode h)); cbn [fst]; [|reflexivity].
    destruct (f_data st h) as [[s h'] ok] eqn:D. cbn [fst]. pose proof (f_data_hh st h) as H. rewrite D in H. apply same_hh_heap in H. exact H.
  - destruct (h_closed h); [reflexivity|].
    destruct (if (whence =? 0)%Z then _ else _) as [[st1 h1] base] eqn:B.
    assert (H : st_heap st1 = st_heap st).
    { destruct (whence =? 0)%Z; [inversion B; reflexivity|]. destruct (whence =? 1)%Z; [inversion B; reflexivity|].
      destruct (whence =? 2)%Z; [|inversion B; reflexivity].
      destruct (cur_size st h) as [[s h'] z] eqn:Cs. inversion B; subst.
      pose proof (cur_size_hh st h) as X. rewrite Cs in X. apply same_hh_heap in X. exact X. }
    destruct base as [b|]; cbn [fst]; [destruct (b + off <? 0)%Z; cbn [fst]|]; exact H.
  - reflexivity.
  - destruct (h_closed h); [reflexivity|].
    destruct (if is_regular (f_mode h) then _ else (st, h)) as [st1 h1] eqn:S.
    assert (H : st_heap st1 = st_heap st).
    { destruct (is_regular (f_mode h)); [|inversion S; reflexivity].
      destruct (f_data st h) as [[s h'] ok] eqn:D. inversion S; subst.
      pose proof (f_data_hh st h) as X. rewrite D in X. apply same_hh_heap in X. exact X. }
    destruct (f_size st1 h1). cbn [fst]. exact H.
  - destruct (read_dir st h n) as [[[st1 h1] l] e] eqn:R. cbn [fst].
    pose proof (read_dir_hh st h n) as H. rewrite R in H. apply same_hh_heap in H. exact H.
  - destruct (h_closed h); [reflexivity|].
    destruct (save st _) as [[st1 h1] e] eqn:S.
    match type of S with save ?a ?b = _ => pose proof (save_hh a b) as H end. rewrite S in H. apply same_hh_heap in H. exact H.
  - destruct (negb (h_closed h) && is_regular (f_mode h)); cbn [fst]; [|reflexivity].
    destruct (f_data st h) as [[s h'] ok] eqn:D. cbn [fst]. pose proof (f_data_hh st h) as H. rewrite D in H. apply same_hh_heap in H. exact H.
  - destruct (h_closed h); reflexivity.
Qed.

Theorem wo_never_reads st i h :
  nth_error (st_handles st) i = Some h -> h_wrap h = WWO ->
  (forall len, exists e, snd (hstep st i (HRead len)) = HRBytes [] (Some e))
  /\ (forall len off, exists e, snd (hstep st i (HReadAt len off)) = HRBytes [] (Some e))
  /\ (forall n, exists e, snd (hstep st i (HReadDir n)) = HREntries [] (Some e)).
Proof.
  intros E W. repeat split; intros; unfold hstep; rewrite E, W; cbn [allowed negb snd].
  - eexists; reflexivity.
  - destruct (negb (h_closed h) && is_regular (f_mode h)); [destruct (f_data st h) as [[? ?] ?]|]; eexists; reflexivity.
  - destruct (negb (h_closed h) && is_regular (f_mode h)); [destruct (f_data st h) as [[? ?] ?]|]; eexists; reflexivity.
Qed.

(* ---- the write errors that occur without any store failure leave every file's bytes unchanged ---- *)
Theorem rejected_write_preserves_bytes st h d off :
  h_closed h = true \/ (has_flag (h_flag h) F_APPEND = false /\ (off < 0)%Z) ->
  let '(st', _, n, e) := write_at st h d off in st' = st /\ n = 0%Z /\ e <> None.
Proof.
  intros [C|[A O]]; unfold write_at.
  - rewrite C. repeat split; discriminate.
  - destruct (h_closed h); [repeat split; discriminate|]. rewrite A.
    destruct (Z.ltb_spec off 0); [|lia]. repeat split; discriminate.
Qed.

Theorem rejected_truncate_preserves_bytes st h size :
  h_closed h = true \/ is_dir (f_mode h) = true ->
  let '(st', _, e) := file_truncate st h size in st' = st /\ e <> None.
Proof.
  intros [C|D]; unfold file_truncate.
  - rewrite C. split; [reflexivity|discriminate].
  - destruct (h_closed h); [split; [reflexivity|discriminate]|]. rewrite D. split; [reflexivity|discriminate].
Qed.

(* ---- functional behaviour of reads and writes (no store failure) ---- *)
Definition ready (h : handle) : Prop := h_loaded h = true /\ h_data_err h = false /\ h_closed h = false.

Lemma f_data_ready st h : ready h -> f_data st h = (st, h, true).
Proof. intros (L & E & _). unfold f_data. rewrite L, E. reflexivity. Qed.

(* the first touch of the data makes a handle ready *)
Lemma f_data_makes_ready st h : st_fault st = None -> h_data_err h = false -> h_closed h = false ->
  let '(st', h', ok) := f_data st h in ok = true /\ ready h' /\ st_heap st' = st_heap st /\ st_store st' = st_store st /\ h_cell h' = h_cell h.
Proof.
  intros NF E C. unfold f_data. destruct (h_loaded h) eqn:L.
  - rewrite E. repeat split; auto.
  - destruct (h_fresh h).
    + repeat split; auto.
    + unfold sdata. rewrite (surjective_pairing (tick st)). rewrite (tick_nofault st NF). repeat split; auto.
Qed.

Lemma cur_size_ready st h : ready h ->
  exists h', cur_size st h = (st, h', Z.of_nat (length (cell st (h_cell h)))) /\ ready h' /\ h_cell h' = h_cell h
             /\ h_off h' = h_off h /\ h_flag h' = h_flag h /\ h_path h' = h_path h /\ f_mode h' = f_mode h /\ f_mtime h' = f_mtime h.
Proof.
  intros R. unfold cur_size. rewrite (f_data_ready st h R). unfold f_size. destruct R as (L & E & C). rewrite L, E. cbn [andb negb].
  eexists. split; [reflexivity|]. repeat split; auto.
Qed.

(* ReadAt: the bytes of the file from the offset, as many as asked or as there are; io.EOF exactly
   when the end of the file was reached (never before all bytes were delivered); beyond the end: EOF. *)
Theorem read_at_spec st h len off : ready h ->
  let c := cell st (h_cell h) in
  let size := Z.of_nat (length c) in
  let '(st', _, d, e) := read_at st h len off in
  st' = st
  /\ ((size <= off)%Z -> d = [] /\ e = Some (Bare EEOF))
  /\ ((0 <= off < size)%Z ->
        d = sublist (Z.to_nat off) (Z.to_nat (Z.min (off + Z.of_nat len) size)) c
        /\ (e = Some (Bare EEOF) <-> (size <= off + Z.of_nat len)%Z)
        /\ (e = None \/ e = Some (Bare EEOF))).
Proof.
  intros R c size. unfold read_at. destruct R as (L & E & C). rewrite C.
  destruct (cur_size_ready st h (conj L (conj E C))) as (h' & CS & R' & Hc & _).
  rewrite CS. fold c. fold size.
  destruct (Z.leb_spec size off) as [Hle|Hlt].
  - split; [reflexivity|]. split; [intros _; split; reflexivity|lia].
  - rewrite (f_data_ready st h' R'). cbn [negb].
    destruct (Z.ltb_spec off 0) as [Hneg|Hpos].
    + split; [reflexivity|]. split; [lia|lia].
    + split; [reflexivity|]. split; [lia|]. intros _. rewrite Hc. fold c.
      split; [reflexivity|].
      destruct (Z.eqb_spec (Z.min (off + Z.of_nat len) size) size) as [Heq|Hne].
      * split; [split; [intros _; lia|reflexivity]|right; reflexivity].
      * split; [split; [discriminate|intros; lia]|left; reflexivity].
Qed.

Lemma cell_set_same st c x : (c < length (st_heap st))%nat -> cell (set_cell st c x) c = x.
Proof.
  intros H. unfold cell, set_cell, set_heap; simpl.
  apply nth_error_nth. apply nth_error_list_set_eq. exact H.
Qed.

Lemma stamp_ready h : ready h -> ready (stamp_clock h).
Proof. intros H; exact H. Qed.

(* saving a ready handle under a valid path cannot fail when the store does not *)
Lemma save_ready st h : st_fault st = None -> ready h -> valid_path (h_path h) = true ->
  exists st' h', save st h = (st', h', None) /\ st_heap st' = st_heap st /\ st_fault st' = None.
Proof.
  intros NF R VP. unfold save, set_file.
  assert (X : (if is_regular (f_mode h) then f_data st h else (st, h, true)) = (st, h, true)).
  { destruct (is_regular (f_mode h)); [apply f_data_ready; exact R|reflexivity]. }
  rewrite X. cbn [negb]. rewrite VP. cbn [negb].
  unfold sset. rewrite (surjective_pairing (tick st)). rewrite (tick_nofault st NF).
  eexists. eexists. split; [reflexivity|]. split; [reflexivity|]. simpl. exact NF.
Qed.

(* WriteAt / Write: the file grows with zero bytes up to the offset when needed (gaps are zero-filled),
   then the data is stored at the offset; the whole buffer is written; nothing else changes. *)
Theorem write_at_spec st h d off :
  st_fault st = None -> ready h -> valid_path (h_path h) = true -> (h_cell h < length (st_heap st))%nat ->
  has_flag (h_flag h) F_APPEND = false -> (0 <= off)%Z -> d <> [] ->
  let c := cell st (h_cell h) in
  let size := Z.of_nat (length c) in
  let endi := (off + Z.of_nat (length d))%Z in
  let '(st', _, n, e) := write_at st h d off in
  e = None /\ n = Z.of_nat (length d)
  /\ cell st' (h_cell h) = splice (if (size <? endi)%Z then c ++ zeros (Z.to_nat (endi - size)) else c) (Z.to_nat off) d.
Proof.
  intros NF R VP HC AP Hoff Hd c size endi. unfold write_at.
  destruct R as (L & E & C). rewrite C, AP.
  destruct (Z.ltb_spec off 0); [lia|].
  destruct d as [|x d']; [congruence|].
  destruct (cur_size_ready st h (conj L (conj E C))) as (h1 & CS & R1 & Hc1 & _ & _ & P1 & _).
  rewrite CS. rewrite (f_data_ready st h1 R1). cbn [negb]. rewrite Hc1. fold c. fold size. fold endi.
  assert (NZ : (Z.of_nat (length (x :: d')) =? 0)%Z = false) by (apply Z.eqb_neq; simpl; lia).
  rewrite NZ.
  set (c' := splice _ (Z.to_nat off) (x :: d')).
  destruct (save_ready (set_cell st (h_cell h) c') (stamp_clock h1)) as (st5 & h5 & S & Hh & _);
    [exact NF|apply stamp_ready; exact R1|simpl; rewrite P1; exact VP|].
  rewrite S. split; [reflexivity|]. split; [reflexivity|].
  unfold cell. rewrite Hh. fold (cell (set_cell st (h_cell h) c') (h_cell h)). apply cell_set_same. exact HC.
Qed.

Lemma splice_append {A} (c d z : list A) : length z = length d -> splice (c ++ z) (length c) d = c ++ d.
Proof.
  intros H. unfold splice.
  rewrite firstn_app, Nat.sub_diag, firstn_all. simpl. rewrite app_nil_r.
  rewrite skipn_all2 by (rewrite app_length; lia). rewrite app_nil_r. reflexivity.
Qed.

(* O_APPEND: the data lands at the current end of the file, whatever the handle's offset *)
Theorem append_write_spec st h d :
  st_fault st = None -> ready h -> valid_path (h_path h) = true -> (h_cell h < length (st_heap st))%nat ->
  has_flag (h_flag h) F_APPEND = true -> d <> [] -> forall off,
  let c := cell st (h_cell h) in
  let '(st', _, n, e) := write_at st h d off in
  e = None /\ n = Z.of_nat (length d) /\ cell st' (h_cell h) = c ++ d.
Proof.
  intros NF R VP HC AP Hd off c. unfold write_at.
  destruct R as (L & E & C). rewrite C, AP.
  destruct (cur_size_ready st h (conj L (conj E C))) as (h1 & CS & R1 & Hc1 & _ & _ & P1 & _).
  rewrite CS. destruct (Z.ltb_spec (Z.of_nat (length (cell st (h_cell h)))) 0); [lia|].
  destruct d as [|x d']; [congruence|].
  destruct (cur_size_ready st h1 R1) as (h2 & CS2 & R2 & Hc2 & _ & _ & P2 & _).
  rewrite CS2. rewrite (f_data_ready st h2 R2). cbn [negb]. rewrite Hc2, Hc1. fold c.
  assert (NZ : (Z.of_nat (length (x :: d')) =? 0)%Z = false) by (apply Z.eqb_neq; simpl; lia).
  rewrite NZ.
  destruct (Z.ltb_spec (Z.of_nat (length c)) (Z.of_nat (length c) + Z.of_nat (length (x :: d')))) as [_|Hx]; [|simpl in Hx; lia].
  set (c' := splice _ _ (x :: d')).
  destruct (save_ready (set_cell st (h_cell h) c') (stamp_clock h2)) as (st5 & h5 & S & Hh & _);
    [exact NF|apply stamp_ready; exact R2|simpl; rewrite P2, P1; exact VP|].
  rewrite S. split; [reflexivity|]. split; [reflexivity|].
  unfold cell. rewrite Hh. fold (cell (set_cell st (h_cell h) c') (h_cell h)). rewrite cell_set_same by exact HC.
  subst c'. rewrite Nat2Z.id.
  replace (Z.to_nat (Z.of_nat (length c) + Z.of_nat (length (x :: d')) - Z.of_nat (length c))) with (length (x :: d')) by lia.
  apply splice_append. unfold zeros. apply repeat_length.
Qed.
