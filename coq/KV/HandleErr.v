(* C05 at handle level: whatever a handle operation reports as its error -- in every state, store
   failures included -- is io.EOF or a PathError; the PathError names the handle's path, its base
   name (the *File helper's "not implemented") or, for ReadDir, a child of the handle's path. *)
From HP Require Import Base.Prelude Base.Path KV.Types KV.FS KV.Handle KV.SpecProofs.
Open Scope N_scope.

Definition res_err (r : hres) : option err :=
  match r with
  | HRBytes _ e | HRN _ e | HRErr e | HREntries _ e => e
  | HRInfo _ _ _ | HRBad => None
  end.

Definition herr_typed (e : err) : Prop := e = Bare EEOF \/ exists p c, e = PathErr p c.

Lemma typed_path p c : herr_typed (PathErr p c).
Proof. right. eexists. eexists. reflexivity. Qed.
Lemma typed_wrap p e : herr_typed (wrap p e).
Proof. apply typed_path. Qed.
Lemma typed_closed h : herr_typed (closed_err h).
Proof. apply typed_path. Qed.
Lemma typed_not_impl h : herr_typed (not_impl h).
Proof. unfold not_impl. destruct (h_closed h); apply typed_path. Qed.
Lemma typed_opt_wrap p (e : option err) e' : option_map (wrap p) e = Some e' -> herr_typed e'.
Proof. destruct e; cbn; intros H; inversion H. apply typed_wrap. Qed.

Global Hint Resolve typed_path typed_wrap typed_closed typed_not_impl : herr.

Lemma read_at_typed st h len off e : snd (read_at st h len off) = Some e -> herr_typed e.
Proof.
  unfold read_at. destruct (h_closed h); [cbn; intros H; inversion H; auto with herr|].
  destruct (cur_size st h) as [[st1 h1] mx].
  destruct (mx <=? off)%Z; [cbn; intros H; inversion H; left; reflexivity|].
  destruct (f_data st1 h1) as [[st2 h2] ok].
  destruct (negb ok); [cbn; intros H; inversion H; auto with herr|].
  destruct (off <? 0)%Z; [cbn; intros H; inversion H; auto with herr|].
  cbn [snd]. destruct (_ =? mx)%Z; intros H; inversion H. left; reflexivity.
Qed.

Lemma write_at_typed st h d off e : snd (write_at st h d off) = Some e -> herr_typed e.
Proof.
  unfold write_at. destruct (h_closed h); [cbn; intros H; inversion H; auto with herr|].
  destruct (if has_flag (h_flag h) F_APPEND then cur_size st h else (st, h, off)) as [[st1 h1] off1].
  destruct (off1 <? 0)%Z; [cbn; intros H; inversion H; auto with herr|].
  destruct d as [|x d]; [cbn; intros H; inversion H|].
  destruct (cur_size st1 h1) as [[st2 h2] sz]. destruct (f_data st2 h2) as [[st3 h3] ok].
  destruct (negb ok); [cbn; intros H; inversion H; auto with herr|].
  destruct (save _ _) as [[st5 h5] e5]. cbn [snd]. apply typed_opt_wrap.
Qed.

Lemma file_truncate_typed st h size e : snd (file_truncate st h size) = Some e -> herr_typed e.
Proof.
  unfold file_truncate. destruct (h_closed h); [cbn; intros H; inversion H; auto with herr|].
  destruct (is_dir (f_mode h)); [cbn; intros H; inversion H; auto with herr|].
  destruct (f_data st h) as [[st1 h1] ok]. destruct (f_size st1 h1) as [h1' n].
  destruct (size <? 0)%Z; [cbn; intros H; inversion H; auto with herr|].
  destruct (size =? Z.of_nat n)%Z; [cbn; intros H; inversion H|].
  destruct (negb ok); [cbn; intros H; inversion H; auto with herr|].
  destruct (save _ _) as [[st3 h3] e3]. cbn [snd]. apply typed_opt_wrap.
Qed.

Lemma stat_children_typed dir names : forall st e, snd (stat_children st dir names) = inr e -> herr_typed e.
Proof.
  induction names as [|nm rest IH]; intros st e; cbn [stat_children]; [intros H; inversion H|].
  pose proof (kv_stat_err_typed st (join2 dir nm)) as T.
  destruct (kv_stat st (join2 dir nm)) as [st1 [f|e1]]; cbn [snd] in *.
  - specialize (IH st1). destruct (stat_children st1 dir rest) as [st2 [l|e2]]; cbn [snd] in *; intros H; inversion H; subst.
    apply IH. reflexivity.
  - intros H; inversion H; subst. destruct (T e eq_refl) as [c ->]. auto with herr.
Qed.

Lemma read_dir_typed st h n e : snd (read_dir st h n) = Some e -> herr_typed e.
Proof.
  unfold read_dir. destruct (h_closed h); [cbn; intros H; inversion H; auto with herr|].
  destruct (f_names st h) as [[st1 h1] [names|e1]]; [|cbn; intros H; inversion H; auto with herr].
  destruct (if (n <=? 0)%Z then _ else _) as [[s e0] eof].
  destruct eof; [cbn; intros H; inversion H; left; reflexivity|].
  pose proof (stat_children_typed (h_path h) (sublist (Z.to_nat s) (Z.to_nat e0) names) st1) as T.
  destruct (stat_children st1 (h_path h) _) as [st2 [l|er]]; cbn [snd] in *; intros H; inversion H; subst.
  apply T. reflexivity.
Qed.

(* THEOREM: the error of any handle operation is io.EOF or a PathError *)
Theorem hstep_err_typed st i o e : res_err (snd (hstep st i o)) = Some e -> herr_typed e.
Proof.
  unfold hstep. destruct (nth_error (st_handles st) i) as [h|]; [|cbn; intros H; inversion H].
  destruct (negb (allowed (h_wrap h) o)).
  - destruct (if negb (h_closed h) && is_regular (f_mode h) then _ else _) as [st' h'].
    destruct o; cbn; intros H; inversion H; auto with herr.
  - destruct o as [len|len off|d|d off|off whence|size| |n|m| |].
    + destruct (h_wrap h);
        first [ solve [cbn; intros H; inversion H; destruct (h_closed h); auto with herr]
              | pose proof (read_at_typed st h len (h_off h) e) as T; destruct (read_at st h len (h_off h)) as [[[st1 h1] d] e1]; cbn in *; exact T ].
    + pose proof (read_at_typed st h len off e) as T. destruct (read_at st h len off) as [[[st1 h1] d] e1]. cbn in *. exact T.
    + destruct (h_closed h); [cbn; intros H; inversion H; auto with herr|].
      destruct (if has_flag (h_flag h) F_APPEND && _ then _ else _) as [st0 h0].
      pose proof (write_at_typed st0 h0 d (h_off h0) e) as T. destruct (write_at st0 h0 d (h_off h0)) as [[[st1 h1] n] e1]. cbn in *. exact T.
    + destruct (h_closed h); [cbn; intros H; inversion H; auto with herr|].
      destruct (has_flag (h_flag h) F_APPEND); [cbn; intros H; inversion H; auto with herr|].
      pose proof (write_at_typed st h d off e) as T. destruct (write_at st h d off) as [[[st1 h1] n] e1]. cbn in *. exact T.
    + destruct (h_closed h); [cbn; intros H; inversion H; auto with herr|].
      destruct (if (whence =? 0)%Z then _ else _) as [[st1 h1] [b|]].
      * destruct (b + off <? 0)%Z; cbn; intros H; inversion H; auto with herr.
      * cbn; intros H; inversion H; auto with herr.
    + destruct (h_wrap h);
        first [ solve [cbn; intros H; inversion H; destruct (h_closed h); auto with herr]
              | pose proof (file_truncate_typed st h size e) as T; destruct (file_truncate st h size) as [[st1 h1] e1]; cbn in *; exact T ].
    + destruct (h_closed h); [cbn; intros H; inversion H; auto with herr|].
      destruct (if is_regular (f_mode h) then _ else _) as [st1 h1]. destruct (f_size st1 h1) as [h2 n]. cbn. intros H; inversion H.
    + pose proof (read_dir_typed st h n e) as T. destruct (read_dir st h n) as [[[st1 h1] l] e1]. cbn in *. exact T.
    + destruct (h_closed h); [cbn; intros H; inversion H; auto with herr|].
      destruct (save _ _) as [[st1 h1] e1]. cbn. apply typed_opt_wrap.
    + cbn. intros H; inversion H; auto with herr.
    + destruct (h_closed h); cbn; intros H; inversion H; auto with herr.
Qed.
