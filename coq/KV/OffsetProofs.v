(* C02, "each call leaves the same offset": which handle operations move the handle's position, in EVERY state.
   ReadAt, WriteAt, Truncate, Stat, Chmod, Sync and Close never move it (in particular a shrinking Truncate does
   not clamp it); Read advances it by exactly the number of bytes it returned; Write by the count it returned
   (after moving to the end first when the handle is in append mode and the write is not empty). *)
From HP Require Import Base.Prelude Base.ListLemmas Base.Path KV.Types KV.FS KV.Handle KV.Run KV.HandleProofs.
Open Scope N_scope.

Definition koff (a b : handle) : Prop := h_off b = h_off a.

Lemma f_data_off st h : koff h (snd (fst (f_data st h))).
Proof. unfold koff, f_data. destruct (h_loaded h); [reflexivity|]. destruct (h_fresh h); [reflexivity|].
  destruct (sdata st) as [st1 bad]. reflexivity. Qed.

Lemma f_size_off st h : koff h (fst (f_size st h)).
Proof. reflexivity. Qed.

Lemma cur_size_off st h : koff h (snd (fst (cur_size st h))).
Proof. unfold koff, cur_size. pose proof (f_data_off st h) as D. destruct (f_data st h) as [[st1 h1] ok].
  cbn [fst snd] in *. unfold f_size. cbn [fst snd]. exact D. Qed.

Lemma save_off st h : koff h (snd (fst (save st h))).
Proof.
  unfold koff, save, set_file.
  assert (D : koff h (snd (fst (if is_regular (f_mode h) then f_data st h else (st, h, true))))).
  { destruct (is_regular (f_mode h)); [apply f_data_off|reflexivity]. }
  destruct (if is_regular (f_mode h) then f_data st h else (st, h, true)) as [[st1 h1] okb]. cbn [fst snd] in D.
  destruct (negb okb); [exact D|]. destruct (negb (valid_path (h_path h))); [exact D|].
  destruct (sset st1 (h_path h) _) as [st2 e]. exact D.
Qed.

Lemma read_at_off st h len off : koff h (snd (fst (fst (read_at st h len off)))).
Proof.
  unfold koff, read_at. destruct (h_closed h); [reflexivity|].
  pose proof (cur_size_off st h) as C. destruct (cur_size st h) as [[st1 h1] mx]. cbn [fst snd] in *.
  destruct (mx <=? off)%Z; [exact C|].
  pose proof (f_data_off st1 h1) as D. destruct (f_data st1 h1) as [[st2 h2] ok]. cbn [fst snd] in *.
  unfold koff in *. destruct (negb ok); [cbn [fst snd]; congruence|]. destruct (off <? 0)%Z; cbn [fst snd]; congruence.
Qed.

Lemma write_at_off st h d off : koff h (snd (fst (fst (write_at st h d off)))).
Proof.
  unfold koff, write_at. destruct (h_closed h); [reflexivity|].
  assert (A : koff h (snd (fst (if has_flag (h_flag h) F_APPEND then cur_size st h else (st, h, off))))).
  { destruct (has_flag (h_flag h) F_APPEND); [apply cur_size_off|reflexivity]. }
  destruct (if has_flag (h_flag h) F_APPEND then cur_size st h else (st, h, off)) as [[st1 h1] off1]. cbn [fst snd] in A.
  destruct (off1 <? 0)%Z; [exact A|]. destruct d as [|x d']; [exact A|].
  pose proof (cur_size_off st1 h1) as C. destruct (cur_size st1 h1) as [[st2 h2] sz]. cbn [fst snd] in *.
  pose proof (f_data_off st2 h2) as D. destruct (f_data st2 h2) as [[st3 h3] ok]. cbn [fst snd] in *.
  unfold koff in *. destruct (negb ok); [cbn [fst snd]; congruence|].
  match goal with |- context [save ?s ?hh] => pose proof (save_off s hh) as S; destruct (save s hh) as [[st5 h5] e] end.
  cbn [fst snd] in *. unfold koff in S. rewrite S.
  destruct (Z.of_nat (length (x :: d')) =? 0)%Z; cbn [stamp_clock h_off]; congruence.
Qed.

Lemma file_truncate_off st h size : koff h (snd (fst (file_truncate st h size))).
Proof.
  unfold koff, file_truncate. destruct (h_closed h); [reflexivity|]. destruct (is_dir (f_mode h)); [reflexivity|].
  pose proof (f_data_off st h) as D. destruct (f_data st h) as [[st1 h1] ok]. cbn [fst snd] in *.
  destruct (f_size st1 h1) as [h1' n] eqn:FS. assert (K : h_off h1' = h_off h1) by (unfold f_size in FS; inversion FS; reflexivity).
  unfold koff in *.
  destruct (size <? 0)%Z; [cbn [fst snd]; congruence|]. destruct (size =? Z.of_nat n)%Z; [cbn [fst snd]; congruence|].
  destruct (negb ok); [cbn [fst snd]; congruence|].
  match goal with |- context [save ?s ?hh] => pose proof (save_off s hh) as S; destruct (save s hh) as [[st3 h3] e] end.
  cbn [fst snd] in *. unfold koff in S. rewrite S. cbn [stamp_clock h_off]. congruence.
Qed.

(* the handle table after an operation on handle i *)
Lemma put_handle_same st i h : (i < length (st_handles st))%nat -> nth_error (st_handles (put_handle st i h)) i = Some h.
Proof. intros H. unfold put_handle, set_handles. cbn [st_handles]. apply nth_error_list_set_eq. exact H. Qed.

Definition positional (o : hop) : bool :=
  match o with HReadAt _ _ | HWriteAt _ _ | HTrunc _ | HStat | HChmod _ | HSync | HClose => true | _ => false end.

Definition off_at (st : kv) (i : nat) : option Z := option_map h_off (nth_error (st_handles st) i).

Lemma nth_lt {A} (l : list A) i x : nth_error l i = Some x -> (i < length l)%nat.
Proof. intros H. apply nth_error_Some. congruence. Qed.

(* THEOREM: calls that take their position as an argument, or none at all, never move the handle *)
Theorem positional_calls_keep_the_offset st i o :
  positional o = true -> off_at (fst (hstep st i o)) i = off_at st i.
Proof.
  intros P. unfold off_at at 2. destruct (nth_error (st_handles st) i) as [h|] eqn:E.
  2:{ unfold off_at, hstep. rewrite E. cbn [fst]. rewrite E. reflexivity. }
  cbn [option_map]. unfold off_at, hstep. rewrite E.
  pose proof (nth_lt _ _ _ E) as Li.
  destruct (negb (allowed (h_wrap h) o)).
  - destruct (negb (h_closed h) && is_regular (f_mode h)).
    + pose proof (f_data_off st h) as D. pose proof (f_data_hh st h) as (_ & HH & _).
      destruct (f_data st h) as [[s h'] ok]. cbn [fst snd] in *.
      rewrite put_handle_same by (rewrite <- HH; exact Li). cbn [option_map]. f_equal. exact D.
    + cbn [fst]. rewrite E. reflexivity.
  - destruct o as [len|len off|d|d off|off whence|size| |n|m| |]; try discriminate P.
    + pose proof (read_at_off st h len off) as D. pose proof (read_at_hh st h len off) as (_ & HH & _).
      destruct (read_at st h len off) as [[[st1 h1] dd] e]. cbn [fst snd] in *.
      rewrite put_handle_same by (rewrite <- HH; exact Li). cbn [option_map]. f_equal. exact D.
    + destruct (h_closed h); [cbn [fst]; rewrite E; reflexivity|].
      destruct (has_flag (h_flag h) F_APPEND); [cbn [fst]; rewrite E; reflexivity|].
      pose proof (write_at_off st h d off) as D. pose proof (write_at_handles st h d off) as [HH _].
      destruct (write_at st h d off) as [[[st1 h1] n] e]. cbn [fst snd] in *.
      rewrite put_handle_same by (rewrite <- HH; exact Li). cbn [option_map]. f_equal. exact D.
    + destruct (h_wrap h); try (cbn [fst]; rewrite E; reflexivity);
        (pose proof (file_truncate_off st h size) as D; pose proof (file_truncate_handles st h size) as [HH _];
         destruct (file_truncate st h size) as [[st1 h1] e]; cbn [fst snd] in *;
         rewrite put_handle_same by (rewrite <- HH; exact Li); cbn [option_map]; f_equal; exact D).
    + destruct (h_closed h); [cbn [fst]; rewrite E; reflexivity|].
      assert (D : let x := (if is_regular (f_mode h) then let '(s, h', _) := f_data st h in (s, h') else (st, h)) in
                  koff h (snd x) /\ st_handles (fst x) = st_handles st).
      { destruct (is_regular (f_mode h)); [|split; reflexivity].
        pose proof (f_data_off st h) as D. pose proof (f_data_hh st h) as (_ & HH & _).
        destruct (f_data st h) as [[s h'] ok]. cbn [fst snd] in *. split; [exact D|symmetry; exact HH]. }
      destruct (if is_regular (f_mode h) then let '(s, h', _) := f_data st h in (s, h') else (st, h)) as [st1 h1].
      cbn [fst snd] in D. destruct D as [D HH]. destruct (f_size st1 h1) as [h2 n] eqn:FS. cbn [fst].
      rewrite put_handle_same by (rewrite HH; exact Li). cbn [option_map]. f_equal.
      unfold f_size in FS. inversion FS. exact D.
    + destruct (h_closed h); [cbn [fst]; rewrite E; reflexivity|].
      pose proof (save_off st (with_mode_ov h (chmod_mode (f_mode h) m))) as D.
      pose proof (save_hh st (with_mode_ov h (chmod_mode (f_mode h) m))) as (_ & HH & _).
      destruct (save st _) as [[st1 h1] e]. cbn [fst snd] in *.
      rewrite put_handle_same by (rewrite <- HH; exact Li). cbn [option_map]. f_equal. exact D.
    + cbn [fst]. rewrite E. reflexivity.
    + destruct (h_closed h); cbn [fst]; [rewrite E; reflexivity|].
      rewrite put_handle_same by exact Li. reflexivity.
Qed.

(* THEOREM: Read advances the position by exactly the bytes it returned (nothing on an error without bytes) *)
Theorem read_advances_by_the_bytes_returned st i len h d e :
  nth_error (st_handles st) i = Some h -> snd (hstep st i (HRead len)) = HRBytes d e ->
  off_at (fst (hstep st i (HRead len))) i = Some (h_off h + Z.of_nat (length d))%Z \/
  (d = [] /\ off_at (fst (hstep st i (HRead len))) i = Some (h_off h)).
Proof.
  intros E. unfold off_at, hstep. rewrite E. pose proof (nth_lt _ _ _ E) as Li.
  destruct (h_wrap h) eqn:W; cbn [allowed negb];
    try (cbn [fst snd]; intros R; inversion R; subst; right; split; [reflexivity|rewrite E; reflexivity]);
    (pose proof (read_at_off st h len (h_off h)) as D; pose proof (read_at_hh st h len (h_off h)) as (_ & HH & _);
     destruct (read_at st h len (h_off h)) as [[[st1 h1] dd] ee]; cbn [fst snd] in *; intros R; inversion R; subst;
     left; rewrite put_handle_same by (rewrite <- HH; exact Li); cbn [option_map with_off h_off]; unfold koff in D; rewrite D; reflexivity).
Qed.
