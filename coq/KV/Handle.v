(* Key-value FS model: operations on open handles (keyvalue/file.go, file_rwonly.go) reached
   through the *File helpers of /repo/file.go. *)
From HP Require Import Base.Prelude Base.Path KV.Types KV.FS.
Open Scope N_scope.

Inductive hop :=
| HRead (len : nat)
| HReadAt (len : nat) (off : Z)
| HWrite (d : list N)
| HWriteAt (d : list N) (off : Z)
| HSeek (off : Z) (whence : Z)
| HTrunc (size : Z)
| HStat
| HReadDir (n : Z)
| HChmod (m : N)
| HSync
| HClose.

Inductive hres :=
| HRBytes (d : list N) (e : option err)       (* bytes transferred, error (io.EOF = Bare EEOF) *)
| HRN (n : Z) (e : option err)                (* count written / new offset *)
| HRErr (e : option err)                      (* None = success *)
| HRInfo (name : str) (mode : N) (size : Z)
| HREntries (l : list (str * N)) (e : option err)  (* (name, mode of Stat(child)) *)
| HRBad.                                      (* no such handle (harness error) *)

Definition with_off (h : handle) (o : Z) : handle :=
  mkH (h_path h) (h_cell h) (h_mode h) (h_mtime h) (h_mode_ov h) (h_mtime_ov h) o (h_flag h)
      (h_wrap h) (h_loaded h) (h_data_err h) (h_fresh h) (h_names h) (h_closed h) (h_size h).
Definition with_closed (h : handle) : handle :=
  mkH (h_path h) (h_cell h) (h_mode h) (h_mtime h) (h_mode_ov h) (h_mtime_ov h) (h_off h) (h_flag h)
      (h_wrap h) (h_loaded h) (h_data_err h) (h_fresh h) (h_names h) true (h_size h).

Definition closed_err (h : handle) : err := PathErr (h_path h) ECLOSED.

(* helper fallback of /repo/file.go when the wrapper lacks the method: Stat, then ENOSYS naming info.Name() *)
Definition not_impl (h : handle) : err :=
  if h_closed h then closed_err h else PathErr (path_base (h_path h)) ENOSYS.

(* currentSize *)
Definition cur_size (st : kv) (h : handle) : kv * handle * Z :=
  let '(st1, h1, _) := f_data st h in
  let '(h2, n) := f_size st1 h1 in (st1, h2, Z.of_nat n).

(* ReadBlobAt *)
Definition read_at (st : kv) (h : handle) (len : nat) (off : Z) : kv * handle * list N * option err :=
  if h_closed h then (st, h, [], Some (closed_err h))
  else
    let '(st1, h1, mx) := cur_size st h in
    if (mx <=? off)%Z then (st1, h1, [], Some (Bare EEOF))
    else
      let e := Z.min (off + Z.of_nat len) mx in
      let '(st2, h2, ok) := f_data st1 h1 in
      if negb ok then (st2, h2, [], Some (PathErr (h_path h) EOTHER))
      else if (off <? 0)%Z then (st2, h2, [], Some (PathErr (h_path h) EOTHER))     (* blob.View bounds error *)
      else
        let d := sublist (Z.to_nat off) (Z.to_nat e) (cell st2 (h_cell h2)) in
        (st2, h2, d, if (e =? mx)%Z then Some (Bare EEOF) else None).

(* writeBlobAt *)
Definition write_at (st : kv) (h : handle) (d : list N) (off : Z) : kv * handle * Z * option err :=
  if h_closed h then (st, h, 0%Z, Some (closed_err h))
  else
    let '(st1, h1, off1) :=
      if has_flag (h_flag h) F_APPEND then cur_size st h else (st, h, off) in
    if (off1 <? 0)%Z then (st1, h1, 0%Z, Some (PathErr (h_path h) EOTHER))
    else if match d with [] => true | _ => false end then (st1, h1, 0%Z, None)
    else
      let '(st2, h2, sz) := cur_size st1 h1 in
      let '(st3, h3, ok) := f_data st2 h2 in
      if negb ok then (st3, h3, 0%Z, Some (PathErr (h_path h) EOTHER))
      else
        let endi := (off1 + Z.of_nat (length d))%Z in
        let c := cell st3 (h_cell h3) in
        let grown := if (sz <? endi)%Z then c ++ zeros (Z.to_nat (endi - sz)) else c in
        let c' := splice grown (Z.to_nat off1) d in
        let st4 := set_cell st3 (h_cell h3) c' in
        let n := Z.of_nat (length d) in
        let h4 := if (n =? 0)%Z then h3 else stamp_clock h3 in
        let '(st5, h5, e) := save st4 h4 in
        (st5, h5, n, option_map (wrap (h_path h)) e).

Fixpoint stat_children (st : kv) (dir : str) (names : list str) : kv * (list (str * N) + err) :=
  match names with
  | [] => (st, inl [])
  | nm :: rest =>
    let '(st1, r) := kv_stat st (join2 dir nm) in
    match r with
    | inr e => (st1, inr e)
    | inl f =>
      let '(st2, rs) := stat_children st1 dir rest in
      match rs with
      | inr e => (st2, inr e)
      | inl l => (st2, inl ((nm, f_mode f) :: l))
      end
    end
  end.

Definition read_dir (st : kv) (h : handle) (n : Z) : kv * handle * list (str * N) * option err :=
  if h_closed h then (st, h, [], Some (closed_err h))
  else
    let '(st1, h1, ns) := f_names st h in
    match ns with
    | inr e => (st1, h1, [], Some (wrap (h_path h) e))
    | inl names =>
      let total := Z.of_nat (length names) in
      let '(s, e, eof) :=
        if (n <=? 0)%Z then (Z.min (h_off h1) total, total, false)   (* the entries that remain *)
        else if (total <=? h_off h1)%Z then (0%Z, 0%Z, true)
        else (h_off h1, Z.min (h_off h1 + n) total, false) in
      if eof then (st1, h1, [], Some (Bare EEOF))
      else
        let window := sublist (Z.to_nat s) (Z.to_nat e) names in
        let '(st2, r) := stat_children st1 (h_path h) window in
        match r with
        | inr er => (st2, h1, [], Some er)
        | inl l => (st2, with_off h1 (h_off h1 + (e - s))%Z, l, None)
        end
    end.

Definition allowed (w : wrapper) (o : hop) : bool :=
  match w, o with
  | WRW, HSync => false
  | WRW, _ => true
  | WRO, (HWrite _ | HWriteAt _ _ | HSync) => false
  | WRO, _ => true
  | WWO, (HReadAt _ _ | HReadDir _ | HSync) => false
  | WWO, _ => true
  end.

Definition put_handle (st : kv) (i : nat) (h : handle) : kv := set_handles st (list_set (st_handles st) i h).

Definition hstep (st : kv) (i : nat) (o : hop) : kv * hres :=
  match nth_error (st_handles st) i with
  | None => (st, HRBad)
  | Some h =>
    if negb (allowed (h_wrap h) o) then
      (* the *File helper calls file.Stat() to name the file: that loads a regular file's data (memoised) *)
      let '(st, h) :=
        if negb (h_closed h) && is_regular (f_mode h) then (let '(s, h', _) := f_data st h in (put_handle s i h', h'))
        else (st, h) in
      (st, match o with
           | HWrite _ | HWriteAt _ _ => HRN 0%Z (Some (not_impl h))
           | HReadAt _ _ => HRBytes [] (Some (not_impl h))
           | HReadDir _ => HREntries [] (Some (not_impl h))
           | _ => HRErr (Some (not_impl h))
           end)
    else
    match o with
    | HRead len =>
      match h_wrap h with
      | WWO => (st, HRBytes [] (Some (if h_closed h then closed_err h else PathErr (h_path h) ENOSYS)))
      | _ =>
        let '(st1, h1, d, e) := read_at st h len (h_off h) in
        (put_handle st1 i (with_off h1 (h_off h1 + Z.of_nat (length d))%Z), HRBytes d e)
      end
    | HReadAt len off =>
      let '(st1, h1, d, e) := read_at st h len off in (put_handle st1 i h1, HRBytes d e)
    | HWrite d =>
      if h_closed h then (st, HRN 0%Z (Some (closed_err h)))
      else
        (* an appending, non-empty write first moves the offset to the end *)
        let '(st0, h0) :=
          if has_flag (h_flag h) F_APPEND && negb (match d with [] => true | _ => false end)
          then (let '(s, h', z) := cur_size st h in (s, with_off h' z)) else (st, h) in
        let '(st1, h1, n, e) := write_at st0 h0 d (h_off h0) in
        (put_handle st1 i (with_off h1 (h_off h1 + n)%Z), HRN n e)
    | HWriteAt d off =>
      if h_closed h then (st, HRN 0%Z (Some (closed_err h)))
      else if has_flag (h_flag h) F_APPEND then (st, HRN 0%Z (Some (PathErr (h_path h) EOTHER)))
      else let '(st1, h1, n, e) := write_at st h d off in (put_handle st1 i h1, HRN n e)
    | HSeek off wh =>
      if h_closed h then (st, HRN 0%Z (Some (closed_err h)))
      else
        let '(st1, h1, base) :=
          if (wh =? 0)%Z then (st, h, Some 0%Z)
          else if (wh =? 1)%Z then (st, h, Some (h_off h))
          else if (wh =? 2)%Z then let '(s, h', z) := cur_size st h in (s, h', Some z)
          else (st, h, None) in
        match base with
        | None => (put_handle st1 i h1, HRN 0%Z (Some (PathErr (h_path h) EINVAL)))
        | Some b =>
          let no := (b + off)%Z in
          if (no <? 0)%Z then (put_handle st1 i h1, HRN 0%Z (Some (PathErr (h_path h) EINVAL)))
          else (put_handle st1 i (with_off h1 no), HRN no None)
        end
    | HTrunc size =>
      match h_wrap h with
      | WRO => (st, HRErr (Some (if h_closed h then closed_err h else PathErr (h_path h) EINVAL)))
      | _ => let '(st1, h1, e) := file_truncate st h size in (put_handle st1 i h1, HRErr e)
      end
    | HStat =>
      if h_closed h then (st, HRErr (Some (closed_err h)))
      else
        let '(st1, h1) := if is_regular (f_mode h) then (let '(s, h', _) := f_data st h in (s, h')) else (st, h) in
        let '(h2, n) := f_size st1 h1 in
        (put_handle st1 i h2, HRInfo (path_base (h_path h)) (h_mode h) (Z.of_nat n))
    | HReadDir n =>
      let '(st1, h1, l, e) := read_dir st h n in (put_handle st1 i h1, HREntries l e)
    | HChmod m =>
      if h_closed h then (st, HRErr (Some (closed_err h)))
      else
        let '(st1, h1, e) := save st (with_mode_ov h (chmod_mode (f_mode h) m)) in
        (put_handle st1 i h1, HRErr (option_map (wrap (h_path h)) e))
    | HSync => (st, HRErr (Some (not_impl h)))
    | HClose =>
      if h_closed h then (st, HRErr (Some (closed_err h)))
      else (put_handle st i (with_closed h), HRErr None)
    end
  end.
