(* Store-failure propagation for Rename of a non-directory (C14): if the one failing store call happens during
   Rename(o, n) with o <> n and the call still reports success, then the source was a directory (the recursive
   case, not covered here); for a regular file a failed call always surfaces as an error. *)
From HP Require Import Base.Prelude Base.Path KV.Types KV.FS KV.Handle KV.Run KV.FaultProofs.
Open Scope N_scope.

Lemma sget_inl st p rc : snd (sget st p) = inl rc -> lookup (st_store st) p = Some rc.
Proof.
  unfold sget. destruct (tick_spec st) as (_ & S & _). destruct (tick st) as [st1 bad]. cbn [fst snd] in *.
  destruct bad; [discriminate|]. rewrite S. destruct (lookup (st_store st) p); cbn [snd]; intros H; inversion H; reflexivity.
Qed.

Lemma get_file_inl st p f : snd (get_file st p) = inl f -> exists rc, lookup (st_store st) p = Some rc /\ f = mk_file p rc.
Proof.
  unfold get_file. destruct (negb (valid_path p)); [discriminate|].
  pose proof (sget_inl st p) as X. destruct (sget st p) as [st1 [rc|e]]; cbn [snd] in *.
  - intros H. inversion H. exists rc. split; [apply X; reflexivity|reflexivity].
  - destruct (not_dir_err st1 p e). discriminate.
Qed.

Theorem rename_file_fault_is_reported fuel st o n :
  o <> n -> fired st (fst (kv_rename (Datatypes.S fuel) st o n)) ->
  snd (kv_rename (Datatypes.S fuel) st o n) = None ->
  exists rc, lookup (st_store st) o = Some rc /\ is_dir (r_mode rc) = true.
Proof.
  intros NE. cbn [kv_rename]. destruct (negb (valid_path o) || negb (valid_path n)); [cbn [fst snd]; intros _ X; discriminate|].
  destruct (get_file_spec st o) as (E1 & S1 & F1). pose proof (get_file_inl st o) as I1.
  destruct (get_file st o) as [st1 r1]. cbn [fst snd] in *.
  destruct r1 as [fo|e]; [|cbn [fst snd]; intros _ X; discriminate].
  destruct (I1 fo eq_refl) as (rc & Lo & ->). clear I1.
  assert (NF1 : ~ fired st st1) by (intros X; destruct (F1 X) as (? & ? & _); discriminate).
  (* Stat: a failed data load is remembered by the file object *)
  assert (A : let x := (if is_regular (f_mode (mk_file o rc))
                        then (let '(s, f', _) := f_data st1 (mk_file o rc) in (s, f')) else (st1, mk_file o rc)) in
              ext st1 (fst x) /\ f_mode (snd x) = r_mode rc
              /\ (fired st1 (fst x) -> h_loaded (snd x) = true /\ h_data_err (snd x) = true)).
  { destruct (is_regular (f_mode (mk_file o rc))).
    - unfold f_data. cbn [h_loaded h_fresh mk_file]. unfold sdata.
      destruct (tick_spec st1) as (E & _ & F). destruct (tick st1) as [s bad]. cbn [fst snd] in *.
      split; [exact E|]. split; [reflexivity|]. intros X. apply F in X. subst bad. split; reflexivity.
    - cbn [fst snd]. split; [apply ext_refl|]. split; [reflexivity|]. intros X. exfalso. exact (fired_refl _ X). }
  destruct (if is_regular (f_mode (mk_file o rc)) then _ else _) as [st1' fo]. cbn [fst snd] in A. destruct A as (E1' & Mfo & Ffo).
  destruct (str_eqb_spec o n); [contradiction|]. cbn [negb andb].
  (* the parent of the new name *)
  assert (B : let x := (if negb (str_eqb n dot) then
                          let '(st2, rp) := get_file st1' (path_dir n) in
                          match rp with
                          | inr e => (st2, Some (wrap_link o n e))
                          | inl par => if is_dir (f_mode par) then (st2, None) else (st2, Some (LinkErr o n ENOTDIR))
                          end
                        else (st1', None)) in
              ext st1' (fst x) /\ (fired st1' (fst x) -> snd x <> None)).
  { destruct (negb (str_eqb n dot)); [|cbn [fst snd]; split; [apply ext_refl|intros X; exfalso; exact (fired_refl _ X)]].
    destruct (get_file_spec st1' (path_dir n)) as (E2 & _ & F2). destruct (get_file st1' (path_dir n)) as [st2 rp]. cbn [fst snd] in *.
    destruct rp as [par|e]; [|cbn [fst snd]; split; [exact E2|discriminate]].
    destruct (is_dir (f_mode par)); cbn [fst snd]; (split; [exact E2|]); intros X; destruct (F2 X) as (? & ? & _); discriminate. }
  destruct (if negb (str_eqb n dot) then _ else _) as [st2 perr]. cbn [fst snd] in B. destruct B as [E2 F2].
  destruct perr as [e|]; [cbn [fst snd]; intros _ X; discriminate|].
  destruct (get_file_spec st2 n) as (E3 & _ & F3). destruct (get_file st2 n) as [st3 rn]. cbn [fst snd] in *.
  destruct (match rn with inr en => negb (cls_eqb (err_cls en) ENOENT) | inl _ => false end) eqn:Unk; [cbn [fst snd]; intros _ X; discriminate|].
  destruct (match rn with inl fn => is_dir (f_mode fn) | inr _ => false end); [cbn [fst snd]; intros _ X; discriminate|].
  rewrite Mfo.
  destruct (is_dir (r_mode rc)) eqn:Dd; [intros _ _; exists rc; auto|]. cbn [negb].
  (* a regular file: every later call is needed *)
  assert (NF3 : ~ fired st2 st3).
  { intros X. destruct (F3 X) as (e0 & -> & Cl). cbn in Unk. rewrite Cl in Unk. discriminate. }
  destruct (f_data_spec st3 fo) as (E4 & _ & F4).
  assert (Ok4 : (fired st st3 -> snd (f_data st3 fo) = false)).
  { intros X. assert (Y : fired st1 st1').
    { destruct (fired_split st st1 st3 E1 (ext_trans _ _ _ E1' (ext_trans _ _ _ E2 E3)) X) as [Z|Z]; [contradiction|].
      destruct (fired_split st1 st1' st3 E1' (ext_trans _ _ _ E2 E3) Z) as [W|W]; [exact W|].
      destruct (fired_split st1' st2 st3 E2 E3 W) as [V|V]; [apply F2 in V; congruence|contradiction]. }
    destruct (Ffo Y) as [L Er]. unfold f_data. rewrite L, Er. reflexivity. }
  destruct (f_data st3 fo) as [[st4 fo1] ok] eqn:FD. cbn [fst snd] in *.
  destruct ok; cbn [negb]; [|cbn [fst snd]; intros _ X; discriminate].
  destruct (sset_spec st4 n (Some (mkRec (f_mode fo1) (f_mtime fo1) (h_cell fo1)))) as (E5 & F5).
  destruct (sset st4 n _) as [st5 e1]. cbn [fst snd] in *.
  destruct (sset_spec st5 o None) as (E6 & F6). destruct (sset st5 o None) as [st6 e2]. cbn [fst snd] in *.
  cbn [fst snd]. intros Fi X. exfalso.
  assert (E03 : ext st st3) by (eapply ext_trans; [exact E1|eapply ext_trans; [exact E1'|eapply ext_trans; eauto]]).
  destruct (fired_split st st3 st6 E03 (ext_trans _ _ _ E4 (ext_trans _ _ _ E5 E6)) Fi) as [Y|Y].
  - specialize (Ok4 Y). discriminate.
  - destruct (fired_split st3 st4 st6 E4 (ext_trans _ _ _ E5 E6) Y) as [Z|Z]; [apply F4 in Z; discriminate|].
    destruct (fired_split st4 st5 st6 E5 E6 Z) as [W|W].
    + destruct (F5 W) as [-> _]. discriminate.
    + destruct (F6 W) as [-> _]. destruct e1; discriminate.
Qed.
