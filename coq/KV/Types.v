(* Key-value FS model: types, errors, store primitives with a fault oracle.
   The store is the one behind keyvalue.FS: mem's store (transaction store) or a plain Store
   driven through the serial fallback transaction.  Every call the FS makes on the store or on a
   record it returned -- Get, Set, the lazy Data(), the lazy ReadDirNames() -- is one "store call";
   calls are numbered and the call whose number equals [st_fault] fails (C14). With
   [st_fault = None] this is the ordinary semantics. *)
From HP Require Import Base.Prelude Base.Path.
Open Scope N_scope.

Inductive cls :=
| ENOENT | EEXIST | EISDIR | ENOTDIR | ENOTEMPTY | EINVAL | ECLOSED | ENOSYS | EPERM | EEOF | EOTHER.

Definition cls_eqb (a b : cls) : bool :=
  match a, b with
  | ENOENT, ENOENT | EEXIST, EEXIST | EISDIR, EISDIR | ENOTDIR, ENOTDIR | ENOTEMPTY, ENOTEMPTY
  | EINVAL, EINVAL | ECLOSED, ECLOSED | ENOSYS, ENOSYS | EPERM, EPERM | EEOF, EEOF | EOTHER, EOTHER => true
  | _, _ => false
  end.

(* outermost error type and its path fields, innermost class (what errors.Is sees) *)
Inductive err :=
| PathErr (p : str) (c : cls)
| LinkErr (o n : str) (c : cls)
| Bare (c : cls).

Definition err_cls (e : err) : cls :=
  match e with PathErr _ c | LinkErr _ _ c | Bare c => c end.

(* wrapperErr(op, path, err): a PathError around whatever err was *)
Definition wrap (p : str) (e : err) : err := PathErr p (err_cls e).
Definition wrap_link (o n : str) (e : err) : err := LinkErr o n (err_cls e).

Inductive mtime := Clock | Explicit (z : Z).

Definition mtime_eqb (a b : mtime) : bool :=
  match a, b with
  | Clock, Clock => true
  | Explicit x, Explicit y => Z.eqb x y
  | _, _ => false
  end.

(* io/fs.FileMode bits *)
Definition ModeDir : N := 2147483648.      (* 1<<31 *)
Definition ModePerm : N := 511.            (* 0777 *)
Definition ModeSetuid : N := 8388608.      (* 1<<23 *)
Definition ModeSetgid : N := 4194304.      (* 1<<22 *)
Definition ModeSticky : N := 1048576.      (* 1<<20 *)
Definition chmod_bits : N := N.lor ModePerm (N.lor ModeSetuid (N.lor ModeSetgid ModeSticky)).
Definition ModeType : N := 2401763328.     (* ModeDir|ModeSymlink|ModeNamedPipe|ModeSocket|ModeDevice|ModeCharDevice|ModeIrregular *)

Definition is_dir (m : N) : bool := negb (N.eqb (N.land m ModeDir) 0).
Definition is_regular (m : N) : bool := N.eqb (N.land m ModeType) 0.

Record rec := mkRec { r_mode : N; r_mtime : mtime; r_cell : nat }.

(* open flags in the harness's own encoding (translated to syscall.O_* by the harness) *)
Definition F_WRONLY : N := 1.
Definition F_RDWR : N := 2.
Definition F_CREATE : N := 4.
Definition F_EXCL : N := 8.
Definition F_TRUNC : N := 16.
Definition F_APPEND : N := 32.
Definition has_flag (fl b : N) : bool := negb (N.eqb (N.land fl b) 0).

Inductive wrapper := WRO | WWO | WRW.

(* A *file object of keyvalue/file.go: the record snapshot taken at open plus the runOnce memo. *)
Record handle := mkH {
  h_path : str;
  h_cell : nat;              (* the blob this handle's Data() yields (shared with the store record) *)
  h_mode : N;                (* record mode at open *)
  h_mtime : mtime;           (* record mod time at open *)
  h_mode_ov : option N;      (* modeOverride *)
  h_mtime_ov : option mtime; (* modTimeOverride *)
  h_off : Z;
  h_flag : N;
  h_wrap : wrapper;
  h_loaded : bool;           (* Data() already evaluated (memoised)? *)
  h_data_err : bool;         (* ... and it failed *)
  h_fresh : bool;            (* created by newFile: Data() is the FS's own closure, not a store call *)
  h_names : option (list str + err);     (* memoised ReadDirNames() result, None = not evaluated yet *)
  h_closed : bool;
  h_size : option nat         (* sizeOnce: the record's Size() at the first time it was asked *)
}.

Record kv := mkKV {
  st_store : list (str * rec);
  st_heap : list (list N);
  st_handles : list handle;
  st_calls : nat;
  st_fault : option nat
}.

(* ---- association list ---- *)
Fixpoint lookup (s : list (str * rec)) (p : str) : option rec :=
  match s with
  | [] => None
  | (k, v) :: s' => if str_eqb k p then Some v else lookup s' p
  end.

Definition remove_key (s : list (str * rec)) (p : str) : list (str * rec) :=
  filter (fun kv => negb (str_eqb (fst kv) p)) s.

Definition insert (s : list (str * rec)) (p : str) (r : rec) : list (str * rec) :=
  (p, r) :: remove_key s p.

(* ---- state updates ---- *)
Definition set_store (st : kv) (s : list (str * rec)) : kv :=
  mkKV s (st_heap st) (st_handles st) (st_calls st) (st_fault st).
Definition set_heap (st : kv) (h : list (list N)) : kv :=
  mkKV (st_store st) h (st_handles st) (st_calls st) (st_fault st).
Definition set_handles (st : kv) (h : list handle) : kv :=
  mkKV (st_store st) (st_heap st) h (st_calls st) (st_fault st).

Definition cell (st : kv) (c : nat) : list N := nth c (st_heap st) [].
Definition set_cell (st : kv) (c : nat) (d : list N) : kv := set_heap st (list_set (st_heap st) c d).
Definition alloc_cell (st : kv) (d : list N) : kv * nat :=
  (set_heap st (st_heap st ++ [d]), length (st_heap st)).

(* one store call: returns the state with the call counted and whether this call fails *)
Definition tick (st : kv) : kv * bool :=
  let n := st_calls st in
  (mkKV (st_store st) (st_heap st) (st_handles st) (Datatypes.S n) (st_fault st),
   match st_fault st with Some k => Nat.eqb k n | None => false end).

(* Store.Get *)
Definition sget (st : kv) (p : str) : kv * (rec + err) :=
  let '(st1, bad) := tick st in
  if bad then (st1, inr (Bare EOTHER))
  else match lookup (st_store st1) p with
       | Some r => (st1, inl r)
       | None => (st1, inr (Bare ENOENT))
       end.

(* Store.Set (nil record = delete) *)
Definition sset (st : kv) (p : str) (r : option rec) : kv * option err :=
  let '(st1, bad) := tick st in
  if bad then (st1, Some (Bare EOTHER))
  else match r with
       | Some r => (set_store st1 (insert (st_store st1) p r), None)
       | None => (set_store st1 (remove_key (st_store st1) p), None)
       end.

(* record.Data() of a record the store returned: a store call that can fail *)
Definition sdata (st : kv) : kv * bool := tick st.

(* record.ReadDirNames(): names of the keys directly below [p], in store order *)
Definition child_name (p key : str) : option str :=
  if str_eqb p dot then
    (if str_eqb key dot || contains_byte slash key then None else Some key)
  else
    let pre := p ++ [slash] in
    if has_prefix key pre then
      let rest := skipn (length pre) key in
      if contains_byte slash rest then None else Some rest
    else None.

Fixpoint child_names (p : str) (s : list (str * rec)) : list str :=
  match s with
  | [] => []
  | (k, _) :: s' => match child_name p k with Some n => n :: child_names p s' | None => child_names p s' end
  end.

Definition snames (st : kv) (p : str) (mode : N) : kv * (list str + err) :=
  let '(st1, bad) := tick st in
  if bad then (st1, inr (Bare EOTHER))
  else if is_dir mode then (st1, inl (child_names p (st_store st1)))
  else (st1, inr (Bare ENOTDIR)).
