From HP Require Import Base.Prelude Blob.Bytes.
Example C19_smoke : fst (bstep binit (BNew [1;2;3]%N)) <> binit.
Proof. vm_compute. discriminate. Qed.
Print Assumptions C19_smoke.
