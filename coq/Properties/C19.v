(* C19 -- Blobs behave as plain byte sequences: exact results, errors not panics.
   Statements only; every proof is [exact <lemma>] into Blob/BytesProofs.v / Blob/BytesLaws.v.
   [bexec ops] is the state reached from the empty state by ANY history [ops]; [bstep] is the
   model of one call on blob.Bytes (Blob/Bytes.v), tied to /repo by the per-run correspondence. *)
From HP Require Import Base.Prelude Blob.Bytes Blob.BytesProofs Blob.BytesLaws Blob.Typed Blob.TypedProofs.
Open Scope nat_scope.

(* No call ever panics or blocks on a mutex the caller already holds -- in particular writing a
   view of a blob back into that blob terminates -- after every history. *)
Theorem C19_never_panics_never_self_deadlocks : forall ops,
  Forall (fun ro => fst ro <> RDeadlock /\ fst ro <> RPanic) (brun binit ops).
Proof. intros ops. exact (brun_safe binit ops eq_refl). Qed.
Print Assumptions C19_never_panics_never_self_deadlocks.

Theorem C19_self_set_terminates : forall ops d v o,
  let r := snd (bstep (bexec ops) (BSet d v o)) in r <> RDeadlock /\ r <> RPanic.
Proof. intros ops d v o. exact (proj2 (bstep_terminates_unlocked (bexec ops) (BSet d v o) (proj1 (bexec_inv ops)))). Qed.
Print Assumptions C19_self_set_terminates.

(* Every reachable state is well-formed: every blob lies inside its backing array. *)
Theorem C19_reachable_wf : forall ops, held (bexec ops) = [] /\ wf (bexec ops).
Proof. exact bexec_inv. Qed.
Print Assumptions C19_reachable_wf.

(* Negative or out-of-range arguments: an error, and NOTHING is modified (the whole state,
   hence every blob's bytes and length, is unchanged). *)
Theorem C19_out_of_range_is_error_and_changes_nothing : forall ops op,
  handles_ok (bexec ops) op -> in_range (bexec ops) op = false ->
  bstep (bexec ops) op = (bexec ops, RErr).
Proof. intros ops op H R. rewrite bstep_reach. exact (oob_rejected _ op H R). Qed.
Print Assumptions C19_out_of_range_is_error_and_changes_nothing.

(* In-range arguments are never refused (except the one documented quirk). *)
Theorem C19_in_range_is_accepted : forall ops op,
  handles_ok (bexec ops) op -> in_range (bexec ops) op = true -> set_quirk (bexec ops) op = false ->
  snd (bstep (bexec ops) op) <> RErr /\ snd (bstep (bexec ops) op) <> RBadHandle.
Proof. intros ops op H R Q. rewrite bstep_reach. exact (in_range_accepted _ op H R Q). Qed.
Print Assumptions C19_in_range_is_accepted.

(* Len / Bytes *)
Theorem C19_len_is_length_of_bytes : forall ops bi b, nth_error (blobs (bexec ops)) bi = Some b ->
  bstep (bexec ops) (BLen bi) = (bexec ops, ROk (Z.of_nat (length (bytes_of (bexec ops) b)))).
Proof. intros ops bi b E. rewrite bstep_reach. exact (len_law _ bi b (proj2 (bexec_inv ops)) E). Qed.
Print Assumptions C19_len_is_length_of_bytes.

Theorem C19_bytes_returns_contents : forall ops bi b, nth_error (blobs (bexec ops)) bi = Some b ->
  bstep (bexec ops) (BBytes bi) = (bexec ops, RBytes (bytes_of (bexec ops) b)).
Proof. intros ops bi b E. rewrite bstep_reach. exact (bytes_law _ bi b E). Qed.
Print Assumptions C19_bytes_returns_contents.

(* View: the sub-sequence, aliasing the original (same array, shifted offset). *)
Theorem C19_view : forall ops bi b s e, let st := bexec ops in
  nth_error (blobs st) bi = Some b -> range_ok (s_len b) s e = true ->
  exists v, bstep st (BView bi s e) =
      (mkB (arrays st) (blobs st ++ [v]) (next_mu st) (held st), ROk (Z.of_nat (length (blobs st))))
    /\ bytes_of st v = sublist (Z.to_nat s) (Z.to_nat e) (bytes_of st b)
    /\ s_arr v = s_arr b /\ s_off v = s_off b + Z.to_nat s /\ s_len v = Z.to_nat e - Z.to_nat s.
Proof. intros ops bi b s e st E R. subst st. rewrite bstep_reach. exact (view_law _ bi b s e (proj2 (bexec_inv ops)) E R). Qed.
Print Assumptions C19_view.

(* Slice: the same bytes in a fresh array (an independent copy). *)
Theorem C19_slice : forall ops bi b s e, let st := bexec ops in
  nth_error (blobs st) bi = Some b -> range_ok (s_len b) s e = true ->
  let d := sublist (Z.to_nat s) (Z.to_nat e) (bytes_of st b) in
  let v := mkSlice (length (arrays st)) 0 (length d) (next_mu st) in
  bstep st (BSlice bi s e) =
      (mkB (arrays st ++ [(d, true)]) (blobs st ++ [v]) (Datatypes.S (next_mu st)) (held st),
       ROk (Z.of_nat (length (blobs st))))
  /\ bytes_of (fst (bstep st (BSlice bi s e))) v = d.
Proof. intros ops bi b s e st E R. subst st. rewrite bstep_reach. exact (slice_law _ bi b s e E R). Qed.
Print Assumptions C19_slice.

(* Set: copy() semantics on the destination; blobs in other arrays (slices, Bytes() copies,
   unrelated blobs) are untouched; blobs in the same array outside the written window too. *)
Theorem C19_set : forall ops di si d s o, let st := bexec ops in
  nth_error (blobs st) di = Some d -> nth_error (blobs st) si = Some s ->
  in_range st (BSet di si o) = true -> set_quirk st (BSet di si o) = false ->
  let o' := Z.to_nat o in
  let n := Nat.min (s_len d - o') (length (bytes_of st s)) in
  let st' := fst (bstep st (BSet di si o)) in
  snd (bstep st (BSet di si o)) = ROk (Z.of_nat n)
  /\ blobs st' = blobs st
  /\ bytes_of st' d = splice (bytes_of st d) o' (firstn n (bytes_of st s))
  /\ (forall x, In x (blobs st) -> s_arr x <> s_arr d -> bytes_of st' x = bytes_of st x)
  /\ (forall x, In x (blobs st) -> s_arr x = s_arr d ->
        (s_off x + s_len x <= s_off d + o' \/ s_off d + o' + n <= s_off x) -> bytes_of st' x = bytes_of st x).
Proof. intros ops di si d s o st Ed Es R Q. subst st. rewrite bstep_reach. exact (set_law _ di si d s o (proj2 (bexec_inv ops)) Ed Es R Q). Qed.
Print Assumptions C19_set.

(* Views alias the original: a write through a view lands in the original at the view's offset. *)
Theorem C19_write_through_view : forall ops bi b vi v si s x, let st := bexec ops in
  nth_error (blobs st) bi = Some b -> nth_error (blobs st) vi = Some v -> nth_error (blobs st) si = Some s ->
  s_arr v = s_arr b -> s_off v = s_off b + x -> x + s_len v <= s_len b ->
  s_len s <= s_len v -> 0 < s_len v ->
  bytes_of (fst (bstep st (BSet vi si 0))) b = splice (bytes_of st b) x (bytes_of st s).
Proof. intros ops bi b vi v si s x st Eb Ev Es. subst st. rewrite bstep_reach. exact (view_write_through _ bi b vi v si s x (proj2 (bexec_inv ops)) Eb Ev Es). Qed.
Print Assumptions C19_write_through_view.

(* Grow appends zeros; Truncate keeps a prefix. *)
Theorem C19_grow : forall ops bi b n, let st := bexec ops in
  nth_error (blobs st) bi = Some b -> (0 <= n)%Z -> snd (bstep st (BGrow bi n)) <> RUnknown ->
  exists b', nth_error (blobs (fst (bstep st (BGrow bi n)))) bi = Some b'
    /\ bytes_of (fst (bstep st (BGrow bi n))) b' = bytes_of st b ++ zeros (Z.to_nat n).
Proof. intros ops bi b n st. subst st. rewrite bstep_reach. exact (grow_law _ bi b n (proj2 (bexec_inv ops))). Qed.
Print Assumptions C19_grow.

Theorem C19_truncate : forall ops bi b n, let st := bexec ops in
  nth_error (blobs st) bi = Some b -> (0 <= n)%Z ->
  exists b', nth_error (blobs (fst (bstep st (BTrunc bi n)))) bi = Some b'
    /\ bytes_of (fst (bstep st (BTrunc bi n))) b' = firstn (Z.to_nat n) (bytes_of st b)
    /\ arrays (fst (bstep st (BTrunc bi n))) = arrays st.
Proof. intros ops bi b n st. subst st. rewrite bstep_reach. exact (trunc_law _ bi b n (proj2 (bexec_inv ops))). Qed.
Print Assumptions C19_truncate.

(* ---- the typed-array blob (indexeddb/idbblob, js/wasm), JS side: Blob/Typed.v, tied to the code by the observations
   the harness reads from the JS arrays under node.  (Its Go-side copies of the bytes are not modelled: see the known
   finding about Bytes() going stale.) ---- *)

(* Views alias: a view IS the corresponding piece of its parent's window, in every state -- whatever is written through
   either of them afterwards. *)
Theorem C19_typed_view_is_a_window_of_its_parent : forall st buf off len x y, x <= y -> y <= len ->
  obj_bytes st (mkO buf (off + x) (y - x)) = sublist x y (obj_bytes st (mkO buf off len)).
Proof. exact view_is_a_window_of_its_parent. Qed.
Print Assumptions C19_typed_view_is_a_window_of_its_parent.

(* After every history every blob is a window inside its array (no RangeError is pending) and every handle names a blob. *)
Theorem C19_typed_reachable_states_are_well_formed : forall ops,
  twf (fold_left (fun st op => fst (tstep st op)) ops tinit).
Proof. exact reachable_wf. Qed.
Print Assumptions C19_typed_reachable_states_are_well_formed.

(* Grow and a shrinking (or equal-size) Truncate move the blob to an array nobody else looks at: its former views keep
   the old array -- the point where the typed-array blob and a Go slice part ways, and where the differential stream
   stops comparing aliases. *)
Theorem C19_typed_grow_detaches : forall st h n oid o, twf st -> handle_obj st h = Some (oid, o) -> (0 <= n)%Z ->
  sole_owner (fst (tstep st (BGrow h n))) oid.
Proof. exact grow_detaches. Qed.
Print Assumptions C19_typed_grow_detaches.

Theorem C19_typed_truncate_detaches : forall st h n oid o, twf st -> handle_obj st h = Some (oid, o) -> (0 <= n)%Z ->
  Z.to_nat n <= o_len o -> sole_owner (fst (tstep st (BTrunc h n))) oid.
Proof. exact truncate_detaches. Qed.
Print Assumptions C19_typed_truncate_detaches.

(* In-range arguments are accepted; Set copies what fits (the repaired behaviour), the one refusal being a non-empty
   source at offset 0 of an empty blob, as for blob.Bytes. *)
Theorem C19_typed_in_range_view_accepted : forall st h oid o s e, handle_obj st h = Some (oid, o) ->
  (0 <= s)%Z -> (s <= e)%Z -> (e <= Z.of_nat (o_len o))%Z -> exists id, snd (tstep st (BView h s e)) = ROk id.
Proof. exact in_range_view_accepted. Qed.
Print Assumptions C19_typed_in_range_view_accepted.

Theorem C19_typed_set_copies_what_fits : forall st hd hs oidd d oids s off,
  handle_obj st hd = Some (oidd, d) -> handle_obj st hs = Some (oids, s) ->
  (0 <= off)%Z -> (off <= Z.of_nat (o_len d))%Z -> (0 < o_len d \/ o_len s = 0 \/ (0 < off)%Z) ->
  snd (tstep st (BSet hd hs off)) = ROk (Z.of_nat (Nat.min (o_len s) (o_len d - Z.to_nat off))).
Proof. exact in_range_set_copies_what_fits. Qed.
Print Assumptions C19_typed_set_copies_what_fits.

(* Non-vacuity: a concrete reachable state with a view, an out-of-range call and an aliasing write. *)
Example C19_nonvacuous :
  let ops := [BNew [1;2;3;4;5]%N; BView 0 1%Z 4%Z; BNew [9;8]%N; BSet 1 2 0%Z] in
  snapshot (bexec ops) = [[1;9;8;4;5]%N; [9;8;4]%N; [9;8]%N]
  /\ in_range (bexec ops) (BView 0 4%Z 2%Z) = false
  /\ handles_ok (bexec ops) (BView 0 4%Z 2%Z).
Proof. vm_compute. repeat split; lia. Qed.
Print Assumptions C19_nonvacuous.
