(* C13 -- Tar entries become visible atomically and every Open eventually returns.
   Model: Tar/PubSub.v.  [pstep]/[released] model tar/pubsub.go (compared with the real pubsub through
   the verif shim on every run); [gstep] is the transition system of ReaderFS.Open for one regular
   entry against the writer, the reader's end and cancellation, one atomic step per transition, so a
   statement over [greach] covers EVERY interleaving.  The Go scheduler's fairness, the tar parser and
   the destination FS are not modelled; truncated/corrupt streams, failing destinations and 1..8 real
   openers are exercised end to end by the harness.
   Tar/Workers.v models the END of the reader: the background writers of small files, the one-slot error channel, the
   WaitGroup and the final select; its theorems say that the reader always returns (so Done() fires and every Open comes
   back) and that it returns nil only if no background write failed. *)
From HP Require Import Base.Prelude Tar.PubSub Tar.PubSubProofs Tar.Workers.
Open Scope nat_scope.

(* pubsub: a waiter is released by an Emit of its key and by cancellation, stays released, and is
   released by nothing else. *)
Theorem C13_wait_released_by_emit : forall s k, released (pstep s (PEmit k)) k = true.
Proof. exact released_emit. Qed.
Print Assumptions C13_wait_released_by_emit.

Theorem C13_wait_released_by_cancel : forall s k, released (pstep s PCancel) k = true.
Proof. exact released_cancel. Qed.
Print Assumptions C13_wait_released_by_cancel.

Theorem C13_released_stays_released : forall s a k, released s k = true -> released (pstep s a) k = true.
Proof. exact released_mono. Qed.
Print Assumptions C13_released_stays_released.

Theorem C13_wait_released_by_nothing_else : forall s a k,
  released s k = false -> released (pstep s a) k = true ->
  a = PCancel \/ exists k', a = PEmit k' /\ str_eqb k k' = true.
Proof. exact released_only_by. Qed.
Print Assumptions C13_wait_released_by_nothing_else.

(* Atomic visibility, over all interleavings: an Open that succeeds on a regular entry shows the
   entry's complete bytes, never a prefix -- also when the caller cancels while the entry is being
   written, when the writer fails, when the reader ends with an error. *)
Theorem C13_open_success_is_complete : forall total s k,
  greach total s -> g_op s = OResult (Some k) -> k = total.
Proof. exact open_success_is_complete. Qed.
Print Assumptions C13_open_success_is_complete.

(* Fail closed: with the error stored and the entry never announced, the opener can only fail. *)
Theorem C13_fail_closed : forall total s s',
  greach total s -> g_emitted s = false -> g_op s = OCheckErr -> g_err s = true -> gstep s s' ->
  g_op s' = OCheckErr \/ g_op s' = OResult None.
Proof. exact fail_closed. Qed.
Print Assumptions C13_fail_closed.

(* Liveness in its safety form: after cancellation (which the reader performs right after it is done,
   and the caller may perform at any time) no opener is blocked. *)
Theorem C13_no_stuck_opener : forall s, g_cancel s = true -> (forall r, g_op s <> OResult r) ->
  exists s', gstep s s' /\ g_op s' <> g_op s.
Proof. exact no_stuck_opener. Qed.
Print Assumptions C13_no_stuck_opener.

Theorem C13_reader_done_enables_cancel : forall s, g_rdone s = true -> exists s', gstep s s' /\ g_cancel s' = true.
Proof. exact reader_done_enables_cancel. Qed.
Print Assumptions C13_reader_done_enables_cancel.

(* Non-vacuity: a run in which the caller cancels while the entry is half written ends in an error. *)
Example C13_cancel_midway_fails :
  exists s, greach 2 s /\ g_written s = 1 /\ g_op s = OResult None.
Proof.
  eexists. split.
  - eapply GR_step; [eapply GR_step; [eapply GR_step; [eapply GR_step; [eapply GR_step; [apply GR_init|]|]|]|]|].
    + apply G_write; simpl; auto.
    + apply G_cancel.
    + apply G_wait; simpl; auto.
    + apply G_check_vis; reflexivity.
    + apply G_check_done; reflexivity.
  - simpl. auto.
Qed.
Print Assumptions C13_cancel_midway_fails.

(* ---- the reader's end: n background writers (any of which may fail), the one-slot error channel, the WaitGroup, the
   goroutine closing [done], and the reader polling / selecting; [wreach] is ANY interleaving ---- *)

(* the error wins: readErr returns nil only if no background write failed (so UnarchiveErr is set whenever one did) *)
Theorem C13_reader_returns_nil_only_if_no_write_failed : forall flags st,
  wreach (winit flags) st -> w_reader st = RRet false -> count_true flags = 0.
Proof. exact nil_only_if_no_write_failed. Qed.
Print Assumptions C13_reader_returns_nil_only_if_no_write_failed.

(* no deadlock between the one-slot channel, the WaitGroup and the final select: while the reader has not returned,
   some goroutine can take a step ... *)
Theorem C13_reader_never_blocked_for_good : forall flags st,
  wreach (winit flags) st -> (forall e, w_reader st <> RRet e) -> exists a st1, wstep st a = Some st1.
Proof. exact reader_never_stuck. Qed.
Print Assumptions C13_reader_never_blocked_for_good.

(* ... every step uses something up (executions are finite) ... *)
Theorem C13_every_step_decreases_the_measure : forall st a st1, wstep st a = Some st1 -> measure st1 < measure st.
Proof. exact every_step_decreases. Qed.
Print Assumptions C13_every_step_decreases_the_measure.

(* ... hence from every reachable state the reader does return: Done() fires, every Open comes back. *)
Theorem C13_reader_returns : forall flags st, wreach (winit flags) st ->
  exists st2 e, wreach st st2 /\ w_reader st2 = RRet e.
Proof. intros flags st R. exact (reader_returns flags (measure st) st (le_n _) R). Qed.
Print Assumptions C13_reader_returns.

(* Non-vacuity: three of four writers fail; every interleaving ends with the reader returning the error. *)
Example C13_workers_nonvacuous :
  C13_workers_check ([true; true; true; false], true) = true /\ C13_workers_check ([false; false; false], false) = true.
Proof. exact (conj workers_three_failures (proj1 workers_no_failure)). Qed.
Print Assumptions C13_workers_nonvacuous.
