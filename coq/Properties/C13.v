From HP Require Import Base.Prelude Base.Path Tar.Unpack.
Example C13_smoke : resolve (S "./a//b/") = S "a/b" /\ resolve (S "/../x") = S "x" /\ resolve (S "../x") = S "../x".
Proof. vm_compute. auto. Qed.
Print Assumptions C13_smoke.
