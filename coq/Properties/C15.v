(* C15 -- Concurrent use of the in-memory FS is race-free and atomic per operation.
   Model: Conc/Conc.v -- Mkdir, MkdirAll, Remove, Stat, Chmod and the Rename of a non-directory of keyvalue.FS as resumable programs whose atomic
   steps are store transactions (and the lazy directory listing); [explore] enumerates EVERY
   interleaving, [explore_seq] every sequential order of whole operations.  The outcome sets of the
   model are compared with those of the real code (all schedules forced on it) on every run.
   The theorems about families of programs are finite: the family is part of the statement.
   Data races in the Go memory-model sense cannot be expressed by this model (exercised: free-running
   stress; the race detector in the thorough tier).
   Conc/Commute.v proves the "unrelated paths" clause in general: any number of goroutines, any programs over
   the alphabet, any store, any schedule (non-interference by read/write regions). *)
From HP Require Import Base.Prelude Base.Path Base.PathProofs Base.DirProofs KV.Types Conc.Conc Conc.ConcProofs Conc.Commute Conc.NoOrphan Txn.Txn Txn.TxnProofs.
Open Scope nat_scope.

(* The property as stated (every interleaving equals some sequential order) is FALSE of the code:
   two concurrent Mkdir of one name can both report success. *)
Theorem C15_linearizable_refuted :
  subset_outcomes (explore 100 s0 (map g_init two_mkdirs)) (explore_seq 100 s0 (map g_init two_mkdirs)) = false
  /\ mem_outcome ([[COk]; [COk]], cset s0 (S "d/x") true) (explore 100 s0 (map g_init two_mkdirs)) = true.
Proof. exact (conj two_mkdirs_not_sequential both_mkdirs_succeed). Qed.
Print Assumptions C15_linearizable_refuted.

(* ... and Mkdir below a directory that is removed concurrently can leave an orphan. *)
Theorem C15_orphan_reachable_refuted :
  existsb (fun o => match cget (snd o) (S "d/x"), cget (snd o) (S "d") with Some _, None => true | _, _ => false end)
          (explore 100 s0 (map g_init mkdir_vs_remove)) = true.
Proof. exact orphan_reachable. Qed.
Print Assumptions C15_orphan_reachable_refuted.

(* Orphans need a remover.  The orphan of [C15_orphan_reachable_refuted] needs a Remove: with any number of goroutines
   running ANY programs over Mkdir, MkdirAll (of real-name paths), Chmod and Stat, from any well-formed tree, under EVERY
   interleaving and at EVERY point of the run, the store is a well-formed tree -- the root is a directory and every
   entry's parent is a directory.  (MkdirAll creates the missing chain from the outermost directory inwards, one
   transaction per level; creating the deepest one first would break this theorem's proof and the correspondence.) *)
Theorem C15_no_orphan_without_a_remover : forall progs s0 s gs,
  wf s0 -> (forall ops o, In ops progs -> In o ops -> allowed o) ->
  reach s0 (map g_init progs) s gs -> wf s.
Proof. exact no_orphan_without_a_remover. Qed.
Print Assumptions C15_no_orphan_without_a_remover.

Theorem C15_no_orphan_nonvacuous :
  wf demo_tree /\ allowed (CMkdirAll (S "d/x/y")) /\ allowed (CMkdir (S "d/x")) /\ ~ allowed (CRemove (S "d")).
Proof. exact no_orphan_demo. Qed.
Print Assumptions C15_no_orphan_nonvacuous.

(* "Operations on unrelated paths do not influence each other", in general.  For ANY list of goroutine programs in
   which no path written by one goroutine lies in the read region of another (the path itself, the ancestors its
   look-ups walk, its direct children), ANY initial store and ANY two complete runs -- [reach] is an arbitrary
   schedule at store-transaction granularity -- the goroutines end in the same states (so every operation returned
   the same result in both runs) and the stores hold the same records. *)
Theorem C15_unrelated_goroutines_confluent : forall progs s0 s1 gs1 s2 gs2,
  unrelated_progs progs ->
  reach s0 (map g_init progs) s1 gs1 -> all_finished gs1 ->
  reach s0 (map g_init progs) s2 gs2 -> all_finished gs2 ->
  map g_res gs1 = map g_res gs2 /\ forall k, cget s1 k = cget s2 k.
Proof. exact unrelated_programs_confluent. Qed.
Print Assumptions C15_unrelated_goroutines_confluent.

(* In terms of the exploration the correspondence check runs: every outcome [explore] enumerates equals every other
   one, and equals the outcome of EVERY sequential order of whole operations ([seq_reach]: one goroutine at a time
   runs one operation from start to end). *)
Theorem C15_unrelated_interleavings_equal_every_sequential_order : forall progs s0 fuel o,
  unrelated_progs progs -> In o (explore fuel s0 (map g_init progs)) ->
  (forall fuel' o', In o' (explore fuel' s0 (map g_init progs)) ->
     fst o' = fst o /\ forall k, cget (snd o') k = cget (snd o) k)
  /\ (forall s2 gs2, seq_reach s0 (map g_init progs) s2 gs2 -> all_finished gs2 ->
     map g_res gs2 = fst o /\ forall k, cget s2 k = cget (snd o) k).
Proof. exact explore_unrelated_one_outcome. Qed.
Print Assumptions C15_unrelated_interleavings_equal_every_sequential_order.

(* ... and such a sequential order always exists (every operation of the alphabet terminates). *)
Theorem C15_sequential_order_exists : forall progs s,
  exists s2 gs2, seq_reach s (map g_init progs) s2 gs2 /\ all_finished gs2.
Proof. exact sequential_order_exists_progs. Qed.
Print Assumptions C15_sequential_order_exists.

(* "Unrelated" follows from the shape of the paths alone: real-name paths of different goroutines that are pairwise
   apart (neither equals the other nor lies below it).  In particular a sibling whose name merely extends another
   ("d" and "dx") is apart from it. *)
Theorem C15_apart_paths_are_unrelated : forall progs,
  (forall ops, In ops progs -> paths_ok ops) ->
  (forall i j pi pj oi oj a b, i <> j -> nth_error progs i = Some pi -> nth_error progs j = Some pj ->
     In oi pi -> In oj pj -> In a (cop_paths oi) -> In b (cop_paths oj) -> apart a b) ->
  unrelated_progs progs.
Proof. exact apart_unrelated. Qed.
Print Assumptions C15_apart_paths_are_unrelated.

(* the premise is decidable, holds of concrete three-goroutine programs that have outcomes, and fails for the two
   refutation witnesses above (so the theorem does not contradict them) *)
Theorem C15_unrelated_nonvacuous :
  pairwise_b demo_progs = true /\ unrelated_progs demo_progs
  /\ Nat.ltb 0 (length (explore 200 demo_store (map g_init demo_progs))) = true
  /\ pairwise_b two_mkdirs = false /\ pairwise_b mkdir_vs_remove = false.
Proof.
  exact (conj demo_unrelated (conj (pairwise_b_sound _ demo_unrelated) (conj demo_has_outcomes
         (conj (proj1 demo_related_rejected) (proj1 (proj2 demo_related_rejected)))))).
Qed.
Print Assumptions C15_unrelated_nonvacuous.

(* The earlier finite instance, kept: for every program of one or two
   operations from [ops_left] (below d/) run against every operation from [ops_right] (below e/), every
   interleaving ends in one and the same outcome, and it is a sequential one. (42 x 6 programs.) *)
Theorem C15_unrelated_commute_partial : forall pl pr,
  In pl (progs_upto2 ops_left) -> In pr (progs1 ops_right) -> commute_ok pl pr = true.
Proof. exact unrelated_commute. Qed.
Print Assumptions C15_unrelated_commute_partial.

(* Single-transaction operations are atomic: any one or two Stats of existing paths against a
   concurrent Mkdir, Remove or Stat always produce a sequential outcome. *)
Theorem C15_single_transaction_ops_linearizable_partial :
  forallb (fun pl => forallb (fun pr =>
     subset_outcomes (explore 200 s0 [g_init pl; g_init pr]) (explore_seq 200 s0 [g_init pl; g_init pr]))
     (progs1 (CMkdir (S "x") :: CRemove (S "f") :: stat_ops))) (progs_upto2 stat_ops) = true.
Proof. exact stats_linearizable_all. Qed.
Print Assumptions C15_single_transaction_ops_linearizable_partial.

(* Store transactions are mutually exclusive and the store is never left locked (from C18's model of
   the in-memory store): no deadlock on the store mutex is possible after any call sequence. *)
Theorem C15_transactions_exclusive_and_released : forall s0 cs,
  let t := fst (trun MemTxn (t_begin s0) cs) in
  (t_released t = false -> t_locked t = true) /\ (existsb ends cs = true -> usable MemTxn t = true).
Proof.
  intros st cs t. split.
  - destruct (trun_rinv (t_begin st) cs (rinv_begin st)) as (_ & L & _). exact L.
  - intros H. apply mem_store_released. exact H.
Qed.
Print Assumptions C15_transactions_exclusive_and_released.
