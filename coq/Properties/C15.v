(* C15 -- Concurrent use of the in-memory FS is race-free and atomic per operation.
   Model: Conc/Conc.v -- Mkdir, Remove and Stat of keyvalue.FS as resumable programs whose atomic
   steps are store transactions (and the lazy directory listing); [explore] enumerates EVERY
   interleaving, [explore_seq] every sequential order of whole operations.  The outcome sets of the
   model are compared with those of the real code (all schedules forced on it) on every run.
   The theorems about families of programs are finite: the family is part of the statement.
   Data races in the Go memory-model sense cannot be expressed by this model (exercised: free-running
   stress; the race detector in the thorough tier).
   (* OPEN: C15_unrelated_commute_all_programs -- the commutation for arbitrary programs and stores *) *)
From HP Require Import Base.Prelude Base.Path KV.Types Conc.Conc Conc.ConcProofs Txn.Txn Txn.TxnProofs.
Open Scope nat_scope.

(* The property as stated (every interleaving equals some sequential order) is FALSE of the code:
   two concurrent Mkdir of one name can both report success. *)
Theorem C15_linearizable_refuted :
  subset_outcomes (explore 100 s0 (map g_init two_mkdirs)) (explore_seq 100 s0 (map g_init two_mkdirs)) = false
  /\ mem_outcome ([[COk]; [COk]], cset s0 (S "d/x") true) (explore 100 s0 (map g_init two_mkdirs)) = true.
Proof. exact (conj two_mkdirs_not_sequential both_mkdirs_succeed). Qed.
Print Assumptions C15_linearizable_refuted.

(* ... and Mkdir below a directory that is removed concurrently can leave an orphan. *)
Theorem C15_orphan_reachable_refuted :
  existsb (fun o => match cget (snd o) (S "d/x"), cget (snd o) (S "d") with Some _, None => true | _, _ => false end)
          (explore 100 s0 (map g_init mkdir_vs_remove)) = true.
Proof. exact orphan_reachable. Qed.
Print Assumptions C15_orphan_reachable_refuted.

(* Operations on unrelated paths do not influence each other: for every program of one or two
   operations from [ops_left] (below d/) run against every operation from [ops_right] (below e/), every
   interleaving ends in one and the same outcome, and it is a sequential one. (42 x 6 programs.) *)
Theorem C15_unrelated_commute_partial : forall pl pr,
  In pl (progs_upto2 ops_left) -> In pr (progs1 ops_right) -> commute_ok pl pr = true.
Proof. exact unrelated_commute. Qed.
Print Assumptions C15_unrelated_commute_partial.

(* Single-transaction operations are atomic: any one or two Stats of existing paths against a
   concurrent Mkdir, Remove or Stat always produce a sequential outcome. *)
Theorem C15_single_transaction_ops_linearizable_partial :
  forallb (fun pl => forallb (fun pr =>
     subset_outcomes (explore 200 s0 [g_init pl; g_init pr]) (explore_seq 200 s0 [g_init pl; g_init pr]))
     (progs1 (CMkdir (S "x") :: CRemove (S "f") :: stat_ops))) (progs_upto2 stat_ops) = true.
Proof. exact stats_linearizable_all. Qed.
Print Assumptions C15_single_transaction_ops_linearizable_partial.

(* Store transactions are mutually exclusive and the store is never left locked (from C18's model of
   the in-memory store): no deadlock on the store mutex is possible after any call sequence. *)
Theorem C15_transactions_exclusive_and_released : forall s0 cs,
  let t := fst (trun MemTxn (t_begin s0) cs) in
  (t_released t = false -> t_locked t = true) /\ (existsb ends cs = true -> usable MemTxn t = true).
Proof.
  intros st cs t. split.
  - destruct (trun_rinv (t_begin st) cs (rinv_begin st)) as (_ & L & _). exact L.
  - intros H. apply mem_store_released. exact H.
Qed.
Print Assumptions C15_transactions_exclusive_and_released.
