From HP Require Import Base.Prelude Base.Path KV.Types Conc.Conc.
Example C15_smoke : length (explore 100 [(dot, true)] [g_init [CMkdir (S "a")]; g_init [CMkdir (S "a")]]) <> 0%nat.
Proof. vm_compute. discriminate. Qed.
Print Assumptions C15_smoke.
