(* C06 -- mount.FS routes every path to the longest matching mount point, and only there.
   Model: Compose/Mount.v ([mp_scan]/[mount_point]/[mount_route] = mountPoint/Mount of mount/fs.go with
   the table as ONE iteration order of sync.Map.Range; [route1] = a helper's MountFS branch; [m_rename] =
   mount.FS.Rename; constituents are key-value FS models).  The whole composition is compared with the
   code (result, translated error, exact contents of every constituent) on every run.
   REFUTED (below, the two known findings as theorems): a Rename across two mounts is not all-or-nothing
   when a call of the destination file system fails. *)
From HP Require Import Base.Prelude Base.Path KV.Types KV.FS KV.Handle KV.Run KV.Corr Compose.Mount Compose.MountProofs.
From Coq Require Import Permutation.
Open Scope nat_scope.

(* Routing does not depend on the iteration order of the mount table: for EVERY permutation, any number
   of mount points, including string-prefix look-alikes and nested points. *)
Theorem C06_routing_independent_of_table_order : forall t t' p,
  NoDup (map fst t) -> Forall (fun x => fst x <> []) t -> Permutation t t' ->
  mount_route t' p = mount_route t p /\ mount_point t' p = mount_point t p.
Proof.
  intros t t' p ND NE Pm. split; [apply mount_route_order_independent|apply mount_point_order_independent]; assumption.
Qed.
Print Assumptions C06_routing_independent_of_table_order.

(* The mount point selected equals the path or is a whole-element prefix of it, and no matching mount
   point is longer (the root FS when none matches). *)
Theorem C06_longest_matching_mount_point : forall t p,
  let r := mp_scan t p [] 0 in
  (r = ([], 0) \/ (In r t /\ matches (fst r) p = true))
  /\ (forall mp fs, In (mp, fs) t -> matches mp p = true -> length mp <= length (fst r)).
Proof. exact mp_scan_longest. Qed.
Print Assumptions C06_longest_matching_mount_point.

Theorem C06_lookalike_prefixes_not_confused :
  matches (S "a") (S "ab/x") = false /\ matches (S "ab") (S "ab/x") = true.
Proof. exact lookalike_not_matched. Qed.
Print Assumptions C06_lookalike_prefixes_not_confused.

(* An operation through the mount FS takes effect in exactly the constituent it is routed to: every
   other constituent, and the mount table, are untouched ... *)
Theorem C06_only_the_routed_constituent_changes : forall m name mk j,
  j <> fst (mount_route (m_table m) name) ->
  fs_at (fst (route1 m name mk)) j = fs_at m j /\ m_table (fst (route1 m name mk)) = m_table m.
Proof. exact route1_isolated. Qed.
Print Assumptions C06_only_the_routed_constituent_changes.

(* ... and its result is the one the same operation yields when applied there directly, the error
   paths translated back into the caller's namespace. *)
Theorem C06_result_is_the_direct_one : forall m name mk,
  let '(i, sub) := mount_route (m_table m) name in
  snd (route1 m name mk) = map_obs_err (strip_err name sub) (snd (step (fs_at m i) (mk sub)))
  /\ fs_at (fst (route1 m name mk)) i = fst (step (fs_at m i) (mk sub)) \/ length (m_fs m) <= i.
Proof. exact route1_is_direct. Qed.
Print Assumptions C06_result_is_the_direct_one.

(* Of any number of concurrent AddMount calls for one mount point, under every interleaving, at most one
   succeeds, and exactly one once any of them reached LoadOrStore. *)
Theorem C06_addmount_at_most_one : forall n s, areach n s -> succ_count (a_phases s) <= 1.
Proof. intros n s R. destruct (addmount_at_most_one n s R) as (_ & H & _). exact H. Qed.
Print Assumptions C06_addmount_at_most_one.

Theorem C06_addmount_exactly_one : forall n s, areach n s -> a_stored s = true -> succ_count (a_phases s) = 1.
Proof. exact addmount_exactly_one. Qed.
Print Assumptions C06_addmount_exactly_one.

(* AddMount (sequential): a mount is accepted only at a valid name other than ".", not yet mounted, that is a DIRECTORY of
   the file system its parent directory routes to (not merely of the root file system) ... *)
Theorem C06_addmount_accepts_only_directories_where_the_path_routes : forall m p nf,
  snd (m_addmount m p nf) = None ->
  valid_path p = true /\ p <> dot /\ (forall e, In e (m_table m) -> fst e <> p) /\
  let '(i, sub) := mount_route (m_table m) (path_dir p) in
  exists h, snd (kv_stat (fs_at m i) (join2 sub (path_base p))) = inl h /\ is_dir (f_mode h) = true.
Proof. exact addmount_accepts. Qed.
Print Assumptions C06_addmount_accepts_only_directories_where_the_path_routes.

(* ... a refused AddMount changes neither the table nor any record of any constituent ... *)
Theorem C06_addmount_refused_changes_nothing : forall m p nf c,
  snd (m_addmount m p nf) = Some c ->
  m_table (fst (m_addmount m p nf)) = m_table m /\
  forall j, st_store (fs_at (fst (m_addmount m p nf)) j) = st_store (fs_at m j).
Proof. exact addmount_refused_changes_nothing. Qed.
Print Assumptions C06_addmount_refused_changes_nothing.

(* ... after an accepted one the point is the root of the new constituent, every path that is neither the point nor
   below it is routed exactly as before, and a path below it goes to the new constituent unless a longer (nested)
   mount point matches. *)
Theorem C06_addmount_routing_afterwards : forall m p nf,
  snd (m_addmount m p nf) = None ->
  mount_route (m_table (fst (m_addmount m p nf))) p = (length (m_fs m), dot)
  /\ (forall q, matches p q = false ->
       mount_route (m_table (fst (m_addmount m p nf))) q = mount_route (m_table m) q)
  /\ (forall q, has_prefix q (p ++ [slash]) = true ->
       (forall mp fs, In (mp, fs) (m_table m) -> matches mp q = true -> length mp <= length p) ->
       NoDup (map fst (m_table m)) ->
       fst (mp_scan (m_table (fst (m_addmount m p nf))) q [] 0) = p).
Proof.
  intros m p nf H. split; [apply addmount_routes_the_point; exact H|]. split.
  - intros q M. apply addmount_keeps_other_routes; assumption.
  - intros q B S ND. apply addmount_routes_below; assumption.
Qed.
Print Assumptions C06_addmount_routing_afterwards.

(* Non-vacuity of the three: a mount inside a mount is accepted where the MOUNTED file system has the directory and
   refused where only the root has it. *)
Example C06_addmount_nonvacuous :
  let m0 := minit [S "a"] in
  let m1 := fst (mstep m0 (Mkdir (S "a/b") 493%N)) in
  snd (m_addmount m1 (S "a/b") kv_init) = None
  /\ mount_route (m_table (fst (m_addmount m1 (S "a/b") kv_init))) (S "a/b/x") = (2, S "x")
  /\ snd (m_addmount m0 (S "a/b") kv_init) = Some ENOENT
  /\ snd (m_addmount m1 (S "a") kv_init) = Some EEXIST
  /\ snd (m_addmount m1 (S "a/") kv_init) = Some EINVAL.
Proof. vm_compute. repeat split. Qed.
Print Assumptions C06_addmount_nonvacuous.

(* Non-vacuity: nested and look-alike mount points, a file renamed across two mounts. *)
Example C06_nonvacuous :
  let t := [(S "a", 1); (S "ab", 2); (S "a/b", 3)] in
  mount_route t (S "a/b/c") = (3, S "c") /\ mount_route t (S "ab") = (2, dot) /\ mount_route t (S "abc/x") = (0, S "abc/x")
  /\ mount_route (rev t) (S "a/b/c") = (3, S "c").
Proof. vm_compute. auto. Qed.
Print Assumptions C06_nonvacuous.

Example C06_cross_mount_rename_witness :
  let m := minit [S "a"; S "b"] in
  let m1 := fst (mstep m (WriteFile (S "a/f") [1;2;3]%N 416%N)) in
  let '(m2, r) := mstep m1 (Rename (S "a/f") (S "b/g")) in
  r = VOk /\ map (fun e => fst (fst (fst e))) (snapshot (fs_at m2 1)) = [dot]
  /\ map (fun e => (fst (fst (fst e)), snd e)) (snapshot (fs_at m2 2)) = [(dot, []); (S "g", [1;2;3]%N)].
Proof. vm_compute. auto. Qed.
Print Assumptions C06_cross_mount_rename_witness.

(* ---- Rename across two mounts is copy + Chmod + Remove: REFUTED as an all-or-nothing operation ----
   [fault_in m i k] makes the k-th next store call of constituent i fail (C14's fault model); this very
   scenario is also run against the code on every check (C06_xfault_check). *)
(* the failed call is the Chmod of the copy: Rename fails, the source is still there AND the copy stays behind *)
Theorem C06_cross_mount_rename_leaves_the_copy_behind_refuted :
  exists m o n, (exists c, snd (m_rename m o n) = VErr (LinkErr o n c))
    /\ bytes_at m 2 (S "new") = None
    /\ bytes_at (fst (m_rename m o n)) 1 (S "x") = Some [1;2;3]%N
    /\ bytes_at (fst (m_rename m o n)) 2 (S "new") = Some [1;2;3]%N.
Proof.
  exists (fault_in two_mounts 2 4), (S "a/x"), (S "b/new"). vm_compute.
  split; [eexists; reflexivity|]. repeat split; reflexivity.
Qed.
Print Assumptions C06_cross_mount_rename_leaves_the_copy_behind_refuted.

(* the failed call is the Write of the copy onto an existing destination: Rename fails and the file that was at the
   destination is gone *)
Theorem C06_cross_mount_rename_destroys_the_destination_refuted :
  exists m o n, (exists c, snd (m_rename m o n) = VErr (LinkErr o n c))
    /\ bytes_at m 2 (S "old") = Some [9;9]%N
    /\ bytes_at (fst (m_rename m o n)) 1 (S "x") = Some [1;2;3]%N
    /\ bytes_at (fst (m_rename m o n)) 2 (S "old") = None.
Proof.
  exists (fault_in two_mounts 2 4), (S "a/x"), (S "b/old"). vm_compute.
  split; [eexists; reflexivity|]. repeat split; reflexivity.
Qed.
Print Assumptions C06_cross_mount_rename_destroys_the_destination_refuted.
