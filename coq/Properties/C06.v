From HP Require Import Base.Prelude Base.Path KV.Types KV.Run Compose.Mount.
Example C06_smoke : mount_route [(S "a", 1%nat); (S "ab", 2%nat)] (S "ab/x") = (2%nat, S "x").
Proof. vm_compute. reflexivity. Qed.
Print Assumptions C06_smoke.
