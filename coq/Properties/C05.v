(* C05 -- Failures are typed, sentinel-matchable and name the caller's path.
   Model: the key-value FS model (KV/FS.v); errors are [PathErr path class], [LinkErr old new class] or
   [Bare class] (an error that is not a *PathError/*LinkError); classes are the sentinels of the library.
   PROVED for the key-value layer:
   (1) in EVERY state -- store failures included -- every failure of Stat, Mkdir, Remove, Chmod, Chtimes and
       OpenFile is a PathError naming exactly the caller's path (never Bare, never another path);
   (2) on every well-formed, fault-free state the class is the one the os package reports for the same
       situation: invalid name -> ErrInvalid, existing -> ErrExist, missing -> ErrNotExist or (below a regular
       file) ErrNotDir, non-empty directory -> ErrNotEmpty, removing the root -> ErrInvalid;
   (3) an invalid name in Rename gives a LinkError with both caller names (C04's gate);
   (4) through a generic Sub view and through a mount FS, failures of Stat/Mkdir/Remove/Chmod/Chtimes name the
       caller's path (view-relative; mount point + inner path).
   (5) in EVERY state every failure of Rename is a LinkError: for a source that is not a directory it carries
       exactly the caller's two names; for a directory it carries them or the old and new names of the
       descendant whose move failed (both extended by the same relative path);
   (6) in EVERY state the error of any operation on an open handle is io.EOF or a PathError.
   NOT proved: MkdirAll/RemoveAll (which may name an ancestor/descendant), and the
   composition layers (mount, Sub, os, cache, tar): there the check compares full error values of the model
   (kv, mount, Sub) and of the os package with the implementation's on every generated failure.
   Known findings (harness): two precedence/ancestor differences from os, see known_findings.json. *)
From HP Require Import Base.Prelude Base.Path KV.Types KV.FS KV.Handle KV.Run KV.GateProofs KV.TreeProofs KV.SpecProofs
  KV.RenameErr KV.HandleErr Compose.Mount Compose.Sub Compose.ErrPaths.
Open Scope N_scope.

Theorem C05_stat_failure_names_the_callers_path : forall st p e, snd (kv_stat st p) = inr e -> names_path p e.
Proof. exact kv_stat_err_typed. Qed.
Print Assumptions C05_stat_failure_names_the_callers_path.

Theorem C05_mkdir_failure_names_the_callers_path : forall st p perm e, snd (kv_mkdir st p perm) = Some e -> names_path p e.
Proof. exact kv_mkdir_err_typed. Qed.
Print Assumptions C05_mkdir_failure_names_the_callers_path.

Theorem C05_remove_failure_names_the_callers_path : forall st p e, snd (kv_remove st p) = Some e -> names_path p e.
Proof. exact kv_remove_err_typed. Qed.
Print Assumptions C05_remove_failure_names_the_callers_path.

Theorem C05_chmod_failure_names_the_callers_path : forall st p m e, snd (kv_chmod st p m) = Some e -> names_path p e.
Proof. exact kv_chmod_err_typed. Qed.
Print Assumptions C05_chmod_failure_names_the_callers_path.

Theorem C05_chtimes_failure_names_the_callers_path : forall st p t e, snd (kv_chtimes st p t) = Some e -> names_path p e.
Proof. exact kv_chtimes_err_typed. Qed.
Print Assumptions C05_chtimes_failure_names_the_callers_path.

Theorem C05_openfile_failure_names_the_callers_path : forall st p flag perm e,
  snd (kv_openfile st p flag perm) = inr e -> names_path p e.
Proof. exact kv_openfile_err_typed. Qed.
Print Assumptions C05_openfile_failure_names_the_callers_path.

(* the sentinel for each situation (well-formed, fault-free state) *)
Theorem C05_mkdir_sentinels : forall st p perm, good st ->
  (valid_path p = false -> snd (kv_mkdir st p perm) = Some (PathErr p EINVAL)) /\
  (valid_path p = true -> lookup (st_store st) p <> None -> snd (kv_mkdir st p perm) = Some (PathErr p EEXIST)) /\
  (valid_path p = true -> lookup (st_store st) p = None -> ~ has_dir (st_store st) (path_dir p) ->
     exists c, snd (kv_mkdir st p perm) = Some (PathErr p c) /\ (c = ENOENT \/ c = ENOTDIR)).
Proof.
  intros st p perm G. destruct (kv_mkdir_spec st p perm G) as (A & B & _ & D). split; [|split].
  - intros V. apply A. exact V.
  - intros V L. apply B; assumption.
  - intros V L N. destruct (D V L N) as (c & E & C & _). exists c. auto.
Qed.
Print Assumptions C05_mkdir_sentinels.

Theorem C05_remove_sentinels : forall st p, good st ->
  (valid_path p = false -> snd (kv_remove st p) = Some (PathErr p EINVAL)) /\
  (valid_path p = true -> lookup (st_store st) p = None ->
     exists c, snd (kv_remove st p) = Some (PathErr p c) /\ (c = ENOENT \/ c = ENOTDIR)) /\
  snd (kv_remove st dot) = Some (PathErr dot EINVAL) /\
  (valid_path p = true -> p <> dot -> forall rc, lookup (st_store st) p = Some rc ->
     is_dir (r_mode rc) = true -> child_names p (st_store st) <> [] -> snd (kv_remove st p) = Some (PathErr p ENOTEMPTY)).
Proof.
  intros st p G. destruct (kv_remove_spec st p G) as (A & B & C & D). split; [|split; [|split]].
  - intros V. apply A. exact V.
  - intros V L. destruct (B V L) as (c & E & Cc & _). exists c. auto.
  - apply C.
  - intros V Dp rc L Dd NE. specialize (D V Dp rc L). rewrite Dd in D.
    destruct (child_names p (st_store st)); [congruence|]. apply D.
Qed.
Print Assumptions C05_remove_sentinels.

Theorem C05_stat_sentinels : forall st p, good st ->
  (valid_path p = false -> snd (kv_stat st p) = inr (PathErr p EINVAL)) /\
  (valid_path p = true -> lookup (st_store st) p = None ->
     exists c, snd (kv_stat st p) = inr (PathErr p c) /\ (c = ENOENT \/ c = ENOTDIR) /\
               ((p = dot \/ has_dir (st_store st) (path_dir p)) -> c = ENOENT)).
Proof. intros st p G. destruct (kv_stat_spec st p G) as (_ & A & _ & C). split; assumption. Qed.
Print Assumptions C05_stat_sentinels.

(* through a Sub view the error names the caller's (view-relative) path: the view strips exactly what it added *)
Theorem C05_sub_view_failure_names_the_callers_path : forall base st o p e,
  valid_path base = true -> valid_path p = true -> one_name_kv o = Some p ->
  snd (sstep base st o) = VErr e -> names_path p e.
Proof. exact sub_failure_names_the_callers_path. Qed.
Print Assumptions C05_sub_view_failure_names_the_callers_path.

Theorem C05_sub_view_strips_its_own_prefix : forall base name, valid_path base = true -> valid_path name = true ->
  strip_path name (sub_route base name) (sub_route base name) = name.
Proof. exact strip_path_sub. Qed.
Print Assumptions C05_sub_view_strips_its_own_prefix.

(* through a mount FS the error names mount point + inner path, i.e. again the caller's path *)
Theorem C05_mount_failure_names_the_callers_path : forall m o p e,
  valid_path p = true -> Forall (fun x => fst x <> [] /\ fst x <> dot) (m_table m) -> one_name_kv o = Some p ->
  snd (mstep m o) = VErr e -> names_path p e.
Proof. exact mount_failure_names_the_callers_path. Qed.
Print Assumptions C05_mount_failure_names_the_callers_path.

(* Rename through a mount FS: whichever route it takes (the constituent's own Rename within one mount, the copy across
   two mounts) and whichever constituent refuses it, a failed Rename of a non-directory is a LinkError carrying exactly
   the caller's two names. *)
Theorem C05_mount_rename_failure_names_the_callers_names : forall m o n e,
  Forall (fun x => fst x <> [] /\ fst x <> dot) (m_table m) ->
  (forall q, (fst (fst (mount_point (m_table m) q)) < length (m_fs m))%nat) ->
  (forall i point sub f, mount_point (m_table m) o = (i, point, sub) ->
     snd (get_file (fst (kv_stat (fs_at m i) sub)) sub) = inl f -> is_dir (f_mode f) = false) ->
  snd (m_rename m o n) = VErr e -> exists c, e = LinkErr o n c.
Proof. exact mount_rename_failure_names_the_callers_names. Qed.
Print Assumptions C05_mount_rename_failure_names_the_callers_names.

Theorem C05_mount_rename_nonvacuous :
  let m := fst (mstep (minit [S "a"; S "b"]) (WriteFile (S "a/f") [1;2]%N 420%N)) in
  Forall (fun x => fst x <> [] /\ fst x <> dot) (m_table m)
  /\ Forall (fun x => (snd x < length (m_fs m))%nat) (m_table m)
  /\ snd (m_rename m (S "a/f") (S "b/nodir/g")) = VErr (LinkErr (S "a/f") (S "b/nodir/g") ENOENT)
  /\ snd (m_rename m (S "a/f") (S "a/nodir/g")) = VErr (LinkErr (S "a/f") (S "a/nodir/g") ENOENT).
Proof. exact mount_rename_names_demo. Qed.
Print Assumptions C05_mount_rename_nonvacuous.

(* Rename: an invalid name gives a LinkError carrying both caller names *)
Theorem C05_rename_invalid_name_is_a_link_error : forall st a b,
  valid_path a = false \/ valid_path b = false ->
  snd (step st (Rename a b)) = VErr (LinkErr a b EINVAL).
Proof. intros st a b H. apply gate_rename. exact H. Qed.
Print Assumptions C05_rename_invalid_name_is_a_link_error.

(* Rename: every failure, in every state, is a LinkError.  [kv_rename fuel] with fuel = 0 is the model's
   out-of-fuel marker (never reached from [step], whose fuel exceeds the number of records; the per-run
   correspondence would show it), hence the first disjunct of [typed]. *)
Theorem C05_rename_failure_is_a_link_error : forall fuel st o n e,
  snd (kv_rename fuel st o n) = Some e ->
  e = Bare EOTHER \/ exists o' n' c, under o n o' n' /\ e = LinkErr o' n' c.
Proof. exact kv_rename_err_typed. Qed.
Print Assumptions C05_rename_failure_is_a_link_error.

Theorem C05_file_rename_failure_names_both_callers_names : forall fuel st o n e,
  (forall f, snd (get_file st o) = inl f -> is_dir (f_mode f) = false) ->
  snd (kv_rename (Datatypes.S fuel) st o n) = Some e -> exists c, e = LinkErr o n c.
Proof. exact kv_rename_file_err_typed. Qed.
Print Assumptions C05_file_rename_failure_names_both_callers_names.

(* handles: Read/ReadAt/Write/WriteAt/Seek/Truncate/Stat/ReadDir/Chmod/Sync/Close through any wrapper *)
Theorem C05_handle_failure_is_eof_or_a_path_error : forall st i o e,
  res_err (snd (hstep st i o)) = Some e -> e = Bare EEOF \/ exists p c, e = PathErr p c.
Proof. exact hstep_err_typed. Qed.
Print Assumptions C05_handle_failure_is_eof_or_a_path_error.

Example C05_nonvacuous :
  snd (step kv_init (Mkdir (S "a/b") 493)) = VErr (PathErr (S "a/b") ENOENT)
  /\ snd (step (exec [WriteFile (S "f") [1] 420]) (Mkdir (S "f/x") 493)) = VErr (PathErr (S "f/x") ENOTDIR)
  /\ snd (step (exec [WriteFile (S "f") [1] 420]) (Stat (S "f/x/y"))) = VErr (PathErr (S "f/x/y") ENOTDIR)
  /\ snd (step (exec [MkdirAll (S "d/e") 493]) (Remove (S "d"))) = VErr (PathErr (S "d") ENOTEMPTY).
Proof. vm_compute. repeat split; reflexivity. Qed.
