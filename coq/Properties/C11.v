From HP Require Import Base.Prelude Cache.Cache.
Example C11_smoke : chunked 2 [1;2;3]%N = [[1;2]%N; [3]%N].
Proof. vm_compute. reflexivity. Qed.
Print Assumptions C11_smoke.
