(* C11 -- A failed or concurrent cache fill never leaves or serves a partial file.
   Fault part: proved on the model of Cache/Cache.v for every fault position (any source read, mkdir,
   create, any write with any number of bytes of its chunk stored, close, and a source that cannot be opened at
   all during a later call), every chunk size and both store kinds.  Concurrency part (at most one copy in progress;
   every successful open complete): proved on the interleaving model of Cache/CacheConc.v -- any number of openers of
   one name, every schedule, a failure possible at every step of every fill -- as invariants of every reachable
   state.  The model's mutex is pathlock's per-name sync.Mutex (trusted to exclude); that the real Open is this
   protocol is checked on every run by replaying the store calls the real cache made under concurrency through the
   model ([C11conc_check]). *)
From HP Require Import Base.Prelude Cache.Cache Cache.CacheProofs Cache.CacheConc Cache.CopyBuf Cache.CopyBufProofs.
Open Scope nat_scope.

(* After ANY history of opens with ANY faults, an Open that succeeds serves the complete source bytes. *)
Theorem C11_never_serves_a_partial_file : forall src retain c can_remove ops ft part n d,
  0 < c ->
  snd (copen src retain c can_remove ft part (fst (cruns src retain c can_remove cinit ops)) n) = Served d ->
  slookup src n = Some (SFile d).
Proof.
  intros src retain c can_remove ops ft part n d Hc.
  apply copen_serves_source; [exact Hc|]. apply cruns_inv; [exact Hc|apply cinv_init].
Qed.
Print Assumptions C11_never_serves_a_partial_file.

(* A fill that is hit by a fault reports an error (for a fault that really interrupts it). *)
Theorem C11_interrupted_fill_reports_an_error : forall src retain c can_remove st n data w nr ft part,
  slookup src n = Some (SFile data) -> retain n = true ->
  (if mem_str n (cs_incomplete st) then None else clookup (cs_cache st) n) = None ->
  mem_str n (cs_info st) = true ->
  copy_loop (chunked c data) 0 ft part [] = (w, false, nr) ->
  (match ft with FMkdir | FCreate => False | _ => True end) ->
  snd (copen src retain c can_remove ft part st n) = OErr.
Proof.
  intros src retain c can_remove st n data w nr ft part S R L I CL F.
  unfold copen. rewrite I, S, L, R. cbn [negb andb].
  destruct ft; try contradiction; try reflexivity; rewrite CL; cbn [andb]; destruct can_remove; reflexivity.
Qed.
Print Assumptions C11_interrupted_fill_reports_an_error.

(* What a failed fill leaves behind is either nothing, or a copy that is marked and never served. *)
Theorem C11_failed_fill_leaves_nothing_servable : forall src retain c can_remove ft part st n,
  0 < c -> cinv src st -> cinv src (fst (copen src retain c can_remove ft part st n)).
Proof. exact copen_inv. Qed.
Print Assumptions C11_failed_fill_leaves_nothing_servable.

(* The two-failure history (a fill interrupted on a store that cannot remove the partial copy, then a re-open
   while the source cannot be opened, then clean re-opens): the mark survives the failed re-open. *)
Example C11_two_failures_witness :
  let src := [(S "f", SFile [1;2;3;4;5;6;7]%N)] in
  let '(st, rs) := cruns src (fun _ => true) 3 false cinit
                     [(S "f", FWrite 1, 2); (S "f", FSrcOpen, 0); (S "f", FNone, 0); (S "f", FNone, 0)] in
  rs = [OErr; OErr; Served [1;2;3;4;5;6;7]%N; Served [1;2;3;4;5;6;7]%N].
Proof. vm_compute. auto. Qed.
Print Assumptions C11_two_failures_witness.

(* Non-vacuity: a write failing mid-chunk on a store that cannot remove, then a clean re-open. *)
Example C11_nonvacuous :
  let src := [(S "f", SFile [1;2;3;4;5;6;7]%N)] in
  let '(st, rs) := cruns src (fun _ => true) 3 false cinit [(S "f", FWrite 1, 2); (S "f", FNone, 0); (S "f", FNone, 0)] in
  rs = [OErr; Served [1;2;3;4;5;6;7]%N; Served [1;2;3;4;5;6;7]%N].
Proof. vm_compute. auto. Qed.
Print Assumptions C11_nonvacuous.

(* ---- concurrency: n goroutines open the same uncached name; [creach] is ANY interleaving of their steps with ANY
   failures (source read, create, write with any part of the chunk stored, close, remove) ---- *)

(* at most one copy of that file is in progress at any moment *)
Theorem C11_at_most_one_copy_in_progress : forall chs n st i j p q,
  creach chs (ginit n) st -> nth_error (gs_pcs st) i = Some p -> nth_error (gs_pcs st) j = Some q ->
  filling p = true -> filling q = true -> i = j.
Proof. exact at_most_one_fill. Qed.
Print Assumptions C11_at_most_one_copy_in_progress.

(* every open that succeeds yields the complete bytes *)
Theorem C11_concurrent_open_that_succeeds_is_complete : forall chs n st i d,
  creach chs (ginit n) st -> nth_error (gs_pcs st) i = Some (PDone (Served d)) -> d = data chs.
Proof. exact served_is_complete. Qed.
Print Assumptions C11_concurrent_open_that_succeeds_is_complete.

(* whenever no fill is running, the cache store holds nothing for the name, a copy that is marked incomplete, or the
   complete bytes: no schedule and no failure leaves a partial copy that a later open would serve *)
Theorem C11_no_partial_copy_left_unmarked : forall chs n st,
  creach chs (ginit n) st -> (forall j p, nth_error (gs_pcs st) j = Some p -> filling p = false) -> good chs st.
Proof. exact no_partial_left_behind. Qed.
Print Assumptions C11_no_partial_copy_left_unmarked.

(* once the complete copy is in place it stays: later opens neither rewrite it nor mark it *)
Theorem C11_settled_copy_is_stable : forall chs st i ch st1,
  cinv_conc chs st -> settled chs st -> cstep chs st i ch = Some st1 -> settled chs st1.
Proof. exact settled_stable. Qed.
Print Assumptions C11_settled_copy_is_stable.

(* no deadlock on the per-path mutex: while an opener has not returned, some opener can take a step *)
Theorem C11_some_opener_can_always_move : forall chs n st i p,
  creach chs (ginit n) st -> nth_error (gs_pcs st) i = Some p -> (forall r, p <> PDone r) ->
  exists j st1, cstep chs st j COk = Some st1.
Proof. exact some_step_enabled. Qed.
Print Assumptions C11_some_opener_can_always_move.

(* Non-vacuity: three openers; opener 1 gets the mutex first and its second write fails with one byte stored, the
   Remove fails too (mark); opener 0 then refills completely; opener 2 hits the cache. *)
Example C11_concurrent_nonvacuous :
  let chs := [[1;2;3]; [4;5;6]; [7]]%N in
  let st := crun chs (ginit 3)
     [(1, COk); (0, COk); (1, COk); (1, COk); (2, COk); (1, CFail 1); (1, CFail 0); (1, COk);
      (0, COk); (0, COk); (0, COk); (0, COk); (0, COk); (0, COk); (0, COk); (2, COk); (2, COk); (2, COk)] in
  gs_pcs st = [PDone (Served [1;2;3;4;5;6;7]%N); PDone OErr; PDone (Served [1;2;3;4;5;6;7]%N)]
  /\ gs_cache st = Some [1;2;3;4;5;6;7]%N /\ gs_mark st = false /\ gs_lock st = None.
Proof. vm_compute. repeat split. Qed.
Print Assumptions C11_concurrent_nonvacuous.

(* ---- fills of DIFFERENT names at overlapping times (the per-name lock does not order them): Cache/CopyBuf.v ----
   Each fill reads a chunk of its source into its own buffer and writes that buffer to its own file; the steps of all
   fills interleave in any order.  At every moment every file is a prefix of ITS source -- "never a truncated or mixed
   file" -- and a fill that is done has left exactly its source.  (One buffer shared by all fills breaks the invariant
   [cp_inv]: a chunk read for one name would be written to another.) *)
Theorem C11_interleaved_fills_never_mix : forall c srcs sched, 0 < c -> NoDup (map fst srcs) ->
  let st := cb_run c (cb_start srcs) sched in
  Forall (fun cp => cb_files st (c_name cp) = firstn (c_pos cp) (c_src cp) /\
                    (cp_done cp -> cb_files st (c_name cp) = c_src cp)) (cb_copiers st).
Proof. exact interleaved_fills_never_mix. Qed.
Print Assumptions C11_interleaved_fills_never_mix.

Example C11_interleaved_fills_nonvacuous :
  let st := cb_run 2 (cb_start [(0, [1;2;3]%N); (1, [7;8;9;10]%N)]) [0;1;0;1;0;1;0;1;1;0] in
  cb_files st 0 = [1;2;3]%N /\ cb_files st 1 = [7;8;9;10]%N.
Proof. exact fills_demo. Qed.
Print Assumptions C11_interleaved_fills_nonvacuous.
