(* C11 -- A failed or concurrent cache fill never leaves or serves a partial file.
   Fault part: proved on the model of Cache/Cache.v for every fault position (any source read, mkdir,
   create, any write with any number of bytes of its chunk stored, close, and a source that cannot be opened at
   all during a later call), every chunk size and both store kinds.  Concurrency part (at most one copy in progress; every successful open complete):
   the per-path mutex makes the opens of one name sequential, so the sequential theorems apply to
   whatever order the lock admits them in; that the real lock does serialise them is exercised by the
   harness (simultaneous copies counted), not proved (* OPEN: C11_mutex_serialises_fills *). *)
From HP Require Import Base.Prelude Cache.Cache Cache.CacheProofs.
Open Scope nat_scope.

(* After ANY history of opens with ANY faults, an Open that succeeds serves the complete source bytes. *)
Theorem C11_never_serves_a_partial_file : forall src retain c can_remove ops ft part n d,
  0 < c ->
  snd (copen src retain c can_remove ft part (fst (cruns src retain c can_remove cinit ops)) n) = Served d ->
  slookup src n = Some (SFile d).
Proof.
  intros src retain c can_remove ops ft part n d Hc.
  apply copen_serves_source; [exact Hc|]. apply cruns_inv; [exact Hc|apply cinv_init].
Qed.
Print Assumptions C11_never_serves_a_partial_file.

(* A fill that is hit by a fault reports an error (for a fault that really interrupts it). *)
Theorem C11_interrupted_fill_reports_an_error : forall src retain c can_remove st n data w nr ft part,
  slookup src n = Some (SFile data) -> retain n = true ->
  (if mem_str n (cs_incomplete st) then None else clookup (cs_cache st) n) = None ->
  mem_str n (cs_info st) = true ->
  copy_loop (chunked c data) 0 ft part [] = (w, false, nr) ->
  (match ft with FMkdir | FCreate => False | _ => True end) ->
  snd (copen src retain c can_remove ft part st n) = OErr.
Proof.
  intros src retain c can_remove st n data w nr ft part S R L I CL F.
  unfold copen. rewrite I, S, L, R. cbn [negb andb].
  destruct ft; try contradiction; try reflexivity; rewrite CL; cbn [andb]; destruct can_remove; reflexivity.
Qed.
Print Assumptions C11_interrupted_fill_reports_an_error.

(* What a failed fill leaves behind is either nothing, or a copy that is marked and never served. *)
Theorem C11_failed_fill_leaves_nothing_servable : forall src retain c can_remove ft part st n,
  0 < c -> cinv src st -> cinv src (fst (copen src retain c can_remove ft part st n)).
Proof. exact copen_inv. Qed.
Print Assumptions C11_failed_fill_leaves_nothing_servable.

(* The two-failure history (a fill interrupted on a store that cannot remove the partial copy, then a re-open
   while the source cannot be opened, then clean re-opens): the mark survives the failed re-open. *)
Example C11_two_failures_witness :
  let src := [(S "f", SFile [1;2;3;4;5;6;7]%N)] in
  let '(st, rs) := cruns src (fun _ => true) 3 false cinit
                     [(S "f", FWrite 1, 2); (S "f", FSrcOpen, 0); (S "f", FNone, 0); (S "f", FNone, 0)] in
  rs = [OErr; OErr; Served [1;2;3;4;5;6;7]%N; Served [1;2;3;4;5;6;7]%N].
Proof. vm_compute. auto. Qed.
Print Assumptions C11_two_failures_witness.

(* Non-vacuity: a write failing mid-chunk on a store that cannot remove, then a clean re-open. *)
Example C11_nonvacuous :
  let src := [(S "f", SFile [1;2;3;4;5;6;7]%N)] in
  let '(st, rs) := cruns src (fun _ => true) 3 false cinit [(S "f", FWrite 1, 2); (S "f", FNone, 0); (S "f", FNone, 0)] in
  rs = [OErr; Served [1;2;3;4;5;6;7]%N; Served [1;2;3;4;5;6;7]%N].
Proof. vm_compute. auto. Qed.
Print Assumptions C11_nonvacuous.
