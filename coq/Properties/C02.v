(* C02 -- File handles behave like os.File: bytes, offsets, EOF, access modes, coherence.
   Model: KV/Handle.v ([hstep] = one method call on handle i through the *File helpers; [read_at],
   [write_at] = ReadBlobAt / writeBlobAt of keyvalue/file.go).  Coherence between handles is by
   construction of the model: every handle of a file names the SAME cell of the heap as the store's
   record, so what one handle writes is what every other handle reads next (checked against the code by
   the correspondence on 1..3 handles per file, and against os.File by the oracle).
   [ready h] = the handle has loaded its data without error and is not closed (true after its first
   operation when the store does not fail). *)
From HP Require Import Base.Prelude Base.Path KV.Types KV.FS KV.Handle KV.Run KV.HandleProofs KV.OffsetProofs.
Open Scope N_scope.

(* ReadAt/Read: exactly the file's current bytes at the offset; EOF iff the end was reached. *)
Theorem C02_read_returns_current_bytes_and_eof : forall st h len off, ready h ->
  let c := cell st (h_cell h) in
  let size := Z.of_nat (length c) in
  let '(st', _, d, e) := read_at st h len off in
  st' = st
  /\ ((size <= off)%Z -> d = [] /\ e = Some (Bare EEOF))
  /\ ((0 <= off < size)%Z ->
        d = sublist (Z.to_nat off) (Z.to_nat (Z.min (off + Z.of_nat len) size)) c
        /\ (e = Some (Bare EEOF) <-> (size <= off + Z.of_nat len)%Z)
        /\ (e = None \/ e = Some (Bare EEOF))).
Proof. exact read_at_spec. Qed.
Print Assumptions C02_read_returns_current_bytes_and_eof.

(* WriteAt/Write: the whole buffer lands at the offset; a gap up to the offset is zero-filled. *)
Theorem C02_write_stores_bytes_gaps_zero_filled : forall st h d off,
  st_fault st = None -> ready h -> valid_path (h_path h) = true -> (h_cell h < length (st_heap st))%nat ->
  has_flag (h_flag h) F_APPEND = false -> (0 <= off)%Z -> d <> [] ->
  let c := cell st (h_cell h) in
  let size := Z.of_nat (length c) in
  let endi := (off + Z.of_nat (length d))%Z in
  let '(st', _, n, e) := write_at st h d off in
  e = None /\ n = Z.of_nat (length d)
  /\ cell st' (h_cell h) = splice (if (size <? endi)%Z then c ++ zeros (Z.to_nat (endi - size)) else c) (Z.to_nat off) d.
Proof. exact write_at_spec. Qed.
Print Assumptions C02_write_stores_bytes_gaps_zero_filled.

(* O_APPEND writes land at the current end, wherever the handle's offset is. *)
Theorem C02_append_lands_at_end : forall st h d,
  st_fault st = None -> ready h -> valid_path (h_path h) = true -> (h_cell h < length (st_heap st))%nat ->
  has_flag (h_flag h) F_APPEND = true -> d <> [] -> forall off,
  let c := cell st (h_cell h) in
  let '(st', _, n, e) := write_at st h d off in
  e = None /\ n = Z.of_nat (length d) /\ cell st' (h_cell h) = c ++ d.
Proof. exact append_write_spec. Qed.
Print Assumptions C02_append_lands_at_end.

(* A read-only handle can never change any file's contents, whatever is called on it. *)
Theorem C02_read_only_handle_never_writes : forall st i o h,
  nth_error (st_handles st) i = Some h -> h_wrap h = WRO -> st_heap (fst (hstep st i o)) = st_heap st.
Proof. exact ro_never_writes. Qed.
Print Assumptions C02_read_only_handle_never_writes.

(* A write-only handle never returns file bytes or directory entries. *)
Theorem C02_write_only_handle_never_reads : forall st i h,
  nth_error (st_handles st) i = Some h -> h_wrap h = WWO ->
  (forall len, exists e, snd (hstep st i (HRead len)) = HRBytes [] (Some e))
  /\ (forall len off, exists e, snd (hstep st i (HReadAt len off)) = HRBytes [] (Some e))
  /\ (forall n, exists e, snd (hstep st i (HReadDir n)) = HREntries [] (Some e)).
Proof. exact wo_never_reads. Qed.
Print Assumptions C02_write_only_handle_never_reads.

(* Rejected calls (closed handle, negative offset, truncating a directory) change nothing. *)
Theorem C02_rejected_write_changes_nothing : forall st h d off,
  h_closed h = true \/ (has_flag (h_flag h) F_APPEND = false /\ (off < 0)%Z) ->
  let '(st', _, n, e) := write_at st h d off in st' = st /\ n = 0%Z /\ e <> None.
Proof. exact rejected_write_preserves_bytes. Qed.
Print Assumptions C02_rejected_write_changes_nothing.

Theorem C02_rejected_truncate_changes_nothing : forall st h size,
  h_closed h = true \/ is_dir (f_mode h) = true ->
  let '(st', _, e) := file_truncate st h size in st' = st /\ e <> None.
Proof. exact rejected_truncate_preserves_bytes. Qed.
Print Assumptions C02_rejected_truncate_changes_nothing.

(* Known deviation, as a theorem about the faithful model: a byte read on a DIRECTORY handle does not
   fail (os.File: EISDIR) -- it reports end of file. *)
Theorem C02_directory_read_refuted :
  let st := fst (step (fst (step kv_init (Mkdir (S "d") 493))) (Open (S "d") 0 0)) in
  snd (hstep st 0%nat (HRead 4)) = HRBytes [] (Some (Bare EEOF)).
Proof. vm_compute. reflexivity. Qed.
Print Assumptions C02_directory_read_refuted.

(* "leaves the same offset": in EVERY state, ReadAt, WriteAt, Truncate, Stat, Chmod, Sync and Close never move the
   handle's position (a shrinking Truncate does not clamp it) ... *)
Theorem C02_positional_calls_keep_the_offset : forall st i o,
  positional o = true -> off_at (fst (hstep st i o)) i = off_at st i.
Proof. exact positional_calls_keep_the_offset. Qed.
Print Assumptions C02_positional_calls_keep_the_offset.

(* ... and Read advances it by exactly the bytes it delivered (an empty failing read leaves it alone). *)
Theorem C02_read_advances_by_the_bytes_returned : forall st i len h d e,
  nth_error (st_handles st) i = Some h -> snd (hstep st i (HRead len)) = HRBytes d e ->
  off_at (fst (hstep st i (HRead len))) i = Some (h_off h + Z.of_nat (length d))%Z \/
  (d = [] /\ off_at (fst (hstep st i (HRead len))) i = Some (h_off h)).
Proof. exact read_advances_by_the_bytes_returned. Qed.
Print Assumptions C02_read_advances_by_the_bytes_returned.

(* Non-vacuity: two handles on one file; what the first writes the second reads. *)
Example C02_two_handles_coherent :
  let ops := [WriteFile (S "f") [1;2;3] 420; Open (S "f") 2 0; Open (S "f") 0 0;
              H 0 (HWriteAt [9;9] 5%Z); H 1 (HReadAt 10 0%Z)] in
  snd (last (run kv_init ops) (VOk, [])) <> [] /\
  fst (last (run kv_init ops) (VOk, [])) = VH (HRBytes [1;2;3;0;0;9;9] (Some (Bare EEOF))).
Proof. vm_compute. split; [discriminate|reflexivity]. Qed.
Print Assumptions C02_two_handles_coherent.
