From HP Require Import Base.Prelude Base.Path.
Example C04_smoke : valid_path (S "a/b") = true /\ valid_path (S "a//b") = false.
Proof. vm_compute. auto. Qed.
Print Assumptions C04_smoke.
