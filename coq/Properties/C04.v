(* C04 -- Names that are not valid FS paths are rejected everywhere and change nothing.
   Model: [valid_path] = io/fs.ValidPath incl. utf8.ValidString (Base/Path.v, compared with the Go
   standard library on every run); the gate of the key-value FS ([step], KV/Run.v), of the generic Sub
   view ([sstep]) and of mount.FS ([mstep]).  cache, tar and os.FS are covered by the harness's oracle on
   the real code (they delegate to these gates or call ValidPath directly), not by theorems here. *)
From HP Require Import Base.Prelude Base.Path Base.PathProofs KV.Types KV.FS KV.Handle KV.Run KV.GateProofs
  Compose.Mount Compose.Sub Compose.GateCompose.
Open Scope N_scope.

(* What ValidPath accepts: valid UTF-8 and either "." or only real elements. *)
Theorem C04_valid_path_spec : forall s, valid_path s = true <->
  utf8_valid s = true /\ (s = dot \/ Forall (fun e => elem_ok e = true) (split_slash s)).
Proof. exact valid_path_spec. Qed.
Print Assumptions C04_valid_path_spec.

Theorem C04_valid_path_elements : forall s, valid_path s = true -> s <> dot ->
  Forall (fun e => e <> [] /\ e <> dot /\ e <> dotdot /\ no_slash e) (split_slash s).
Proof. exact valid_path_elements. Qed.
Print Assumptions C04_valid_path_elements.

(* The key-value (and in-memory) FS: every operation, either name of Rename. *)
Theorem C04_kv_rejects_invalid_names_and_changes_nothing : forall st o,
  (exists p, In p (names_of o) /\ valid_path p = false) ->
  fst (step st o) = st /\ is_einval (snd (step st o)).
Proof. exact kv_gate. Qed.
Print Assumptions C04_kv_rejects_invalid_names_and_changes_nothing.

(* The generic Sub view and mount.FS: same, and no constituent changes. *)
Theorem C04_sub_rejects_invalid_names : forall base st o p,
  names_of o = [p] -> valid_path p = false -> (forall q f m, o <> Open q f m) ->
  fst (sstep base st o) = st /\ snd (sstep base st o) = VErr (PathErr p EINVAL).
Proof. exact sub_gate. Qed.
Print Assumptions C04_sub_rejects_invalid_names.

Theorem C04_mount_rejects_invalid_names : forall m o p,
  names_of o = [p] -> valid_path p = false -> (forall q f md, o <> Open q f md) -> (0 < length (m_fs m))%nat ->
  fst (mstep m o) = m /\ snd (mstep m o) = VErr (PathErr p EINVAL).
Proof. exact mount_gate. Qed.
Print Assumptions C04_mount_rejects_invalid_names.

Theorem C04_mount_rename_rejects_either_invalid_name : forall m a b,
  valid_path a = false \/ valid_path b = false -> mstep m (Rename a b) = (m, VErr (LinkErr a b EINVAL)).
Proof. exact mount_gate_rename. Qed.
Print Assumptions C04_mount_rename_rejects_either_invalid_name.

(* Conversely: a valid name is never refused as invalid by the look-up every operation starts with. *)
Theorem C04_valid_name_not_refused_as_invalid : forall st p, valid_path p = true ->
  get_file st p <> (st, inr (Bare EINVAL)) \/ exists st' r, get_file st p = (st', r) /\ r <> inr (Bare EINVAL).
Proof. exact gate_accepts_valid. Qed.
Print Assumptions C04_valid_name_not_refused_as_invalid.

(* Only '/' separates: a single slash-free element (not empty, "." or "..") is a valid name whatever
   other bytes it holds -- backslash and colon are ordinary name bytes. *)
Theorem C04_no_foreign_separator : forall e,
  utf8_valid e = true -> e <> [] -> e <> dot -> e <> dotdot -> no_slash e -> valid_path e = true.
Proof. exact single_element_valid. Qed.
Print Assumptions C04_no_foreign_separator.

Example C04_backslash_colon_witness :
  valid_path (S "a\b") = true /\ valid_path (S "c:") = true /\ valid_path (S "d/c:\x") = true
  /\ split_slash (S "d/c:\x") = [S "d"; S "c:\x"].
Proof. exact backslash_colon_are_name_bytes. Qed.
Print Assumptions C04_backslash_colon_witness.

Example C04_nonvacuous :
  valid_path (S "") = false /\ valid_path (S "/a") = false /\ valid_path (S "a/") = false /\ valid_path (S "a//b") = false
  /\ valid_path (S "a/./b") = false /\ valid_path (S "../a") = false /\ valid_path [255] = false /\ valid_path [237;160;128] = false
  /\ valid_path (S ".") = true /\ valid_path (S "a/b") = true.
Proof. vm_compute. repeat split. Qed.
Print Assumptions C04_nonvacuous.
