From HP Require Import Base.Prelude Base.Path KV.Types KV.Run Compose.Helpers.
Example C08_smoke : prefixes (S "a/b/c") = [S "a"; S "a/b"; S "a/b/c"].
Proof. vm_compute. reflexivity. Qed.
Print Assumptions C08_smoke.
