(* C08 -- Package helpers give the same result on every capability subset.
   Model: Compose/Helpers.v -- [cstep c st o] is the package-level helper for operation [o] on a
   key-value FS that exposes Open plus the subset [c] of the optional interfaces (the fallbacks of fs.go:
   Stat via Open+file.Stat, MkdirAll via the prefix loop, RemoveAll via the recursion, Chmod/Chtimes via the
   file helpers, WriteFullFile via OpenFile+Write+Close).
   PROVED: the single-dispatch helpers equal the full-interface helper or fail with ErrNotImplemented and
   change nothing; with every interface exposed the helper is the FS's own method; invalid names are
   refused identically by MkdirAll's two paths; the MkdirAll fallback returns nil only if every primitive
   succeeded (or hit an existing directory) and returns the first other primitive failure.
   The equality fallback == optimised path for Stat, MkdirAll, RemoveAll, Chmod is NOT proved: it is checked
   by running both on identical copies (the harness's oracle) and against the model (correspondence). *)
From HP Require Import Base.Prelude Base.Path KV.Types KV.FS KV.Handle KV.Run KV.Corr Compose.Helpers Compose.HelpersProofs.
Open Scope N_scope.

Theorem C08_masked_helper_is_full_or_unimplemented : forall c st o, single_dispatch o ->
  cstep c st o = cstep all_caps st o \/ (fst (cstep c st o) = st /\ is_enosys (snd (cstep c st o))).
Proof. exact masked_is_full_or_unimplemented. Qed.
Print Assumptions C08_masked_helper_is_full_or_unimplemented.

Theorem C08_full_interface_helper_is_the_native_method : forall st o,
  single_dispatch o \/ (exists p perm, o = MkdirAll p perm) \/ (exists p m, o = Chmod p m) \/ (exists p t, o = Chtimes p t) ->
  match o with
  | OpenClose _ _ _ | WriteFile _ _ _ | ReadDir _ | ReadFile _ => True
  | _ => cstep all_caps st o = step st o
  end.
Proof. exact full_caps_is_native. Qed.
Print Assumptions C08_full_interface_helper_is_the_native_method.

Theorem C08_mkdirall_refuses_invalid_names_on_both_paths : forall c st p perm, valid_path p = false ->
  h_mkdirall c st p perm = (st, Some (PathErr p EINVAL)).
Proof. exact mkdirall_invalid_same. Qed.
Print Assumptions C08_mkdirall_refuses_invalid_names_on_both_paths.

Theorem C08_mkdirall_fallback_never_reports_undone_work : forall c ps st perm s',
  mkdirall_loop c st ps perm = (s', None) -> all_made c st ps perm.
Proof. exact mkdirall_fallback_success_means_all_made. Qed.
Print Assumptions C08_mkdirall_fallback_never_reports_undone_work.

Theorem C08_mkdirall_fallback_returns_primitive_error : forall c st q rest perm s1 ep cl,
  h_mkdir c st q perm = (s1, Some (PathErr ep cl)) -> cl <> EEXIST ->
  mkdirall_loop c st (q :: rest) perm = (s1, Some (PathErr ep cl)).
Proof. exact mkdirall_fallback_returns_primitive_error. Qed.
Print Assumptions C08_mkdirall_fallback_returns_primitive_error.

Theorem C08_mkdirall_without_mkdir_is_unimplemented : forall c st q rest perm, c_mkdir c = false ->
  mkdirall_loop c st (q :: rest) perm = (st, Some (PathErr q ENOSYS)).
Proof. exact mkdirall_without_mkdir. Qed.
Print Assumptions C08_mkdirall_without_mkdir_is_unimplemented.

Theorem C08_removeall_swallows_only_not_exist : forall e, swallow_enoent (Some e) = None -> err_cls e = ENOENT.
Proof. exact swallow_only_enoent. Qed.
Print Assumptions C08_removeall_swallows_only_not_exist.

Example C08_nonvacuous :
  prefixes (S "a/b/c") = [S "a"; S "a/b"; S "a/b/c"]
  /\ snd (cstep (mkCaps true false false true true true true true) kv_init (MkdirAll (S "a/b") 493)) = VErr (PathErr (S "a") ENOSYS)
  /\ snd (cstep (mkCaps true true false true true false true true) kv_init (MkdirAll (S "a/b") 493)) = VOk
  /\ snapshot (fst (cstep (mkCaps true true false true true false true true) kv_init (MkdirAll (S "a/b") 493)))
     = snapshot (fst (cstep all_caps kv_init (MkdirAll (S "a/b") 493))).
Proof. vm_compute. repeat split; reflexivity. Qed.
