(* C12 -- The tar FS presents exactly the archive's logical tree.
   Two models of tar/fs.go's unpacking, both run against the implementation on every archive of the check:
   [unpack] (Tar/Unpack.v) drives the key-value FS model step by step (resolvePath, memoised MkdirAll of the
   parent, Mkdir-or-Chmod, OpenFile+Write); [aunpack] (Tar/Logical.v) is the same algorithm over an
   abstract tree of element lists.  The SPECIFICATION is [logical]: the entry itself if the path is an
   entry's name, a 0700 directory if it is a proper ancestor of one, nothing otherwise.
   Proved for all archives (no bound on entries, depth, sizes): well-formed archive => [aunpack] succeeds
   and builds exactly [logical], in every entry order; names normalise to the root, a path of real names,
   or an escaping path, and an escaping parent stops the unpacking without creating anything.
   Not in the models: the goroutine schedule of the background writers and the buffer pools (harness only). *)
From HP Require Import Base.Prelude Base.Path Base.PathProofs KV.Types KV.FS KV.Run Tar.Unpack Tar.Logical
  Tar.LogicalProofs Tar.UnpackProofs.
From Coq Require Import Permutation.
Open Scope N_scope.

(* exactly the logical tree: every entry with its bytes and bits, every ancestor, and nothing else *)
Theorem C12_unpacked_tree_is_the_logical_tree : forall es, wf es ->
  exists t, aunpack [] es = Some t /\ forall p, a_lookup p t = logical es p.
Proof. exact aunpack_is_logical. Qed.
Print Assumptions C12_unpacked_tree_is_the_logical_tree.

(* regardless of entry order: parents before, after, or never *)
Theorem C12_entry_order_does_not_matter : forall es es', wf es -> Permutation es es' ->
  exists t t', aunpack [] es = Some t /\ aunpack [] es' = Some t' /\ forall p, a_lookup p t = a_lookup p t'.
Proof. exact aunpack_order_independent. Qed.
Print Assumptions C12_entry_order_does_not_matter.

Theorem C12_logical_tree_is_order_independent : forall es es' p,
  NoDup (map aname es) -> Permutation es es' -> logical es p = logical es' p.
Proof. exact logical_order_independent. Qed.
Print Assumptions C12_logical_tree_is_order_independent.

(* the boolean well-formedness test the check evaluates implies the hypothesis of the theorems *)
Theorem C12_wellformed_test_is_sound : forall es, wf_b es = true -> wf es.
Proof. exact wf_b_sound. Qed.
Print Assumptions C12_wellformed_test_is_sound.

(* name normalisation: the root, a path of real names, or a path that leaves the root *)
Theorem C12_names_normalise : forall s, resolve s = dot \/ all_ok (resolve s) \/ escapes (resolve s).
Proof. exact resolve_shape. Qed.
Print Assumptions C12_names_normalise.

Theorem C12_escaping_name_is_not_a_valid_path : forall s, escapes s -> valid_path s = false.
Proof. exact escaping_is_invalid. Qed.
Print Assumptions C12_escaping_name_is_not_a_valid_path.

(* an entry whose parent lies outside the root makes unpacking fail there; it creates nothing anywhere *)
Theorem C12_escaping_entry_fails_and_creates_nothing : forall before e after,
  valid_path (path_dir (resolve (tname e))) = false ->
  forall u1, unpack uinit before = (u1, None) ->
  unpack uinit (before ++ e :: after) = (u1, Some (PathErr (path_dir (resolve (tname e))) EINVAL)).
Proof. exact unpack_stops_at_escaping_entry. Qed.
Print Assumptions C12_escaping_entry_fails_and_creates_nothing.

(* non-vacuity: a children-before-parents archive is well formed and unpacks to its logical tree; the
   escaping names of the check meet the hypotheses *)
Example C12_nonvacuous :
  let es := [AEFile [S "a"; S "b"; S "c.txt"] 420 [1; 2]; AEDir [S "a"] 493; AEFile [S "x"] 384 []] in
  wf_b es = true
  /\ (exists t, aunpack [] es = Some t /\ a_lookup [S "a"] t = Some (ADir 493)
                /\ a_lookup [S "a"; S "b"] t = Some (ADir 448) /\ a_lookup [S "b"] t = None)
  /\ valid_path (path_dir (resolve (S "../x"))) = false
  /\ escapes (resolve (S "a/../../x"))
  /\ resolve (S "./a//b/") = S "a/b".
Proof. unfold escapes. vm_compute. repeat split; try reflexivity. eexists. repeat split; reflexivity. Qed.
