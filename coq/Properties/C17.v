(* C17 -- Closed handles fail cleanly and handles never resurrect removed names.
   Model: KV/Handle.v.  Part three of the property (a write through an older handle never makes a
   removed or renamed name exist again) is FALSE of the code and of the faithful model: save() writes the
   handle's whole record back under the path remembered at open -- see C17_resurrection_refuted. *)
From HP Require Import Base.Prelude Base.Path KV.Types KV.FS KV.Handle KV.Run KV.HandleProofs.
Open Scope N_scope.

(* After Close every method fails with an error matching ErrClosed naming the handle's path, and
   touches neither the store nor any file's bytes. *)
Theorem C17_closed_handle_fails_cleanly : forall st i o h,
  nth_error (st_handles st) i = Some h -> h_closed h = true ->
  hres_err (snd (hstep st i o)) = Some (closed_err h)
  /\ st_store (fst (hstep st i o)) = st_store st /\ st_heap (fst (hstep st i o)) = st_heap st.
Proof. exact closed_fails. Qed.
Print Assumptions C17_closed_handle_fails_cleanly.

(* Handles are independent: closing, seeking, reading or writing through handle i never changes any
   other handle's position, flags or validity. *)
Theorem C17_handles_independent : forall st i o j,
  i <> j -> nth_error (st_handles (fst (hstep st i o))) j = nth_error (st_handles st) j.
Proof. exact hstep_independent. Qed.
Print Assumptions C17_handles_independent.

(* Close itself: the first succeeds, marks only this handle closed; a second Close fails. *)
Theorem C17_close_then_closed : forall st i h,
  nth_error (st_handles st) i = Some h -> h_closed h = false ->
  snd (hstep st i HClose) = HRErr None
  /\ exists h', nth_error (st_handles (fst (hstep st i HClose))) i = Some h' /\ h_closed h' = true.
Proof.
  intros st i h E C. unfold hstep. rewrite E.
  assert (A : allowed (h_wrap h) HClose = true) by (destruct (h_wrap h); reflexivity).
  rewrite A. cbn [negb]. rewrite C. cbn [fst snd]. split; [reflexivity|].
  exists (with_closed h). split; [|reflexivity].
  unfold put_handle, set_handles; simpl. apply nth_error_list_set_eq.
  apply nth_error_Some. congruence.
Qed.
Print Assumptions C17_close_then_closed.

(* Refuted: after Remove, a write through a handle opened earlier makes the old name exist again. *)
Theorem C17_resurrection_refuted :
  let ops := [WriteFile (S "a") [1;2] 420; Open (S "a") 2 0; Remove (S "a"); H 0 (HWrite [7])] in
  map (fun e => fst (fst (fst e))) (snd (last (run kv_init [WriteFile (S "a") [1;2] 420; Open (S "a") 2 0; Remove (S "a")]) (VOk, []))) = [dot]
  /\ map (fun e => fst (fst (fst e))) (snd (last (run kv_init ops) (VOk, []))) = [dot; S "a"].
Proof. vm_compute. auto. Qed.
Print Assumptions C17_resurrection_refuted.
