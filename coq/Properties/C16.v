(* C16 -- Directory listings are complete, duplicate-free, ordered, and page correctly.
   Model: [read_dir] (keyvalue directory handle ReadDir, KV/Handle.v), [kv_readdir]/[sort_entries]
   (io/fs.ReadDir used by hackpadfs.ReadDir: ReadDir(-1) then sort by name, KV/Run.v).  The pure pager
   [page]/[pages] is what ReadDir(n>0) does with the memoised list of child names; [read_dir_is_page]
   ties the handle model to it.  No bound on the number of children or on the page sizes.
   Other layers (mount, Sub, cache, tar, os.FS) are covered by the harness's oracle, not by theorems. *)
From HP Require Import Base.Prelude Base.Path KV.Types KV.FS KV.Handle KV.Run KV.HandleProofs KV.ListingProofs.
From Coq Require Import Permutation.
Open Scope nat_scope.

(* Reading in pages of any positive sizes (adding up to at least the number of children) yields every
   child exactly once, in order, and nothing else. *)
Theorem C16_pages_partition : forall names ns,
  Forall (fun n => 0 < n) ns -> length names <= fold_right Nat.add 0 ns ->
  concat (fst (pages names 0 ns)) = names.
Proof. exact pages_partition. Qed.
Print Assumptions C16_pages_partition.

(* Any prefix of the paging delivers a consecutive piece, every page non-empty. *)
Theorem C16_pages_consecutive : forall names ns off, Forall (fun n => 0 < n) ns -> off <= length names ->
  let '(ps, o) := pages names off ns in
  concat ps = sublist off o names /\ off <= o <= length names /\ Forall (fun p => p <> []) ps.
Proof. exact pages_consecutive. Qed.
Print Assumptions C16_pages_consecutive.

(* Never an empty page with a nil error, never more than n entries; io.EOF exactly when none remain. *)
Theorem C16_page_never_empty : forall names off n p o, 0 < n -> page names off n = Some (p, o) -> p <> [] /\ length p <= n.
Proof. exact page_never_empty. Qed.
Print Assumptions C16_page_never_empty.

Theorem C16_eof_iff_exhausted : forall names off n, page names off n = None <-> length names <= off.
Proof. exact page_eof_iff. Qed.
Print Assumptions C16_eof_iff_exhausted.

(* The directory handle's ReadDir(n>0) is that pager over the memoised names. *)
Theorem C16_handle_readdir_is_the_pager : forall st h n names,
  h_closed h = false -> h_names h = Some (inl names) -> (0 < n)%Z -> (0 <= h_off h)%Z ->
  let '(st', h', l, e) := read_dir st h n in
  match page names (Z.to_nat (h_off h)) (Z.to_nat n) with
  | None => l = [] /\ e = Some (Bare EEOF) /\ h' = h
  | Some (p, o) => e = None -> map fst l = p /\ h_off h' = Z.of_nat o
  end.
Proof. exact read_dir_is_page. Qed.
Print Assumptions C16_handle_readdir_is_the_pager.

(* A non-positive count returns all entries that remain (all of them on a fresh handle) with a nil error,
   and leaves the handle at the end. *)
Theorem C16_nonpositive_count_returns_the_rest : forall st h n names,
  h_closed h = false -> h_names h = Some (inl names) -> (n <= 0)%Z -> (0 <= h_off h <= Z.of_nat (length names))%Z ->
  let '(st', h', l, e) := read_dir st h n in
  e = None -> map fst l = skipn (Z.to_nat (h_off h)) names /\ h_off h' = Z.of_nat (length names).
Proof. exact read_dir_rest. Qed.
Print Assumptions C16_nonpositive_count_returns_the_rest.

Theorem C16_nonpositive_count_on_fresh_handle_returns_all : forall st h n names,
  h_closed h = false -> h_names h = Some (inl names) -> (n <= 0)%Z -> h_off h = 0%Z ->
  let '(st', h', l, e) := read_dir st h n in e = None -> map fst l = names.
Proof. exact read_dir_all. Qed.
Print Assumptions C16_nonpositive_count_on_fresh_handle_returns_all.

(* Mixed counts of any sign: the handle is the pager [zpage]; any sequence that reaches the end delivered
   every child exactly once in order; a non-positive count always reaches the end. *)
Theorem C16_handle_readdir_any_count : forall st h n names,
  h_closed h = false -> h_names h = Some (inl names) -> (0 <= h_off h <= Z.of_nat (length names))%Z ->
  let '(st', h', l, e) := read_dir st h n in
  match zpage names (Z.to_nat (h_off h)) n with
  | None => l = [] /\ e = Some (Bare EEOF) /\ h' = h
  | Some (p, o) => e = None -> map fst l = p /\ h_off h' = Z.of_nat o
  end.
Proof. exact read_dir_is_zpage. Qed.
Print Assumptions C16_handle_readdir_any_count.

Theorem C16_mixed_pages_partition : forall names ns,
  snd (zpages names 0 ns) = length names -> concat (fst (zpages names 0 ns)) = names.
Proof. exact zpages_partition. Qed.
Print Assumptions C16_mixed_pages_partition.

Theorem C16_mixed_pages_consecutive : forall names ns off, off <= length names ->
  let '(ps, o) := zpages names off ns in concat ps = sublist off o names /\ off <= o <= length names.
Proof. exact zpages_consecutive. Qed.
Print Assumptions C16_mixed_pages_consecutive.

Theorem C16_nonpositive_count_reaches_the_end : forall names ns off, off <= length names ->
  Exists (fun n => (n <= 0)%Z) ns -> snd (zpages names off ns) = length names.
Proof. exact zpages_nonpositive_reaches_end. Qed.
Print Assumptions C16_nonpositive_count_reaches_the_end.

(* Listing a non-directory fails with ErrNotDir. *)
Theorem C16_listing_a_non_directory_fails : forall st h n,
  st_fault st = None -> h_closed h = false -> h_names h = None -> is_dir (h_mode h) = false ->
  let '(_, _, l, e) := read_dir st h n in l = [] /\ e = Some (PathErr (h_path h) ENOTDIR).
Proof. exact read_dir_notdir. Qed.
Print Assumptions C16_listing_a_non_directory_fails.

(* Listing by name: sorted, and exactly the entries of the directory (a permutation of the page). *)
Theorem C16_by_name_listing_sorted : forall l, sorted_by_name (sort_entries l).
Proof. exact sort_entries_sorted. Qed.
Print Assumptions C16_by_name_listing_sorted.

Theorem C16_by_name_listing_same_entries : forall l, Permutation l (sort_entries l).
Proof. exact sort_entries_perm. Qed.
Print Assumptions C16_by_name_listing_same_entries.

Example C16_nonvacuous :
  pages [S "a"; S "b"; S "c"; S "d"; S "e"] 0 [2; 1; 7; 1] = ([[S "a"; S "b"]; [S "c"]; [S "d"; S "e"]], 5).
Proof. vm_compute. reflexivity. Qed.
Print Assumptions C16_nonvacuous.

Example C16_nonvacuous_mixed :
  zpages [S "a"; S "b"; S "c"; S "d"; S "e"] 0 [2; -1; 1]%Z = ([[S "a"; S "b"]; [S "c"; S "d"; S "e"]], 5).
Proof. vm_compute. reflexivity. Qed.
