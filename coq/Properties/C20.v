From HP Require Import Base.Prelude Fstest.Assert.
Example C20_smoke : tree_assert 0 [(S "a", mkEnt 0 493 true)] [(S "a", mkEnt 0 448 true)] = true.
Proof. vm_compute. reflexivity. Qed.
Print Assumptions C20_smoke.
