(* C20 -- The fstest conformance suite accepts the reference and rejects deviants.
   What is PROVED here concerns the suite's verdict function for final trees ([tree_assert] =
   tryAssertEqualFS + walkFSEntries + assert.Subset, Fstest/Assert.v), for ALL expected/actual trees.
   That the real suite accepts mem.FS and os.FS and rejects each catalogued deviant is decided per run by
   executing the real suite (54 deviants), not by a theorem: the scenarios themselves are not modelled.
   (* OPEN: C20_rejects_every_deviant -- needs the scenario table as data *) *)
From HP Require Import Base.Prelude Fstest.Assert Fstest.AssertProofs.
Open Scope N_scope.

(* The default FileModeMask (0) makes the verdict independent of every mode of the tree under test ... *)
Theorem C20_default_mask_is_blind_to_modes : forall expected actual actual',
  same_but_modes actual actual' -> tree_assert 0 expected actual = tree_assert 0 expected actual'.
Proof. exact mask_zero_blind. Qed.
Print Assumptions C20_default_mask_is_blind_to_modes.

(* ... and of every mode a scenario expects. *)
Theorem C20_default_mask_ignores_expected_modes : forall p e m actual,
  tree_assert 0 [(p, e)] actual = tree_assert 0 [(p, mkEnt (e_size e) m (e_dir e))] actual.
Proof. exact mask_zero_ignores_expected_modes. Qed.
Print Assumptions C20_default_mask_ignores_expected_modes.

(* An entry left behind is never noticed (subset comparison), whatever the mask. *)
Theorem C20_extra_entries_are_accepted : forall mask expected actual q e,
  (forall p x, In (p, x) expected -> str_eqb q p = false) ->
  tree_assert mask expected ((q, e) :: actual) = tree_assert mask expected actual.
Proof. exact subset_accepts_superset. Qed.
Print Assumptions C20_extra_entries_are_accepted.

(* What the verdict does depend on: a kept mode bit, a missing entry, a regular file's size, the kind. *)
Theorem C20_kept_mode_bit_is_checked : forall mask p e a actual,
  tlookup actual p = Some a -> N.land (e_mode e) mask <> N.land (e_mode a) mask ->
  tree_assert mask [(p, e)] actual = false.
Proof. exact kept_bit_is_checked. Qed.
Print Assumptions C20_kept_mode_bit_is_checked.

Theorem C20_missing_entry_is_rejected : forall mask p e actual,
  tlookup actual p = None -> tree_assert mask [(p, e)] actual = false.
Proof. exact missing_entry_is_noticed. Qed.
Print Assumptions C20_missing_entry_is_rejected.

Theorem C20_wrong_size_is_rejected : forall mask p e a actual,
  tlookup actual p = Some a -> e_dir a = false -> e_size e <> e_size a -> tree_assert mask [(p, e)] actual = false.
Proof. exact wrong_size_is_noticed. Qed.
Print Assumptions C20_wrong_size_is_rejected.

Theorem C20_wrong_kind_is_rejected : forall mask p e a actual,
  tlookup actual p = Some a -> e_dir e <> e_dir a -> tree_assert mask [(p, e)] actual = false.
Proof. exact wrong_kind_is_noticed. Qed.
Print Assumptions C20_wrong_kind_is_rejected.

(* The verdict on the reference: a tree is accepted against itself. *)
Theorem C20_accepts_the_expected_tree : forall mask t, NoDup (map fst t) ->
  Forall (fun kv => e_dir (snd kv) = true -> e_size (snd kv) = 0) t -> tree_assert mask t t = true.
Proof. exact accepts_itself. Qed.
Print Assumptions C20_accepts_the_expected_tree.

(* Non-vacuity / the two blind spots on a concrete tree: a wrong permission and a left-over file pass. *)
Example C20_blind_spots_witness :
  let expected := [(S "foo", mkEnt 0 (2147483648 + 448) true); (S "foo/bar", mkEnt 3 420 false)] in
  let deviant  := [(S "junk", mkEnt 1 384 false); (S "foo", mkEnt 0 (2147483648 + 511) true); (S "foo/bar", mkEnt 3 292 false)] in
  tree_assert 0 expected deviant = true /\ tree_assert 4294967295 expected deviant = false.
Proof. vm_compute. auto. Qed.
Print Assumptions C20_blind_spots_witness.
