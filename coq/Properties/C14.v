(* C14 -- A failing store never turns into silent success, a panic or a wedged FS.
   Model: the key-value FS model (KV/FS.v, KV/Handle.v) counts every store call (Get, Set, a record's lazy
   Data()/ReadDirNames()) in [st_calls]; [st_fault = Some k] makes call number k fail.  [fired a b]: the
   failing call happened between states a and b.  The same fault index is injected into the implementation
   (plain Store and TransactionStore) and the model on every history of the check.
   PROVED (all states, paths, fault indices): a fault that fires inside Mkdir, Remove, Chmod, Chtimes or the Rename
   of a regular file makes
   the operation return an error and leaves every record of the store as it was; a reported success of Mkdir,
   Remove, Chmod, the Rename of a non-directory, a non-empty Write/WriteAt or OpenFile implies the record is (not)
   in the store afterwards, whatever failed; the fault fires at most
   once, so everything afterwards is the fault-free model; the model's step function has no panic outcome
   (an implementation panic can therefore never agree with it).
   NOT proved: the same statement for OpenFile, WriteFile, Rename of directories, MkdirAll, RemoveAll and the handle
   operations -- there the code deliberately ignores failures of look-ups it did not need (the prefetched
   parent of an existing file, ancestors above the first existing directory), which the check's oracle
   treats as immaterial when result and store equal the failure-free ones. *)
From HP Require Import Base.Prelude Base.Path KV.Types KV.FS KV.Handle KV.Run KV.Corr KV.FaultProofs KV.FaultRename KV.FaultEffects KV.FaultEffects2.
Open Scope N_scope.

Theorem C14_mkdir_reports_the_failing_store_call : forall st p perm,
  fired st (fst (kv_mkdir st p perm)) ->
  snd (kv_mkdir st p perm) <> None /\ st_store (fst (kv_mkdir st p perm)) = st_store st.
Proof. exact mkdir_fault_is_reported. Qed.
Print Assumptions C14_mkdir_reports_the_failing_store_call.

Theorem C14_remove_reports_the_failing_store_call : forall st p,
  fired st (fst (kv_remove st p)) ->
  snd (kv_remove st p) <> None /\ st_store (fst (kv_remove st p)) = st_store st.
Proof. exact remove_fault_is_reported. Qed.
Print Assumptions C14_remove_reports_the_failing_store_call.

Theorem C14_chmod_reports_the_failing_store_call : forall st p m,
  fired st (fst (kv_chmod st p m)) ->
  snd (kv_chmod st p m) <> None /\ st_store (fst (kv_chmod st p m)) = st_store st.
Proof. exact chmod_fault_is_reported. Qed.
Print Assumptions C14_chmod_reports_the_failing_store_call.

Theorem C14_chtimes_reports_the_failing_store_call : forall st p t,
  fired st (fst (kv_chtimes st p t)) ->
  snd (kv_chtimes st p t) <> None /\ st_store (fst (kv_chtimes st p t)) = st_store st.
Proof. exact chtimes_fault_is_reported. Qed.
Print Assumptions C14_chtimes_reports_the_failing_store_call.

(* Rename of a regular file (two names, several look-ups, two Sets): if the failing call happens during it and
   it still reports success then the source was a directory -- for a file every failed call is reported *)
Theorem C14_rename_of_a_file_reports_the_failing_store_call : forall fuel st o n,
  o <> n -> fired st (fst (kv_rename (Datatypes.S fuel) st o n)) ->
  snd (kv_rename (Datatypes.S fuel) st o n) = None ->
  exists rc, lookup (st_store st) o = Some rc /\ is_dir (r_mode rc) = true.
Proof. exact rename_file_fault_is_reported. Qed.
Print Assumptions C14_rename_of_a_file_reports_the_failing_store_call.

(* success => effect, in every state and for every fault: what is reported as done is in the store *)
Theorem C14_mkdir_success_means_stored : forall st p perm, snd (kv_mkdir st p perm) = None ->
  exists rc, lookup (st_store (fst (kv_mkdir st p perm))) p = Some rc /\ is_dir (r_mode rc) = true.
Proof. exact mkdir_success_means_stored. Qed.
Print Assumptions C14_mkdir_success_means_stored.

Theorem C14_remove_success_means_gone : forall st p, snd (kv_remove st p) = None ->
  lookup (st_store (fst (kv_remove st p))) p = None.
Proof. exact remove_success_means_gone. Qed.
Print Assumptions C14_remove_success_means_gone.

Theorem C14_chmod_success_means_stored : forall st p m, snd (kv_chmod st p m) = None ->
  exists rc, lookup (st_store (fst (kv_chmod st p m))) p = Some rc /\ N.land (r_mode rc) chmod_bits = N.land m chmod_bits.
Proof. exact chmod_success_means_stored. Qed.
Print Assumptions C14_chmod_success_means_stored.

Theorem C14_file_rename_success_means_moved : forall fuel st o n,
  (forall f, snd (get_file st o) = inl f -> is_dir (f_mode f) = false) -> o <> n ->
  snd (kv_rename (Datatypes.S fuel) st o n) = None ->
  let st' := fst (kv_rename (Datatypes.S fuel) st o n) in
  lookup (st_store st') o = None /\ exists rc, lookup (st_store st') n = Some rc /\ is_dir (r_mode rc) = false.
Proof. exact rename_file_success_means_moved. Qed.
Print Assumptions C14_file_rename_success_means_moved.

(* a write that reports success has stored a record under the handle's name that points at the handle's blob *)
Theorem C14_write_success_means_stored : forall st h d off,
  d <> [] -> snd (write_at st h d off) = None ->
  exists rc, lookup (st_store (fst (fst (fst (write_at st h d off))))) (h_path h) = Some rc
             /\ r_cell rc = h_cell h /\ r_mode rc = f_mode h.
Proof. exact write_success_means_stored. Qed.
Print Assumptions C14_write_success_means_stored.

(* OpenFile hands out a handle only for a name the store holds afterwards (created, found, or truncated) *)
Theorem C14_openfile_success_means_the_name_exists : forall st p flag perm f,
  snd (kv_openfile st p flag perm) = inl f ->
  lookup (st_store (fst (kv_openfile st p flag perm))) p <> None /\ h_path f = p.
Proof. exact openfile_success_means_exists. Qed.
Print Assumptions C14_openfile_success_means_the_name_exists.

(* a rejected Set changes nothing and is reported; a failed Get is reported as a non-ENOENT error *)
Theorem C14_rejected_set_is_reported : forall st p r,
  fired st (fst (sset st p r)) -> snd (sset st p r) = Some (Bare EOTHER) /\ st_store (fst (sset st p r)) = st_store st.
Proof. intros st p r. apply sset_spec. Qed.
Print Assumptions C14_rejected_set_is_reported.

Theorem C14_failed_lookup_is_not_mistaken_for_missing : forall st p,
  fired st (fst (get_file st p)) -> exists e, snd (get_file st p) = inr e /\ err_cls e = EOTHER.
Proof. intros st p. apply get_file_spec. Qed.
Print Assumptions C14_failed_lookup_is_not_mistaken_for_missing.

(* after the failure the store works again: the fault cannot fire a second time *)
Theorem C14_fault_fires_at_most_once : forall a b c, ext a b -> ext b c -> fired a b -> ~ fired b c.
Proof. exact fault_fires_once. Qed.
Print Assumptions C14_fault_fires_at_most_once.

(* the model has no panic outcome *)
Theorem C14_model_never_panics : forall st o, snd (step st o) <> VPanic.
Proof.
  intros st o. destruct o; unfold step;
    match goal with |- context [let '(_, _) := ?x in _] => destruct x as [? r] end;
    try destruct r; cbn [snd of_err]; discriminate.
Qed.
Print Assumptions C14_model_never_panics.

Example C14_nonvacuous :
  let st := with_fault kv_init (Some 1%nat) in
  fired st (fst (kv_mkdir st (S "a") 493)) /\ snd (kv_mkdir st (S "a") 493) = Some (PathErr (S "a") EOTHER).
Proof. vm_compute. split; [exists 1%nat; split; [reflexivity|lia]|reflexivity]. Qed.
