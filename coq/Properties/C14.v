From HP Require Import Base.Prelude KV.Types KV.FS KV.Handle KV.Run.
Example C14_smoke : snapshot kv_init <> [].
Proof. vm_compute. discriminate. Qed.
Print Assumptions C14_smoke.
