(* C18 -- Transactions: one result per call, in order; the store is always released.
   [trun which (t_begin s0) cs] runs the call sequence [cs] on the transaction implementation
   [which] (MemTxn = mem/store.go's transaction, SerialTxn = keyvalue's unsafeSerialTransaction)
   started on a store holding [s0]; both are tied to /repo by the per-run correspondence check. *)
From HP Require Import Base.Prelude Txn.Txn Txn.TxnProofs.
Open Scope nat_scope.

(* Commit returns exactly one result per Get/Set call issued before it, in call order, the i-th
   carrying operation id i -- for every call sequence (handlers that fail or abort included),
   both implementations. *)
Theorem C18_results_indexed : forall which s0 cs cc l,
  snd (fst (tstep which (fst (trun which (t_begin s0) cs)) (TCommit cc))) = CResults l ->
  length l = count_ops cs /\ forall i r, nth_error l i = Some r -> o_id r = i.
Proof. exact results_indexed. Qed.
Print Assumptions C18_results_indexed.

(* ... and every call returned the id under which its result is filed. *)
Theorem C18_call_returns_its_result_index : forall which s0 cs c,
  let t := fst (trun which (t_begin s0) cs) in
  snd (tstep which t c) = if is_op c then Some (length (t_results t)) else None.
Proof.
  intros which s0 cs c t. apply tstep_id. apply trun_inv.
  split; [reflexivity|]. intros i r Hr. destruct i; discriminate.
Qed.
Print Assumptions C18_call_returns_its_result_index.

(* A live Get reports what the store holds ... *)
Theorem C18_get_sees_store : forall which t k h, t_done t = false ->
  exists r, nth_error (t_results (fst (fst (tstep which t (TGet k h))))) (length (t_results t)) = Some r
            /\ o_val r = tget (t_store t) k.
Proof. exact get_sees_store. Qed.
Print Assumptions C18_get_sees_store.

(* ... in particular the value of the latest Set of that key, and no other key is disturbed. *)
Theorem C18_get_reflects_earlier_set : forall which t k v h h', t_done t = false -> handler_aborts h = false ->
  let t1 := fst (fst (tstep which t (TSet k v h))) in
  tget (t_store t1) k = v /\ (forall k', k <> k' -> tget (t_store t1) k' = tget (t_store t) k')
  /\ exists r, nth_error (t_results (fst (fst (tstep which t1 (TGet k h'))))) (length (t_results t1)) = Some r
               /\ o_val r = v.
Proof. exact set_then_get. Qed.
Print Assumptions C18_get_reflects_earlier_set.

Theorem C18_handler_error_becomes_the_operations_error : forall which t k v h, t_done t = false -> handler_err h = true ->
  exists r, nth_error (t_results (fst (fst (tstep which t (TSet k v h))))) (length (t_results t)) = Some r
            /\ o_err r = RHandler.
Proof. exact handler_error_recorded. Qed.
Print Assumptions C18_handler_error_becomes_the_operations_error.

(* Calls made after Abort (or after a handler aborted, or after Commit) never change the store. *)
Theorem C18_after_abort_no_effect : forall which t cs,
  t_done t = true -> t_store (fst (trun which t cs)) = t_store t.
Proof. exact after_abort_no_effect_run. Qed.
Print Assumptions C18_after_abort_no_effect.

(* However a transaction of the in-memory store ends, and whatever is called afterwards, the store's
   mutex is unlocked exactly once: no fatal double unlock, and the store is free for the next one. *)
Theorem C18_mem_store_released : forall s0 cs,
  existsb ends cs = true -> usable MemTxn (fst (trun MemTxn (t_begin s0) cs)) = true.
Proof. exact mem_store_released. Qed.
Print Assumptions C18_mem_store_released.

Theorem C18_serial_store_usable : forall s0 cs, usable SerialTxn (fst (trun SerialTxn (t_begin s0) cs)) = true.
Proof. exact serial_store_usable. Qed.
Print Assumptions C18_serial_store_usable.

(* Isolation: as long as a transaction of the in-memory store has not ended it holds the store's
   mutex, so no other transaction can begin (Transaction() blocks on it) and see partial effects. *)
Theorem C18_live_transaction_holds_the_store : forall s0 cs,
  let t := fst (trun MemTxn (t_begin s0) cs) in
  t_crashed t = false /\ (t_released t = false -> t_locked t = true).
Proof.
  intros s0 cs t. destruct (trun_rinv (t_begin s0) cs (rinv_begin s0)) as (C & L & _). split; assumption.
Qed.
Print Assumptions C18_live_transaction_holds_the_store.

(* ... and once it HAS ended, the mutex is somebody else's: whatever is still called on the ended transaction (Commit or
   Abort a second time, Gets and Sets with any handlers), the mutex -- now perhaps held by the next transaction, whatever
   [t_locked] says -- the store and the fatal-error flag stay as they are.  (A release that is not "exactly once" breaks this:
   a late Commit of an aborted transaction then unlocks the store under the transaction that is open.) *)
Theorem C18_ended_transaction_leaves_the_mutex_alone : forall t cs, t_released t = true -> t_done t = true ->
  let t' := fst (trun MemTxn t cs) in
  t_locked t' = t_locked t /\ t_store t' = t_store t /\ t_crashed t' = t_crashed t.
Proof. exact ended_transaction_leaves_the_mutex_alone. Qed.
Print Assumptions C18_ended_transaction_leaves_the_mutex_alone.

(* Every way of ending (Commit, Abort, a handler that aborts) leads to that state. *)
Theorem C18_every_ending_is_final : forall s0 cs, existsb ends cs = true ->
  let t := fst (trun MemTxn (t_begin s0) cs) in t_crashed t = false -> t_released t = true /\ t_done t = true.
Proof. exact ended_is_released_and_done. Qed.
Print Assumptions C18_every_ending_is_final.

(* Non-vacuity: Abort followed by Commit (the pattern of a handler-triggered abort) on a store with data. *)
Example C18_nonvacuous :
  let cs := [TSet 1 (Some 7) HOk; TGet 1 HAbort; TSet 2 (Some 9) HOk; TAbort; TCommit false]%N in
  existsb ends cs = true
  /\ usable MemTxn (fst (trun MemTxn (t_begin [(1, 5)]%N) cs)) = true
  /\ tget (t_store (fst (trun MemTxn (t_begin [(1, 5)]%N) cs))) 2%N = None.
Proof. vm_compute. auto. Qed.
Print Assumptions C18_nonvacuous.
