From HP Require Import Base.Prelude Txn.Txn.
Example C18_smoke : usable MemTxn (fst (trun MemTxn (t_begin []) [TAbort; TCommit])) = true.
Proof. vm_compute. reflexivity. Qed.
Print Assumptions C18_smoke.
