(* C01 -- Namespace operations of the in-memory/key-value FS behave like the os package.
   Model: the key-value FS model (KV/FS.v, KV/Run.v); the reference is the Go os package itself, run by the
   harness in an empty temp directory on the same history (success/failure, data, whole tree after every
   step); the model is compared with the implementation step by step (results and whole tree).
   The "os side" cannot be a Coq object; what is PROVED is the model's functional specification in POSIX
   terms, for EVERY well-formed fault-free state (C03 proves every reachable state is one) and every argument:
     Stat    succeeds iff the name is valid and present; changes nothing;
     Mkdir   succeeds iff valid, absent and the parent is a directory; then exactly one directory record is
             added with the requested permission bits; every failure changes nothing;
     Remove  succeeds iff valid, present, not the root and (not a directory or an empty one); then exactly
             that record is gone; every failure changes nothing;
     Chmod / Chtimes succeed iff valid and present; then only that record's permission bits / mod time change;
     OpenFile for every flag combination: O_CREATE|O_EXCL on an existing name fails with ErrExist; write, create or
             truncate flags on a directory fail with ErrIsDir; otherwise an existing entry is opened (O_TRUNC
             rewrites only that record); a missing name is created iff O_CREATE is set and the parent is a
             directory -- one regular record with the requested permission bits -- and fails otherwise;
     Rename of a non-directory: succeeds iff the new name's parent is a directory and the new name is absent or a
             non-directory; then exactly: the record now lives under the new name and the old name is gone;
     ReadFile of a regular file returns exactly the bytes of its record; WriteFullFile to a new name followed by
             ReadFile returns the bytes written;
   plus the invariant that makes the comparison with a real tree meaningful (C03) and the handle
   theorems of C02.  NOT proved (compared with os and the model on every run instead): the specifications
   of WriteFullFile over an existing file, RemoveAll and Rename of directories, and MkdirAll's exact success condition (for these
   C03 proves what they preserve, and that a successful Rename leaves nothing at the old name).
   Refuted (known finding): ReadFile of a directory succeeds with no bytes where os fails with EISDIR. *)
From HP Require Import Base.Prelude Base.Path KV.Types KV.FS KV.Handle KV.Run KV.TreeProofs KV.SpecProofs KV.OpenProofs.
Open Scope N_scope.

Theorem C01_stat_spec : forall st p, good st ->
  st_store (fst (kv_stat st p)) = st_store st /\
  (valid_path p = false -> snd (kv_stat st p) = inr (PathErr p EINVAL)) /\
  (valid_path p = true -> forall rc, lookup (st_store st) p = Some rc -> snd (kv_stat st p) = inl (mk_file p rc)) /\
  (valid_path p = true -> lookup (st_store st) p = None ->
     exists c, snd (kv_stat st p) = inr (PathErr p c) /\ enoent_or_enotdir c /\
               ((p = dot \/ has_dir (st_store st) (path_dir p)) -> c = ENOENT)).
Proof. exact kv_stat_spec. Qed.
Print Assumptions C01_stat_spec.

Theorem C01_mkdir_spec : forall st p perm, good st ->
  let s := st_store st in
  let r := kv_mkdir st p perm in
  (valid_path p = false -> snd r = Some (PathErr p EINVAL) /\ st_store (fst r) = s) /\
  (valid_path p = true -> lookup s p <> None -> snd r = Some (PathErr p EEXIST) /\ st_store (fst r) = s) /\
  (valid_path p = true -> lookup s p = None -> has_dir s (path_dir p) ->
     snd r = None /\ exists rc, st_store (fst r) = insert s p rc /\ r_mode rc = N.lor ModeDir (N.land perm ModePerm)) /\
  (valid_path p = true -> lookup s p = None -> ~ has_dir s (path_dir p) ->
     exists c, snd r = Some (PathErr p c) /\ enoent_or_enotdir c /\ st_store (fst r) = s).
Proof. exact kv_mkdir_spec. Qed.
Print Assumptions C01_mkdir_spec.

Theorem C01_remove_spec : forall st p, good st ->
  let s := st_store st in
  let r := kv_remove st p in
  (valid_path p = false -> snd r = Some (PathErr p EINVAL) /\ st_store (fst r) = s) /\
  (valid_path p = true -> lookup s p = None ->
     exists c, snd r = Some (PathErr p c) /\ enoent_or_enotdir c /\ st_store (fst r) = s) /\
  (snd (kv_remove st dot) = Some (PathErr dot EINVAL) /\ st_store (fst (kv_remove st dot)) = s) /\
  (valid_path p = true -> p <> dot -> forall rc, lookup s p = Some rc ->
     if is_dir (r_mode rc) && match child_names p s with [] => false | _ => true end
     then snd r = Some (PathErr p ENOTEMPTY) /\ st_store (fst r) = s
     else snd r = None /\ st_store (fst r) = remove_key s p).
Proof. exact kv_remove_spec. Qed.
Print Assumptions C01_remove_spec.

Theorem C01_chmod_spec : forall st p m, good st ->
  let s := st_store st in
  let r := kv_chmod st p m in
  (valid_path p = false -> snd r = Some (PathErr p EINVAL) /\ st_store (fst r) = s) /\
  (valid_path p = true -> lookup s p = None ->
     exists c, snd r = Some (PathErr p c) /\ enoent_or_enotdir c /\ st_store (fst r) = s) /\
  (valid_path p = true -> forall rc, lookup s p = Some rc ->
     snd r = None /\ st_store (fst r) = insert s p (mkRec (chmod_mode (r_mode rc) m) (r_mtime rc) (r_cell rc))).
Proof. exact kv_chmod_spec. Qed.
Print Assumptions C01_chmod_spec.

Theorem C01_chtimes_spec : forall st p t, good st ->
  let s := st_store st in
  let r := kv_chtimes st p t in
  (valid_path p = false -> snd r = Some (PathErr p EINVAL) /\ st_store (fst r) = s) /\
  (valid_path p = true -> lookup s p = None ->
     exists c, snd r = Some (PathErr p c) /\ enoent_or_enotdir c /\ st_store (fst r) = s) /\
  (valid_path p = true -> forall rc, lookup s p = Some rc ->
     snd r = None /\ st_store (fst r) = insert s p (mkRec (r_mode rc) (Explicit t) (r_cell rc))).
Proof. exact kv_chtimes_spec. Qed.
Print Assumptions C01_chtimes_spec.

Theorem C01_openfile_spec : forall st p flag perm, good st ->
  let s := st_store st in
  let r := kv_openfile st p flag perm in
  let create := has_flag flag F_CREATE in
  (valid_path p = false -> snd r = inr (PathErr p EINVAL) /\ st_store (fst r) = s) /\
  (valid_path p = true -> forall rc, lookup s p = Some rc ->
     if create && has_flag flag F_EXCL then snd r = inr (PathErr p EEXIST) /\ st_store (fst r) = s
     else if is_dir (r_mode rc) && has_flag flag dir_open_mask then snd r = inr (PathErr p EISDIR) /\ st_store (fst r) = s
     else (exists f, snd r = inl f /\ keeps (mk_file p rc) f) /\
          (st_store (fst r) = s \/
           (has_flag flag F_TRUNC = true /\ st_store (fst r) = insert s p (mkRec (r_mode rc) Clock (r_cell rc))))) /\
  (valid_path p = true -> lookup s p = None ->
     if create then
       match lookup s (path_dir p) with
       | Some par =>
         if is_dir (r_mode par)
         then (exists f, snd r = inl f /\ h_path f = p /\ f_mode f = N.land perm ModePerm) /\
              exists c, store_upd s p (mkRec (N.land perm ModePerm) Clock c) (st_store (fst r))
         else snd r = inr (PathErr p ENOTDIR) /\ st_store (fst r) = s
       | None => exists c, snd r = inr (PathErr p c) /\ enoent_or_enotdir c /\ st_store (fst r) = s
       end
     else exists c, snd r = inr (PathErr p c) /\ enoent_or_enotdir c /\ st_store (fst r) = s).
Proof. exact kv_openfile_spec. Qed.
Print Assumptions C01_openfile_spec.

Theorem C01_rename_of_a_non_directory_spec : forall fuel st o n rc, good st ->
  valid_path o = true -> valid_path n = true ->
  lookup (st_store st) o = Some rc -> is_dir (r_mode rc) = false ->
  let s := st_store st in
  let r := kv_rename (Datatypes.S fuel) st o n in
  (o = n -> snd r = None /\ st_store (fst r) = s) /\
  (o <> n -> ~ has_dir s (path_dir n) -> exists c, snd r = Some (LinkErr o n c) /\ st_store (fst r) = s) /\
  (o <> n -> has_dir s (path_dir n) -> forall rn, lookup s n = Some rn -> is_dir (r_mode rn) = true ->
     snd r = Some (LinkErr o n EEXIST) /\ st_store (fst r) = s) /\
  (o <> n -> has_dir s (path_dir n) ->
     (lookup s n = None \/ exists rn, lookup s n = Some rn /\ is_dir (r_mode rn) = false) ->
     snd r = None /\ st_store (fst r) = remove_key (insert s n (mkRec (r_mode rc) (r_mtime rc) (r_cell rc))) o).
Proof. exact kv_rename_file_spec. Qed.
Print Assumptions C01_rename_of_a_non_directory_spec.

Theorem C01_readfile_returns_the_files_bytes : forall st p rc, good st -> valid_path p = true ->
  lookup (st_store st) p = Some rc -> is_regular (r_mode rc) = true ->
  snd (kv_readfile st p) = inl (cell st (r_cell rc)) /\ st_store (fst (kv_readfile st p)) = st_store st.
Proof. exact kv_readfile_spec. Qed.
Print Assumptions C01_readfile_returns_the_files_bytes.

Theorem C01_write_new_file_then_read_returns_the_data : forall st p d perm, good st -> valid_path p = true ->
  lookup (st_store st) p = None -> has_dir (st_store st) (path_dir p) -> d <> [] ->
  snd (kv_writefile st p d perm) = None /\ snd (kv_readfile (fst (kv_writefile st p d perm)) p) = inl d.
Proof. exact write_new_then_read. Qed.
Print Assumptions C01_write_new_file_then_read_returns_the_data.

(* MkdirAll: success means the directory exists afterwards and no directory that existed was lost; a failure
   changes nothing *)
Theorem C01_mkdirall_spec : forall st p perm, good st -> valid_path p = true ->
  let r := kv_mkdirall st p perm in
  (snd r = None /\ has_dir (st_store (fst r)) p /\ forall q, has_dir (st_store st) q -> has_dir (st_store (fst r)) q)
  \/ (snd r <> None /\ st_store (fst r) = st_store st).
Proof. exact kv_mkdirall_spec. Qed.
Print Assumptions C01_mkdirall_spec.

(* RemoveAll: when it reports success, the name is gone (and by C03 nothing is left orphaned below it) *)
Theorem C01_removeall_success_means_gone : forall fuel st p, good st ->
  snd (remove_all fuel st p) = None -> lookup (st_store (fst (remove_all fuel st p))) p = None.
Proof. exact remove_all_success_means_gone. Qed.
Print Assumptions C01_removeall_success_means_gone.

(* the states the specifications speak about are all the reachable ones *)
Theorem C01_reachable_states_are_good : forall ops, Forall ns_op ops -> good (exec ops).
Proof. exact history_good. Qed.
Print Assumptions C01_reachable_states_are_good.

(* chmod only touches permission, setuid/setgid and sticky bits: the kind of the entry cannot change *)
Theorem C01_chmod_keeps_the_kind : forall old m, is_dir (chmod_mode old m) = is_dir old.
Proof. exact chmod_mode_is_dir. Qed.
Print Assumptions C01_chmod_keeps_the_kind.

(* refuted: reading a directory as a file *)
Theorem C01_readfile_of_directory_refuted :
  exists ops p, Forall ns_op ops /\ snd (step (exec ops) (ReadFile p)) = VBytes []
                /\ exists r, lookup (st_store (exec ops)) p = Some r /\ is_dir (r_mode r) = true.
Proof.
  exists [Mkdir (S "d") 493], (S "d"). split; [repeat constructor|]. split; [vm_compute; reflexivity|].
  eexists. split; vm_compute; reflexivity.
Qed.
Print Assumptions C01_readfile_of_directory_refuted.

Example C01_nonvacuous :
  good (exec [Mkdir (S "a") 493; WriteFile (S "a/f") [1; 2] 420])
  /\ snd (step (exec [Mkdir (S "a") 493]) (Mkdir (S "a/b") 448)) = VOk
  /\ snd (step (exec [Mkdir (S "a") 493]) (Mkdir (S "a") 448)) = VErr (PathErr (S "a") EEXIST).
Proof. split; [apply history_good; repeat constructor|vm_compute; split; reflexivity]. Qed.
