(* C01 -- Namespace operations of the in-memory/key-value FS behave like the os package.
   Model: the key-value FS model (KV/FS.v, KV/Run.v); the reference is the Go os package itself, run by the
   harness in an empty temp directory on the same history (success/failure, data, whole tree after every
   step); the model is compared with the implementation step by step (results and whole tree).
   The "os side" cannot be a Coq object; what is PROVED is the model's functional specification in POSIX
   terms, for EVERY well-formed fault-free state (C03 proves every reachable state is one) and every argument:
     Stat    succeeds iff the name is valid and present; changes nothing;
     Mkdir   succeeds iff valid, absent and the parent is a directory; then exactly one directory record is
             added with the requested permission bits; every failure changes nothing;
     Remove  succeeds iff valid, present, not the root and (not a directory or an empty one); then exactly
             that record is gone; every failure changes nothing;
     Chmod / Chtimes succeed iff valid and present; then only that record's permission bits / mod time change;
   plus the invariant that makes the comparison with a real tree meaningful (C03) and the handle
   theorems of C02.  NOT proved (compared with os and the model on every run instead): the specifications
   of OpenFile's flag combinations, WriteFullFile, MkdirAll, RemoveAll and Rename.
   Refuted (known finding): ReadFile of a directory succeeds with no bytes where os fails with EISDIR. *)
From HP Require Import Base.Prelude Base.Path KV.Types KV.FS KV.Handle KV.Run KV.TreeProofs KV.SpecProofs.
Open Scope N_scope.

Theorem C01_stat_spec : forall st p, good st ->
  st_store (fst (kv_stat st p)) = st_store st /\
  (valid_path p = false -> snd (kv_stat st p) = inr (PathErr p EINVAL)) /\
  (valid_path p = true -> forall rc, lookup (st_store st) p = Some rc -> snd (kv_stat st p) = inl (mk_file p rc)) /\
  (valid_path p = true -> lookup (st_store st) p = None ->
     exists c, snd (kv_stat st p) = inr (PathErr p c) /\ enoent_or_enotdir c /\
               ((p = dot \/ has_dir (st_store st) (path_dir p)) -> c = ENOENT)).
Proof. exact kv_stat_spec. Qed.
Print Assumptions C01_stat_spec.

Theorem C01_mkdir_spec : forall st p perm, good st ->
  let s := st_store st in
  let r := kv_mkdir st p perm in
  (valid_path p = false -> snd r = Some (PathErr p EINVAL) /\ st_store (fst r) = s) /\
  (valid_path p = true -> lookup s p <> None -> snd r = Some (PathErr p EEXIST) /\ st_store (fst r) = s) /\
  (valid_path p = true -> lookup s p = None -> has_dir s (path_dir p) ->
     snd r = None /\ exists rc, st_store (fst r) = insert s p rc /\ r_mode rc = N.lor ModeDir (N.land perm ModePerm)) /\
  (valid_path p = true -> lookup s p = None -> ~ has_dir s (path_dir p) ->
     exists c, snd r = Some (PathErr p c) /\ enoent_or_enotdir c /\ st_store (fst r) = s).
Proof. exact kv_mkdir_spec. Qed.
Print Assumptions C01_mkdir_spec.

Theorem C01_remove_spec : forall st p, good st ->
  let s := st_store st in
  let r := kv_remove st p in
  (valid_path p = false -> snd r = Some (PathErr p EINVAL) /\ st_store (fst r) = s) /\
  (valid_path p = true -> lookup s p = None ->
     exists c, snd r = Some (PathErr p c) /\ enoent_or_enotdir c /\ st_store (fst r) = s) /\
  (snd (kv_remove st dot) = Some (PathErr dot EINVAL) /\ st_store (fst (kv_remove st dot)) = s) /\
  (valid_path p = true -> p <> dot -> forall rc, lookup s p = Some rc ->
     if is_dir (r_mode rc) && match child_names p s with [] => false | _ => true end
     then snd r = Some (PathErr p ENOTEMPTY) /\ st_store (fst r) = s
     else snd r = None /\ st_store (fst r) = remove_key s p).
Proof. exact kv_remove_spec. Qed.
Print Assumptions C01_remove_spec.

Theorem C01_chmod_spec : forall st p m, good st ->
  let s := st_store st in
  let r := kv_chmod st p m in
  (valid_path p = false -> snd r = Some (PathErr p EINVAL) /\ st_store (fst r) = s) /\
  (valid_path p = true -> lookup s p = None ->
     exists c, snd r = Some (PathErr p c) /\ enoent_or_enotdir c /\ st_store (fst r) = s) /\
  (valid_path p = true -> forall rc, lookup s p = Some rc ->
     snd r = None /\ st_store (fst r) = insert s p (mkRec (chmod_mode (r_mode rc) m) (r_mtime rc) (r_cell rc))).
Proof. exact kv_chmod_spec. Qed.
Print Assumptions C01_chmod_spec.

Theorem C01_chtimes_spec : forall st p t, good st ->
  let s := st_store st in
  let r := kv_chtimes st p t in
  (valid_path p = false -> snd r = Some (PathErr p EINVAL) /\ st_store (fst r) = s) /\
  (valid_path p = true -> lookup s p = None ->
     exists c, snd r = Some (PathErr p c) /\ enoent_or_enotdir c /\ st_store (fst r) = s) /\
  (valid_path p = true -> forall rc, lookup s p = Some rc ->
     snd r = None /\ st_store (fst r) = insert s p (mkRec (r_mode rc) (Explicit t) (r_cell rc))).
Proof. exact kv_chtimes_spec. Qed.
Print Assumptions C01_chtimes_spec.

(* the states the specifications speak about are all the reachable ones *)
Theorem C01_reachable_states_are_good : forall ops, Forall ns_op ops -> good (exec ops).
Proof. exact history_good. Qed.
Print Assumptions C01_reachable_states_are_good.

(* chmod only touches permission, setuid/setgid and sticky bits: the kind of the entry cannot change *)
Theorem C01_chmod_keeps_the_kind : forall old m, is_dir (chmod_mode old m) = is_dir old.
Proof. exact chmod_mode_is_dir. Qed.
Print Assumptions C01_chmod_keeps_the_kind.

(* refuted: reading a directory as a file *)
Theorem C01_readfile_of_directory_refuted :
  exists ops p, Forall ns_op ops /\ snd (step (exec ops) (ReadFile p)) = VBytes []
                /\ exists r, lookup (st_store (exec ops)) p = Some r /\ is_dir (r_mode r) = true.
Proof.
  exists [Mkdir (S "d") 493], (S "d"). split; [repeat constructor|]. split; [vm_compute; reflexivity|].
  eexists. split; vm_compute; reflexivity.
Qed.
Print Assumptions C01_readfile_of_directory_refuted.

Example C01_nonvacuous :
  good (exec [Mkdir (S "a") 493; WriteFile (S "a/f") [1; 2] 420])
  /\ snd (step (exec [Mkdir (S "a") 493]) (Mkdir (S "a/b") 448)) = VOk
  /\ snd (step (exec [Mkdir (S "a") 493]) (Mkdir (S "a") 448)) = VErr (PathErr (S "a") EEXIST).
Proof. split; [apply history_good; repeat constructor|vm_compute; split; reflexivity]. Qed.
