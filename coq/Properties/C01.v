From HP Require Import Base.Prelude KV.Types KV.FS KV.Run.
Example C01_smoke : snapshot kv_init <> [].
Proof. vm_compute. discriminate. Qed.
Print Assumptions C01_smoke.
