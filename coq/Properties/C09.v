From HP Require Import Base.Prelude Base.Path OSPath.OSPath.
Example C09_smoke : to_os false 47 [] (S "tmp/root") (S "a/b") = Some (S "/tmp/root/a/b").
Proof. vm_compute. reflexivity. Qed.
Print Assumptions C09_smoke.
