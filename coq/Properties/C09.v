(* C09 -- os.FS maps names to OS paths inside its root, reversibly.
   Model: OSPath/OSPath.v ([to_os] = FS.toOSPath, [from_os] = FS.fromOSPath, [sub_root] = Sub), for an
   explicit convention: [w] = goos is "windows", [sep] = filepath.Separator, [vol] = the SubVolume name.
   filepath.VolumeName is OS library code: its result for the path at hand is the argument [pvol].
   The root of an os.FS is "" or the result of Sub calls, i.e. it satisfies [root_ok] (C09_sub_roots_are_ok).
   Not in the model: the error path rewriting of os/fs.go (checked by the harness on the real OS only). *)
From HP Require Import Base.Prelude Base.Path Base.PathProofs OSPath.OSPath OSPath.OSPathProofs.
Open Scope N_scope.

(* every chain of Sub calls from a fresh FS gives a root that is empty or a valid non-"." path *)
Theorem C09_sub_roots_are_ok : forall dirs r, sub_chain [] dirs = Some r -> root_ok r.
Proof. intros dirs r. apply sub_chain_ok. left. reflexivity. Qed.
Print Assumptions C09_sub_roots_are_ok.

Theorem C09_sub_is_root_joined_with_dir : forall root dir,
  root_ok root -> valid_path dir = true -> sub_root root dir = Some (rel_of root dir).
Proof. exact sub_root_rel. Qed.
Print Assumptions C09_sub_is_root_joined_with_dir.

(* the OS path is exactly volume + separator + (root joined with the name), in the OS's separator *)
Theorem C09_os_path_is_root_joined_with_name : forall w sep vol root p,
  root_ok root -> valid_path p = true -> sep_ok sep root p ->
  to_os w sep vol root p =
    Some (trim_right_byte sep (get_volume w vol) ++ sep :: from_separator sep (rel_of root p)).
Proof. exact to_os_exact. Qed.
Print Assumptions C09_os_path_is_root_joined_with_name.

Theorem C09_unix_os_path : forall root p, root_ok root -> valid_path p = true ->
  to_os false slash [] root p = Some (slash :: rel_of root p).
Proof. exact to_os_unix. Qed.
Print Assumptions C09_unix_os_path.

(* ... which is the root itself or lies below root + "/" *)
Theorem C09_valid_names_stay_inside_the_root : forall root p, root <> [] ->
  rel_of root p = root \/ has_prefix (rel_of root p) (root ++ [slash]) = true.
Proof. exact rel_of_confined. Qed.
Print Assumptions C09_valid_names_stay_inside_the_root.

(* invalid names are refused before any OS path exists; so are names or roots containing a non-'/' separator *)
Theorem C09_invalid_names_are_refused : forall w sep vol root p,
  valid_path p = false -> to_os w sep vol root p = None.
Proof. exact to_os_refuses_invalid. Qed.
Print Assumptions C09_invalid_names_are_refused.

Theorem C09_names_containing_the_os_separator_are_refused : forall w sep vol root p, sep <> slash ->
  contains_byte sep p = true \/ contains_byte sep root = true -> to_os w sep vol root p = None.
Proof. exact to_os_refuses_separator. Qed.
Print Assumptions C09_names_containing_the_os_separator_are_refused.

(* FromOSPath inverts ToOSPath on every valid name, for every convention *)
Theorem C09_from_os_inverts_to_os : forall w sep vol root p q,
  root_ok root -> valid_path p = true -> sep_ok sep root p ->
  trim_right_byte sep (get_volume w vol) = get_volume w vol ->
  to_os w sep vol root p = Some q ->
  from_os w sep vol root (get_volume w vol) q = Some p.
Proof. exact from_to_os. Qed.
Print Assumptions C09_from_os_inverts_to_os.

(* FromOSPath never returns a string that is not a valid FS path *)
Theorem C09_from_os_returns_only_valid_paths : forall w sep vol root pvol q r,
  from_os w sep vol root pvol q = Some r -> valid_path r = true.
Proof. exact from_os_result_valid. Qed.
Print Assumptions C09_from_os_returns_only_valid_paths.

(* it accepts only paths on its volume and inside its root; look-alike prefixes are outside *)
Theorem C09_from_os_refuses_other_volumes : forall w sep vol root pvol q,
  pvol <> get_volume w vol -> from_os w sep vol root pvol q = None.
Proof. exact from_os_refuses_other_volume. Qed.
Print Assumptions C09_from_os_refuses_other_volumes.

Theorem C09_from_os_accepts_only_paths_inside_the_root : forall w sep vol root q r, root <> [] ->
  from_os w sep vol root (get_volume w vol) q = Some r ->
  let fsp := to_separator sep (trim_prefix (trim_prefix q (get_volume w vol)) [sep]) in
  fsp = root \/ has_prefix fsp (root ++ [slash]) = true.
Proof. intros w sep vol root q r NR H. rewrite from_os_unfold in H. eapply from_rel_inside; eauto. Qed.
Print Assumptions C09_from_os_accepts_only_paths_inside_the_root.

Theorem C09_lookalike_prefix_is_outside : forall root c rest, root <> [] -> c <> slash ->
  from_os false slash [] root [] (slash :: root ++ c :: rest) = None.
Proof.
  intros root c rest NR NC.
  change (from_os false slash [] root [] (slash :: root ++ c :: rest))
    with (from_os false slash [] root (get_volume false []) (slash :: root ++ c :: rest)).
  rewrite from_os_unfold. change (get_volume false []) with (@nil N). rewrite trim_prefix_nil.
  change (slash :: root ++ c :: rest) with ([slash] ++ (root ++ c :: rest)). rewrite trim_prefix_app.
  apply from_rel_lookalike; assumption.
Qed.
Print Assumptions C09_lookalike_prefix_is_outside.

Example C09_nonvacuous :
  root_ok (S "tmp/root") /\ to_os false 47 [] (S "tmp/root") (S "a/b") = Some (S "/tmp/root/a/b")
  /\ from_os false 47 [] (S "tmp/root") [] (S "/tmp/root/a/b") = Some (S "a/b")
  /\ from_os false 47 [] (S "tmp/root") [] (S "/tmp/rootx/a") = None
  /\ to_os true 92 [] (S "Users/x") (S "a/b") = Some (S "C:\Users\x\a\b")
  /\ from_os true 92 [] (S "Users/x") (S "C:") (S "C:\Users\x\a\b") = Some (S "a/b")
  /\ sub_chain [] [S "tmp"; S "."; S "root"] = Some (S "tmp/root").
Proof. unfold root_ok. vm_compute. repeat split; auto. right. split; [reflexivity|discriminate]. Qed.
