(* C03 -- The namespace is always a well-formed tree: no orphans, no hidden entries.
   Model: the key-value FS model (KV/FS.v, KV/Run.v: [step], [exec]) -- mem.FS forwards every method to it.
   [wf_store s]: the root is a key and a directory; every key is the root or a path of real names (no empty,
   "." or ".." element); every other key's parent (path.Dir) is a key and a directory.
   PROVED, for EVERY history of namespace operations (Mkdir, MkdirAll, OpenFile+Close with any flags,
   WriteFullFile, Remove, RemoveAll, Rename incl. directories moved with all their descendants, Chmod,
   Chtimes, Stat, ReadDir, ReadFile), every argument, successful or failed, no bound on length or depth:
   the store is well-formed after every step -- so no operation ends having made an entry unreachable.
   Consequences: a path Stat accepts has a parent that is a directory and whose listing names it.
   Every operation of the model terminates (Coq functions are total; the recursions of RemoveAll/Rename
   are bounded by fuel = number of records + 2: running out would show as a correspondence mismatch).
   Compositions: a Sub view and a mount FS only run key-value operations on their constituents, so every
   constituent stays well-formed (proved; for mount every operation but Rename, whose cross-mount copy is
   exercised by the harness); the composition-level invariant "a mount point's directory exists" is REFUTED
   (known finding: RemoveAll of the directory that holds a mount point).
   Hypothesis: no store failure (C14 treats failures).  NOT covered by theorems: writes through handles
   that outlive the removal of their path (C17 known finding). *)
From HP Require Import Base.Prelude Base.Path Base.DirProofs KV.Types KV.FS KV.Handle KV.Run KV.TreeProofs
  Compose.Mount Compose.Sub Compose.ComposeTree.
Open Scope N_scope.

Theorem C03_every_history_keeps_the_tree_well_formed : forall ops, Forall ns_op ops ->
  st_fault (exec ops) = None /\ wf_store (st_store (exec ops)).
Proof. exact history_good. Qed.
Print Assumptions C03_every_history_keeps_the_tree_well_formed.

Theorem C03_every_operation_preserves_well_formedness : forall st o, good st -> ns_op o -> good (fst (step st o)).
Proof. exact step_good. Qed.
Print Assumptions C03_every_operation_preserves_well_formedness.

(* Rename: also when it moves a directory tree, the old name is gone and only names at or below the new
   name appear *)
Theorem C03_rename_moves_without_orphans : forall fuel st o n, good st ->
  good (fst (kv_rename fuel st o n)) /\
  (snd (kv_rename fuel st o n) = None -> o <> n ->
     lookup (st_store (fst (kv_rename fuel st o n))) o = None /\
     forall k, lookup (st_store (fst (kv_rename fuel st o n))) k <> None -> lookup (st_store st) k <> None \/ anc n k).
Proof. exact kv_rename_ok. Qed.
Print Assumptions C03_rename_moves_without_orphans.

(* what well-formedness gives the user: the parent exists, is a directory, and lists the entry *)
Theorem C03_parent_is_a_directory_that_lists_the_entry : forall s p r,
  wf_store s -> lookup s p = Some r -> p <> dot ->
  has_dir s (path_dir p) /\ exists c, child_name (path_dir p) p = Some c /\ In c (child_names (path_dir p) s).
Proof. exact parent_lists_child. Qed.
Print Assumptions C03_parent_is_a_directory_that_lists_the_entry.

(* a directory can only be removed when nothing is below it; a non-directory never has anything below it *)
Theorem C03_empty_listing_means_no_children : forall s p, wf_store s -> child_names p s = [] -> childless s p.
Proof. exact empty_listing_childless. Qed.
Print Assumptions C03_empty_listing_means_no_children.

Theorem C03_nothing_below_a_file : forall s p r,
  wf_store s -> lookup s p = Some r -> is_dir (r_mode r) = false -> childless s p.
Proof. exact nondir_childless. Qed.
Print Assumptions C03_nothing_below_a_file.

(* through a Sub view: whatever the view does, the parent stays a well-formed tree *)
Theorem C03_sub_view_keeps_the_parent_well_formed : forall base st o, good st -> good (fst (sstep base st o)).
Proof. exact sstep_good. Qed.
Print Assumptions C03_sub_view_keeps_the_parent_well_formed.

(* through a mount FS: every constituent stays a well-formed tree *)
Theorem C03_mount_constituents_stay_well_formed : forall ops m, mgood m ->
  Forall (fun o => forall a b, o <> Rename a b) ops ->
  mgood (fold_left (fun s o => fst (mstep s o)) ops m).
Proof. exact mrun_good. Qed.
Print Assumptions C03_mount_constituents_stay_well_formed.

(* ... but the mount table is not kept consistent with them (known finding) *)
Theorem C03_mount_point_can_be_orphaned_refuted :
  let m' := fst (mstep (minit [S "a/b"]) (RemoveAll (S "a"))) in
  mgood m' /\ In (S "a/b", 1%nat) (m_table m') /\ lookup (st_store (fs_at m' 0)) (S "a/b") = None
  /\ lookup (st_store (fs_at m' 0)) (S "a") = None.
Proof. exact mount_point_can_be_orphaned. Qed.
Print Assumptions C03_mount_point_can_be_orphaned_refuted.

Example C03_nonvacuous :
  let ops := [MkdirAll (S "a/b") 493; WriteFile (S "a/b/f") [1; 2] 420; Rename (S "a") (S "c"); Remove (S "c/b/f")] in
  Forall ns_op ops /\ map (fun e => fst (fst (fst e))) (snapshot (exec ops)) = [S "."; S "c"; S "c/b"].
Proof. split; [repeat constructor|vm_compute; reflexivity]. Qed.
