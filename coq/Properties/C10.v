(* C10 -- The read-only cache is transparent: what it serves is what the source holds.
   Model: Cache/Cache.v ([copen] = ReadOnlyFS.Open at the level of whole-file contents; the copy
   runs in chunks of any size c > 0; [retain] is an arbitrary RetainData policy).  Handle-level
   behaviour (Read/Seek/paged ReadDir/Stat on what Open returns) is compared against the source on
   the real code by the harness; the theorems cover which BYTES an Open can ever hand out and
   when the source is consulted. *)
From HP Require Import Base.Prelude Cache.Cache Cache.CacheProofs KV.ListingProofs Cache.CacheDir Cache.CacheDirProofs.
Open Scope nat_scope.

(* Every state reachable by any sequence of opens (with or without faults) satisfies the invariant:
   whatever the cache holds and has not marked incomplete IS the complete source file. *)
Theorem C10_cache_holds_only_complete_copies : forall src retain c can_remove ops,
  0 < c -> cinv src (fst (cruns src retain c can_remove cinit ops)).
Proof. intros src retain c can_remove ops Hc. apply cruns_inv; [exact Hc|apply cinv_init]. Qed.
Print Assumptions C10_cache_holds_only_complete_copies.

(* Transparency: in any reachable state, an Open that succeeds on a file serves exactly the source's
   bytes, for every policy, chunk size and store kind. *)
Theorem C10_open_serves_the_source_bytes : forall src retain c can_remove ops ft part n d,
  0 < c ->
  snd (copen src retain c can_remove ft part (fst (cruns src retain c can_remove cinit ops)) n) = Served d ->
  slookup src n = Some (SFile d).
Proof.
  intros src retain c can_remove ops ft part n d Hc.
  apply copen_serves_source; [exact Hc|]. apply cruns_inv; [exact Hc|apply cinv_init].
Qed.
Print Assumptions C10_open_serves_the_source_bytes.

(* Once a retained file has been opened successfully it is settled ... *)
Theorem C10_successful_open_settles : forall src retain c can_remove st n d,
  0 < c -> retain n = true ->
  snd (copen src retain c can_remove FNone 0 st n) = Served d ->
  settled (fst (copen src retain c can_remove FNone 0 st n)) n.
Proof. exact open_settles. Qed.
Print Assumptions C10_successful_open_settles.

(* ... later opens of it do not touch the source at all (the access log is unchanged) ... *)
Theorem C10_no_reread : forall src retain c can_remove ft part st n data,
  slookup src n = Some (SFile data) -> settled st n ->
  cs_log (fst (copen src retain c can_remove ft part st n)) = cs_log st
  /\ settled (fst (copen src retain c can_remove ft part st n)) n.
Proof. exact settled_no_source_access. Qed.
Print Assumptions C10_no_reread.

(* ... and opening anything else, successfully or not, does not unsettle it. *)
Theorem C10_settled_is_stable : forall src retain c can_remove ft part st n m,
  str_eqb n m = false -> settled st m -> settled (fst (copen src retain c can_remove ft part st n)) m.
Proof. exact settled_stable. Qed.
Print Assumptions C10_settled_is_stable.

(* ---- directory handles (cache/dir.go): the handle keeps an offset and asks the source at every call ---- *)

(* While the source lists the directory, the cache's handle is the same pager as the directory handle of the
   key-value file system (C16's [zpage]: positive count = at most n more, non-positive = all that remain). *)
Theorem C10_dir_handle_is_the_pager : forall es off n, off <= length es ->
  cdir_read (Some es) off n =
  match zpage es off n with
  | Some (p, o) => (DEntries p, o)
  | None => (DEOF, off)
  end.
Proof. exact cdir_is_the_pager. Qed.
Print Assumptions C10_dir_handle_is_the_pager.

(* The source's failure to list is the call's failure (not an empty page, not the end), the handle does not move,
   and no other error exists. *)
Theorem C10_dir_source_failure_is_reported : forall off n, cdir_read None off n = (DErr, off).
Proof. exact cdir_source_failure_is_reported. Qed.
Print Assumptions C10_dir_source_failure_is_reported.

Theorem C10_dir_error_only_from_the_source : forall src off n, fst (cdir_read src off n) = DErr -> src = None.
Proof. exact cdir_error_only_from_the_source. Qed.
Print Assumptions C10_dir_error_only_from_the_source.

(* Any sequence of calls, any counts, the source failing at any of them: what was delivered is exactly the listing
   from the start to where the handle stands. *)
Theorem C10_dir_failures_lose_nothing : forall es calls off, off <= length es ->
  let '(rs, o) := cdir_run es off calls in
  off <= o <= length es /\ delivered rs = sublist off o es.
Proof. exact cdir_failures_lose_nothing. Qed.
Print Assumptions C10_dir_failures_lose_nothing.

Theorem C10_dir_drained : forall es calls,
  let '(rs, o) := cdir_run es 0 (calls ++ [(true, 0%Z)]) in delivered rs = es.
Proof. exact cdir_drained. Qed.
Print Assumptions C10_dir_drained.

Example C10_nonvacuous :
  let src := [(S "f", SFile [1;2;3;4;5]%N); (S "d", SDir)] in
  let '(st, rs) := cruns src (fun _ => true) 2 true cinit [(S "f", FNone, 0); (S "d", FNone, 0); (S "f", FNone, 0)] in
  rs = [Served [1;2;3;4;5]%N; DirHandle; Served [1;2;3;4;5]%N] /\ count_opens (S "f") (cs_log st) = 2.
Proof. vm_compute. auto. Qed.
Print Assumptions C10_nonvacuous.
