(* C10 -- The read-only cache is transparent: what it serves is what the source holds.
   Model: Cache/Cache.v ([copen] = ReadOnlyFS.Open at the level of whole-file contents; the copy
   runs in chunks of any size c > 0; [retain] is an arbitrary RetainData policy).  Handle-level
   behaviour (Read/Seek/paged ReadDir/Stat on what Open returns) is compared against the source on
   the real code by the harness; the theorems cover which BYTES an Open can ever hand out and
   when the source is consulted. *)
From HP Require Import Base.Prelude Cache.Cache Cache.CacheProofs.
Open Scope nat_scope.

(* Every state reachable by any sequence of opens (with or without faults) satisfies the invariant:
   whatever the cache holds and has not marked incomplete IS the complete source file. *)
Theorem C10_cache_holds_only_complete_copies : forall src retain c can_remove ops,
  0 < c -> cinv src (fst (cruns src retain c can_remove cinit ops)).
Proof. intros src retain c can_remove ops Hc. apply cruns_inv; [exact Hc|apply cinv_init]. Qed.
Print Assumptions C10_cache_holds_only_complete_copies.

(* Transparency: in any reachable state, an Open that succeeds on a file serves exactly the source's
   bytes, for every policy, chunk size and store kind. *)
Theorem C10_open_serves_the_source_bytes : forall src retain c can_remove ops ft part n d,
  0 < c ->
  snd (copen src retain c can_remove ft part (fst (cruns src retain c can_remove cinit ops)) n) = Served d ->
  slookup src n = Some (SFile d).
Proof.
  intros src retain c can_remove ops ft part n d Hc.
  apply copen_serves_source; [exact Hc|]. apply cruns_inv; [exact Hc|apply cinv_init].
Qed.
Print Assumptions C10_open_serves_the_source_bytes.

(* Once a retained file has been opened successfully it is settled ... *)
Theorem C10_successful_open_settles : forall src retain c can_remove st n d,
  0 < c -> retain n = true ->
  snd (copen src retain c can_remove FNone 0 st n) = Served d ->
  settled (fst (copen src retain c can_remove FNone 0 st n)) n.
Proof. exact open_settles. Qed.
Print Assumptions C10_successful_open_settles.

(* ... later opens of it do not touch the source at all (the access log is unchanged) ... *)
Theorem C10_no_reread : forall src retain c can_remove ft part st n data,
  slookup src n = Some (SFile data) -> settled st n ->
  cs_log (fst (copen src retain c can_remove ft part st n)) = cs_log st
  /\ settled (fst (copen src retain c can_remove ft part st n)) n.
Proof. exact settled_no_source_access. Qed.
Print Assumptions C10_no_reread.

(* ... and opening anything else, successfully or not, does not unsettle it. *)
Theorem C10_settled_is_stable : forall src retain c can_remove ft part st n m,
  str_eqb n m = false -> settled st m -> settled (fst (copen src retain c can_remove ft part st n)) m.
Proof. exact settled_stable. Qed.
Print Assumptions C10_settled_is_stable.

Example C10_nonvacuous :
  let src := [(S "f", SFile [1;2;3;4;5]%N); (S "d", SDir)] in
  let '(st, rs) := cruns src (fun _ => true) 2 true cinit [(S "f", FNone, 0); (S "d", FNone, 0); (S "f", FNone, 0)] in
  rs = [Served [1;2;3;4;5]%N; DirHandle; Served [1;2;3;4;5]%N] /\ count_opens (S "f") (cs_log st) = 2.
Proof. vm_compute. auto. Qed.
Print Assumptions C10_nonvacuous.
