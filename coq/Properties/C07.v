(* C07 -- A Sub view is indistinguishable from the subtree and cannot reach outside it.
   Model: [sstep base] = one operation on Sub(fs, base) for the generic subFS over a key-value FS
   (Compose/Sub.v), [sub_route] = subFS.Mount.  The equivalence with the operation on fs at base/name is
   how the model is built (and is checked against the code by running both on identical copies);
   what is PROVED is where a view can reach: the name it hands to the underlying FS.
   Rename through the generic view is refused with ErrNotImplemented (refuted below); Sub of a mount FS
   above a mount point hides the mounts (known finding, harness only). *)
From HP Require Import Base.Prelude Base.Path Base.PathProofs KV.Types KV.FS KV.Handle KV.Run KV.GateProofs
  Compose.Mount Compose.Sub Compose.GateCompose Compose.ErrPaths.
Open Scope N_scope.

(* The underlying name is exactly base joined with the name ... *)
Theorem C07_view_addresses_base_joined_with_name : forall base name,
  valid_path base = true -> valid_path name = true ->
  sub_route base name = if str_eqb base dot then name else if str_eqb name dot then base else base ++ slash :: name.
Proof. intros base name Hb Hn. unfold sub_route. rewrite Hn. apply join2_valid; assumption. Qed.
Print Assumptions C07_view_addresses_base_joined_with_name.

(* ... which is the base directory itself or lies below it: nothing outside can be named through the view
   (a ".." element cannot pass ValidPath). *)
Theorem C07_view_confined_to_its_subtree : forall base name,
  valid_path base = true -> valid_path name = true -> base <> dot ->
  sub_route base name = base \/ has_prefix (sub_route base name) (base ++ [slash]) = true.
Proof. intros base name Hb Hn Db. unfold sub_route. rewrite Hn. apply join2_confined; assumption. Qed.
Print Assumptions C07_view_confined_to_its_subtree.

Theorem C07_underlying_name_is_valid : forall base name,
  valid_path base = true -> valid_path name = true -> valid_path (sub_route base name) = true.
Proof. intros base name Hb Hn. unfold sub_route. rewrite Hn. apply join2_valid_result; assumption. Qed.
Print Assumptions C07_underlying_name_is_valid.

(* An invalid name reaches the underlying FS unchanged and is refused there: nothing changes. *)
Theorem C07_invalid_name_changes_nothing : forall base st o p,
  names_of o = [p] -> valid_path p = false -> (forall q f m, o <> Open q f m) ->
  fst (sstep base st o) = st /\ snd (sstep base st o) = VErr (PathErr p EINVAL).
Proof. exact sub_gate. Qed.
Print Assumptions C07_invalid_name_changes_nothing.

(* Every one-name operation on the view IS the operation on the underlying FS at the joined name, with
   the error paths translated back (by construction of the model; tied to the code by the correspondence). *)
Theorem C07_view_operation_is_the_parent_operation : forall base st p perm,
  sstep base st (Mkdir p perm) =
    (fst (step st (Mkdir (sub_route base p) perm)),
     map_obs_err (strip_err p (sub_route base p)) (snd (step st (Mkdir (sub_route base p) perm))))
  /\ sstep base st (Remove p) =
    (fst (step st (Remove (sub_route base p))),
     map_obs_err (strip_err p (sub_route base p)) (snd (step st (Remove (sub_route base p))))).
Proof.
  intros base st p perm. unfold sstep, sroute1.
  split; match goal with |- context [step st ?x] => destruct (step st x) end; reflexivity.
Qed.
Print Assumptions C07_view_operation_is_the_parent_operation.

(* Error paths come back in the view's namespace: the path the view addressed translates back to the caller's name, and
   an error about the base directory itself (it is a regular file, say) is an error about the view's root "." -- the
   case repaired in /repo (round sixteen). *)
Theorem C07_error_paths_come_back_in_the_views_namespace : forall base name,
  valid_path base = true -> valid_path name = true ->
  strip_path name (sub_route base name) (sub_route base name) = name
  /\ (base <> dot -> name <> dot -> strip_path name (sub_route base name) base = dot).
Proof.
  intros base name Vb Vn. split; [apply strip_path_sub; assumption|].
  intros Db Dn. apply strip_path_sub_base; assumption.
Qed.
Print Assumptions C07_error_paths_come_back_in_the_views_namespace.

(* Refuted: Rename through the generic view is not the parent's Rename. *)
Theorem C07_rename_through_view_refuted : forall base st a b,
  sstep base st (Rename a b) = (st, VErr (LinkErr a b ENOSYS)).
Proof. reflexivity. Qed.
Print Assumptions C07_rename_through_view_refuted.

Example C07_nonvacuous :
  sub_route (S "a/b") (S "x/y") = S "a/b/x/y" /\ sub_route (S "a") dot = S "a" /\ sub_route dot (S "x") = S "x"
  /\ valid_path (S "../x") = false.
Proof. vm_compute. auto. Qed.
Print Assumptions C07_nonvacuous.
