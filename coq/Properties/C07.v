From HP Require Import Base.Prelude Base.Path KV.Types KV.Run Compose.Sub.
Example C07_smoke : sub_route (S "a") (S "x/y") = S "a/x/y".
Proof. vm_compute. reflexivity. Qed.
Print Assumptions C07_smoke.
