(* Common definitions shared by all models: byte strings, outcomes, list helpers.
   Plain Coq stdlib only; every function is total and computes with vm_compute. *)
From Coq Require Export List NArith ZArith Bool Lia.
From Coq Require String Ascii.
Export String.StringSyntax Ascii.AsciiSyntax.
Export ListNotations.
Open Scope N_scope.

(* A byte is an N (0..255), a string is a list of bytes. *)
Definition byte := N.
Definition str := list N.

Definition S (x : String.string) : str :=
  List.map (fun a => Ascii.N_of_ascii a) (String.list_ascii_of_string x).

Fixpoint str_eqb (a b : str) : bool :=
  match a, b with
  | [], [] => true
  | x :: a', y :: b' => N.eqb x y && str_eqb a' b'
  | _, _ => false
  end.

Lemma str_eqb_spec a b : reflect (a = b) (str_eqb a b).
Proof.
  revert b; induction a as [|x a IH]; intros [|y b]; simpl; try (constructor; congruence).
  destruct (N.eqb_spec x y) as [->|Hne]; simpl.
  - destruct (IH b) as [->|Hne]; constructor; congruence.
  - constructor; congruence.
Qed.

Lemma str_eqb_eq a b : str_eqb a b = true <-> a = b.
Proof. destruct (str_eqb_spec a b); split; congruence. Qed.

Lemma str_eqb_refl a : str_eqb a a = true.
Proof. apply str_eqb_eq; reflexivity. Qed.

(* zeros n = n zero bytes *)
Definition zeros (n : nat) : list N := repeat 0 n.

(* sublist s e l = l[s:e] (s <= e <= length l expected) *)
Definition sublist {A} (s e : nat) (l : list A) : list A := firstn (e - s) (skipn s l).

(* splice l o d = l with d written at offset o (o + length d <= length l expected) *)
Definition splice {A} (l : list A) (o : nat) (d : list A) : list A :=
  firstn o l ++ d ++ skipn (o + length d) l.

Lemma splice_length {A} (l d : list A) o :
  (o + length d <= length l)%nat -> length (splice l o d) = length l.
Proof.
  intros H; unfold splice.
  rewrite !app_length, firstn_length, skipn_length. lia.
Qed.

Lemma sublist_length {A} (l : list A) s e :
  (s <= e)%nat -> (e <= length l)%nat -> length (sublist s e l) = (e - s)%nat.
Proof.
  intros H1 H2; unfold sublist. rewrite firstn_length, skipn_length. lia.
Qed.

Fixpoint list_set {A} (l : list A) (i : nat) (x : A) : list A :=
  match l, i with
  | [], _ => []
  | _ :: t, O => x :: t
  | h :: t, Datatypes.S i' => h :: list_set t i' x
  end.

Lemma list_set_length {A} (l : list A) i x : length (list_set l i x) = length l.
Proof. revert i; induction l; intros [|i]; simpl; auto. Qed.

Lemma nth_error_list_set_eq {A} (l : list A) i x :
  (i < length l)%nat -> nth_error (list_set l i x) i = Some x.
Proof. revert i; induction l; intros [|i] H; simpl in *; try lia; auto. apply IHl; lia. Qed.

Lemma nth_error_list_set_neq {A} (l : list A) i j x :
  i <> j -> nth_error (list_set l i x) j = nth_error l j.
Proof.
  revert i j; induction l; intros [|i] [|j] H; simpl; auto; try congruence.
Qed.

Arguments S _%string_scope.

(* Correspondence support: indices (as N) of the cases on which [chk] is false. *)
Fixpoint mismatch_ids {A} (chk : A -> bool) (i : N) (cs : list A) : list N :=
  match cs with
  | [] => []
  | c :: rest => if chk c then mismatch_ids chk (i + 1) rest else i :: mismatch_ids chk (i + 1) rest
  end.

Fixpoint list_eqb {A} (eqb : A -> A -> bool) (a b : list A) : bool :=
  match a, b with
  | [], [] => true
  | x :: a', y :: b' => eqb x y && list_eqb eqb a' b'
  | _, _ => false
  end.
