(* Pointwise (nth_error) characterisations of sublist / splice / firstn / skipn / app,
   and list extensionality; used to prove byte-level laws by case analysis + lia. *)
From HP Require Import Base.Prelude.
Open Scope nat_scope.

Lemma nth_error_ext {A} (a b : list A) : (forall i, nth_error a i = nth_error b i) -> a = b.
Proof.
  revert b; induction a as [|x a IH]; intros [|y b] H; auto.
  - specialize (H 0); discriminate.
  - specialize (H 0); discriminate.
  - f_equal.
    + specialize (H 0); simpl in H; congruence.
    + apply IH; intros i; exact (H (Datatypes.S i)).
Qed.

Lemma nth_error_skipn {A} (l : list A) n i : nth_error (skipn n l) i = nth_error l (n + i).
Proof. revert l; induction n; intros [|x l]; simpl; auto. destruct i; reflexivity. Qed.

Lemma nth_error_firstn {A} (l : list A) n i :
  nth_error (firstn n l) i = if i <? n then nth_error l i else None.
Proof.
  revert l i; induction n; intros l i; simpl.
  - destruct i; reflexivity.
  - destruct l as [|x l]; simpl.
    + destruct i; simpl; [reflexivity|]. destruct (Datatypes.S i <? Datatypes.S n); reflexivity.
    + destruct i; [reflexivity|]. change (nth_error (x :: firstn n l) (Datatypes.S i)) with (nth_error (firstn n l) i).
      rewrite IHn. change (Datatypes.S i <? Datatypes.S n) with (i <? n). reflexivity.
Qed.

Lemma nth_error_sublist {A} (l : list A) s e i :
  nth_error (sublist s e l) i = if i <? e - s then nth_error l (s + i) else None.
Proof. unfold sublist. rewrite nth_error_firstn, nth_error_skipn. reflexivity. Qed.

Lemma nth_error_app {A} (a b : list A) i :
  nth_error (a ++ b) i = if i <? length a then nth_error a i else nth_error b (i - length a).
Proof.
  destruct (Nat.ltb_spec i (length a)).
  - apply nth_error_app1; assumption.
  - apply nth_error_app2; assumption.
Qed.

Lemma nth_error_splice {A} (l d : list A) o i : o + length d <= length l ->
  nth_error (splice l o d) i =
    if i <? o then nth_error l i else if i <? o + length d then nth_error d (i - o) else nth_error l i.
Proof.
  intros H. unfold splice. rewrite nth_error_app, firstn_length, Nat.min_l by lia.
  destruct (Nat.ltb_spec i o) as [Hi|Hi].
  - rewrite nth_error_firstn. destruct (Nat.ltb_spec i o); [reflexivity|lia].
  - rewrite nth_error_app. destruct (Nat.ltb_spec (i - o) (length d)) as [Hd|Hd];
      destruct (Nat.ltb_spec i (o + length d)); try lia; [reflexivity|].
    rewrite nth_error_skipn. f_equal. lia.
Qed.

Lemma nth_error_repeat {A} (x : A) n i : nth_error (repeat x n) i = if i <? n then Some x else None.
Proof.
  revert i; induction n; intros [|i]; simpl; auto. rewrite IHn. reflexivity.
Qed.

Lemma nth_error_None' {A} (l : list A) i : length l <= i -> nth_error l i = None.
Proof. apply nth_error_None. Qed.
