(* Lemmas about the path functions of Base/Path.v: splitting and joining on '/', io/fs.ValidPath,
   path.Clean and path.Join on valid paths. *)
From HP Require Import Base.Prelude Base.Path.
Open Scope N_scope.

(* ---- split_slash: recursive equations ---- *)
Lemma split_aux_eq s : forall cur,
  split_slash_aux cur s = (rev cur ++ hd [] (split_slash s)) :: tl (split_slash s).
Proof.
  induction s as [|c s IH]; intros cur; simpl.
  - rewrite app_nil_r. reflexivity.
  - unfold split_slash. simpl. destruct (N.eqb c slash).
    + simpl. rewrite app_nil_r. reflexivity.
    + rewrite (IH (c :: cur)), (IH [c]). simpl. rewrite <- app_assoc. reflexivity.
Qed.

Lemma split_nil : split_slash [] = [[]].
Proof. reflexivity. Qed.

Lemma split_cons_slash s : split_slash (slash :: s) = [] :: split_slash s.
Proof. reflexivity. Qed.

Lemma split_cons_other c s : N.eqb c slash = false ->
  split_slash (c :: s) = (c :: hd [] (split_slash s)) :: tl (split_slash s).
Proof. intros H. unfold split_slash at 1. simpl. rewrite H. rewrite split_aux_eq. reflexivity. Qed.

Lemma split_nonempty s : split_slash s <> [].
Proof. unfold split_slash. destruct s; simpl; [discriminate|]. destruct (N.eqb n slash); [discriminate|]. rewrite split_aux_eq. discriminate. Qed.

Lemma split_hd_tl s : split_slash s = hd [] (split_slash s) :: tl (split_slash s).
Proof. pose proof (split_nonempty s). destruct (split_slash s); [contradiction|reflexivity]. Qed.

(* ---- join after split, split of a concatenation ---- *)
Lemma join_cons2 x y r : join_slash (x :: y :: r) = x ++ slash :: join_slash (y :: r).
Proof. reflexivity. Qed.

Lemma join_split s : join_slash (split_slash s) = s.
Proof.
  induction s as [|c s IH].
  - reflexivity.
  - destruct (N.eqb_spec c slash) as [->|Hne].
    + rewrite split_cons_slash. destruct (split_slash s) as [|h t] eqn:E; [exfalso; exact (split_nonempty s E)|].
      rewrite join_cons2, IH. reflexivity.
    + rewrite split_cons_other by (apply N.eqb_neq; exact Hne).
      destruct (split_slash s) as [|h t] eqn:E; [exfalso; exact (split_nonempty s E)|].
      cbn [hd tl]. destruct t as [|y r].
      * simpl in *. rewrite IH. reflexivity.
      * rewrite join_cons2 in IH. rewrite join_cons2. rewrite <- IH. reflexivity.
Qed.

Lemma split_app_slash a b : split_slash (a ++ slash :: b) = split_slash a ++ split_slash b.
Proof.
  induction a as [|c a IH]; simpl.
  - rewrite split_cons_slash. reflexivity.
  - destruct (N.eqb_spec c slash) as [->|Hne].
    + rewrite !split_cons_slash, IH. reflexivity.
    + rewrite !split_cons_other by (apply N.eqb_neq; exact Hne). rewrite IH.
      rewrite (split_hd_tl a). reflexivity.
Qed.

Definition no_slash (e : str) : Prop := ~ In slash e.

Lemma split_no_slash e : no_slash e -> split_slash e = [e].
Proof.
  induction e as [|c e IH]; intros H; [reflexivity|].
  assert (Hc : N.eqb c slash = false) by (apply N.eqb_neq; intros ->; apply H; left; reflexivity).
  rewrite split_cons_other by exact Hc. rewrite IH by (intros X; apply H; right; exact X). reflexivity.
Qed.

Lemma split_elems_no_slash s : Forall no_slash (split_slash s).
Proof.
  induction s as [|c s IH]; [constructor; [intros []|constructor]|].
  destruct (N.eqb_spec c slash) as [->|Hne].
  - rewrite split_cons_slash. constructor; [intros []|exact IH].
  - rewrite split_cons_other by (apply N.eqb_neq; exact Hne). rewrite (split_hd_tl s) in IH.
    inversion IH as [|? ? Hh Ht]; subst. constructor; [|exact Ht].
    intros [X|X]; [congruence|apply Hh; exact X].
Qed.

Lemma split_join es : es <> [] -> Forall no_slash es -> split_slash (join_slash es) = es.
Proof.
  induction es as [|x es IH]; intros Hne Hns; [congruence|].
  inversion Hns as [|? ? Hx Hes]; subst. destruct es as [|y r].
  - simpl. apply split_no_slash; exact Hx.
  - rewrite join_cons2, split_app_slash, (split_no_slash x Hx), IH; [reflexivity|discriminate|exact Hes].
Qed.

(* ---- UTF-8: validity of a concatenation ---- *)
Lemma utf8_app a : forall b, utf8_valid a = true -> utf8_valid (a ++ b) = utf8_valid b.
Proof.
  remember (length a) as n eqn:Hn. revert a Hn.
  induction n as [n IH] using (well_founded_induction Wf_nat.lt_wf). intros a Hn b Ha.
  destruct a as [|b0 r0]; [reflexivity|].
  cbn [app]. cbn [utf8_valid] in Ha |- *.
  destruct (b0 <=? 127).
  - apply (IH (length r0)); [subst; simpl; lia|reflexivity|exact Ha].
  - destruct r0 as [|b1 r1]; [discriminate|]. cbn [app].
    destruct (in_rng b0 194 223).
    + apply andb_true_iff in Ha. destruct Ha as [H1 H2]. rewrite H1. cbn [andb].
      apply (IH (length r1)); [subst; simpl; lia|reflexivity|exact H2].
    + destruct r1 as [|b2 r2]; [discriminate|]. cbn [app].
      destruct (N.eqb b0 224).
      * apply andb_true_iff in Ha. destruct Ha as [H1 H2]. rewrite H1. cbn [andb].
        apply (IH (length r2)); [subst; simpl; lia|reflexivity|exact H2].
      * destruct (in_rng b0 225 236 || in_rng b0 238 239).
        -- apply andb_true_iff in Ha. destruct Ha as [H1 H2]. rewrite H1. cbn [andb].
           apply (IH (length r2)); [subst; simpl; lia|reflexivity|exact H2].
        -- destruct (N.eqb b0 237).
           ++ apply andb_true_iff in Ha. destruct Ha as [H1 H2]. rewrite H1. cbn [andb].
              apply (IH (length r2)); [subst; simpl; lia|reflexivity|exact H2].
           ++ destruct r2 as [|b3 r3]; [discriminate|]. cbn [app].
              destruct (N.eqb b0 240).
              ** apply andb_true_iff in Ha. destruct Ha as [H1 H2]. rewrite H1. cbn [andb].
                 apply (IH (length r3)); [subst; simpl; lia|reflexivity|exact H2].
              ** destruct (in_rng b0 241 243).
                 --- apply andb_true_iff in Ha. destruct Ha as [H1 H2]. rewrite H1. cbn [andb].
                     apply (IH (length r3)); [subst; simpl; lia|reflexivity|exact H2].
                 --- destruct (N.eqb b0 244); [|discriminate].
                     apply andb_true_iff in Ha. destruct Ha as [H1 H2]. rewrite H1. cbn [andb].
                     apply (IH (length r3)); [subst; simpl; lia|reflexivity|exact H2].
Qed.

Lemma utf8_cons_ascii c s : c <=? 127 = true -> utf8_valid (c :: s) = utf8_valid s.
Proof. intros H. cbn [utf8_valid]. rewrite H. reflexivity. Qed.

Lemma utf8_join a b : utf8_valid a = true -> utf8_valid b = true -> utf8_valid (a ++ slash :: b) = true.
Proof. intros Ha Hb. rewrite utf8_app by exact Ha. rewrite utf8_cons_ascii by reflexivity. exact Hb. Qed.

(* ---- ValidPath ---- *)
Lemma valid_path_spec s : valid_path s = true <->
  utf8_valid s = true /\ (s = dot \/ Forall (fun e => elem_ok e = true) (split_slash s)).
Proof.
  unfold valid_path. rewrite andb_true_iff, orb_true_iff, str_eqb_eq, forallb_forall, Forall_forall. tauto.
Qed.

Lemma valid_path_nonempty s : valid_path s = true -> s <> [].
Proof.
  intros H ->. apply valid_path_spec in H. destruct H as [_ [H|H]]; [discriminate|].
  inversion H as [|? ? He _]. discriminate.
Qed.

Lemma elem_ok_spec e : elem_ok e = true <-> e <> [] /\ e <> dot /\ e <> dotdot.
Proof.
  unfold elem_ok. rewrite !andb_true_iff, !negb_true_iff.
  split.
  - intros [[H1 H2] H3]. repeat split; intros ->; [discriminate| |]; vm_compute in H2, H3; discriminate.
  - intros (H1 & H2 & H3). repeat split.
    + destruct e; [congruence|reflexivity].
    + destruct (str_eqb_spec e dot); [contradiction|reflexivity].
    + destruct (str_eqb_spec e dotdot); [contradiction|reflexivity].
Qed.

(* every element of a valid path (other than ".") is a real name: non-empty, not "." or "..", slash-free *)
Theorem valid_path_elements s : valid_path s = true -> s <> dot ->
  Forall (fun e => e <> [] /\ e <> dot /\ e <> dotdot /\ no_slash e) (split_slash s).
Proof.
  intros H Hd. apply valid_path_spec in H. destruct H as [_ [H|H]]; [contradiction|].
  pose proof (split_elems_no_slash s) as N. rewrite Forall_forall in *. intros e He.
  destruct (proj1 (elem_ok_spec e) (H e He)) as (A & B & C). repeat split; auto.
Qed.

(* no leading slash, no trailing slash, no empty element *)
Theorem valid_path_no_leading_slash s : valid_path s = true -> hd 0 s <> slash.
Proof.
  intros H. destruct s as [|c s]; simpl; [discriminate|]. intros ->.
  apply valid_path_spec in H. destruct H as [_ [H|H]]; [discriminate|].
  rewrite split_cons_slash in H. inversion H as [|? ? He _]. discriminate.
Qed.

(* a name made of one slash-free, non-dot element is valid: in particular backslash and colon are
   ordinary name bytes *)
Theorem single_element_valid e : utf8_valid e = true -> e <> [] -> e <> dot -> e <> dotdot -> no_slash e ->
  valid_path e = true.
Proof.
  intros U A B C N. apply valid_path_spec. split; [exact U|]. right.
  rewrite split_no_slash by exact N. constructor; [|constructor]. apply elem_ok_spec. auto.
Qed.

Example backslash_colon_are_name_bytes :
  valid_path (S "a\b") = true /\ valid_path (S "c:") = true /\ valid_path (S "d/c:\x") = true
  /\ split_slash (S "d/c:\x") = [S "d"; S "c:\x"].
Proof. vm_compute. auto. Qed.

(* joining two valid paths with a slash gives a valid path *)
Theorem valid_path_join a b : valid_path a = true -> valid_path b = true -> a <> dot -> b <> dot ->
  valid_path (a ++ slash :: b) = true.
Proof.
  intros Ha Hb Da Db. apply valid_path_spec in Ha, Hb. destruct Ha as [Ua [Ha|Ha]], Hb as [Ub [Hb|Hb]]; try contradiction.
  apply valid_path_spec. split; [apply utf8_join; assumption|]. right.
  rewrite split_app_slash. apply Forall_app. split; assumption.
Qed.

(* ---- path.Clean is the identity on valid paths ---- *)
Lemma clean_fold_ok es : forall stack, Forall (fun e => elem_ok e = true) es ->
  fold_left (clean_step false) es stack = rev es ++ stack.
Proof.
  induction es as [|e es IH]; intros stack H; [reflexivity|].
  inversion H as [|? ? He Hes]; subst. simpl.
  apply elem_ok_spec in He. destruct He as (A & B & C).
  unfold clean_step at 2.
  destruct (str_eqb_spec e []) as [->|_]; [congruence|].
  destruct (str_eqb_spec e dot) as [->|_]; [congruence|]. cbn [orb].
  destruct (str_eqb_spec e dotdot) as [->|_]; [congruence|].
  rewrite IH by exact Hes. rewrite <- app_assoc. reflexivity.
Qed.

Theorem clean_valid s : valid_path s = true -> clean s = s.
Proof.
  intros H. destruct (str_eqb_spec s dot) as [->|Hd]; [reflexivity|].
  pose proof (valid_path_no_leading_slash s H) as L.
  pose proof (valid_path_nonempty s H) as NE.
  apply valid_path_spec in H. destruct H as [_ [H|H]]; [contradiction|].
  destruct s as [|c s']; [congruence|]. unfold clean.
  assert (R : N.eqb c slash = false) by (apply N.eqb_neq; exact L). rewrite R.
  rewrite (clean_fold_ok _ [] H). rewrite app_nil_r, rev_involutive, join_split. reflexivity.
Qed.

(* ---- path.Join of valid paths ---- *)
Definition not_dot (e : str) : bool := negb (str_eqb e dot).

Lemma clean_fold_dots es : forall stack, Forall (fun e => e = dot \/ elem_ok e = true) es ->
  fold_left (clean_step false) es stack = rev (filter not_dot es) ++ stack.
Proof.
  induction es as [|e es IH]; intros stack H; [reflexivity|].
  inversion H as [|? ? He Hes]; subst. cbn [fold_left filter]. rewrite (IH _ Hes).
  destruct He as [->|He].
  - unfold clean_step, not_dot. cbn. reflexivity.
  - apply elem_ok_spec in He. destruct He as (A & B & C).
    unfold clean_step, not_dot.
    destruct (str_eqb_spec e []) as [->|_]; [congruence|].
    destruct (str_eqb_spec e dot) as [->|_]; [congruence|]. cbn [orb negb].
    destruct (str_eqb_spec e dotdot) as [->|_]; [congruence|].
    cbn [rev]. rewrite <- app_assoc. reflexivity.
Qed.

Lemma valid_elems_or_dot s : valid_path s = true -> Forall (fun e => e = dot \/ elem_ok e = true) (split_slash s).
Proof.
  intros H. apply valid_path_spec in H. destruct H as [_ [->|H]].
  - constructor; [left; reflexivity|constructor].
  - eapply Forall_impl; [|exact H]. intros e He; right; exact He.
Qed.

Lemma filter_not_dot_valid s : valid_path s = true -> s <> dot -> filter not_dot (split_slash s) = split_slash s.
Proof.
  intros H Hd. apply valid_path_spec in H. destruct H as [_ [H|H]]; [contradiction|].
  induction (split_slash s) as [|e es IH]; [reflexivity|]. inversion H as [|? ? He Hes]; subst.
  simpl. apply elem_ok_spec in He. destruct He as (_ & B & _). unfold not_dot at 1.
  destruct (str_eqb_spec e dot); [contradiction|]. simpl. rewrite IH by exact Hes. reflexivity.
Qed.

Lemma join2_nonempty a b : a <> [] -> b <> [] -> join2 a b = clean (a ++ slash :: b).
Proof. intros Ha Hb. destruct a; [congruence|]. destruct b; [congruence|]. reflexivity. Qed.

Lemma clean_unrooted s c s' : s = c :: s' -> N.eqb c slash = false ->
  clean s = match join_slash (rev (fold_left (clean_step false) (split_slash s) [])) with [] => dot | x => x end.
Proof. intros -> H. unfold clean. rewrite H. destruct (join_slash _); reflexivity. Qed.

Theorem join2_valid a b : valid_path a = true -> valid_path b = true ->
  join2 a b = if str_eqb a dot then b else if str_eqb b dot then a else a ++ slash :: b.
Proof.
  intros Ha Hb.
  pose proof (valid_path_nonempty a Ha) as NA. pose proof (valid_path_nonempty b Hb) as NB.
  rewrite join2_nonempty by assumption.
  pose proof (valid_path_no_leading_slash a Ha) as L.
  destruct a as [|a0 a']; [congruence|]. simpl in L.
  assert (R : N.eqb a0 slash = false) by (apply N.eqb_neq; exact L).
  rewrite (clean_unrooted ((a0 :: a') ++ slash :: b) a0 (a' ++ slash :: b) eq_refl R).
  set (a := a0 :: a') in *.
  rewrite split_app_slash.
  rewrite clean_fold_dots by (apply Forall_app; split; apply valid_elems_or_dot; assumption).
  rewrite app_nil_r, rev_involutive, filter_app.
  destruct (str_eqb_spec a dot) as [Da|Da]; destruct (str_eqb_spec b dot) as [Db|Db].
  - rewrite Da, Db. reflexivity.
  - rewrite Da. change (filter not_dot (split_slash dot)) with (@nil str). cbn [app].
    rewrite filter_not_dot_valid by assumption. rewrite join_split. destruct b; [congruence|reflexivity].
  - rewrite Db. change (filter not_dot (split_slash dot)) with (@nil str). rewrite app_nil_r.
    rewrite filter_not_dot_valid by assumption. rewrite join_split. reflexivity.
  - rewrite !filter_not_dot_valid by assumption. rewrite <- split_app_slash, join_split. reflexivity.
Qed.

(* containment: a name joined below a base stays below the base (no ".." can survive ValidPath) *)
Theorem join2_confined base name : valid_path base = true -> valid_path name = true -> base <> dot ->
  join2 base name = base \/ has_prefix (join2 base name) (base ++ [slash]) = true.
Proof.
  intros Hb Hn Db. rewrite (join2_valid base name Hb Hn).
  destruct (str_eqb_spec base dot); [contradiction|].
  destruct (str_eqb name dot); [left; reflexivity|right].
  replace (base ++ slash :: name) with ((base ++ [slash]) ++ name) by (rewrite <- app_assoc; reflexivity).
  generalize (base ++ [slash]). intros p. induction p as [|x p IH]; simpl; [destruct name; reflexivity|].
  rewrite N.eqb_refl. exact IH.
Qed.

Theorem join2_valid_result a b : valid_path a = true -> valid_path b = true -> valid_path (join2 a b) = true.
Proof.
  intros Ha Hb. rewrite (join2_valid a b Ha Hb).
  destruct (str_eqb_spec a dot); [exact Hb|]. destruct (str_eqb_spec b dot); [exact Ha|].
  apply valid_path_join; assumption.
Qed.
