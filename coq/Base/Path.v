(* Byte-string functions the Go code uses on paths: strings.HasPrefix/TrimPrefix/TrimSuffix,
   io/fs.ValidPath (with utf8.ValidString), path.Clean/Join/Dir/Base/Split.
   All literal transcriptions over [str = list N]; validated against the Go standard library
   by the harness (stream "STR"). *)
From HP Require Import Base.Prelude.
Open Scope N_scope.

Definition slash : N := 47.
Definition dot : str := [46].
Definition dotdot : str := [46; 46].

Fixpoint has_prefix (s p : str) : bool :=
  match p, s with
  | [], _ => true
  | x :: p', y :: s' => N.eqb x y && has_prefix s' p'
  | _ :: _, [] => false
  end.

Definition trim_prefix (s p : str) : str :=
  if has_prefix s p then skipn (length p) s else s.

Definition has_suffix (s p : str) : bool := has_prefix (rev s) (rev p).

Definition trim_suffix (s p : str) : str :=
  if has_suffix s p then firstn (length s - length p) s else s.

(* strings.Split(s, "/") : always at least one element *)
Fixpoint split_slash_aux (cur : str) (s : str) : list str :=
  match s with
  | [] => [rev cur]
  | c :: s' => if N.eqb c slash then rev cur :: split_slash_aux [] s' else split_slash_aux (c :: cur) s'
  end.
Definition split_slash (s : str) : list str := split_slash_aux [] s.

Fixpoint join_slash (l : list str) : str :=
  match l with
  | [] => []
  | [x] => x
  | x :: rest => x ++ slash :: join_slash rest
  end.

(* utf8.ValidString: the well-formed byte sequences of Unicode table 3-7 *)
Definition in_rng (b lo hi : N) : bool := (lo <=? b) && (b <=? hi).
Definition cont (b : N) : bool := in_rng b 128 191.

Fixpoint utf8_valid (s : str) : bool :=
  match s with
  | [] => true
  | b0 :: r0 =>
    if b0 <=? 127 then utf8_valid r0 else
    match r0 with
    | [] => false
    | b1 :: r1 =>
      if in_rng b0 194 223 then (cont b1 && utf8_valid r1) else
      match r1 with
      | [] => false
      | b2 :: r2 =>
        if N.eqb b0 224 then (in_rng b1 160 191 && cont b2 && utf8_valid r2)
        else if in_rng b0 225 236 || in_rng b0 238 239 then (cont b1 && cont b2 && utf8_valid r2)
        else if N.eqb b0 237 then (in_rng b1 128 159 && cont b2 && utf8_valid r2)
        else
        match r2 with
        | [] => false
        | b3 :: r3 =>
          if N.eqb b0 240 then (in_rng b1 144 191 && cont b2 && cont b3 && utf8_valid r3)
          else if in_rng b0 241 243 then (cont b1 && cont b2 && cont b3 && utf8_valid r3)
          else if N.eqb b0 244 then (in_rng b1 128 143 && cont b2 && cont b3 && utf8_valid r3)
          else false
        end
      end
    end
  end.

(* io/fs.ValidPath *)
Definition elem_ok (e : str) : bool :=
  negb (str_eqb e []) && negb (str_eqb e dot) && negb (str_eqb e dotdot).

Definition valid_path (s : str) : bool :=
  utf8_valid s && (str_eqb s dot || forallb elem_ok (split_slash s)).

(* path.Clean *)
Definition clean_step (rooted : bool) (stack : list str) (e : str) : list str :=
  if str_eqb e [] || str_eqb e dot then stack
  else if str_eqb e dotdot then
    match stack with
    | top :: rest => if str_eqb top dotdot then e :: stack else rest
    | [] => if rooted then [] else [e]
    end
  else e :: stack.

Definition clean (s : str) : str :=
  match s with
  | [] => dot
  | c :: _ =>
    let rooted := N.eqb c slash in
    let body := join_slash (rev (fold_left (clean_step rooted) (split_slash s) [])) in
    if rooted then slash :: body
    else match body with [] => dot | _ => body end
  end.

(* path.Join *)
Definition path_join (elems : list str) : str :=
  match filter (fun e => negb (str_eqb e [])) elems with
  | [] => []
  | l => clean (join_slash l)
  end.

Definition join2 (a b : str) : str := path_join [a; b].

(* path.Split: dir keeps the trailing slash *)
Fixpoint last_slash_aux (s : str) (i : nat) (best : option nat) : option nat :=
  match s with
  | [] => best
  | c :: s' => last_slash_aux s' (Datatypes.S i) (if N.eqb c slash then Some i else best)
  end.
Definition last_slash (s : str) : option nat := last_slash_aux s 0%nat None.

Definition path_split (s : str) : str * str :=
  match last_slash s with
  | None => ([], s)
  | Some i => (firstn (Datatypes.S i) s, skipn (Datatypes.S i) s)
  end.

Definition path_dir (s : str) : str := clean (fst (path_split s)).

Fixpoint strip_trailing_slashes_rev (r : str) : str :=
  match r with
  | c :: r' => if N.eqb c slash then strip_trailing_slashes_rev r' else r
  | [] => []
  end.

Definition path_base (s : str) : str :=
  match s with
  | [] => dot
  | _ =>
    let t := rev (strip_trailing_slashes_rev (rev s)) in
    match t with
    | [] => [slash]
    | _ => snd (path_split t)
    end
  end.

(* strings.TrimLeft / TrimRight with a one-byte cutset, strings.ReplaceAll of one byte *)
Fixpoint trim_left_byte (c : N) (s : str) : str :=
  match s with
  | x :: s' => if N.eqb x c then trim_left_byte c s' else s
  | [] => []
  end.
Definition trim_right_byte (c : N) (s : str) : str := rev (trim_left_byte c (rev s)).
Definition replace_byte (a b : N) (s : str) : str := map (fun x => if N.eqb x a then b else x) s.

Definition contains_byte (c : N) (s : str) : bool := existsb (N.eqb c) s.

(* lexicographic byte order (Go string comparison, sort.Strings) *)
Fixpoint str_ltb (a b : str) : bool :=
  match a, b with
  | [], [] => false
  | [], _ :: _ => true
  | _ :: _, [] => false
  | x :: a', y :: b' => if x <? y then true else if y <? x then false else str_ltb a' b'
  end.

Fixpoint insert_sorted (x : str) (l : list str) : list str :=
  match l with
  | [] => [x]
  | y :: l' => if str_ltb y x then y :: insert_sorted x l' else x :: l
  end.
Definition sort_strs (l : list str) : list str := fold_right insert_sorted [] l.
