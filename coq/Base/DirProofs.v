(* path.Dir / path.Split on valid paths: the parent of "a/b" is "a", the parent of a single element is ".". *)
From HP Require Import Base.Prelude Base.Path Base.PathProofs.
Open Scope N_scope.

Lemma lsa_noslash s : forall i best, no_slash s -> last_slash_aux s i best = best.
Proof.
  induction s as [|c s IH]; intros i best H; simpl; [reflexivity|].
  destruct (N.eqb_spec c slash) as [->|NE]; [exfalso; apply H; left; reflexivity|].
  apply IH. intros X. apply H. right. exact X.
Qed.

Lemma lsa_app a : forall b i best, no_slash b ->
  last_slash_aux (a ++ slash :: b) i best = Some (i + length a)%nat.
Proof.
  induction a as [|c a IH]; intros b i best H; simpl.
  - rewrite lsa_noslash by exact H. f_equal. lia.
  - rewrite IH by exact H. f_equal. lia.
Qed.

Lemma path_split_noslash s : no_slash s -> path_split s = ([], s).
Proof. intros H. unfold path_split, last_slash. rewrite lsa_noslash by exact H. reflexivity. Qed.

Lemma path_split_app a b : no_slash b -> path_split (a ++ slash :: b) = (a ++ [slash], b).
Proof.
  intros H. unfold path_split, last_slash. rewrite lsa_app by exact H. cbn [Nat.add].
  replace (a ++ slash :: b) with ((a ++ [slash]) ++ b) by (rewrite <- app_assoc; reflexivity).
  assert (L : Datatypes.S (length a) = length (a ++ [slash])) by (rewrite app_length; simpl; lia).
  rewrite L. rewrite firstn_app, Nat.sub_diag, firstn_all. simpl. rewrite app_nil_r.
  rewrite skipn_app, Nat.sub_diag, skipn_all. reflexivity.
Qed.

(* every string is slash-free or splits at its last slash *)
Lemma last_slash_cases s : no_slash s \/ exists a b, s = a ++ slash :: b /\ no_slash b.
Proof.
  induction s as [|c s IH]; [left; intros []|].
  destruct IH as [H|(a & b & -> & H)].
  - destruct (N.eqb_spec c slash) as [->|NE].
    + right. exists [], s. split; [reflexivity|exact H].
    + left. intros [X|X]; [congruence|exact (H X)].
  - right. exists (c :: a), b. split; [reflexivity|exact H].
Qed.

Definition elems_ok (s : str) : Prop := Forall (fun e => elem_ok e = true) (split_slash s).

Lemma elems_ok_nonempty s : elems_ok s -> s <> [].
Proof. intros H ->. inversion H as [|? ? X _]. discriminate. Qed.

Lemma elems_ok_hd s : elems_ok s -> hd 0 s <> slash.
Proof.
  intros H. destruct s as [|c s]; [discriminate|]. simpl. intros ->.
  unfold elems_ok in H. rewrite split_cons_slash in H. inversion H as [|? ? X _]. discriminate.
Qed.

Lemma elems_ok_app a b : elems_ok (a ++ slash :: b) <-> elems_ok a /\ elems_ok b.
Proof. unfold elems_ok. rewrite split_app_slash. apply Forall_app. Qed.

Lemma valid_elems_ok s : valid_path s = true -> s <> dot -> elems_ok s.
Proof. intros V D. apply valid_path_spec in V. destruct V as [_ [->|V]]; [congruence|exact V]. Qed.

Lemma clean_step_nil r stack : clean_step r stack [] = stack.
Proof. reflexivity. Qed.

(* clean leaves a/ -> a when a's elements are real names *)
Lemma clean_trailing_slash a : elems_ok a -> clean (a ++ [slash]) = a.
Proof.
  intros H. pose proof (elems_ok_nonempty a H) as NE. pose proof (elems_ok_hd a H) as HD.
  destruct a as [|c a']; [congruence|]. simpl in HD.
  unfold clean. cbn [app]. assert (R : N.eqb c slash = false) by (apply N.eqb_neq; exact HD). rewrite R.
  change (c :: a' ++ [slash]) with ((c :: a') ++ slash :: []). rewrite split_app_slash.
  rewrite fold_left_app. rewrite (clean_fold_ok _ [] H).
  change (split_slash []) with [@nil N]. cbn [fold_left]. rewrite clean_step_nil.
  rewrite app_nil_r, rev_involutive, join_split. reflexivity.
Qed.

Theorem path_dir_join a b : elems_ok a -> no_slash b -> path_dir (a ++ slash :: b) = a.
Proof. intros Ha Hb. unfold path_dir. rewrite path_split_app by exact Hb. simpl. apply clean_trailing_slash. exact Ha. Qed.

Theorem path_dir_single b : no_slash b -> path_dir b = dot.
Proof. intros H. unfold path_dir. rewrite path_split_noslash by exact H. reflexivity. Qed.

Lemma elems_ok_not_dot a : elems_ok a -> a <> dot.
Proof. intros H ->. inversion H as [|? ? X _]. discriminate. Qed.

(* the shape of a path made of real names: one element, or parent/element with such a parent *)
Theorem elems_shape p : elems_ok p ->
  (no_slash p /\ path_dir p = dot) \/
  (exists a b, p = a ++ slash :: b /\ no_slash b /\ elems_ok a /\ elems_ok b /\ path_dir p = a).
Proof.
  intros E. destruct (last_slash_cases p) as [H|(a & b & -> & H)].
  - left. split; [exact H|apply path_dir_single; exact H].
  - right. apply elems_ok_app in E. destruct E as [Ea Eb]. exists a, b. repeat split; auto.
    apply path_dir_join; assumption.
Qed.

(* the parent of such a path is the root or again such a path, and never the path itself *)
Theorem path_dir_elems_ok p : elems_ok p -> path_dir p = dot \/ elems_ok (path_dir p).
Proof. intros E. destruct (elems_shape p E) as [[_ H]|(a & b & _ & _ & Ea & _ & H)]; rewrite H; auto. Qed.

Theorem path_dir_neq_elems p : elems_ok p -> path_dir p <> p.
Proof.
  intros E. destruct (elems_shape p E) as [[_ H]|(a & b & Eq & _ & _ & _ & H)]; rewrite H.
  - intros X. symmetry in X. exact (elems_ok_not_dot p E X).
  - rewrite Eq. intros X. apply (f_equal (@length _)) in X. rewrite app_length in X. simpl in X. lia.
Qed.

Theorem valid_path_shape p : valid_path p = true -> p <> dot ->
  (no_slash p /\ path_dir p = dot) \/
  (exists a b, p = a ++ slash :: b /\ no_slash b /\ elems_ok a /\ a <> dot /\ path_dir p = a).
Proof.
  intros V D. destruct (elems_shape p (valid_elems_ok p V D)) as [H|(a & b & A & B & C & _ & E)]; [left; exact H|].
  right. exists a, b. repeat split; auto. apply elems_ok_not_dot. exact C.
Qed.

Theorem path_dir_neq p : valid_path p = true -> p <> dot -> path_dir p <> p.
Proof. intros V D. apply path_dir_neq_elems. apply valid_elems_ok; assumption. Qed.

(* join2 with a single element inverts path_dir *)
Lemma path_dir_join2 d c : valid_path d = true -> valid_path c = true -> no_slash c -> c <> dot ->
  path_dir (join2 d c) = d.
Proof.
  intros Vd Vc Nc Dc. rewrite (join2_valid d c Vd Vc).
  destruct (str_eqb_spec d dot) as [->|Dd]; [apply path_dir_single; exact Nc|].
  destruct (str_eqb_spec c dot); [contradiction|].
  apply path_dir_join; [apply valid_elems_ok; assumption|exact Nc].
Qed.

(* ---- the same facts without the UTF-8 clause of ValidPath ---- *)
Lemma clean_elems_ok s : elems_ok s -> clean s = s.
Proof.
  intros H. pose proof (elems_ok_nonempty s H) as NE. pose proof (elems_ok_hd s H) as HD.
  destruct s as [|c s']; [congruence|]. simpl in HD. unfold clean.
  assert (R : N.eqb c slash = false) by (apply N.eqb_neq; exact HD). rewrite R.
  rewrite (clean_fold_ok _ [] H). rewrite app_nil_r, rev_involutive, join_split. reflexivity.
Qed.

Theorem join2_elems a b : elems_ok a -> elems_ok b -> join2 a b = a ++ slash :: b.
Proof.
  intros Ha Hb. rewrite join2_nonempty by (apply elems_ok_nonempty; assumption).
  apply clean_elems_ok. apply elems_ok_app. split; assumption.
Qed.

Theorem path_dir_join2_elems d c : elems_ok d -> elems_ok c -> no_slash c -> path_dir (join2 d c) = d.
Proof. intros Hd Hc Nc. rewrite join2_elems by assumption. apply path_dir_join; assumption. Qed.

(* a path whose parent is d is d + "/" + its last element *)
Theorem child_shape k d : elems_ok k -> path_dir k = d -> d <> dot ->
  exists b, k = d ++ slash :: b /\ no_slash b /\ elems_ok b.
Proof.
  intros E H D. destruct (elems_shape k E) as [[_ X]|(a & b & Eq & Nb & Ea & Eb & X)]; [congruence|].
  exists b. rewrite <- H, X. auto.
Qed.

(* ---- UTF-8: a prefix that ends just before a '/' of a valid string is valid ---- *)
Ltac kill_utf8 H :=
  repeat first
    [ discriminate H
    | match type of H with
      | (if ?c then _ else _) = true => destruct c
      | (match ?l with [] => _ | _ :: _ => _ end) = true => destruct l
      end
    | progress cbn in H
    | progress rewrite ?andb_false_r in H ].

Lemma utf8_prefix a : forall b, utf8_valid (a ++ slash :: b) = true -> utf8_valid a = true.
Proof.
  remember (length a) as n eqn:Hn. revert a Hn.
  induction n as [n IH] using (well_founded_induction Wf_nat.lt_wf). intros a Hn b H.
  destruct a as [|b0 r0]; [reflexivity|].
  cbn [app] in H. cbn [utf8_valid] in H |- *.
  destruct (b0 <=? 127).
  - apply (IH (length r0)) with (b := b); [subst; simpl; lia|reflexivity|exact H].
  - destruct r0 as [|b1 r1]; cbn [app] in H; [exfalso; kill_utf8 H; fail|].
    destruct (in_rng b0 194 223).
    + apply andb_true_iff in H. destruct H as [H1 H2]. rewrite H1. cbn [andb].
      apply (IH (length r1)) with (b := b); [subst; simpl; lia|reflexivity|exact H2].
    + destruct r1 as [|b2 r2]; cbn [app] in H; [exfalso; kill_utf8 H; fail|].
      destruct (N.eqb b0 224).
      * apply andb_true_iff in H. destruct H as [H1 H2]. rewrite H1. cbn [andb].
        apply (IH (length r2)) with (b := b); [subst; simpl; lia|reflexivity|exact H2].
      * destruct (in_rng b0 225 236 || in_rng b0 238 239).
        -- apply andb_true_iff in H. destruct H as [H1 H2]. rewrite H1. cbn [andb].
           apply (IH (length r2)) with (b := b); [subst; simpl; lia|reflexivity|exact H2].
        -- destruct (N.eqb b0 237).
           ++ apply andb_true_iff in H. destruct H as [H1 H2]. rewrite H1. cbn [andb].
              apply (IH (length r2)) with (b := b); [subst; simpl; lia|reflexivity|exact H2].
           ++ destruct r2 as [|b3 r3]; cbn [app] in H; [exfalso; kill_utf8 H; fail|].
              destruct (N.eqb b0 240).
              ** apply andb_true_iff in H. destruct H as [H1 H2]. rewrite H1. cbn [andb].
                 apply (IH (length r3)) with (b := b); [subst; simpl; lia|reflexivity|exact H2].
              ** destruct (in_rng b0 241 243).
                 --- apply andb_true_iff in H. destruct H as [H1 H2]. rewrite H1. cbn [andb].
                     apply (IH (length r3)) with (b := b); [subst; simpl; lia|reflexivity|exact H2].
                 --- destruct (N.eqb b0 244); [|discriminate].
                     apply andb_true_iff in H. destruct H as [H1 H2]. rewrite H1. cbn [andb].
                     apply (IH (length r3)) with (b := b); [subst; simpl; lia|reflexivity|exact H2].
Qed.

(* the parent of a valid path is a valid path *)
Theorem valid_path_parent p : valid_path p = true -> valid_path (path_dir p) = true.
Proof.
  intros V. destruct (str_eqb_spec p dot) as [->|D]; [reflexivity|].
  destruct (valid_path_shape p V D) as [[_ H]|(a & b & Eq & _ & Ea & _ & H)]; rewrite H; [reflexivity|].
  apply valid_path_spec. split; [|right; exact Ea].
  apply valid_path_spec in V. destruct V as [U _]. rewrite Eq in U. eapply utf8_prefix. exact U.
Qed.
