(* Model of the two Transaction implementations (C18):
   - mem/store.go `transaction` (the in-memory store: one mutex, results appended in call order)
   - keyvalue/txn_store.go `unsafeSerialTransaction` (serial fallback over a plain Store)
   A store is a finite map key -> value; keys and values are small numbers in the harness. *)
From HP Require Import Base.Prelude.
Open Scope N_scope.

Definition tstore := list (N * N).    (* key -> value (absent = no record) *)

Fixpoint tget (s : tstore) (k : N) : option N :=
  match s with
  | [] => None
  | (k', v) :: s' => if N.eqb k k' then Some v else tget s' k
  end.
Definition tdel (s : tstore) (k : N) : tstore := filter (fun kv => negb (N.eqb k (fst kv))) s.
Definition tset (s : tstore) (k : N) (v : option N) : tstore :=
  match v with Some v => (k, v) :: tdel s k | None => tdel s k end.

(* what an OpHandler does with the result it is given *)
Inductive hb := HOk | HFail | HAbort | HAbortFail.

Inductive tcall :=
| TGet (k : N) (h : hb)
| TSet (k : N) (v : option N) (h : hb)
| TAbort
| TCommit (cancelled : bool).   (* Commit(ctx); cancelled: the caller's ctx is already cancelled *)

Inductive rerr := RNone | RNotExist | RCanceled | RHandler.

(* one OpResult: operation id, record read (Gets), error *)
Record opres := mkRes { o_id : nat; o_val : option N; o_err : rerr }.

Inductive impl := MemTxn | SerialTxn.

Record tstate := mkT {
  t_store : tstore;
  t_locked : bool;      (* the store's mutex (mem only) *)
  t_done : bool;        (* the transaction's context has been cancelled *)
  t_released : bool;    (* mem: releaseOnce has fired *)
  t_next : nat;         (* next operation id *)
  t_results : list opres;   (* in call order *)
  t_crashed : bool      (* unlock of an unlocked mutex: fatal *)
}.

Definition t_begin (s : tstore) : tstate := mkT s true false false 0 [] false.

(* mem: release() = once { cancel; unlock } *)
Definition release (which : impl) (t : tstate) : tstate :=
  match which with
  | MemTxn =>
    if t_released t then t
    else mkT (t_store t) false true true (t_next t) (t_results t) (negb (t_locked t) || t_crashed t)
  | SerialTxn => mkT (t_store t) (t_locked t) true (t_released t) (t_next t) (t_results t) (t_crashed t)
  end.

Definition handler_err (h : hb) : bool := match h with HFail | HAbortFail => true | _ => false end.
Definition handler_aborts (h : hb) : bool := match h with HAbort | HAbortFail => true | _ => false end.

Definition push (t : tstate) (r : opres) (s : tstore) : tstate :=
  mkT s (t_locked t) (t_done t) (t_released t) (Datatypes.S (t_next t)) (t_results t ++ [r]) (t_crashed t).

(* outcome of Commit *)
Inductive cres := CResults (l : list opres) | CErr | CNone.

Definition tstep (which : impl) (t : tstate) (c : tcall) : tstate * cres * option nat :=
  match c with
  | TGet k h =>
    let id := t_next t in
    if t_done t then (push t (mkRes id None RCanceled) (t_store t), CNone, Some id)
    else
      let v := tget (t_store t) k in
      let e0 := match v with Some _ => RNone | None => RNotExist end in
      let t1 := if handler_aborts h then release which t else t in
      let e := match e0 with RNone => if handler_err h then RHandler else RNone | _ => e0 end in
      (push t1 (mkRes id v e) (t_store t1), CNone, Some id)
  | TSet k v h =>
    let id := t_next t in
    if t_done t then (push t (mkRes id None RCanceled) (t_store t), CNone, Some id)
    else
      let s' := tset (t_store t) k v in
      let t0 := mkT s' (t_locked t) (t_done t) (t_released t) (t_next t) (t_results t) (t_crashed t) in
      let t1 := if handler_aborts h then release which t0 else t0 in
      let e := if handler_err h then RHandler else RNone in
      (push t1 (mkRes id None e) (t_store t1), CNone, Some id)
  | TAbort => (release which t, CNone, None)
  | TCommit cc =>
    match which with
    | MemTxn => (release which t, CResults (t_results t), None)   (* the mem transaction does not consult ctx *)
    | SerialTxn =>
      (* abortErr(u.ctx, ctx): either context cancelled => error, nothing else happens *)
      if t_done t || cc then (t, CErr, None)
      else (release which t, CResults (t_results t), None)
    end
  end.

Fixpoint trun (which : impl) (t : tstate) (cs : list tcall) : tstate * list (cres * option nat) :=
  match cs with
  | [] => (t, [])
  | c :: rest =>
    let '(t1, r, id) := tstep which t c in
    let '(t2, out) := trun which t1 rest in
    (t2, (r, id) :: out)
  end.

(* after the transaction: is the store usable (mutex free, no fatal error), and what does it hold *)
Definition usable (which : impl) (t : tstate) : bool :=
  negb (t_crashed t) && match which with MemTxn => negb (t_locked t) | SerialTxn => true end.
