From HP Require Import Base.Prelude Txn.Txn.
Open Scope N_scope.

Definition rerr_eqb (a b : rerr) : bool :=
  match a, b with
  | RNone, RNone | RNotExist, RNotExist | RCanceled, RCanceled | RHandler, RHandler => true
  | _, _ => false
  end.
Definition optN_eqb (a b : option N) : bool :=
  match a, b with Some x, Some y => N.eqb x y | None, None => true | _, _ => false end.
Definition opres_eqb (a b : opres) : bool :=
  Nat.eqb (o_id a) (o_id b) && rerr_eqb (o_err a) (o_err b)
  && (if rerr_eqb (o_err a) RNone then optN_eqb (o_val a) (o_val b) else true).
Definition cres_eqb (a b : cres) : bool :=
  match a, b with
  | CResults x, CResults y => list_eqb opres_eqb x y
  | CErr, CErr | CNone, CNone => true
  | _, _ => false
  end.
Definition optnat_eqb (a b : option nat) : bool :=
  match a, b with Some x, Some y => Nat.eqb x y | None, None => true | _, _ => false end.

Definition C18_case := (impl * tstore * list tcall * list (cres * option nat) * list (option N) * bool)%type.

Definition C18_check (c : C18_case) : bool :=
  let '(which, init, calls, obs, final, ok) := c in
  let '(t, out) := trun which (t_begin init) calls in
  list_eqb (fun a b => cres_eqb (fst a) (fst b) && optnat_eqb (snd a) (snd b)) out obs
  && Bool.eqb (usable which t) ok
  && list_eqb optN_eqb [tget (t_store t) 0; tget (t_store t) 1; tget (t_store t) 2] final.
