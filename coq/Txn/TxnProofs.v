(* Theorems about the two Transaction implementations (C18). *)
From HP Require Import Base.Prelude Txn.Txn.
Open Scope nat_scope.
Arguments release : simpl never.
Arguments push : simpl never.

(* ---- one result per call, in call order, ids 0,1,2,... ---- *)

Definition is_op (c : tcall) : bool := match c with TGet _ _ | TSet _ _ _ => true | _ => false end.

Definition ids_ok (start : nat) (l : list opres) : Prop :=
  forall i r, nth_error l i = Some r -> o_id r = start + i.

Definition tinv (t : tstate) : Prop :=
  t_next t = length (t_results t) /\ ids_ok 0 (t_results t).

Lemma ids_ok_snoc l r : ids_ok 0 l -> o_id r = length l -> ids_ok 0 (l ++ [r]).
Proof.
  intros H E i x Hx. destruct (Nat.lt_ge_cases i (length l)) as [Hi|Hi].
  - rewrite nth_error_app1 in Hx by exact Hi. apply H; exact Hx.
  - rewrite nth_error_app2 in Hx by exact Hi.
    destruct (i - length l) as [|k] eqn:Ek; simpl in Hx.
    + inversion Hx; subst x. simpl. rewrite E. lia.
    + destruct k; discriminate.
Qed.

Lemma release_results which t : t_results (release which t) = t_results t /\ t_next (release which t) = t_next t.
Proof. destruct which; unfold release; simpl; [destruct (t_released t)|]; auto. Qed.

Lemma release_store which t : t_store (release which t) = t_store t.
Proof. destruct which; unfold release; simpl; [destruct (t_released t)|]; auto. Qed.

Ltac rel_simp :=
  repeat match goal with
  | |- context [t_results (release ?w ?x)] => rewrite (proj1 (release_results w x))
  | |- context [t_next (release ?w ?x)] => rewrite (proj2 (release_results w x))
  | |- context [t_store (release ?w ?x)] => rewrite (release_store w x)
  end; cbn [t_results t_next t_store].

Lemma push_tinv t r s : tinv t -> o_id r = t_next t -> tinv (push t r s).
Proof.
  intros [Hn Hi] E. unfold push, tinv; cbn [t_next t_results]. split.
  - rewrite app_length; simpl; lia.
  - apply ids_ok_snoc; [exact Hi|]. rewrite E. exact Hn.
Qed.

Lemma release_tinv which t : tinv t -> tinv (release which t).
Proof. intros [Hn Hi]. unfold tinv. rel_simp. split; assumption. Qed.

Lemma tstep_inv which t c : tinv t -> tinv (fst (fst (tstep which t c))).
Proof.
  intros H. destruct c as [k h|k v h| |cc]; simpl.
  - destruct (t_done t); simpl; [apply push_tinv; auto|].
    destruct (handler_aborts h); simpl; apply push_tinv; auto using release_tinv; rel_simp; reflexivity.
  - destruct (t_done t); simpl; [apply push_tinv; auto|].
    assert (H0 : tinv (mkT (tset (t_store t) k v) (t_locked t) (t_done t) (t_released t) (t_next t) (t_results t) (t_crashed t))) by exact H.
    destruct (handler_aborts h); simpl; apply push_tinv; auto using release_tinv; rel_simp; reflexivity.
  - apply release_tinv; exact H.
  - destruct which; simpl; [apply release_tinv; exact H|].
    destruct (t_done t || cc); simpl; [exact H|apply release_tinv; exact H].
Qed.

(* the number of Get/Set calls issued so far *)
Fixpoint count_ops (cs : list tcall) : nat :=
  match cs with [] => 0 | c :: r => (if is_op c then 1 else 0) + count_ops r end.

Lemma tstep_next which t c :
  t_next (fst (fst (tstep which t c))) = t_next t + (if is_op c then 1 else 0).
Proof.
  destruct c as [k h|k v h| |cc]; simpl.
  - destruct (t_done t); simpl; [lia|]. destruct (handler_aborts h); simpl; rel_simp; lia.
  - destruct (t_done t); simpl; [lia|]. destruct (handler_aborts h); simpl; rel_simp; lia.
  - rel_simp; lia.
  - destruct which; simpl; [rel_simp; lia|].
    destruct (t_done t || cc); simpl; [lia|]. rel_simp; lia.
Qed.

(* the ids the calls return are exactly the positions of their results *)
Lemma tstep_id which t c : tinv t ->
  snd (tstep which t c) = if is_op c then Some (length (t_results t)) else None.
Proof.
  intros [Hn _]. destruct c as [k h|k v h| |cc]; simpl.
  - rewrite <- Hn. destruct (t_done t); reflexivity.
  - rewrite <- Hn. destruct (t_done t); reflexivity.
  - reflexivity.
  - destruct which; [reflexivity|]. destruct (t_done t || cc); reflexivity.
Qed.

Lemma trun_inv which t cs : tinv t -> tinv (fst (trun which t cs)).
Proof.
  revert t; induction cs as [|c cs IH]; intros t H; simpl; [exact H|].
  destruct (tstep which t c) as [[t1 r] id] eqn:E.
  destruct (trun which t1 cs) as [t2 out] eqn:E2. simpl.
  specialize (IH t1). rewrite E2 in IH. apply IH.
  pose proof (tstep_inv which t c H) as H1. rewrite E in H1. exact H1.
Qed.

(* Commit hands out the results accumulated so far (when it does not fail) *)
Lemma commit_returns which t cc : forall l, snd (fst (tstep which t (TCommit cc))) = CResults l -> l = t_results t.
Proof.
  intros l. destruct which; simpl; [intros E; inversion E; auto|].
  destruct (t_done t || cc); simpl; intros E; inversion E; auto.
Qed.

(* THEOREM (results_indexed): whenever Commit returns results, there is exactly one per Get/Set call
   issued before it, in call order, and the i-th carries operation id i. *)
Theorem results_indexed which s0 cs cc l :
  snd (fst (tstep which (fst (trun which (t_begin s0) cs)) (TCommit cc))) = CResults l ->
  length l = count_ops cs /\ forall i r, nth_error l i = Some r -> o_id r = i.
Proof.
  intros E. apply commit_returns in E. subst l.
  assert (Hinv : tinv (fst (trun which (t_begin s0) cs))).
  { apply trun_inv. split; [reflexivity|]. intros i r Hr. destruct i; discriminate. }
  destruct Hinv as [Hn Hi]. split.
  - rewrite <- Hn. clear Hi Hn.
    assert (G : forall t, t_next (fst (trun which t cs)) = t_next t + count_ops cs).
    { induction cs as [|c cs IH]; intros t; simpl; [lia|].
      destruct (tstep which t c) as [[t1 r] id] eqn:E.
      destruct (trun which t1 cs) as [t2 out] eqn:E2. simpl.
      specialize (IH t1). rewrite E2 in IH. simpl in IH. rewrite IH.
      pose proof (tstep_next which t c) as N. rewrite E in N. simpl in N. rewrite N. lia. }
    rewrite G. reflexivity.
  - intros i r Hr. apply Hi in Hr. simpl in Hr. exact Hr.
Qed.

(* ---- after the transaction has been aborted, calls have no effect on the store ---- *)
Theorem after_abort_no_effect which t c :
  t_done t = true -> t_store (fst (fst (tstep which t c))) = t_store t.
Proof.
  intros D. destruct c as [k h|k v h| |cc]; simpl; rewrite ?D; unfold push; simpl; auto.
  - apply release_store.
  - destruct which; simpl; [apply release_store|rewrite ?D; reflexivity].
Qed.

Lemma done_sticky which t c : t_done t = true -> t_done (fst (fst (tstep which t c))) = true.
Proof.
  intros D. destruct c as [k h|k v h| |cc]; simpl; rewrite ?D; unfold push; simpl; auto.
  - destruct which; unfold release; simpl; [destruct (t_released t)|]; auto.
  - destruct which; simpl; [unfold release; destruct (t_released t); auto|rewrite ?D; auto].
Qed.

Theorem after_abort_no_effect_run which t cs :
  t_done t = true -> t_store (fst (trun which t cs)) = t_store t.
Proof.
  revert t; induction cs as [|c cs IH]; intros t D; simpl; [reflexivity|].
  destruct (tstep which t c) as [[t1 r] id] eqn:E.
  destruct (trun which t1 cs) as [t2 out] eqn:E2. simpl.
  specialize (IH t1). rewrite E2 in IH. simpl in IH. rewrite IH.
  - pose proof (after_abort_no_effect which t c D) as A. rewrite E in A. exact A.
  - pose proof (done_sticky which t c D) as A. rewrite E in A. exact A.
Qed.

(* ---- a Get reflects the latest earlier Set of the same key (this or an earlier transaction) ---- *)
Lemma tget_tset_same s k v : tget (tset s k v) k = v.
Proof.
  destruct v as [v|]; simpl.
  - rewrite N.eqb_refl. reflexivity.
  - unfold tdel. induction s as [|[k' v'] s IH]; simpl; [reflexivity|].
    destruct (N.eqb_spec k k'); simpl; [exact IH|].
    destruct (N.eqb_spec k k'); [contradiction|exact IH].
Qed.

Lemma tget_tset_other s k k' v : k <> k' -> tget (tset s k v) k' = tget s k'.
Proof.
  intros Hne.
  assert (D : tget (tdel s k) k' = tget s k').
  { unfold tdel. induction s as [|[k2 v2] s IH]; simpl; [reflexivity|].
    destruct (N.eqb_spec k k2); simpl.
    - subst k2. destruct (N.eqb_spec k' k); [congruence|exact IH].
    - destruct (N.eqb_spec k' k2); [reflexivity|exact IH]. }
  destruct v as [v|]; simpl; [|exact D].
  destruct (N.eqb_spec k' k); [congruence|exact D].
Qed.

(* a live Get returns what the store holds for the key; a live Set stores it *)
Theorem get_sees_store which t k h : t_done t = false ->
  exists r, nth_error (t_results (fst (fst (tstep which t (TGet k h))))) (length (t_results t)) = Some r
            /\ o_val r = tget (t_store t) k.
Proof.
  intros D. simpl. rewrite D. destruct (handler_aborts h); simpl; rel_simp;
    rewrite nth_error_app2 by lia; rewrite Nat.sub_diag; simpl;
    eexists; (split; [reflexivity|simpl; rel_simp; reflexivity]).
Qed.

Lemma nth_error_snoc {A} (l : list A) x : nth_error (l ++ [x]) (length l) = Some x.
Proof. rewrite nth_error_app2 by lia. rewrite Nat.sub_diag. reflexivity. Qed.

Lemma tset_live which t k v h : t_done t = false -> handler_aborts h = false ->
  fst (fst (tstep which t (TSet k v h))) =
  mkT (tset (t_store t) k v) (t_locked t) (t_done t) (t_released t) (Datatypes.S (t_next t))
      (t_results t ++ [mkRes (t_next t) None (if handler_err h then RHandler else RNone)]) (t_crashed t).
Proof. intros D A. unfold tstep. rewrite D, A. reflexivity. Qed.

Theorem set_then_get which t k v h h' : t_done t = false -> handler_aborts h = false ->
  let t1 := fst (fst (tstep which t (TSet k v h))) in
  tget (t_store t1) k = v /\ (forall k', k <> k' -> tget (t_store t1) k' = tget (t_store t) k')
  /\ exists r, nth_error (t_results (fst (fst (tstep which t1 (TGet k h'))))) (length (t_results t1)) = Some r
               /\ o_val r = v.
Proof.
  intros D A t1. subst t1. rewrite (tset_live which t k v h D A). cbn [t_store t_results].
  split; [apply tget_tset_same|].
  split; [intros k' Hk; apply tget_tset_other; exact Hk|].
  unfold tstep; cbn [t_done t_store t_results t_next]. rewrite D.
  destruct (handler_aborts h'); unfold push; cbn [fst snd t_results]; rel_simp; rewrite nth_error_snoc;
    eexists; (split; [reflexivity|cbn [o_val]; rel_simp; apply tget_tset_same]).
Qed.

(* a handler error becomes that operation's error *)
Theorem handler_error_recorded which t k v h : t_done t = false -> handler_err h = true ->
  exists r, nth_error (t_results (fst (fst (tstep which t (TSet k v h))))) (length (t_results t)) = Some r
            /\ o_err r = RHandler.
Proof.
  intros D He. unfold tstep. rewrite D.
  destruct (handler_aborts h); unfold push; cbn [fst snd t_results]; rel_simp; rewrite nth_error_snoc;
    eexists; (split; [reflexivity|cbn [o_err]; rewrite He; reflexivity]).
Qed.

(* ---- the store is always released: no fatal double unlock, and after any sequence that ends the
        transaction (Commit or Abort at some point) the mutex is free ---- *)

Definition rinv (t : tstate) : Prop :=
  t_crashed t = false /\ (t_released t = false -> t_locked t = true) /\ (t_released t = true -> t_locked t = false /\ t_done t = true).

Lemma rinv_begin s : rinv (t_begin s).
Proof. repeat split; simpl; auto; discriminate. Qed.

Lemma release_rinv t : rinv t -> rinv (release MemTxn t).
Proof.
  intros (C & L & R). unfold release. destruct (t_released t) eqn:E.
  - unfold rinv. rewrite E. repeat split; auto; apply R; reflexivity.
  - unfold rinv; cbn [t_crashed t_released t_locked t_done]. repeat split; try discriminate; auto.
    rewrite (L eq_refl), C. reflexivity.
Qed.

Lemma push_rinv t r s : rinv t -> rinv (push t r s).
Proof. intros H; exact H. Qed.

Lemma tstep_rinv t c : rinv t -> rinv (fst (fst (tstep MemTxn t c))).
Proof.
  intros H. destruct c as [k h|k v h| |cc]; cbn [tstep fst snd].
  - destruct (t_done t); cbn [fst]; [apply push_rinv; exact H|].
    destruct (handler_aborts h); cbn [fst]; apply push_rinv; [apply release_rinv|]; exact H.
  - destruct (t_done t) eqn:D; cbn [fst]; [apply push_rinv; exact H|].
    assert (H0 : rinv (mkT (tset (t_store t) k v) (t_locked t) false (t_released t) (t_next t) (t_results t) (t_crashed t))).
    { destruct H as (C & L & R). unfold rinv; cbn [t_crashed t_released t_locked t_done].
      split; [exact C|]. split; [exact L|]. intros E. destruct (R E) as [X Y]. congruence. }
    destruct (handler_aborts h); cbn [fst]; apply push_rinv; [apply release_rinv|]; exact H0.
  - apply release_rinv; exact H.
  - apply release_rinv; exact H.
Qed.

Lemma trun_rinv t cs : rinv t -> rinv (fst (trun MemTxn t cs)).
Proof.
  revert t; induction cs as [|c cs IH]; intros t H; simpl; [exact H|].
  destruct (tstep MemTxn t c) as [[t1 r] id] eqn:E.
  destruct (trun MemTxn t1 cs) as [t2 out] eqn:E2. simpl.
  specialize (IH t1). rewrite E2 in IH. apply IH.
  pose proof (tstep_rinv t c H) as H1. rewrite E in H1. exact H1.
Qed.

Definition ends (c : tcall) : bool :=
  match c with TAbort | TCommit _ => true | TGet _ h | TSet _ _ h => handler_aborts h end.

Lemma released_sticky t c : rinv t -> t_released t = true -> t_released (fst (fst (tstep MemTxn t c))) = true.
Proof.
  intros (C & L & R) E. destruct (R E) as [_ D].
  destruct c as [k h|k v h| |cc]; unfold tstep, push, release; cbn [fst snd t_released];
    rewrite ?D, ?E; cbn [fst snd t_released]; rewrite ?E; auto.
Qed.

Lemma ends_releases t c : rinv t -> t_done t = false \/ t_released t = true -> ends c = true ->
  t_released (fst (fst (tstep MemTxn t c))) = true.
Proof.
  intros H Hd He. destruct (t_released t) eqn:E; [apply released_sticky; auto|].
  destruct Hd as [D|D]; [|discriminate].
  destruct c as [k h|k v h| |cc]; unfold tstep, push, release; cbn [fst snd t_released ends] in *;
    rewrite ?D, ?He; cbn [fst snd t_released]; rewrite ?E; reflexivity.
Qed.

(* in the mem transaction, done and released go together *)
Definition dinv (t : tstate) : Prop := t_done t = t_released t.

Lemma tstep_dinv t c : dinv t -> dinv (fst (fst (tstep MemTxn t c))).
Proof.
  unfold dinv; intros H. destruct c as [k h|k v h| |cc]; unfold tstep, push, release;
    cbn [fst snd t_done t_released];
    destruct (t_done t) eqn:D; destruct (t_released t) eqn:E; try discriminate;
    try destruct (handler_aborts h); cbn [fst snd t_done t_released]; rewrite ?E; cbn [t_done t_released]; congruence.
Qed.

(* THEOREM (released): however a mem transaction ends -- Commit, Abort, a handler that aborts, and
   whatever is called afterwards, in any order and any number of times -- no unlock of an unlocked
   mutex happens, and once any ending call has been made the store's mutex is free. *)
Theorem mem_store_released s0 cs :
  existsb ends cs = true -> usable MemTxn (fst (trun MemTxn (t_begin s0) cs)) = true.
Proof.
  intros He.
  assert (G : forall t, rinv t -> dinv t -> (existsb ends cs = true \/ t_released t = true) ->
                        t_released (fst (trun MemTxn t cs)) = true).
  { clear He. induction cs as [|c cs IH]; intros t R D H; simpl.
    - destruct H as [H|H]; [discriminate|exact H].
    - destruct (tstep MemTxn t c) as [[t1 r] id] eqn:E.
      destruct (trun MemTxn t1 cs) as [t2 out] eqn:E2. simpl.
      specialize (IH t1). rewrite E2 in IH. simpl in IH.
      pose proof (tstep_rinv t c R) as R1. pose proof (tstep_dinv t c D) as D1. rewrite E in R1, D1. simpl in R1, D1.
      apply IH; auto.
      destruct H as [H|H].
      + simpl in H. apply orb_true_iff in H. destruct H as [H|H]; [|left; exact H].
        right. pose proof (ends_releases t c R) as X. rewrite E in X. simpl in X. apply X; auto.
        unfold dinv in D. destruct (t_released t); [right; reflexivity|left; exact D].
      + right. pose proof (released_sticky t c R H) as X. rewrite E in X. exact X. }
  pose proof (trun_rinv (t_begin s0) cs (rinv_begin s0)) as (C & L & R).
  assert (Rel : t_released (fst (trun MemTxn (t_begin s0) cs)) = true).
  { apply G; [apply rinv_begin|reflexivity|left; exact He]. }
  unfold usable. rewrite C. destruct (R Rel) as [Lk _]. rewrite Lk. reflexivity.
Qed.

(* the serial fallback never touches a mutex and cannot crash *)
Theorem serial_store_usable s0 cs : usable SerialTxn (fst (trun SerialTxn (t_begin s0) cs)) = true.
Proof.
  assert (G : forall t, t_crashed t = false -> t_crashed (fst (trun SerialTxn t cs)) = false).
  { induction cs as [|c cs IH]; intros t C; simpl; [exact C|].
    destruct (tstep SerialTxn t c) as [[t1 r] id] eqn:E.
    destruct (trun SerialTxn t1 cs) as [t2 out] eqn:E2. simpl.
    specialize (IH t1). rewrite E2 in IH. apply IH.
    destruct c as [k h|k v h| |cc]; simpl in E.
    - destruct (t_done t); [inversion E; subst; simpl; exact C|]. destruct (handler_aborts h); inversion E; subst; simpl; exact C.
    - destruct (t_done t); [inversion E; subst; simpl; exact C|]. destruct (handler_aborts h); inversion E; subst; simpl; exact C.
    - inversion E; subst; simpl; exact C.
    - destruct (t_done t || cc); inversion E; subst; simpl; exact C. }
  unfold usable. rewrite G by reflexivity. reflexivity.
Qed.

(* ---- an ended transaction leaves the store's mutex alone ----
   After releaseOnce has fired, the mutex may be held by the NEXT transaction (t_locked is then that one's lock).
   Whatever is called on the ended transaction -- Commit and Abort again, Gets, Sets, with any handlers -- neither the
   mutex, nor the store, nor the fatal-error flag changes. *)
Lemma released_step_keeps_the_mutex t c : t_released t = true -> t_done t = true ->
  let t' := fst (fst (tstep MemTxn t c)) in
  t_locked t' = t_locked t /\ t_store t' = t_store t /\ t_crashed t' = t_crashed t /\
  t_released t' = true /\ t_done t' = true.
Proof.
  intros R D. destruct c as [k h|k v h| |cc]; cbn [tstep]; rewrite ?D; cbn [fst]; unfold release; rewrite ?R;
    unfold push; cbn; repeat split; auto.
Qed.

Theorem ended_transaction_leaves_the_mutex_alone t cs : t_released t = true -> t_done t = true ->
  let t' := fst (trun MemTxn t cs) in
  t_locked t' = t_locked t /\ t_store t' = t_store t /\ t_crashed t' = t_crashed t.
Proof.
  revert t. induction cs as [|c rest IH]; intros t R D; cbn [trun].
  - cbn. auto.
  - pose proof (released_step_keeps_the_mutex t c R D) as H.
    destruct (tstep MemTxn t c) as [[t1 r] id]. cbn [fst] in H. destruct H as (L & S & C & R1 & D1).
    specialize (IH t1 R1 D1). destruct (trun MemTxn t1 rest) as [t2 out]. cbn [fst] in *.
    destruct IH as (L2 & S2 & C2). repeat split; congruence.
Qed.

(* every way of ending puts the transaction into that state *)
Lemma ended_is_released_and_done s0 cs : existsb ends cs = true ->
  let t := fst (trun MemTxn (t_begin s0) cs) in t_crashed t = false -> t_released t = true /\ t_done t = true.
Proof.
  intros E t C. pose proof (mem_store_released s0 cs E) as U. unfold usable in U. fold t in U.
  assert (D : dinv t).
  { unfold t. assert (G : forall cs t0, dinv t0 -> dinv (fst (trun MemTxn t0 cs))).
    { clear. induction cs as [|c rest IH]; intros t0 H; cbn [trun]; [exact H|].
      pose proof (tstep_dinv t0 c H) as H1. destruct (tstep MemTxn t0 c) as [[t1 r] id]. cbn [fst] in H1.
      specialize (IH t1 H1). destruct (trun MemTxn t1 rest) as [t2 out]. exact IH. }
    apply G. reflexivity. }
  destruct (trun_rinv (t_begin s0) cs (rinv_begin s0)) as (_ & L & _). fold t in L.
  destruct (t_released t) eqn:R.
  - split; [reflexivity|]. unfold dinv in D. congruence.
  - specialize (L eq_refl). rewrite L, C in U. discriminate.
Qed.
