(* Theorems about the suite's tree assertion, valid for ALL trees (C20): they explain which
   deviations the suite cannot notice, and that it does notice them once the mask keeps the bits. *)
From HP Require Import Base.Prelude Fstest.Assert.
Open Scope N_scope.

Lemma forallb_ext_in' {A} (f g : A -> bool) l : (forall x, In x l -> f x = g x) -> forallb f l = forallb g l.
Proof.
  induction l as [|a l IH]; intros H; simpl; [reflexivity|].
  rewrite H by (left; reflexivity). rewrite IH; [reflexivity|]. intros x Hx; apply H; right; exact Hx.
Qed.

Lemma ent_eqb_refl e : ent_eqb e e = true.
Proof. unfold ent_eqb. rewrite !N.eqb_refl. destruct (e_dir e); reflexivity. Qed.

(* With the default FileModeMask (0) every mode is AND-ed to 0: the verdict does not depend on any
   mode of the actual tree. *)
Definition same_but_modes (a b : tree) : Prop :=
  Forall2 (fun x y => fst x = fst y /\ e_size (snd x) = e_size (snd y) /\ e_dir (snd x) = e_dir (snd y)) a b.

Lemma tlookup_same_but_modes a b p : same_but_modes a b ->
  match tlookup a p, tlookup b p with
  | Some x, Some y => e_size x = e_size y /\ e_dir x = e_dir y
  | None, None => True
  | _, _ => False
  end.
Proof.
  induction 1 as [|[k1 e1] [k2 e2] a b (Hk & Hs & Hd) _ IH]; simpl; [exact I|].
  simpl in Hk, Hs, Hd. subst k2. destruct (str_eqb k1 p); [split; assumption|exact IH].
Qed.

Theorem mask_zero_blind : forall expected actual actual',
  same_but_modes actual actual' ->
  tree_assert 0 expected actual = tree_assert 0 expected actual'.
Proof.
  intros expected actual actual' H. unfold tree_assert. apply forallb_ext_in'. intros [p e] _.
  pose proof (tlookup_same_but_modes actual actual' p H) as L. simpl.
  destruct (tlookup actual p) as [x|], (tlookup actual' p) as [y|]; try contradiction; [|reflexivity].
  destruct L as [Hs Hd]. unfold ent_eqb, mask_ent, walked; simpl. rewrite !N.land_0_r, Hs, Hd. reflexivity.
Qed.

(* ... and neither on any mode the scenario expects. *)
Theorem mask_zero_ignores_expected_modes : forall p e m actual,
  tree_assert 0 [(p, e)] actual = tree_assert 0 [(p, mkEnt (e_size e) m (e_dir e))] actual.
Proof.
  intros p e m actual. unfold tree_assert; simpl. destruct (tlookup actual p); [|reflexivity].
  unfold ent_eqb, mask_ent, walked; simpl. rewrite !N.land_0_r. reflexivity.
Qed.

(* Subset semantics: an entry left behind (anything extra in the actual tree) is never noticed,
   whatever the mask. *)
Lemma tlookup_cons_other actual p q e : str_eqb q p = false -> tlookup ((q, e) :: actual) p = tlookup actual p.
Proof. intros H; simpl; rewrite H; reflexivity. Qed.

Theorem subset_accepts_superset : forall mask expected actual q e,
  (forall p x, In (p, x) expected -> str_eqb q p = false) ->
  tree_assert mask expected ((q, e) :: actual) = tree_assert mask expected actual.
Proof.
  intros mask expected actual q e H. unfold tree_assert. apply forallb_ext_in'.
  intros [p x] Hin. simpl fst. rewrite tlookup_cons_other by (eapply H; exact Hin). reflexivity.
Qed.

(* With a mask that keeps a bit, a difference in that bit IS noticed: the blindness is the default's. *)
Theorem kept_bit_is_checked : forall mask p e a actual,
  tlookup actual p = Some a ->
  N.land (e_mode e) mask <> N.land (e_mode a) mask ->
  tree_assert mask [(p, e)] actual = false.
Proof.
  intros mask p e a actual L Hne. unfold tree_assert; simpl. rewrite L.
  unfold ent_eqb, mask_ent, walked; simpl.
  destruct (N.eqb_spec (N.land (e_mode e) mask) (N.land (e_mode a) mask)); [contradiction|].
  rewrite andb_false_r. reflexivity.
Qed.

(* A missing entry, a wrong size of a regular file and a wrong kind are always noticed. *)
Theorem missing_entry_is_noticed : forall mask p e actual,
  tlookup actual p = None -> tree_assert mask [(p, e)] actual = false.
Proof. intros mask p e actual L. unfold tree_assert; simpl. rewrite L. reflexivity. Qed.

Theorem wrong_size_is_noticed : forall mask p e a actual,
  tlookup actual p = Some a -> e_dir a = false -> e_size e <> e_size a ->
  tree_assert mask [(p, e)] actual = false.
Proof.
  intros mask p e a actual L Hd Hs. unfold tree_assert; simpl. rewrite L.
  unfold ent_eqb, mask_ent, walked; simpl. rewrite Hd.
  destruct (N.eqb_spec (e_size e) (e_size a)); [contradiction|reflexivity].
Qed.

Theorem wrong_kind_is_noticed : forall mask p e a actual,
  tlookup actual p = Some a -> e_dir e <> e_dir a -> tree_assert mask [(p, e)] actual = false.
Proof.
  intros mask p e a actual L Hd. unfold tree_assert; simpl. rewrite L.
  unfold ent_eqb, mask_ent, walked; simpl.
  destruct (e_dir e), (e_dir a); try congruence; simpl; rewrite ?andb_false_r; reflexivity.
Qed.

(* The reference passes its own expectation: a tree asserts equal to itself (directories with size 0). *)
Theorem accepts_itself : forall mask t, NoDup (map fst t) -> Forall (fun kv => e_dir (snd kv) = true -> e_size (snd kv) = 0) t ->
  tree_assert mask t t = true.
Proof.
  intros mask t ND Hd. unfold tree_assert. apply forallb_forall. intros [p e] Hin.
  assert (L : tlookup t p = Some e).
  { clear Hd. induction t as [|[k v] t IH]; [contradiction|]. simpl in *. inversion ND as [|? ? Hni ND']; subst.
    destruct Hin as [Hin|Hin].
    - inversion Hin; subst. rewrite str_eqb_refl. reflexivity.
    - destruct (str_eqb_spec k p) as [->|Hne].
      + exfalso. apply Hni. apply in_map_iff. exists (p, e). split; [reflexivity|exact Hin].
      + apply IH; assumption. }
  simpl. rewrite L. rewrite Forall_forall in Hd. specialize (Hd (p, e) Hin). simpl in Hd.
  unfold ent_eqb, mask_ent, walked; simpl. rewrite N.eqb_refl.
  destruct (e_dir e) eqn:D; simpl.
  - rewrite (Hd eq_refl). reflexivity.
  - rewrite N.eqb_refl. reflexivity.
Qed.
