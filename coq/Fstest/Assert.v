(* Model of the fstest suite's tree assertion (fstest/assert.go: tryAssertEqualFS + walkFSEntries,
   internal/assert.Subset on maps) -- the verdict function every scenario's final check goes through. *)
From HP Require Import Base.Prelude.
Open Scope N_scope.

Record ent := mkEnt { e_size : N; e_mode : N; e_dir : bool }.

Definition tree := list (str * ent).

Fixpoint tlookup (t : tree) (p : str) : option ent :=
  match t with
  | [] => None
  | (k, v) :: t' => if str_eqb k p then Some v else tlookup t' p
  end.

Definition ent_eqb (a b : ent) : bool :=
  N.eqb (e_size a) (e_size b) && N.eqb (e_mode a) (e_mode b) && Bool.eqb (e_dir a) (e_dir b).

(* "entry.Mode &= o.Constraints.FileModeMask" *)
Definition mask_ent (mask : N) (e : ent) : ent := mkEnt (e_size e) (N.land (e_mode e) mask) (e_dir e).

(* what walkFSEntries records for an existing entry: the size of directories is not looked at *)
Definition walked (mask : N) (e : ent) : ent :=
  mkEnt (if e_dir e then 0 else e_size e) (N.land (e_mode e) mask) (e_dir e).

(* assert.Subset(expected, entries): every expected key is present with a deeply equal value *)
Definition tree_assert (mask : N) (expected actual : tree) : bool :=
  forallb (fun kv =>
    match tlookup actual (fst kv) with
    | Some a => ent_eqb (mask_ent mask (snd kv)) (walked mask a)
    | None => false
    end) expected.

Definition C20_case := (N * tree * tree * bool)%type.
Definition C20_check (c : C20_case) : bool :=
  let '(mask, expected, actual, verdict) := c in Bool.eqb (tree_assert mask expected actual) verdict.
