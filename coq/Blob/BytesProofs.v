(* Theorems about the blob model (C19). *)
From HP Require Import Base.Prelude Blob.Bytes.
Open Scope nat_scope.

(* ------------------------------------------------------------------ *)
(* 1. Locking: from a state where this goroutine holds no mutex, every operation returns
      holding no mutex and never self-deadlocks.  We show that [bstep] coincides with a
      lock-free functional description [pstep]. *)

Definition unlocked (st : bstate) : bstate := mkB (arrays st) (blobs st) (next_mu st) [].

Definition pnew (st : bstate) (d : list N) : bstate * nat :=
  (mkB (arrays st ++ [(d, true)]) (blobs st ++ [mkSlice (length (arrays st)) 0 (length d) (next_mu st)])
       (Datatypes.S (next_mu st)) (held st), length (blobs st)).

Definition pstep (st : bstate) (op : bop) : bstate * bres :=
  match op with
  | BNew d => let '(st', i) := pnew st d in (st', ROk (Z.of_nat i))
  | BView bi s e =>
    match nth_error (blobs st) bi with
    | None => (st, RBadHandle)
    | Some b =>
      if range_ok (s_len b) s e then
        let v := mkSlice (s_arr b) (s_off b + Z.to_nat s) (Z.to_nat e - Z.to_nat s) (s_mu b) in
        (mkB (arrays st) (blobs st ++ [v]) (next_mu st) (held st), ROk (Z.of_nat (length (blobs st))))
      else (st, RErr)
    end
  | BSlice bi s e =>
    match nth_error (blobs st) bi with
    | None => (st, RBadHandle)
    | Some b =>
      if range_ok (s_len b) s e then
        let '(st', i) := pnew st (sublist (Z.to_nat s) (Z.to_nat e) (bytes_of st b)) in (st', ROk (Z.of_nat i))
      else (st, RErr)
    end
  | BSet di si o =>
    match nth_error (blobs st) di, nth_error (blobs st) si with
    | Some d, Some s =>
      if (o <? 0)%Z then (st, RErr)
      else if (Nat.eqb (s_len d) 0 && (o =? 0)%Z && negb (Nat.eqb (s_len s) 0)) then (st, RErr)
      else if (Z.of_nat (s_len d) <? o)%Z then (st, RErr)
      else
        let sb := bytes_of st s in
        let o' := Z.to_nat o in
        let n := Nat.min (s_len d - o') (length sb) in
        (set_arr st (s_arr d) (splice (arr_data st (s_arr d)) (s_off d + o') (firstn n sb)), ROk (Z.of_nat n))
    | _, _ => (st, RBadHandle)
    end
  | BGrow bi n =>
    match nth_error (blobs st) bi with
    | None => (st, RBadHandle)
    | Some b =>
      if (n <? 0)%Z then (st, RErr)
      else
        let k := Z.to_nat n in
        let a := arr_data st (s_arr b) in
        if Nat.leb (s_off b + s_len b + k) (length a) then
          (set_blob (set_arr st (s_arr b) (splice a (s_off b + s_len b) (zeros k))) bi
                    (mkSlice (s_arr b) (s_off b) (s_len b + k) (s_mu b)), ROk 0%Z)
        else if arr_exact st (s_arr b) then
          (set_blob (fst (add_arr st (bytes_of st b ++ zeros k) false)) bi
                    (mkSlice (length (arrays st)) 0 (s_len b + k) (s_mu b)), ROk 0%Z)
        else (st, RUnknown)
    end
  | BTrunc bi n =>
    match nth_error (blobs st) bi with
    | None => (st, RBadHandle)
    | Some b =>
      if (n <? 0)%Z then (st, RErr)
      else if (Z.of_nat (s_len b) <? n)%Z then (st, ROk 0%Z)
      else (set_blob st bi (mkSlice (s_arr b) (s_off b) (Z.to_nat n) (s_mu b)), ROk 0%Z)
    end
  | BLen bi =>
    match nth_error (blobs st) bi with
    | None => (st, RBadHandle)
    | Some b => (st, ROk (Z.of_nat (s_len b)))
    end
  | BBytes bi =>
    match nth_error (blobs st) bi with
    | None => (st, RBadHandle)
    | Some b => (st, RBytes (bytes_of st b))
    end
  end.

Lemma eqb_refl' m : Init.Nat.eqb m m = true.
Proof. induction m; simpl; auto. Qed.

Lemma bstate_eta st : held st = [] -> st = unlocked st.
Proof. destruct st; simpl; intros ->; reflexivity. Qed.

Lemma acquire_free st m : held st = [] ->
  acquire st m = Some (mkB (arrays st) (blobs st) (next_mu st) [m]).
Proof. unfold acquire; intros ->; reflexivity. Qed.

Lemma release_one a b n m : release (mkB a b n [m]) m = mkB a b n [].
Proof. unfold release; simpl. rewrite Nat.eqb_refl; reflexivity. Qed.

Lemma do_bytes_free ar bl nm b :
  do_bytes (mkB ar bl nm []) b = Some (mkB ar bl nm [], bytes_of (mkB ar bl nm []) b).
Proof. unfold do_bytes, acquire, release; simpl. rewrite ?Nat.eqb_refl, ?eqb_refl'. reflexivity. Qed.

Lemma acquire_free' ar bl nm m : acquire (mkB ar bl nm []) m = Some (mkB ar bl nm [m]).
Proof. reflexivity. Qed.

Lemma release_one' ar bl nm m : release (mkB ar bl nm [m]) m = mkB ar bl nm [].
Proof. unfold release; simpl. rewrite ?Nat.eqb_refl, ?eqb_refl'. reflexivity. Qed.

Theorem bstep_lockfree st op : held st = [] -> bstep st op = pstep st op.
Proof.
  intros H. destruct st as [ar bl nm hd]; simpl in H; subst hd.
  destruct op as [d|bi s e|bi s e|di si o|bi n|bi n|bi|bi]; unfold bstep, pstep;
    try reflexivity.
  - (* view *) cbn [blobs s_mu]. destruct (nth_error bl bi) as [b|]; [|reflexivity].
    destruct (range_ok _ _ _); [|reflexivity].
    rewrite acquire_free'. cbv zeta. rewrite release_one'. reflexivity.
  - (* slice *) cbn [blobs]. destruct (nth_error bl bi) as [b|]; [|reflexivity].
    destruct (range_ok _ _ _); [|reflexivity].
    unfold do_slice. rewrite acquire_free'. cbv zeta. rewrite release_one'. reflexivity.
  - (* set *) cbn [blobs]. destruct (nth_error bl di) as [d|]; [|reflexivity].
    destruct (nth_error bl si) as [s|]; [|reflexivity].
    destruct (o <? 0)%Z; [reflexivity|].
    destruct (_ && _ && _); [reflexivity|].
    destruct (_ <? o)%Z; [reflexivity|].
    rewrite do_bytes_free. rewrite acquire_free'. cbv zeta.
    unfold set_arr at 1. cbn [arrays blobs next_mu held]. rewrite release_one'. reflexivity.
  - (* grow *) cbn [blobs]. destruct (nth_error bl bi) as [b|]; [|reflexivity].
    destruct (n <? 0)%Z; [reflexivity|]. rewrite acquire_free'. cbv zeta.
    change (arr_data (mkB ar bl nm [s_mu b])) with (arr_data (mkB ar bl nm [])).
    destruct (Nat.leb _ _).
    + unfold set_arr, set_blob. cbn [arrays blobs next_mu held]. rewrite release_one'. reflexivity.
    + change (arr_exact (mkB ar bl nm [s_mu b])) with (arr_exact (mkB ar bl nm [])).
      destruct (arr_exact _ _); [|reflexivity].
      unfold add_arr, set_blob. cbn [arrays blobs next_mu held fst]. rewrite release_one'. reflexivity.
  - (* trunc *) cbn [blobs]. destruct (nth_error bl bi) as [b|]; [|reflexivity].
    destruct (n <? 0)%Z; [reflexivity|]. destruct (_ <? n)%Z; [reflexivity|].
    rewrite acquire_free'. unfold set_blob. cbn [arrays blobs next_mu held]. rewrite release_one'. reflexivity.
  - (* bytes *) cbn [blobs]. destruct (nth_error bl bi) as [b|]; [|reflexivity].
    rewrite do_bytes_free. reflexivity.
Qed.

Lemma pstep_held st op : held (fst (pstep st op)) = held st.
Proof.
  destruct op as [d|bi s e|bi s e|di si o|bi n|bi n|bi|bi]; cbn -[range_ok sublist splice Z.of_nat Z.to_nat zeros];
    try reflexivity;
    repeat match goal with
    | |- context [match nth_error ?l ?i with _ => _ end] => destruct (nth_error l i)
    | |- context [if ?c then _ else _] => destruct c
    end; reflexivity.
Qed.

Lemma pstep_no_lock_failure st op :
  snd (pstep st op) <> RDeadlock /\ snd (pstep st op) <> RPanic.
Proof.
  destruct op as [d|bi s e|bi s e|di si o|bi n|bi n|bi|bi]; cbn -[range_ok sublist splice Z.of_nat Z.to_nat zeros];
    repeat match goal with
    | |- context [match nth_error ?l ?i with _ => _ end] => destruct (nth_error l i)
    | |- context [if ?c then _ else _] => destruct c
    end; split; discriminate.
Qed.

(* Every operation, from an unlocked state: returns unlocked, no deadlock, no panic. *)
Theorem bstep_terminates_unlocked st op :
  held st = [] ->
  held (fst (bstep st op)) = [] /\ snd (bstep st op) <> RDeadlock /\ snd (bstep st op) <> RPanic.
Proof.
  intros H. rewrite (bstep_lockfree st op H). split.
  - rewrite pstep_held; exact H.
  - apply pstep_no_lock_failure.
Qed.

(* Lifted to every history from the initial state. *)
Lemma brun_safe st ops : held st = [] ->
  Forall (fun ro => fst ro <> RDeadlock /\ fst ro <> RPanic) (brun st ops).
Proof.
  revert st; induction ops as [|op ops IH]; intros st H; simpl; [constructor|].
  destruct (bstep_terminates_unlocked st op H) as (Hh & Hd & Hp).
  destruct (bstep st op) as [st' r] eqn:E; simpl in *.
  destruct r; try (constructor; [simpl; split; congruence | apply IH; exact Hh]);
    try (constructor; [simpl; split; congruence | constructor]).
Qed.

(* ------------------------------------------------------------------ *)
(* 2. Well-formedness: every blob lies inside its array. *)

Definition adata (ar : list (list N * bool)) (a : nat) : list N :=
  match nth_error ar a with Some (d, _) => d | None => [] end.

Definition slice_ok (ar : list (list N * bool)) (b : slice) : Prop :=
  s_arr b < length ar /\ s_off b + s_len b <= length (adata ar (s_arr b)).

Definition wf (st : bstate) : Prop := Forall (slice_ok (arrays st)) (blobs st).

Lemma wf_init : wf binit.
Proof. constructor. Qed.

Lemma adata_app_old ar a x : a < length ar -> adata (ar ++ [x]) a = adata ar a.
Proof. intros H; unfold adata. rewrite nth_error_app1 by exact H. reflexivity. Qed.

Lemma adata_app_new ar d x : adata (ar ++ [(d, x)]) (length ar) = d.
Proof. unfold adata. rewrite nth_error_app2 by lia. rewrite Nat.sub_diag. reflexivity. Qed.

Lemma adata_set_same ar a d x : a < length ar -> adata (list_set ar a (d, x)) a = d.
Proof. intros H; unfold adata. rewrite nth_error_list_set_eq by exact H. reflexivity. Qed.

Lemma adata_set_other ar a a' y : a <> a' -> adata (list_set ar a y) a' = adata ar a'.
Proof. intros H; unfold adata. rewrite nth_error_list_set_neq by exact H. reflexivity. Qed.

Lemma slice_ok_app ar x b : slice_ok ar b -> slice_ok (ar ++ [x]) b.
Proof.
  intros [H1 H2]; split; [rewrite app_length; simpl; lia|].
  rewrite adata_app_old by exact H1. exact H2.
Qed.

Lemma slice_ok_new ar d x m : slice_ok (ar ++ [(d, x)]) (mkSlice (length ar) 0 (length d) m).
Proof.
  split; simpl; [rewrite app_length; simpl; lia|]. rewrite adata_app_new. lia.
Qed.

(* overwriting an array with contents of the same length keeps every slice inside *)
Lemma slice_ok_set ar a d x b :
  a < length ar -> length d = length (adata ar a) -> slice_ok ar b -> slice_ok (list_set ar a (d, x)) b.
Proof.
  intros Ha Hl [H1 H2]; split; [rewrite list_set_length; exact H1|].
  destruct (Nat.eq_dec a (s_arr b)) as [Eq|Ne].
  - subst a. rewrite adata_set_same by exact Ha. rewrite Hl. exact H2.
  - rewrite adata_set_other by exact Ne. exact H2.
Qed.

Lemma Forall_list_set {A} (P : A -> Prop) l i x : Forall P l -> P x -> Forall P (list_set l i x).
Proof.
  revert i; induction l as [|h t IH]; intros [|i] Hl Hx; simpl; auto; inversion Hl; subst; constructor; auto.
Qed.

Lemma nth_error_Forall {A} (P : A -> Prop) l i x : Forall P l -> nth_error l i = Some x -> P x.
Proof. intros H E. rewrite Forall_forall in H. apply H. eapply nth_error_In; eauto. Qed.

Lemma range_ok_spec len s e : range_ok len s e = true ->
  (0 <= s)%Z /\ (s <= e)%Z /\ (e <= Z.of_nat len)%Z.
Proof. unfold range_ok; rewrite !andb_true_iff, !Z.leb_le. lia. Qed.

Theorem pstep_wf st op : wf st -> wf (fst (pstep st op)).
Proof.
  unfold wf; intros W. destruct st as [ar bl nm hd]; cbn [arrays blobs] in W.
  destruct op as [d|bi s e|bi s e|di si o|bi n|bi n|bi|bi]; unfold pstep; cbn [arrays blobs next_mu held].
  - (* new *) cbn. apply Forall_app; split.
    + eapply Forall_impl; [|exact W]. intros b; apply slice_ok_app.
    + constructor; [|constructor]. apply slice_ok_new.
  - (* view *) destruct (nth_error bl bi) as [b|] eqn:E; [|exact W].
    destruct (range_ok _ _ _) eqn:R; [|exact W]. cbn.
    apply Forall_app; split; [exact W|].
    constructor; [|constructor]. destruct (nth_error_Forall _ _ _ _ W E) as [H1 H2].
    apply range_ok_spec in R. split; simpl; [exact H1|]. lia.
  - (* slice *) destruct (nth_error bl bi) as [b|] eqn:E; [|exact W].
    destruct (range_ok _ _ _) eqn:R; [|exact W]. cbn -[sublist].
    apply Forall_app; split.
    + eapply Forall_impl; [|exact W]. intros x; apply slice_ok_app.
    + constructor; [|constructor]. apply slice_ok_new.
  - (* set *) destruct (nth_error bl di) as [d|] eqn:Ed; [|exact W].
    destruct (nth_error bl si) as [s|] eqn:Es; [|exact W].
    destruct (o <? 0)%Z eqn:O1; [exact W|].
    destruct (_ && _ && _); [exact W|].
    destruct (_ <? o)%Z eqn:O2; [exact W|]. cbn -[splice sublist].
    destruct (nth_error_Forall _ _ _ _ W Ed) as [D1 D2].
    apply Z.ltb_ge in O1, O2.
    eapply Forall_impl; [|exact W]. intros x. apply slice_ok_set; [exact D1|].
    apply splice_length. rewrite firstn_length. fold (adata ar (s_arr d)). lia.
  - (* grow *) destruct (nth_error bl bi) as [b|] eqn:E; [|exact W].
    destruct (n <? 0)%Z eqn:N1; [exact W|]. apply Z.ltb_ge in N1.
    destruct (nth_error_Forall _ _ _ _ W E) as [B1 B2].
    cbv zeta. change (arr_data (mkB ar bl nm hd) (s_arr b)) with (adata ar (s_arr b)).
    destruct (Nat.leb _ _) eqn:L.
    + apply Nat.leb_le in L. cbn -[splice zeros].
      assert (Hlen : length (splice (adata ar (s_arr b)) (s_off b + s_len b) (zeros (Z.to_nat n))) = length (adata ar (s_arr b))).
      { apply splice_length. unfold zeros; rewrite repeat_length; lia. }
      apply Forall_list_set.
      * eapply Forall_impl; [|exact W]. intros x. apply slice_ok_set; [exact B1|exact Hlen].
      * split; simpl; [rewrite list_set_length; exact B1|].
        rewrite adata_set_same by exact B1. rewrite Hlen. lia.
    + destruct (arr_exact _ _); [|exact W]. cbn -[sublist zeros].
      apply Forall_list_set.
      * eapply Forall_impl; [|exact W]. intros x; apply slice_ok_app.
      * split; simpl; [rewrite app_length; simpl; lia|].
        rewrite adata_app_new. rewrite app_length. unfold zeros; rewrite repeat_length.
        unfold bytes_of. rewrite sublist_length; [lia|lia|].
        change (arr_data (mkB ar bl nm hd) (s_arr b)) with (adata ar (s_arr b)). lia.
  - (* trunc *) destruct (nth_error bl bi) as [b|] eqn:E; [|exact W].
    destruct (n <? 0)%Z eqn:N1; [exact W|]. destruct (_ <? n)%Z eqn:N2; [exact W|]. cbn.
    apply Z.ltb_ge in N1, N2.
    destruct (nth_error_Forall _ _ _ _ W E) as [B1 B2].
    apply Forall_list_set; [exact W|]. split; simpl; [exact B1|]. lia.
  - destruct (nth_error bl bi); exact W.
  - destruct (nth_error bl bi); exact W.
Qed.
