(* Theorems about the JS side of the typed-array blob (Blob/Typed.v). *)
From HP Require Import Base.Prelude Base.ListLemmas Blob.Bytes Blob.Typed.
From Coq Require Import Lia ZArith.
Open Scope nat_scope.

(* ---- windows on one array alias: a view IS the corresponding piece of its parent, in every state ---- *)
Theorem view_is_a_window_of_its_parent st buf off len x y : x <= y -> y <= len ->
  obj_bytes st (mkO buf (off + x) (y - x)) = sublist x y (obj_bytes st (mkO buf off len)).
Proof.
  intros Hxy Hy. unfold obj_bytes. cbn [o_off o_len o_buf]. apply nth_error_ext. intros i.
  rewrite !nth_error_sublist.
  destruct (Nat.ltb_spec i (off + x + (y - x) - (off + x))) as [H1|H1];
  destruct (Nat.ltb_spec i (y - x)) as [H2|H2]; try lia; [|reflexivity].
  destruct (Nat.ltb_spec (x + i) (off + len - off)) as [H3|H3]; [|lia]. f_equal. lia.
Qed.

(* ---- well-formedness: every object is a window inside its array, every handle names an object ---- *)
Definition obj_ok (bufs : list (list N)) (o : tobj) : Prop :=
  o_buf o < length bufs /\ o_off o + o_len o <= length (nth (o_buf o) bufs []).
Definition twf (st : tstate) : Prop :=
  Forall (obj_ok (t_bufs st)) (t_objs st) /\ Forall (fun oid => oid < length (t_objs st)) (t_handles st).

Lemma twf_init : twf tinit.
Proof. split; constructor. Qed.

Lemma obj_ok_app bufs b o : obj_ok bufs o -> obj_ok (bufs ++ [b]) o.
Proof.
  intros [H1 H2]. split; [rewrite app_length; simpl; lia|]. rewrite app_nth1 by exact H1. exact H2.
Qed.

Lemma Forall_obj_ok_app bufs b objs : Forall (obj_ok bufs) objs -> Forall (obj_ok (bufs ++ [b])) objs.
Proof. intros H. eapply Forall_impl; [|exact H]. intros o. apply obj_ok_app. Qed.

Lemma handles_mono n m hs : n <= m -> Forall (fun oid => oid < n) hs -> Forall (fun oid => oid < m) hs.
Proof. intros L H. eapply Forall_impl; [|exact H]. cbn. intros; lia. Qed.

Lemma handle_obj_ok st h oid o : twf st -> handle_obj st h = Some (oid, o) ->
  obj_ok (t_bufs st) o /\ oid < length (t_objs st) /\ nth_error (t_objs st) oid = Some o.
Proof.
  intros [WO WH] H. unfold handle_obj in H.
  destruct (nth_error (t_handles st) h) as [oid'|] eqn:E1; [|discriminate].
  destruct (nth_error (t_objs st) oid') as [o'|] eqn:E2; [|discriminate]. inversion H; subst.
  split; [|split; [|exact E2]].
  - rewrite Forall_forall in WO. apply WO. eapply nth_error_In; exact E2.
  - apply nth_error_Some. congruence.
Qed.

Lemma obj_bytes_length st o : obj_ok (t_bufs st) o -> length (obj_bytes st o) = o_len o.
Proof.
  intros [_ H]. unfold obj_bytes, buf_of. rewrite sublist_length by lia. lia.
Qed.

Lemma nth_list_set_eq {A} (l : list A) i x d : i < length l -> nth i (list_set l i x) d = x.
Proof. revert i; induction l as [|a l IH]; intros [|i] H; simpl in *; try lia; auto. apply IH; lia. Qed.
Lemma nth_list_set_neq {A} (l : list A) i j x d : i <> j -> nth j (list_set l i x) d = nth j l d.
Proof. revert i j; induction l as [|a l IH]; intros [|i] [|j] H; simpl; auto; try congruence. Qed.

Lemma Forall_list_set {A} (P : A -> Prop) l i x : Forall P l -> P x -> Forall P (list_set l i x).
Proof.
  revert i; induction l as [|a l IH]; intros [|i] H Hx; simpl; auto; inversion H; subst; constructor; auto.
Qed.

Lemma new_obj_wf st bufs o : Forall (obj_ok bufs) (t_objs st) -> Forall (fun oid => oid < length (t_objs st)) (t_handles st) ->
  obj_ok bufs o -> twf (new_obj st bufs o).
Proof.
  intros WO WH Ho. unfold new_obj, twf. cbn [t_bufs t_objs t_handles]. split.
  - apply Forall_app. split; [exact WO|constructor; [exact Ho|constructor]].
  - rewrite app_length. simpl. apply Forall_app. split.
    + eapply handles_mono; [|exact WH]. lia.
    + constructor; [lia|constructor].
Qed.

(* THEOREM: every state reachable by any sequence of calls is well-formed: no window ever reaches outside its array
   (a typed array would throw a RangeError there), no handle dangles. *)
Theorem tstep_wf st op : twf st -> twf (fst (tstep st op)).
Proof.
  intros W. pose proof W as [WO WH]. destruct op as [d|h s e|h s e|hd hs off|h n|h n|h|h]; cbn [tstep].
  - cbn [fst]. apply new_obj_wf; [apply Forall_obj_ok_app; exact WO|exact WH|].
    split; cbn [o_buf o_off o_len]; [rewrite app_length; simpl; lia|]. rewrite app_nth2 by lia. rewrite Nat.sub_diag. simpl. lia.
  - destruct (handle_obj st h) as [[oid o]|] eqn:E; [|exact W].
    destruct (handle_obj_ok st h oid o W E) as ([Hb Hr] & Hoid & _).
    destruct ((0 <=? s)%Z && (s <=? e)%Z && (e <=? Z.of_nat (o_len o))%Z) eqn:R; [|exact W].
    apply andb_prop in R. destruct R as [R R3]. apply andb_prop in R. destruct R as [R1 R2].
    apply Z.leb_le in R1, R2, R3.
    destruct ((Z.to_nat s =? 0) && (Z.to_nat e =? o_len o)); cbn [fst].
    + split; cbn [t_bufs t_objs t_handles]; [exact WO|]. apply Forall_app. split; [exact WH|constructor; [exact Hoid|constructor]].
    + apply new_obj_wf; [exact WO|exact WH|]. split; cbn [o_buf o_off o_len]; [exact Hb|]. lia.
  - destruct (handle_obj st h) as [[oid o]|] eqn:E; [|exact W].
    destruct (handle_obj_ok st h oid o W E) as (Hok & Hoid & _).
    destruct ((0 <=? s)%Z && (s <=? e)%Z && (e <=? Z.of_nat (o_len o))%Z) eqn:R; [|exact W].
    apply andb_prop in R. destruct R as [R R3]. apply andb_prop in R. destruct R as [R1 R2].
    apply Z.leb_le in R1, R2, R3. cbn [fst].
    apply new_obj_wf; [apply Forall_obj_ok_app; exact WO|exact WH|].
    split; cbn [o_buf o_off o_len]; [rewrite app_length; simpl; lia|]. rewrite app_nth2 by lia. rewrite Nat.sub_diag. cbn [nth].
    rewrite sublist_length; [lia|lia|]. rewrite obj_bytes_length by exact Hok. lia.
  - destruct (handle_obj st hd) as [[oidd d]|] eqn:Ed; [|exact W].
    destruct (handle_obj st hs) as [[oids s]|] eqn:Es; [|exact W].
    destruct (handle_obj_ok st hd oidd d W Ed) as ([Hdb Hdr] & _ & _).
    destruct (handle_obj_ok st hs oids s W Es) as (Hsok & _ & _).
    destruct ((0 <=? off)%Z && (off <=? Z.of_nat (o_len d))%Z) eqn:R; [|exact W].
    apply andb_prop in R. destruct R as [R1 R2]. apply Z.leb_le in R1, R2.
    destruct ((o_len d <=? Z.to_nat off) && (Z.to_nat off =? 0) && (0 <? o_len s)); [exact W|]. cbn [fst].
    split; cbn [t_bufs t_objs t_handles]; [|exact WH].
    eapply Forall_impl; [|exact WO]. intros o [Hob Hor]. split; [rewrite list_set_length; exact Hob|].
    destruct (Nat.eq_dec (o_buf d) (o_buf o)) as [Eq|Ne].
    + rewrite <- Eq. rewrite nth_list_set_eq by exact Hdb. rewrite splice_length.
      * unfold buf_of. rewrite Eq. exact Hor.
      * rewrite firstn_length, obj_bytes_length by exact Hsok. unfold buf_of. lia.
    + rewrite nth_list_set_neq by exact Ne. exact Hor.
  - destruct (handle_obj st h) as [[oid o]|] eqn:E; [|exact W].
    destruct (handle_obj_ok st h oid o W E) as (Hok & Hoid & _).
    destruct (0 <=? n)%Z eqn:R; [|exact W]. cbn [fst].
    split; cbn [t_bufs t_objs t_handles]; [|rewrite list_set_length; exact WH].
    apply Forall_list_set; [apply Forall_obj_ok_app; exact WO|].
    split; cbn [o_buf o_off o_len]; [rewrite app_length; simpl; lia|]. rewrite app_nth2 by lia. rewrite Nat.sub_diag. cbn [nth].
    rewrite app_length, repeat_length, obj_bytes_length by exact Hok. lia.
  - destruct (handle_obj st h) as [[oid o]|] eqn:E; [|exact W].
    destruct (handle_obj_ok st h oid o W E) as (Hok & Hoid & _).
    destruct (0 <=? n)%Z eqn:R; [|exact W].
    destruct (Nat.ltb_spec (o_len o) (Z.to_nat n)) as [Hlt|Hge]; [exact W|]. cbn [fst].
    split; cbn [t_bufs t_objs t_handles]; [|rewrite list_set_length; exact WH].
    apply Forall_list_set; [apply Forall_obj_ok_app; exact WO|].
    split; cbn [o_buf o_off o_len]; [rewrite app_length; simpl; lia|]. rewrite app_nth2 by lia. rewrite Nat.sub_diag. cbn [nth].
    rewrite firstn_length, obj_bytes_length by exact Hok. lia.
  - destruct (handle_obj st h) as [[oid o]|]; exact W.
  - destruct (handle_obj st h) as [[oid o]|]; exact W.
Qed.

Theorem reachable_wf ops : twf (fold_left (fun st op => fst (tstep st op)) ops tinit).
Proof.
  assert (G : forall ops st, twf st -> twf (fold_left (fun st op => fst (tstep st op)) ops st)).
  { clear. induction ops as [|op rest IH]; intros st W; cbn [fold_left]; [exact W|]. apply IH. apply tstep_wf. exact W. }
  apply G. apply twf_init.
Qed.

(* ---- a resize moves the blob to an array of its own; a Slice is born on one ---- *)
Definition sole_owner (st : tstate) (oid : nat) : Prop :=
  forall o, nth_error (t_objs st) oid = Some o ->
  forall oid' o', oid' <> oid -> nth_error (t_objs st) oid' = Some o' -> o_buf o' <> o_buf o.

Theorem grow_detaches st h n oid o : twf st -> handle_obj st h = Some (oid, o) -> (0 <= n)%Z ->
  sole_owner (fst (tstep st (BGrow h n))) oid.
Proof.
  intros W E Hn. destruct (handle_obj_ok st h oid o W E) as (_ & Hoid & _).
  cbn [tstep]. rewrite E. destruct (Z.leb_spec 0 n); [|lia]. cbn [fst].
  intros o1 H1 oid' o' Hne H'. cbn [t_objs] in H1, H'.
  rewrite nth_error_list_set_eq in H1 by exact Hoid. inversion H1; subst. cbn [o_buf].
  rewrite nth_error_list_set_neq in H' by congruence.
  destruct W as [WO _]. rewrite Forall_forall in WO. apply nth_error_In in H'. apply WO in H'. destruct H' as [Hb _]. lia.
Qed.

Theorem truncate_detaches st h n oid o : twf st -> handle_obj st h = Some (oid, o) -> (0 <= n)%Z -> Z.to_nat n <= o_len o ->
  sole_owner (fst (tstep st (BTrunc h n))) oid.
Proof.
  intros W E Hn Hle. destruct (handle_obj_ok st h oid o W E) as (_ & Hoid & _).
  cbn [tstep]. rewrite E. destruct (Z.leb_spec 0 n); [|lia].
  destruct (Nat.ltb_spec (o_len o) (Z.to_nat n)); [lia|]. cbn [fst].
  intros o1 H1 oid' o' Hne H'. cbn [t_objs] in H1, H'.
  rewrite nth_error_list_set_eq in H1 by exact Hoid. inversion H1; subst. cbn [o_buf].
  rewrite nth_error_list_set_neq in H' by congruence.
  destruct W as [WO _]. rewrite Forall_forall in WO. apply nth_error_In in H'. apply WO in H'. destruct H' as [Hb _]. lia.
Qed.

(* ---- in-range arguments are accepted (the only refusal is a non-empty Set at offset 0 of an empty blob) ---- *)
Theorem in_range_view_accepted st h oid o s e : handle_obj st h = Some (oid, o) ->
  (0 <= s)%Z -> (s <= e)%Z -> (e <= Z.of_nat (o_len o))%Z ->
  exists id, snd (tstep st (BView h s e)) = ROk id.
Proof.
  intros E H1 H2 H3. cbn [tstep]. rewrite E.
  destruct (Z.leb_spec 0 s); [|lia]. destruct (Z.leb_spec s e); [|lia]. destruct (Z.leb_spec e (Z.of_nat (o_len o))); [|lia].
  cbn [andb]. destruct ((Z.to_nat s =? 0) && (Z.to_nat e =? o_len o)); eexists; reflexivity.
Qed.

Theorem in_range_set_copies_what_fits st hd hs oidd d oids s off :
  handle_obj st hd = Some (oidd, d) -> handle_obj st hs = Some (oids, s) ->
  (0 <= off)%Z -> (off <= Z.of_nat (o_len d))%Z -> (0 < o_len d \/ o_len s = 0 \/ (0 < off)%Z) ->
  snd (tstep st (BSet hd hs off)) = ROk (Z.of_nat (Nat.min (o_len s) (o_len d - Z.to_nat off))).
Proof.
  intros Ed Es H1 H2 Hq. cbn [tstep]. rewrite Ed, Es.
  destruct (Z.leb_spec 0 off); [|lia]. destruct (Z.leb_spec off (Z.of_nat (o_len d))); [|lia]. cbn [andb].
  destruct ((o_len d <=? Z.to_nat off) && (Z.to_nat off =? 0) && (0 <? o_len s)) eqn:Q; [|reflexivity].
  apply andb_prop in Q. destruct Q as [Q Q3]. apply andb_prop in Q. destruct Q as [Q1 Q2].
  apply Nat.leb_le in Q1. apply Nat.eqb_eq in Q2. apply Nat.ltb_lt in Q3. lia.
Qed.

(* non-vacuity: a view, a write through it seen in the parent, then the parent grown away from it *)
Example typed_demo :
  map fst (trun_typed tinit [BNew [1;2;3;4]%N; BView 0 1%Z 3%Z; BNew [9;9]%N; BSet 1 2 0%Z; BBytes 0; BGrow 0 1%Z; BSet 1 2 1%Z; BBytes 0; BBytes 1]) =
  [ROk 0%Z; ROk 1%Z; ROk 2%Z; ROk 2%Z; RBytes [1;9;9;4]%N; ROk 0%Z; ROk 1%Z; RBytes [1;9;9;4;0]%N; RBytes [9;9]%N].
Proof. vm_compute. reflexivity. Qed.
