(* Correspondence predicate for C19: what the implementation did vs. what the model computes. *)
From HP Require Import Base.Prelude Blob.Bytes.

Definition bres_eqb (a b : bres) : bool :=
  match a, b with
  | ROk x, ROk y => Z.eqb x y
  | RBytes x, RBytes y => str_eqb x y
  | RErr, RErr | RPanic, RPanic | RDeadlock, RDeadlock => true
  | _, _ => false
  end.

Definition stops (r : bres) : bool :=
  match r with RPanic | RDeadlock => true | _ => false end.

(* model output vs implementation output; a model [RUnknown] ends the comparison *)
Fixpoint obs_match (m i : list (bres * list (list N))) : bool :=
  match m, i with
  | [], [] => true
  | (RUnknown, _) :: _, _ => true
  | (r, s) :: m', (r', s') :: i' =>
      bres_eqb r r' && (if stops r then true else list_eqb str_eqb s s' && obs_match m' i')
  | _, _ => false
  end.

Definition C19_check (c : list bop * list (bres * list (list N))) : bool :=
  obs_match (brun binit (fst c)) (snd c).

Definition C19_case := (list bop * list (bres * list (list N)))%type.
