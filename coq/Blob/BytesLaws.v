(* Functional laws of the blob model: blobs are byte sequences (C19). *)
From HP Require Import Base.Prelude Base.ListLemmas Blob.Bytes Blob.BytesProofs.
Open Scope nat_scope.

Ltac ltb_cases :=
  repeat match goal with
  | |- context [?a <? ?b] => destruct (Nat.ltb_spec a b)
  end.

(* ---- list facts ---- *)
Lemma sublist_sublist {A} (a : list A) off len s e :
  s <= e -> e <= len ->
  sublist (off + s) (off + s + (e - s)) a = sublist s e (sublist off (off + len) a).
Proof.
  intros H1 H2. apply nth_error_ext; intros i.
  rewrite !nth_error_sublist. ltb_cases; try lia; try reflexivity. f_equal; lia.
Qed.

Lemma sublist_splice_inside {A} (a d : list A) off len p :
  off <= p -> p + length d <= off + len -> off + len <= length a ->
  sublist off (off + len) (splice a p d) = splice (sublist off (off + len) a) (p - off) d.
Proof.
  intros H1 H2 H3. apply nth_error_ext; intros i.
  rewrite nth_error_sublist, !nth_error_splice, ?nth_error_sublist;
    try (rewrite sublist_length; lia); try lia.
  replace (off + len - off) with len by lia.
  ltb_cases; try lia; try reflexivity. f_equal; lia.
Qed.

Lemma sublist_splice_outside {A} (a d : list A) off len p :
  p + length d <= length a -> (off + len <= p \/ p + length d <= off) ->
  sublist off (off + len) (splice a p d) = sublist off (off + len) a.
Proof.
  intros H1 H2. apply nth_error_ext; intros i.
  rewrite !nth_error_sublist, nth_error_splice by lia.
  ltb_cases; try lia; reflexivity.
Qed.

Lemma sublist_full {A} (a : list A) : sublist 0 (0 + length a) a = a.
Proof. unfold sublist. simpl. rewrite Nat.sub_0_r. apply firstn_all. Qed.

Lemma sublist_grow_inplace {A} (a z : list A) off len :
  off + len + length z <= length a ->
  sublist off (off + (len + length z)) (splice a (off + len) z) = sublist off (off + len) a ++ z.
Proof.
  intros H. apply nth_error_ext; intros i.
  rewrite nth_error_sublist, nth_error_splice, nth_error_app, nth_error_sublist by lia.
  rewrite sublist_length by lia.
  replace (off + len - off) with len by lia.
  replace (off + (len + length z) - off) with (len + length z) by lia.
  ltb_cases; try lia; try reflexivity.
  - f_equal; lia.
  - symmetry; apply nth_error_None; lia.
Qed.

Lemma sublist_prefix {A} (a : list A) off len n : n <= len ->
  sublist off (off + n) a = firstn n (sublist off (off + len) a).
Proof.
  intros H. apply nth_error_ext; intros i.
  rewrite nth_error_firstn, !nth_error_sublist.
  replace (off + n - off) with n by lia. replace (off + len - off) with len by lia.
  ltb_cases; try lia; reflexivity.
Qed.

(* ---- argument ranges ---- *)
Definition in_range (st : bstate) (op : bop) : bool :=
  match op with
  | BView bi s e | BSlice bi s e =>
      match nth_error (blobs st) bi with Some b => range_ok (s_len b) s e | None => true end
  | BSet di _ o =>
      match nth_error (blobs st) di with
      | Some d => (0 <=? o)%Z && (o <=? Z.of_nat (s_len d))%Z | None => true end
  | BGrow _ n | BTrunc _ n => (0 <=? n)%Z
  | _ => true
  end.

Definition handles_ok (st : bstate) (op : bop) : Prop :=
  match op with
  | BNew _ => True
  | BView b _ _ | BSlice b _ _ | BGrow b _ | BTrunc b _ | BLen b | BBytes b => b < length (blobs st)
  | BSet d s _ => d < length (blobs st) /\ s < length (blobs st)
  end.

Lemma nth_error_some_lt {A} (l : list A) i : i < length l -> exists x, nth_error l i = Some x.
Proof. intros H. destruct (nth_error l i) eqn:E; eauto. apply nth_error_None in E; lia. Qed.

(* Out-of-range arguments are answered with an error and change nothing at all. *)
Theorem oob_rejected st op :
  handles_ok st op -> in_range st op = false -> pstep st op = (st, RErr).
Proof.
  intros Hh Hr. destruct op as [d|bi s e|bi s e|di si o|bi n|bi n|bi|bi]; simpl in *; try discriminate.
  - destruct (nth_error (blobs st) bi); [|discriminate]. rewrite Hr; reflexivity.
  - destruct (nth_error (blobs st) bi); [|discriminate]. rewrite Hr; reflexivity.
  - destruct Hh as [H1 H2]. destruct (nth_error_some_lt _ _ H2) as [s Es]. rewrite Es.
    destruct (nth_error (blobs st) di) as [d|]; [|discriminate].
    destruct (Z.ltb_spec o 0); [reflexivity|].
    destruct (_ && _ && _); [reflexivity|].
    destruct (Z.ltb_spec (Z.of_nat (s_len d)) o); [reflexivity|].
    apply andb_false_iff in Hr. rewrite !Z.leb_gt in Hr. lia.
  - destruct (nth_error_some_lt _ _ Hh) as [b ->]. apply Z.leb_gt in Hr.
    destruct (Z.ltb_spec n 0); [reflexivity|lia].
  - destruct (nth_error_some_lt _ _ Hh) as [b ->]. apply Z.leb_gt in Hr.
    destruct (Z.ltb_spec n 0); [reflexivity|lia].
Qed.

(* the one in-range call the implementation refuses: a non-empty source into an empty blob *)
Definition set_quirk (st : bstate) (op : bop) : bool :=
  match op with
  | BSet di si o =>
      match nth_error (blobs st) di, nth_error (blobs st) si with
      | Some d, Some s => Nat.eqb (s_len d) 0 && (o =? 0)%Z && negb (Nat.eqb (s_len s) 0)
      | _, _ => false
      end
  | _ => false
  end.

Theorem in_range_accepted st op :
  handles_ok st op -> in_range st op = true -> set_quirk st op = false ->
  snd (pstep st op) <> RErr /\ snd (pstep st op) <> RBadHandle.
Proof.
  intros Hh Hr Hq. destruct op as [d|bi s e|bi s e|di si o|bi n|bi n|bi|bi]; simpl in *.
  - split; discriminate.
  - destruct (nth_error_some_lt _ _ Hh) as [b Eb]; rewrite Eb in *. rewrite Hr. split; discriminate.
  - destruct (nth_error_some_lt _ _ Hh) as [b Eb]; rewrite Eb in *. rewrite Hr. split; discriminate.
  - destruct Hh as [H1 H2]. destruct (nth_error_some_lt _ _ H1) as [d Ed]; rewrite Ed in *.
    destruct (nth_error_some_lt _ _ H2) as [s Es]; rewrite Es in *.
    apply andb_true_iff in Hr. rewrite !Z.leb_le in Hr. rewrite Hq.
    destruct (Z.ltb_spec o 0); [lia|].
    destruct (Z.ltb_spec (Z.of_nat (s_len d)) o); [lia|]. split; discriminate.
  - destruct (nth_error_some_lt _ _ Hh) as [b Eb]; rewrite Eb in *. apply Z.leb_le in Hr.
    destruct (Z.ltb_spec n 0); [lia|].
    destruct (Nat.leb _ _); [split; discriminate|]. destruct (arr_exact _ _); split; discriminate.
  - destruct (nth_error_some_lt _ _ Hh) as [b Eb]; rewrite Eb in *. apply Z.leb_le in Hr.
    destruct (Z.ltb_spec n 0); [lia|]. destruct (_ <? n)%Z; split; discriminate.
  - destruct (nth_error_some_lt _ _ Hh) as [b Eb]; rewrite Eb in *. split; discriminate.
  - destruct (nth_error_some_lt _ _ Hh) as [b Eb]; rewrite Eb in *. split; discriminate.
Qed.

(* ---- byte-sequence laws ---- *)

Lemma bytes_of_arrays st st' b : arrays st = arrays st' -> bytes_of st b = bytes_of st' b.
Proof. unfold bytes_of, arr_data; intros ->; reflexivity. Qed.

Lemma bytes_of_length st b : slice_ok (arrays st) b -> length (bytes_of st b) = s_len b.
Proof.
  intros [H1 H2]. unfold bytes_of. rewrite sublist_length; [lia|lia|exact H2].
Qed.

(* Len is the length of the byte sequence. *)
Theorem len_law st bi b : wf st -> nth_error (blobs st) bi = Some b ->
  pstep st (BLen bi) = (st, ROk (Z.of_nat (length (bytes_of st b)))).
Proof.
  intros W E. simpl. rewrite E. rewrite bytes_of_length; [reflexivity|].
  eapply nth_error_Forall; eauto.
Qed.

(* Bytes() returns the byte sequence and changes nothing. *)
Theorem bytes_law st bi b : nth_error (blobs st) bi = Some b ->
  pstep st (BBytes bi) = (st, RBytes (bytes_of st b)).
Proof. intros E; simpl; rewrite E; reflexivity. Qed.

(* View: the new blob is the requested sub-sequence; nothing else changes; and it ALIASES
   the original: it lives in the same array at the corresponding offset. *)
Theorem view_law st bi b s e : wf st -> nth_error (blobs st) bi = Some b -> range_ok (s_len b) s e = true ->
  exists v, pstep st (BView bi s e) =
      (mkB (arrays st) (blobs st ++ [v]) (next_mu st) (held st), ROk (Z.of_nat (length (blobs st))))
    /\ bytes_of st v = sublist (Z.to_nat s) (Z.to_nat e) (bytes_of st b)
    /\ s_arr v = s_arr b /\ s_off v = s_off b + Z.to_nat s /\ s_len v = Z.to_nat e - Z.to_nat s.
Proof.
  intros W E R. simpl. rewrite E, R. eexists; split; [reflexivity|].
  apply range_ok_spec in R. split; [|simpl; auto].
  unfold bytes_of; simpl. apply sublist_sublist; lia.
Qed.

(* Slice: same bytes, but in a FRESH array: no later write to any other blob can change it. *)
Theorem slice_law st bi b s e : nth_error (blobs st) bi = Some b -> range_ok (s_len b) s e = true ->
  let d := sublist (Z.to_nat s) (Z.to_nat e) (bytes_of st b) in
  let v := mkSlice (length (arrays st)) 0 (length d) (next_mu st) in
  pstep st (BSlice bi s e) =
      (mkB (arrays st ++ [(d, true)]) (blobs st ++ [v]) (Datatypes.S (next_mu st)) (held st),
       ROk (Z.of_nat (length (blobs st))))
  /\ bytes_of (fst (pstep st (BSlice bi s e))) v = d.
Proof.
  intros E R d v. simpl. rewrite E, R. split; [reflexivity|].
  unfold bytes_of, arr_data; simpl. rewrite nth_error_app2 by lia. rewrite Nat.sub_diag. simpl.
  apply sublist_full.
Qed.

(* Set: the destination's bytes are overwritten at the offset with a prefix of the source's
   bytes (as copy() does); every blob living in another array is untouched; a blob in the
   same array sees exactly the overwritten array (aliasing). *)
Theorem set_law st di si d s o : wf st ->
  nth_error (blobs st) di = Some d -> nth_error (blobs st) si = Some s ->
  in_range st (BSet di si o) = true -> set_quirk st (BSet di si o) = false ->
  let o' := Z.to_nat o in
  let n := Nat.min (s_len d - o') (length (bytes_of st s)) in
  let st' := fst (pstep st (BSet di si o)) in
  snd (pstep st (BSet di si o)) = ROk (Z.of_nat n)
  /\ blobs st' = blobs st
  /\ bytes_of st' d = splice (bytes_of st d) o' (firstn n (bytes_of st s))
  /\ (forall x, In x (blobs st) -> s_arr x <> s_arr d -> bytes_of st' x = bytes_of st x)
  /\ (forall x, In x (blobs st) -> s_arr x = s_arr d ->
        (s_off x + s_len x <= s_off d + o' \/ s_off d + o' + n <= s_off x) -> bytes_of st' x = bytes_of st x).
Proof.
  intros W Ed Es Hr Hq o' n st'. subst st'. simpl in Hr, Hq.
  remember (bytes_of st s) as sb eqn:Hsb. rewrite Ed in Hr. rewrite Ed, Es in Hq.
  apply andb_true_iff in Hr. rewrite !Z.leb_le in Hr.
  destruct (nth_error_Forall _ _ _ _ W Ed) as [D1 D2].
  assert (Hn : length (firstn n sb) = n).
  { rewrite firstn_length. subst n. lia. }
  simpl. rewrite Ed, Es, Hq.
  destruct (Z.ltb_spec o 0); [lia|]. destruct (Z.ltb_spec (Z.of_nat (s_len d)) o); [lia|].
  cbn [fst snd]. rewrite <- Hsb. fold o'. fold n.
  assert (Ho : o' <= s_len d) by (subst o'; lia).
  split; [reflexivity|]. split; [reflexivity|].
  change (arr_data st (s_arr d)) with (adata (arrays st) (s_arr d)) in *.
  split; [|split].
  - unfold bytes_of in *. unfold set_arr, arr_data at 1; cbn [arrays].
    rewrite nth_error_list_set_eq by exact D1.
    rewrite sublist_splice_inside; [f_equal; lia| lia | rewrite Hn; subst n; lia | exact D2].
  - intros x Hx Hne. unfold bytes_of, set_arr, arr_data; cbn [arrays].
    rewrite nth_error_list_set_neq by congruence. reflexivity.
  - intros x Hx He Hd. unfold bytes_of in *. unfold set_arr, arr_data at 1; cbn [arrays]. rewrite He.
    rewrite nth_error_list_set_eq by exact D1.
    unfold arr_data. fold (adata (arrays st) (s_arr d)).
    apply sublist_splice_outside; rewrite Hn; subst n; lia.
Qed.

(* Grow appends zero bytes (whenever the model's domain covers the call). *)
Theorem grow_law st bi b n : wf st -> nth_error (blobs st) bi = Some b -> (0 <= n)%Z ->
  snd (pstep st (BGrow bi n)) <> RUnknown ->
  exists b', nth_error (blobs (fst (pstep st (BGrow bi n)))) bi = Some b'
    /\ bytes_of (fst (pstep st (BGrow bi n))) b' = bytes_of st b ++ zeros (Z.to_nat n).
Proof.
  intros W E Hn Hu. destruct (nth_error_Forall _ _ _ _ W E) as [B1 B2].
  assert (Hbi : bi < length (blobs st)) by (apply nth_error_Some; congruence).
  revert Hu. simpl. rewrite E. destruct (Z.ltb_spec n 0); [lia|].
  change (arr_data st (s_arr b)) with (adata (arrays st) (s_arr b)).
  destruct (Nat.leb_spec (s_off b + s_len b + Z.to_nat n) (length (adata (arrays st) (s_arr b)))) as [L|L].
  - intros _. eexists; split; [cbn; apply nth_error_list_set_eq; exact Hbi|].
    unfold bytes_of, arr_data; cbn [arrays set_blob set_arr fst s_arr s_off s_len].
    rewrite nth_error_list_set_eq by exact B1.
    fold (adata (arrays st) (s_arr b)).
    replace (Z.to_nat n) with (length (zeros (Z.to_nat n))) at 1 by (unfold zeros; apply repeat_length).
    apply sublist_grow_inplace. unfold zeros; rewrite repeat_length. exact L.
  - destruct (arr_exact st (s_arr b)); [|simpl; congruence].
    intros _. eexists; split; [cbn; apply nth_error_list_set_eq; exact Hbi|].
    unfold bytes_of at 1, arr_data; cbn [arrays set_blob add_arr fst s_arr s_off s_len].
    rewrite nth_error_app2 by lia. rewrite Nat.sub_diag. cbn [nth_error].
    assert (Hl : length (bytes_of st b ++ zeros (Z.to_nat n)) = s_len b + Z.to_nat n).
    { rewrite app_length. unfold zeros; rewrite repeat_length.
      rewrite bytes_of_length; [reflexivity|split; assumption]. }
    rewrite <- Hl. apply sublist_full.
Qed.

(* Truncate keeps a prefix (and is a no-op when the blob is already shorter). *)
Theorem trunc_law st bi b n : wf st -> nth_error (blobs st) bi = Some b -> (0 <= n)%Z ->
  exists b', nth_error (blobs (fst (pstep st (BTrunc bi n)))) bi = Some b'
    /\ bytes_of (fst (pstep st (BTrunc bi n))) b' = firstn (Z.to_nat n) (bytes_of st b)
    /\ arrays (fst (pstep st (BTrunc bi n))) = arrays st.
Proof.
  intros W E Hn. destruct (nth_error_Forall _ _ _ _ W E) as [B1 B2].
  assert (Hbi : bi < length (blobs st)) by (apply nth_error_Some; congruence).
  simpl. rewrite E. destruct (Z.ltb_spec n 0); [lia|].
  destruct (Z.ltb_spec (Z.of_nat (s_len b)) n).
  - exists b; split; [exact E|]. split; [|reflexivity]. cbn [fst].
    symmetry. apply firstn_all2. rewrite bytes_of_length; [lia|split; assumption].
  - eexists; split; [cbn; apply nth_error_list_set_eq; exact Hbi|]. split; [|reflexivity].
    unfold bytes_of; cbn [fst set_blob s_arr s_off s_len]. 
    change (arr_data (mkB (arrays st) _ (next_mu st) (held st)) (s_arr b)) with (arr_data st (s_arr b)).
    apply sublist_prefix. lia.
Qed.

(* An aliasing corollary in the form the property states it: writing through a view changes
   the original at the corresponding positions. *)
Theorem view_write_through st bi b vi v si s x : wf st ->
  nth_error (blobs st) bi = Some b -> nth_error (blobs st) vi = Some v -> nth_error (blobs st) si = Some s ->
  s_arr v = s_arr b -> s_off v = s_off b + x -> x + s_len v <= s_len b ->
  s_len s <= s_len v -> 0 < s_len v ->
  bytes_of (fst (pstep st (BSet vi si 0))) b = splice (bytes_of st b) x (bytes_of st s).
Proof.
  intros W Eb Ev Es Ha Ho Hl Hs Hv.
  destruct (nth_error_Forall _ _ _ _ W Eb) as [B1 B2].
  destruct (nth_error_Forall _ _ _ _ W Ev) as [V1 V2].
  pose proof (bytes_of_length st s (nth_error_Forall _ _ _ _ W Es)) as Ls.
  simpl. rewrite Ev, Es.
  destruct (Nat.eqb_spec (s_len v) 0); [lia|]. cbn [andb].
  destruct (Z.ltb_spec (Z.of_nat (s_len v)) 0); [lia|]. cbn [fst Z.to_nat].
  rewrite Nat.sub_0_r, Nat.add_0_r. rewrite Nat.min_r by lia.
  rewrite firstn_all2 by lia.
  unfold bytes_of at 1, set_arr, arr_data at 1; cbn [arrays]. rewrite <- Ha.
  rewrite nth_error_list_set_eq by exact V1.
  fold (arr_data st (s_arr v)). rewrite Ha.
  rewrite sublist_splice_inside; try lia.
  - unfold bytes_of. f_equal. lia.
  - rewrite <- Ha in B2 |- *. exact B2.
Qed.

(* ---- reachable states ---- *)
Definition bexec (ops : list bop) : bstate := fold_left (fun s o => fst (bstep s o)) ops binit.

Lemma bexec_inv_gen st ops : held st = [] -> wf st ->
  held (fold_left (fun s o => fst (bstep s o)) ops st) = [] /\ wf (fold_left (fun s o => fst (bstep s o)) ops st).
Proof.
  revert st; induction ops as [|op ops IH]; intros st H W; simpl; [auto|].
  apply IH.
  - apply bstep_terminates_unlocked; exact H.
  - rewrite bstep_lockfree by exact H. apply pstep_wf; exact W.
Qed.

Theorem bexec_inv ops : held (bexec ops) = [] /\ wf (bexec ops).
Proof. apply bexec_inv_gen; [reflexivity|apply wf_init]. Qed.

Lemma bstep_reach ops op : bstep (bexec ops) op = pstep (bexec ops) op.
Proof. apply bstep_lockfree, bexec_inv. Qed.
