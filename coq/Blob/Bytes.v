(* Executable model of keyvalue/blob/bytes.go (type Bytes) as it stands in /repo.
   A Bytes value is a Go slice header (array, offset, length) plus a mutex that is shared
   between a blob and its views.  Go slice capacity is modelled as a *lower bound*: an array
   created by make() has exactly the modelled length; an array created by append()'s
   reallocation has an unknown amount of spare capacity, so a later Grow that does not fit in
   the modelled array is reported as [RUnknown] (outside the model's domain) instead of guessed. *)
From HP Require Import Base.Prelude.
Open Scope nat_scope.

Record slice := mkSlice { s_arr : nat; s_off : nat; s_len : nat; s_mu : nat }.

Record bstate := mkB {
  arrays : list (list N * bool);   (* contents, capacity known exactly? *)
  blobs  : list slice;
  next_mu : nat;
  held : list nat                  (* mutexes currently held (sync.Mutex is not re-entrant) *)
}.

Definition binit : bstate := mkB [] [] 0 [].

Inductive bres :=
| ROk (n : Z)               (* success; n = returned count / new blob id / length *)
| RBytes (d : list N)       (* Bytes() *)
| RErr                      (* error returned, nothing changed *)
| RPanic                    (* Go panic *)
| RDeadlock                 (* self-deadlock on a held mutex *)
| RUnknown                  (* depends on unmodelled slice capacity *)
| RBadHandle.               (* harness error: no such blob *)

Inductive bop :=
| BNew (d : list N)
| BView (b : nat) (s e : Z)
| BSlice (b : nat) (s e : Z)
| BSet (dst src : nat) (o : Z)
| BGrow (b : nat) (n : Z)
| BTrunc (b : nat) (n : Z)
| BLen (b : nat)
| BBytes (b : nat).

Definition arr_data (st : bstate) (a : nat) : list N :=
  match nth_error (arrays st) a with Some (d, _) => d | None => [] end.
Definition arr_exact (st : bstate) (a : nat) : bool :=
  match nth_error (arrays st) a with Some (_, x) => x | None => true end.

Definition bytes_of (st : bstate) (b : slice) : list N :=
  sublist (s_off b) (s_off b + s_len b) (arr_data st (s_arr b)).

Definition set_arr (st : bstate) (a : nat) (d : list N) : bstate :=
  mkB (list_set (arrays st) a (d, arr_exact st a)) (blobs st) (next_mu st) (held st).

Definition set_blob (st : bstate) (i : nat) (b : slice) : bstate :=
  mkB (arrays st) (list_set (blobs st) i b) (next_mu st) (held st).

Definition add_arr (st : bstate) (d : list N) (exact : bool) : bstate * nat :=
  (mkB (arrays st ++ [(d, exact)]) (blobs st) (next_mu st) (held st), length (arrays st)).

Definition add_blob (st : bstate) (b : slice) : bstate * nat :=
  (mkB (arrays st) (blobs st ++ [b]) (next_mu st) (held st), length (blobs st)).

Definition fresh_mu (st : bstate) : bstate * nat :=
  (mkB (arrays st) (blobs st) (Datatypes.S (next_mu st)) (held st), next_mu st).

(* mutex: acquire fails (deadlock) when this goroutine already holds it *)
Definition acquire (st : bstate) (m : nat) : option bstate :=
  if existsb (Nat.eqb m) (held st) then None
  else Some (mkB (arrays st) (blobs st) (next_mu st) (m :: held st)).
Definition release (st : bstate) (m : nat) : bstate :=
  mkB (arrays st) (blobs st) (next_mu st)
      (filter (fun x => negb (Nat.eqb m x)) (held st)).

(* bounds test shared by View and Slice (after the fix: also start <= end) *)
Definition range_ok (len : nat) (s e : Z) : bool :=
  (0 <=? s)%Z && (s <=? Z.of_nat len)%Z && (0 <=? e)%Z && (e <=? Z.of_nat len)%Z && (s <=? e)%Z.

(* NewBytes(make+copy) *)
Definition do_new (st : bstate) (d : list N) : bstate * nat :=
  let '(st1, a) := add_arr st d true in
  let '(st2, m) := fresh_mu st1 in
  add_blob st2 (mkSlice a 0 (length d) m).

(* b.Slice(s,e) with the lock taken around the copy *)
Definition do_slice (st : bstate) (b : slice) (s e : nat) : option (bstate * nat) :=
  match acquire st (s_mu b) with
  | None => None
  | Some st1 =>
    let d := sublist s e (bytes_of st1 b) in
    let st2 := release st1 (s_mu b) in
    Some (do_new st2 d)
  end.

(* b.Bytes(): a locked copy *)
Definition do_bytes (st : bstate) (b : slice) : option (bstate * list N) :=
  match acquire st (s_mu b) with
  | None => None
  | Some st1 => Some (release st1 (s_mu b), bytes_of st1 b)
  end.

Definition bstep (st : bstate) (op : bop) : bstate * bres :=
  match op with
  | BNew d => let '(st', i) := do_new st d in (st', ROk (Z.of_nat i))
  | BView bi s e =>
    match nth_error (blobs st) bi with
    | None => (st, RBadHandle)
    | Some b =>
      if range_ok (s_len b) s e then
        match acquire st (s_mu b) with
        | None => (st, RDeadlock)
        | Some st1 =>
          let st2 := release st1 (s_mu b) in
          let v := mkSlice (s_arr b) (s_off b + Z.to_nat s) (Z.to_nat e - Z.to_nat s) (s_mu b) in
          let '(st3, i) := add_blob st2 v in (st3, ROk (Z.of_nat i))
        end
      else (st, RErr)
    end
  | BSlice bi s e =>
    match nth_error (blobs st) bi with
    | None => (st, RBadHandle)
    | Some b =>
      if range_ok (s_len b) s e then
        match do_slice st b (Z.to_nat s) (Z.to_nat e) with
        | None => (st, RDeadlock)
        | Some (st', i) => (st', ROk (Z.of_nat i))
        end
      else (st, RErr)
    end
  | BSet di si o =>
    match nth_error (blobs st) di, nth_error (blobs st) si with
    | Some d, Some s =>
      if (o <? 0)%Z then (st, RErr)
      else if (Nat.eqb (s_len d) 0 && (o =? 0)%Z && negb (Nat.eqb (s_len s) 0)) then (st, RErr)
      else if (Z.of_nat (s_len d) <? o)%Z then (st, RErr)
      else
        (* srcBytes := src.Bytes() -- before taking dst's lock *)
        match do_bytes st s with
        | None => (st, RDeadlock)
        | Some (st1, sb) =>
          match acquire st1 (s_mu d) with
          | None => (st, RDeadlock)
          | Some st2 =>
            let o' := Z.to_nat o in
            let n := Nat.min (s_len d - o') (length sb) in
            let a := arr_data st2 (s_arr d) in
            let st3 := set_arr st2 (s_arr d) (splice a (s_off d + o') (firstn n sb)) in
            (release st3 (s_mu d), ROk (Z.of_nat n))
          end
        end
    | _, _ => (st, RBadHandle)
    end
  | BGrow bi n =>
    match nth_error (blobs st) bi with
    | None => (st, RBadHandle)
    | Some b =>
      if (n <? 0)%Z then (st, RErr)
      else
        match acquire st (s_mu b) with
        | None => (st, RDeadlock)
        | Some st1 =>
          let k := Z.to_nat n in
          let a := arr_data st1 (s_arr b) in
          if Nat.leb (s_off b + s_len b + k) (length a) then
            (* append in place: the zero bytes land in the shared array *)
            let st2 := set_arr st1 (s_arr b) (splice a (s_off b + s_len b) (zeros k)) in
            let st3 := set_blob st2 bi (mkSlice (s_arr b) (s_off b) (s_len b + k) (s_mu b)) in
            (release st3 (s_mu b), ROk 0)
          else if arr_exact st1 (s_arr b) then
            (* reallocation: fresh array, old views keep the old one *)
            let '(st2, a') := add_arr st1 (bytes_of st1 b ++ zeros k) false in
            let st3 := set_blob st2 bi (mkSlice a' 0 (s_len b + k) (s_mu b)) in
            (release st3 (s_mu b), ROk 0)
          else (st, RUnknown)
        end
    end
  | BTrunc bi n =>
    match nth_error (blobs st) bi with
    | None => (st, RBadHandle)
    | Some b =>
      if (n <? 0)%Z then (st, RErr)
      else if (Z.of_nat (s_len b) <? n)%Z then (st, ROk 0)
      else
        match acquire st (s_mu b) with
        | None => (st, RDeadlock)
        | Some st1 =>
          let st2 := set_blob st1 bi (mkSlice (s_arr b) (s_off b) (Z.to_nat n) (s_mu b)) in
          (release st2 (s_mu b), ROk 0)
        end
    end
  | BLen bi =>
    match nth_error (blobs st) bi with
    | None => (st, RBadHandle)
    | Some b => (st, ROk (Z.of_nat (s_len b)))
    end
  | BBytes bi =>
    match nth_error (blobs st) bi with
    | None => (st, RBadHandle)
    | Some b =>
      match do_bytes st b with
      | None => (st, RDeadlock)
      | Some (st', d) => (st', RBytes d)
      end
    end
  end.

(* The observable state: the bytes of every blob created so far. *)
Definition snapshot (st : bstate) : list (list N) := map (bytes_of st) (blobs st).

(* Run a history; stop at the first result that is outside the model's domain. *)
Fixpoint brun (st : bstate) (ops : list bop) : list (bres * list (list N)) :=
  match ops with
  | [] => []
  | op :: rest =>
    let '(st', r) := bstep st op in
    match r with
    | RUnknown | RBadHandle | RDeadlock | RPanic => [(r, [])]
    | _ => (r, snapshot st') :: brun st' rest
    end
  end.
