(* Model of the JS side of the typed-array blob (indexeddb/idbblob/blob.go, GOOS=js GOARCH=wasm): a heap of JS array
   buffers, blob objects that are windows (buffer, offset, length) on them, and the harness's handles on objects
   (View of the whole blob returns the SAME object).  The Go-side copies of the bytes ("bytes" field, what Bytes()
   answers from once it exists) are NOT modelled: the observations this model is compared with are read from the JS
   arrays directly.  Arguments the []byte reference calls out of range are answered [RUnknown] (typed arrays clamp or
   throw there, depending on the Go-side copy): the comparison ends at that step. *)
From HP Require Import Base.Prelude Blob.Bytes.
From Coq Require Import Lia ZArith.
Open Scope nat_scope.

Record tobj := mkO { o_buf : nat; o_off : nat; o_len : nat }.
Record tstate := mkTS { t_bufs : list (list N); t_objs : list tobj; t_handles : list nat }.
Definition tinit : tstate := mkTS [] [] [].

Definition buf_of (st : tstate) (b : nat) : list N := nth b (t_bufs st) [].
Definition obj_bytes (st : tstate) (o : tobj) : list N := sublist (o_off o) (o_off o + o_len o) (buf_of st (o_buf o)).
Definition handle_obj (st : tstate) (h : nat) : option (nat * tobj) :=
  match nth_error (t_handles st) h with
  | Some oid => match nth_error (t_objs st) oid with Some o => Some (oid, o) | None => None end
  | None => None
  end.

Definition new_obj (st : tstate) (bufs : list (list N)) (o : tobj) : tstate :=
  mkTS bufs (t_objs st ++ [o]) (t_handles st ++ [length (t_objs st)]).

Definition tstep (st : tstate) (op : bop) : tstate * bres :=
  match op with
  | BNew d =>
    (new_obj st (t_bufs st ++ [d]) (mkO (length (t_bufs st)) 0 (length d)), ROk (Z.of_nat (length (t_handles st))))
  | BView h s e =>
    match handle_obj st h with
    | None => (st, RBadHandle)
    | Some (oid, o) =>
      if ((0 <=? s) && (s <=? e) && (e <=? Z.of_nat (o_len o)))%Z then
        let x := Z.to_nat s in let y := Z.to_nat e in
        if (x =? 0) && (y =? o_len o) then
          (mkTS (t_bufs st) (t_objs st) (t_handles st ++ [oid]), ROk (Z.of_nat (length (t_handles st))))   (* return b, nil *)
        else (new_obj st (t_bufs st) (mkO (o_buf o) (o_off o + x) (y - x)), ROk (Z.of_nat (length (t_handles st))))  (* subarray *)
      else (st, RUnknown)
    end
  | BSlice h s e =>
    match handle_obj st h with
    | None => (st, RBadHandle)
    | Some (_, o) =>
      if ((0 <=? s) && (s <=? e) && (e <=? Z.of_nat (o_len o)))%Z then
        let x := Z.to_nat s in let y := Z.to_nat e in
        (new_obj st (t_bufs st ++ [sublist x y (obj_bytes st o)]) (mkO (length (t_bufs st)) 0 (y - x)),
         ROk (Z.of_nat (length (t_handles st))))                                                             (* slice: a copy *)
      else (st, RUnknown)
    end
  | BSet hd hs off =>
    match handle_obj st hd, handle_obj st hs with
    | Some (_, d), Some (_, s) =>
      if ((0 <=? off) && (off <=? Z.of_nat (o_len d)))%Z then
        let x := Z.to_nat off in
        if (o_len d <=? x) && (x =? 0) && (0 <? o_len s) then (st, RErr)          (* "Offset out of bounds: 0" on an empty blob *)
        else
          let n := Nat.min (o_len s) (o_len d - x) in                              (* copy what fits *)
          let src := firstn n (obj_bytes st s) in                                  (* (set() copies from a snapshot when the buffers overlap) *)
          let b := buf_of st (o_buf d) in
          (mkTS (list_set (t_bufs st) (o_buf d) (splice b (o_off d + x) src)) (t_objs st) (t_handles st), ROk (Z.of_nat n))
      else (st, RUnknown)
    | _, _ => (st, RBadHandle)
    end
  | BGrow h n =>
    match handle_obj st h with
    | None => (st, RBadHandle)
    | Some (oid, o) =>
      if (0 <=? n)%Z then
        let k := Z.to_nat n in
        (mkTS (t_bufs st ++ [obj_bytes st o ++ repeat 0%N k])                       (* a new, bigger array; the old one stays with the views *)
              (list_set (t_objs st) oid (mkO (length (t_bufs st)) 0 (o_len o + k))) (t_handles st), ROk 0%Z)
      else (st, RUnknown)
    end
  | BTrunc h n =>
    match handle_obj st h with
    | None => (st, RBadHandle)
    | Some (oid, o) =>
      if (0 <=? n)%Z then
        let k := Z.to_nat n in
        if o_len o <? k then (st, ROk 0%Z)
        else (mkTS (t_bufs st ++ [firstn k (obj_bytes st o)])                      (* slice(0, size): a copy, also when size = length *)
                   (list_set (t_objs st) oid (mkO (length (t_bufs st)) 0 k)) (t_handles st), ROk 0%Z)
      else (st, RUnknown)
    end
  | BLen h =>
    match handle_obj st h with Some (_, o) => (st, ROk (Z.of_nat (o_len o))) | None => (st, RBadHandle) end
  | BBytes h =>
    match handle_obj st h with Some (_, o) => (st, RBytes (obj_bytes st o)) | None => (st, RBadHandle) end
  end.

(* what the harness reads after every step: the JS array of every handle *)
Definition tsnapshot (st : tstate) : list (list N) :=
  map (fun h => match handle_obj st h with Some (_, o) => obj_bytes st o | None => [] end) (seq 0 (length (t_handles st))).

Fixpoint trun_typed (st : tstate) (ops : list bop) : list (bres * list (list N)) :=
  match ops with
  | [] => []
  | op :: rest => let '(st', r) := tstep st op in (r, tsnapshot st') :: trun_typed st' rest
  end.

(* ---- correspondence: the implementation's observations are a prefix-compatible match of the model's ---- *)
Definition tres_eqb (a b : bres) : bool :=
  match a, b with
  | ROk x, ROk y => Z.eqb x y
  | RBytes x, RBytes y => str_eqb x y
  | RErr, RErr => true
  | _, _ => false
  end.

(* the harness may stop early (it cuts a history where the []byte reference has no answer): every observation it
   made must match, in order; a model [RUnknown] ends the comparison *)
Fixpoint tobs_match (m i : list (bres * list (list N))) : bool :=
  match m, i with
  | _, [] => true
  | (RUnknown, _) :: _, _ => true
  | (r, s) :: m', (r', s') :: i' => tres_eqb r r' && list_eqb str_eqb s s' && tobs_match m' i'
  | [], _ :: _ => false
  end.

Definition C19typed_case := (list bop * list (bres * list (list N)))%type.
Definition C19typed_check (c : C19typed_case) : bool := tobs_match (trun_typed tinit (fst c)) (snd c).
