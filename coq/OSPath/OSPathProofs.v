(* Theorems about the os.FS path mapping model (OSPath.v): exactness, confinement, refusal of invalid
   names, the ToOSPath/FromOSPath round trip and the Sub-root invariant, for every operating-system
   convention (separator byte, windows flag, volume name). *)
From HP Require Import Base.Prelude Base.Path Base.PathProofs OSPath.OSPath.
Open Scope N_scope.

(* ---- prefix / trim lemmas ---- *)
Lemma has_prefix_app a b : has_prefix (a ++ b) a = true.
Proof. induction a as [|x a IH]; simpl; [destruct b; reflexivity|]. rewrite N.eqb_refl. exact IH. Qed.

Lemma trim_prefix_app a b : trim_prefix (a ++ b) a = b.
Proof.
  unfold trim_prefix. rewrite has_prefix_app. induction a as [|x a IH]; simpl; [reflexivity|exact IH].
Qed.

Lemma trim_prefix_nil s : trim_prefix s [] = s.
Proof. unfold trim_prefix. destruct s; reflexivity. Qed.

Lemma trim_prefix_self a : trim_prefix a a = [].
Proof. rewrite <- (app_nil_r a) at 1. apply trim_prefix_app. Qed.

Lemma trim_prefix1_other c x s : N.eqb c x = false -> trim_prefix (x :: s) [c] = x :: s.
Proof. intros H. unfold trim_prefix. simpl. rewrite H. reflexivity. Qed.

Lemma trim_prefix1_hd c s : hd 0 s <> c -> s <> [] -> trim_prefix s [c] = s.
Proof.
  intros H NE. destruct s as [|x s]; [congruence|]. apply trim_prefix1_other.
  apply N.eqb_neq. simpl in H. congruence.
Qed.

Lemma has_prefix_spec s p : has_prefix s p = true <-> exists r, s = p ++ r.
Proof.
  revert s. induction p as [|x p IH]; intros s; simpl.
  - split; [intros _; exists s; reflexivity|intros _; destruct s; reflexivity].
  - destruct s as [|y s]; [split; [discriminate|intros [r H]; discriminate]|].
    simpl. rewrite andb_true_iff, N.eqb_eq, IH. split.
    + intros [-> [r ->]]. exists r. reflexivity.
    + intros [r H]. injection H as -> ->. split; [reflexivity|exists r; reflexivity].
Qed.

Lemma trim_left_byte_hd c s : hd 0 s <> c \/ s = [] -> trim_left_byte c s = s.
Proof.
  intros [H| ->]; [|reflexivity]. destruct s as [|x s]; [reflexivity|]. simpl in *.
  destruct (N.eqb_spec x c); [contradiction|reflexivity].
Qed.

Lemma contains_byte_false c s : contains_byte c s = false <-> ~ In c s.
Proof.
  unfold contains_byte. induction s as [|x s IH]; simpl; [tauto|].
  rewrite orb_false_iff, IH, N.eqb_neq. split; [intros [A B] [C|C]; [congruence|tauto]|intros H; split; auto].
Qed.

Lemma contains_byte_app c a b : contains_byte c (a ++ b) = contains_byte c a || contains_byte c b.
Proof. unfold contains_byte. apply existsb_app. Qed.

(* ---- separators ---- *)
Lemma from_to_separator sep s : (sep = slash \/ contains_byte sep s = false) ->
  to_separator sep (from_separator sep s) = s.
Proof.
  unfold to_separator, from_separator. intros H. destruct (N.eqb_spec sep slash) as [E|NE]; [reflexivity|].
  destruct H as [H|H]; [contradiction|]. apply contains_byte_false in H.
  unfold replace_byte. rewrite map_map. rewrite <- (map_id s) at 2. apply map_ext_in. intros x Hx.
  destruct (N.eqb_spec x slash) as [->|Nx].
  - rewrite N.eqb_refl. reflexivity.
  - destruct (N.eqb_spec x sep) as [->|_]; [contradiction|reflexivity].
Qed.

Lemma from_separator_cons_slash sep s : from_separator sep (slash :: s) = sep :: from_separator sep s.
Proof.
  unfold from_separator. destruct (N.eqb_spec sep slash) as [->|NE]; [reflexivity|].
  unfold replace_byte. simpl. reflexivity.
Qed.

Lemma from_separator_hd sep s : hd 0 s <> slash -> (sep = slash \/ contains_byte sep s = false) ->
  hd 0 (from_separator sep s) <> sep \/ from_separator sep s = [].
Proof.
  intros H C. destruct s as [|x s]; [right; unfold from_separator; destruct (N.eqb sep slash); reflexivity|left].
  simpl in H. unfold from_separator. destruct (N.eqb_spec sep slash) as [->|NE]; [exact H|].
  destruct C as [C|C]; [contradiction|]. apply contains_byte_false in C. simpl.
  destruct (N.eqb_spec x slash); [contradiction|]. intros ->. apply C. left. reflexivity.
Qed.

(* ---- the Sub-root invariant ---- *)
Definition root_ok (root : str) : Prop := root = [] \/ (valid_path root = true /\ root <> dot).

(* the FS-relative location of name [p] under [root] *)
Definition rel_of (root p : str) : str :=
  match root with
  | [] => if str_eqb p dot then [] else p
  | _ => if str_eqb p dot then root else root ++ slash :: p
  end.

Lemma app_slash_not_dot a b : a <> [] -> a ++ slash :: b <> dot.
Proof. intros NA H. destruct a as [|x a]; [congruence|]. destruct a; discriminate. Qed.

Lemma path_join_root_nil dir : valid_path dir = true -> path_join [[]; dir] = dir.
Proof.
  intros H. pose proof (valid_path_nonempty dir H) as NE. unfold path_join.
  destruct dir as [|c d]; [congruence|]. cbn [filter str_eqb negb join_slash]. apply clean_valid. exact H.
Qed.

Theorem sub_root_ok root dir r : root_ok root -> sub_root root dir = Some r -> root_ok r.
Proof.
  unfold sub_root. intros R H. destruct (valid_path dir) eqn:V; [|discriminate]. injection H as <-.
  destruct R as [->|[VR DR]].
  - rewrite path_join_root_nil by exact V. destruct (str_eqb_spec dir dot); [left; reflexivity|right; auto].
  - change (path_join [root; dir]) with (join2 root dir). rewrite (join2_valid root dir VR V).
    destruct (str_eqb_spec root dot); [contradiction|].
    destruct (str_eqb_spec dir dot) as [Dd|Dd].
    + destruct (str_eqb_spec root dot); [contradiction|right; auto].
    + pose proof (valid_path_nonempty root VR) as NR.
      destruct (str_eqb_spec (root ++ slash :: dir) dot) as [E|_]; [exfalso; exact (app_slash_not_dot _ _ NR E)|].
      right. split; [apply valid_path_join; assumption|apply app_slash_not_dot; exact NR].
Qed.

(* Sub computes exactly the relative location *)
Theorem sub_root_rel root dir : root_ok root -> valid_path dir = true -> sub_root root dir = Some (rel_of root dir).
Proof.
  unfold sub_root. intros R V. rewrite V. f_equal.
  destruct R as [->|[VR DR]].
  - rewrite path_join_root_nil by exact V. simpl. destruct (str_eqb dir dot); reflexivity.
  - pose proof (valid_path_nonempty root VR) as NR.
    change (path_join [root; dir]) with (join2 root dir). rewrite (join2_valid root dir VR V).
    destruct (str_eqb_spec root dot); [contradiction|].
    unfold rel_of. destruct root as [|x root']; [congruence|].
    destruct (str_eqb_spec dir dot) as [Dd|Dd].
    + destruct (str_eqb_spec (x :: root') dot); [contradiction|reflexivity].
    + destruct (str_eqb_spec ((x :: root') ++ slash :: dir) dot) as [E|_]; [exfalso; exact (app_slash_not_dot _ _ NR E)|reflexivity].
Qed.

(* every chain of Sub calls from the empty root keeps the invariant *)
Fixpoint sub_chain (root : str) (dirs : list str) : option str :=
  match dirs with
  | [] => Some root
  | d :: ds => match sub_root root d with Some r => sub_chain r ds | None => None end
  end.

Theorem sub_chain_ok dirs : forall root r, root_ok root -> sub_chain root dirs = Some r -> root_ok r.
Proof.
  induction dirs as [|d ds IH]; intros root r R H; simpl in H.
  - injection H as <-. exact R.
  - destruct (sub_root root d) eqn:E; [|discriminate]. eapply IH; [|exact H]. eapply sub_root_ok; eauto.
Qed.

(* ---- path.Join("/", root, name) ---- *)
Lemma clean_fold_dots_any rooted es : forall stack, Forall (fun e => e = dot \/ elem_ok e = true) es ->
  fold_left (clean_step rooted) es stack = rev (filter not_dot es) ++ stack.
Proof.
  induction es as [|e es IH]; intros stack H; [reflexivity|].
  inversion H as [|? ? He Hes]; subst. cbn [fold_left filter]. rewrite (IH _ Hes).
  destruct He as [->|He].
  - unfold clean_step, not_dot. cbn. reflexivity.
  - apply elem_ok_spec in He. destruct He as (A & B & C).
    unfold clean_step, not_dot.
    destruct (str_eqb_spec e []) as [->|_]; [congruence|].
    destruct (str_eqb_spec e dot) as [->|_]; [congruence|]. cbn [orb negb].
    destruct (str_eqb_spec e dotdot) as [->|_]; [congruence|].
    cbn [rev]. rewrite <- app_assoc. reflexivity.
Qed.

Lemma rel_of_valid_or_nil root p : root_ok root -> valid_path p = true ->
  rel_of root p = [] \/ (valid_path (rel_of root p) = true /\ rel_of root p <> dot).
Proof.
  intros R V. pose proof (sub_root_rel root p R V) as H. eapply sub_root_ok in H; [|exact R]. exact H.
Qed.

Lemma clean_rooted s : clean (slash :: s) =
  slash :: join_slash (rev (fold_left (clean_step true) (split_slash s) [])).
Proof. unfold clean. rewrite N.eqb_refl. rewrite split_cons_slash. reflexivity. Qed.

(* the cleaned absolute path of a (possibly "." or empty) valid relative path *)
Lemma clean_abs_valid s : s = [] \/ valid_path s = true ->
  clean (slash :: s) = slash :: (if str_eqb s dot then [] else s).
Proof.
  intros H. rewrite clean_rooted. f_equal. destruct H as [->|V]; [reflexivity|].
  rewrite clean_fold_dots_any by (apply valid_elems_or_dot; exact V).
  rewrite app_nil_r, rev_involutive.
  destruct (str_eqb_spec s dot) as [->|Dd]; [reflexivity|].
  rewrite filter_not_dot_valid by assumption. apply join_split.
Qed.

Lemma clean_slash_slash s : clean (slash :: slash :: s) = clean (slash :: s).
Proof. rewrite !clean_rooted. rewrite split_cons_slash. reflexivity. Qed.

Theorem path_join_abs root p : root_ok root -> valid_path p = true ->
  path_join [[slash]; root; p] = slash :: rel_of root p.
Proof.
  intros R V. pose proof (valid_path_nonempty p V) as NP.
  destruct R as [->|[VR DR]].
  - unfold path_join. destruct p as [|c p']; [congruence|]. cbn [negb filter str_eqb join_slash slash N.eqb Pos.eqb].
    change ([slash] ++ slash :: c :: p') with (slash :: slash :: c :: p').
    rewrite clean_slash_slash. rewrite clean_abs_valid by (right; exact V). reflexivity.
  - pose proof (valid_path_nonempty root VR) as NR.
    unfold path_join. destruct root as [|x r']; [congruence|]. destruct p as [|c p']; [congruence|].
    cbn [negb filter str_eqb join_slash slash N.eqb Pos.eqb].
    set (root := x :: r') in *. set (p := c :: p') in *.
    change ([slash] ++ slash :: root ++ slash :: p) with (slash :: slash :: root ++ slash :: p).
    rewrite clean_slash_slash, clean_rooted. f_equal.
    rewrite split_app_slash.
    rewrite clean_fold_dots_any by (apply Forall_app; split; apply valid_elems_or_dot; assumption).
    rewrite app_nil_r, rev_involutive, filter_app.
    rewrite (filter_not_dot_valid root VR DR).
    unfold rel_of. fold root. unfold root at 1.
    destruct (str_eqb_spec p dot) as [->|Dp].
    + change (filter not_dot (split_slash dot)) with (@nil str). rewrite app_nil_r. apply join_split.
    + rewrite (filter_not_dot_valid p V Dp). rewrite <- split_app_slash. apply join_split.
Qed.

(* ---- ToOSPath ---- *)
Definition sep_ok (sep : N) (root p : str) : Prop :=
  sep = slash \/ (contains_byte sep p = false /\ contains_byte sep root = false).

(* invalid names are refused under every convention, before any path is built *)
Theorem to_os_refuses_invalid w sep vol root p : valid_path p = false -> to_os w sep vol root p = None.
Proof. intros H. unfold to_os. rewrite H. reflexivity. Qed.

(* a separator other than '/' inside a name or the root is refused (the OS would split the element) *)
Theorem to_os_refuses_separator w sep vol root p : sep <> slash ->
  contains_byte sep p = true \/ contains_byte sep root = true -> to_os w sep vol root p = None.
Proof.
  intros NE H. unfold to_os. destruct (valid_path p); [|reflexivity].
  destruct (N.eqb_spec sep slash); [contradiction|]. cbn [negb andb].
  destruct H as [-> | ->]; [reflexivity|]. rewrite orb_true_r. reflexivity.
Qed.

Lemma rel_of_no_sep sep root p : sep <> slash -> contains_byte sep p = false -> contains_byte sep root = false ->
  contains_byte sep (rel_of root p) = false.
Proof.
  intros NE Cp Cr. unfold rel_of. destruct root as [|x r].
  - destruct (str_eqb p dot); [reflexivity|exact Cp].
  - destruct (str_eqb p dot); [exact Cr|]. rewrite contains_byte_app, Cr. simpl.
    destruct (N.eqb_spec sep slash); [contradiction|]. exact Cp.
Qed.

Lemma rel_of_hd root p : root_ok root -> valid_path p = true -> hd 0 (rel_of root p) <> slash.
Proof.
  intros R V. destruct (rel_of_valid_or_nil root p R V) as [->|[V' _]]; [discriminate|].
  apply valid_path_no_leading_slash. exact V'.
Qed.

(* exactly: volume, separator, then root joined with the name, in the OS's separator *)
Theorem to_os_exact w sep vol root p : root_ok root -> valid_path p = true -> sep_ok sep root p ->
  to_os w sep vol root p =
    Some (trim_right_byte sep (get_volume w vol) ++ sep :: from_separator sep (rel_of root p)).
Proof.
  intros R V S. unfold to_os. rewrite V.
  assert (G : negb (negb (N.eqb sep slash) && (contains_byte sep p || contains_byte sep root)) = true).
  { destruct S as [->|[-> ->]]; [reflexivity|]. rewrite andb_false_r. reflexivity. }
  rewrite G. cbn [andb]. f_equal. rewrite path_join_abs by assumption.
  unfold join_sep_path. rewrite from_separator_cons_slash. f_equal.
  cbn [trim_left_byte]. rewrite N.eqb_refl. f_equal.
  apply trim_left_byte_hd.
  assert (C : sep = slash \/ contains_byte sep (rel_of root p) = false).
  { destruct S as [->|[Cp Cr]]; [left; reflexivity|].
    destruct (N.eq_dec sep slash); [left; assumption|right; apply rel_of_no_sep; assumption]. }
  destruct (from_separator_hd sep (rel_of root p) (rel_of_hd root p R V) C) as [H|H]; [left|right]; exact H.
Qed.

(* Unix: the OS path is "/" + root + "/" + name *)
Corollary to_os_unix root p : root_ok root -> valid_path p = true ->
  to_os false slash [] root p = Some (slash :: rel_of root p).
Proof.
  intros R V. rewrite to_os_exact by (try assumption; left; reflexivity). reflexivity.
Qed.

(* lexically inside the root: the FS-relative location is the root itself or starts with root + "/" *)
Theorem rel_of_confined root p : root <> [] ->
  rel_of root p = root \/ has_prefix (rel_of root p) (root ++ [slash]) = true.
Proof.
  intros NR. unfold rel_of. destruct root as [|x r]; [congruence|].
  destruct (str_eqb p dot); [left; reflexivity|right].
  replace ((x :: r) ++ slash :: p) with (((x :: r) ++ [slash]) ++ p) by (rewrite <- app_assoc; reflexivity).
  apply has_prefix_app.
Qed.

(* ---- FromOSPath ---- *)
(* whatever it returns is a valid FS path (every convention) *)
Theorem from_os_result_valid w sep vol root pvol q r :
  from_os w sep vol root pvol q = Some r -> valid_path r = true.
Proof.
  unfold from_os. destruct (negb (str_eqb pvol (get_volume w vol))); [discriminate|].
  destruct (_ && _ && _); [discriminate|].
  match goal with |- context [valid_path ?x] => destruct (valid_path x) eqn:V end; [|discriminate].
  intros H. injection H as <-. exact V.
Qed.

(* a path on another volume is refused *)
Theorem from_os_refuses_other_volume w sep vol root pvol q :
  pvol <> get_volume w vol -> from_os w sep vol root pvol q = None.
Proof.
  intros H. unfold from_os. destruct (str_eqb_spec pvol (get_volume w vol)); [contradiction|reflexivity].
Qed.

(* the inner step of from_os once volume and leading separator are stripped *)
Definition from_rel (root fsp : str) : option str :=
  if negb (str_eqb root []) && negb (str_eqb fsp root) && negb (has_prefix fsp (root ++ [slash])) then None
  else
    let r := trim_prefix (trim_prefix fsp root) [slash] in
    let r := match r with [] => dot | _ => r end in
    if valid_path r then Some r else None.

Lemma from_os_unfold w sep vol root q :
  from_os w sep vol root (get_volume w vol) q =
    from_rel root (to_separator sep (trim_prefix (trim_prefix q (get_volume w vol)) [sep])).
Proof. unfold from_os, from_rel. rewrite str_eqb_refl. reflexivity. Qed.

(* accepted paths are inside the root: equal to it or below root + "/" *)
Theorem from_rel_inside root fsp r : root <> [] -> from_rel root fsp = Some r ->
  fsp = root \/ has_prefix fsp (root ++ [slash]) = true.
Proof.
  intros NR. unfold from_rel. destruct (str_eqb_spec root []); [contradiction|]. cbn [negb andb].
  destruct (str_eqb_spec fsp root); [left; assumption|]. cbn [negb andb].
  destruct (has_prefix fsp (root ++ [slash])); [right; reflexivity|discriminate].
Qed.

(* look-alike prefixes ("/tmp/rootx" for root "/tmp/root") are refused *)
Theorem from_rel_lookalike root c rest : root <> [] -> c <> slash -> from_rel root (root ++ c :: rest) = None.
Proof.
  intros NR NC. unfold from_rel. destruct (str_eqb_spec root []); [contradiction|]. cbn [negb andb].
  destruct (str_eqb_spec (root ++ c :: rest) root) as [E|_].
  - exfalso. rewrite <- (app_nil_r root) in E at 2. apply app_inv_head in E. discriminate.
  - cbn [negb andb]. destruct (has_prefix (root ++ c :: rest) (root ++ [slash])) eqn:HP; [|reflexivity].
    exfalso. apply has_prefix_spec in HP. destruct HP as [r2 E]. rewrite <- app_assoc in E.
    apply app_inv_head in E. injection E as E _. contradiction.
Qed.

Lemma from_rel_rel_of root p : root_ok root -> valid_path p = true -> from_rel root (rel_of root p) = Some p.
Proof.
  intros R V. pose proof (valid_path_nonempty p V) as NP.
  pose proof (valid_path_no_leading_slash p V) as HP.
  unfold from_rel, rel_of. destruct root as [|x r'].
  - cbn [str_eqb negb andb]. rewrite trim_prefix_nil.
    destruct (str_eqb_spec p dot) as [->|Dp]; [reflexivity|].
    rewrite trim_prefix1_hd by assumption. destruct p; [congruence|]. rewrite V. reflexivity.
  - set (root := x :: r'). cbn [str_eqb negb andb].
    destruct (str_eqb_spec p dot) as [->|Dp].
    + rewrite str_eqb_refl. cbn [negb andb]. rewrite trim_prefix_self. reflexivity.
    + replace (root ++ slash :: p) with ((root ++ [slash]) ++ p) at 2 by (rewrite <- app_assoc; reflexivity).
      rewrite has_prefix_app. rewrite andb_false_r. rewrite trim_prefix_app.
      replace (slash :: p) with ([slash] ++ p) by reflexivity. rewrite trim_prefix_app.
      destruct p; [congruence|]. rewrite V. reflexivity.
Qed.

(* ToOSPath then FromOSPath is the identity on valid names, under every convention whose volume
   name does not end in the separator ("", "C:", "D:", a UNC share); [pvol] is what
   filepath.VolumeName reports for the produced path, i.e. the volume it was built from *)
Theorem from_to_os w sep vol root p q : root_ok root -> valid_path p = true -> sep_ok sep root p ->
  trim_right_byte sep (get_volume w vol) = get_volume w vol ->
  to_os w sep vol root p = Some q ->
  from_os w sep vol root (get_volume w vol) q = Some p.
Proof.
  intros R V S TV H. rewrite to_os_exact in H by assumption. injection H as <-.
  rewrite from_os_unfold, TV, trim_prefix_app.
  replace (sep :: from_separator sep (rel_of root p)) with ([sep] ++ from_separator sep (rel_of root p)) by reflexivity.
  rewrite trim_prefix_app. rewrite from_to_separator.
  - apply from_rel_rel_of; assumption.
  - destruct S as [->|[Cp Cr]]; [left; reflexivity|].
    destruct (N.eq_dec sep slash); [left; assumption|right; apply rel_of_no_sep; assumption].
Qed.

(* and the other way round: what FromOSPath accepts maps back to an OS path FromOSPath maps to the same name *)
Corollary to_from_os_stable w sep vol root q r q' : root_ok root ->
  trim_right_byte sep (get_volume w vol) = get_volume w vol ->
  from_os w sep vol root (get_volume w vol) q = Some r -> sep_ok sep root r ->
  to_os w sep vol root r = Some q' ->
  from_os w sep vol root (get_volume w vol) q' = Some r.
Proof.
  intros R TV H S T. apply from_to_os with (p := r); try assumption.
  eapply from_os_result_valid; exact H.
Qed.

(* non-vacuity and the conventions of the property text *)
Example unix_example :
  root_ok (S "tmp/root") /\ to_os false 47 [] (S "tmp/root") (S "a/b") = Some (S "/tmp/root/a/b")
  /\ from_os false 47 [] (S "tmp/root") [] (S "/tmp/root/a/b") = Some (S "a/b")
  /\ from_os false 47 [] (S "tmp/root") [] (S "/tmp/rootx/a") = None
  /\ from_os false 47 [] (S "tmp/root") [] (S "/tmp/root/../x") = None
  /\ from_os false 47 [] (S "tmp/root") [] (S "/tmp/root") = Some (S ".").
Proof. unfold root_ok. vm_compute. repeat split; auto. right. split; [reflexivity|discriminate]. Qed.

Example windows_example :
  to_os true 92 [] (S "Users/x") (S "a/b") = Some (S "C:\Users\x\a\b")
  /\ from_os true 92 [] (S "Users/x") (S "C:") (S "C:\Users\x\a\b") = Some (S "a/b")
  /\ to_os true 92 (S "D:") [] (S "a\b") = None
  /\ trim_right_byte 92 (get_volume true []) = get_volume true []
  /\ trim_right_byte 92 (S "\\host\share") = S "\\host\share".
Proof. vm_compute. repeat split; auto. Qed.
