(* Model of os/path.go: toOSPath / fromOSPath / joinSepPath, for an explicit operating-system
   convention (separator byte, "windows" flag) -- literal transcription over byte strings.
   filepath.VolumeName(osPath) is OS library code: its result is an input of [from_os]. *)
From HP Require Import Base.Prelude Base.Path.
Open Scope N_scope.

Definition get_volume (windows : bool) (vol : str) : str :=
  if windows && str_eqb vol [] then [67; 58] (* "C:" *) else vol.

Definition join_sep_path (sep : N) (e1 e2 : str) : str :=
  trim_right_byte sep e1 ++ sep :: trim_left_byte sep e2.

Definition from_separator (sep : N) (p : str) : str := if N.eqb sep slash then p else replace_byte slash sep p.
Definition to_separator (sep : N) (p : str) : str := if N.eqb sep slash then p else replace_byte sep slash p.

(* Sub: root' = path.Join(root, dir) for a valid dir *)
Definition sub_root (root dir : str) : option str :=
  if valid_path dir then
    let r := path_join [root; dir] in Some (if str_eqb r dot then [] else r)
  else None.

Definition to_os (windows : bool) (sep : N) (vol root : str) (p : str) : option str :=
  if valid_path p && negb (negb (N.eqb sep slash) && (contains_byte sep p || contains_byte sep root)) then
    Some (join_sep_path sep (get_volume windows vol) (from_separator sep (path_join [[slash]; root; p])))
  else None.

Definition from_os (windows : bool) (sep : N) (vol root : str) (path_volume : str) (p : str) : option str :=
  let fv := get_volume windows vol in
  if negb (str_eqb path_volume fv) then None
  else
    let p1 := trim_prefix (trim_prefix p fv) [sep] in
    let fsp := to_separator sep p1 in
    if negb (str_eqb root []) && negb (str_eqb fsp root) && negb (has_prefix fsp (root ++ [slash])) then None
    else
      let r := trim_prefix (trim_prefix fsp root) [slash] in
      let r := match r with [] => dot | _ => r end in
      if valid_path r then Some r else None.

(* correspondence *)
Definition optstr_eqb (a b : option str) : bool :=
  match a, b with Some x, Some y => str_eqb x y | None, None => true | _, _ => false end.

Inductive os_case :=
| CTo (windows : bool) (sep : N) (vol root p : str) (res : option str)
| CFrom (windows : bool) (sep : N) (vol root pvol p : str) (res : option str)
| CSub (root dir : str) (res : option str).

Definition C09_check (c : os_case) : bool :=
  match c with
  | CTo w sep vol root p res => optstr_eqb (to_os w sep vol root p) res
  | CFrom w sep vol root pvol p res => optstr_eqb (from_os w sep vol root pvol p) res
  | CSub root dir res => optstr_eqb (sub_root root dir) res
  end.
