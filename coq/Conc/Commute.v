(* C15, the general statement: goroutines whose operations touch unrelated paths do not influence
   each other -- for ANY number of goroutines, ANY programs over the model's alphabet, ANY store and
   ANY schedule.  Every complete run (interleaved at store-transaction granularity, or sequential) of
   such a system ends with the same results and the same store.

   Method: every operation's program is [local R W]: what it does depends only on the keys in its read
   region R (its path, the ancestors the look-ups walk, its direct children) and it writes only keys in
   W (its path).  A goroutine whose write set is disjoint from the other goroutines' read regions then
   runs, inside any interleaving, exactly as it runs alone (projection / non-interference argument). *)
From HP Require Import Base.Prelude Base.Path Base.PathProofs Base.DirProofs KV.Types Conc.Conc.
Open Scope nat_scope.

(* ---------- store lemmas ---------- *)
Lemma cget_cdel_eq s p : cget (cdel s p) p = None.
Proof.
  induction s as [|[k d] s IH]; cbn; [reflexivity|].
  destruct (str_eqb k p) eqn:E; cbn; [exact IH|]. rewrite E. exact IH.
Qed.

Lemma cget_cdel_neq s p k : k <> p -> cget (cdel s p) k = cget s k.
Proof.
  intros N. induction s as [|[k0 d] s IH]; cbn; [reflexivity|].
  destruct (str_eqb k0 p) eqn:E; cbn.
  - apply str_eqb_eq in E. subst k0.
    destruct (str_eqb p k) eqn:E2; [apply str_eqb_eq in E2; congruence|exact IH].
  - destruct (str_eqb k0 k); [reflexivity|exact IH].
Qed.

Lemma cget_cset_eq s p d : cget (cset s p d) p = Some d.
Proof. unfold cset. cbn. rewrite str_eqb_refl. reflexivity. Qed.

Lemma cget_cset_neq s p d k : k <> p -> cget (cset s p d) k = cget s k.
Proof.
  intros N. unfold cset. cbn.
  destruct (str_eqb p k) eqn:E; [apply str_eqb_eq in E; congruence|]. apply cget_cdel_neq. exact N.
Qed.

Lemma cget_none_iff s k : cget s k = None <-> ~ In k (map fst s).
Proof.
  induction s as [|[k0 d] s IH]; cbn; [tauto|].
  destruct (str_eqb k0 k) eqn:E.
  - apply str_eqb_eq in E. subst. split; [discriminate|]. intros H. exfalso. apply H. left. reflexivity.
  - rewrite IH. split.
    + intros H [H1|H1]; [subst; rewrite str_eqb_refl in E; discriminate|tauto].
    + intros H H1. apply H. right. exact H1.
Qed.

Definition is_child (p k : str) : bool := match child_name p k with Some _ => true | None => false end.

Lemma has_child_iff s p : has_child s p = true <-> exists k, is_child p k = true /\ cget s k <> None.
Proof.
  unfold has_child. rewrite existsb_exists. split.
  - intros ([k d] & I & C). exists k. split; [exact C|].
    rewrite cget_none_iff. intros H. apply H. apply in_map_iff. exists (k, d). split; [reflexivity|exact I].
  - intros (k & C & G). rewrite cget_none_iff in G.
    destruct (in_dec (list_eq_dec N.eq_dec) k (map fst s)) as [I|NI]; [|tauto].
    apply in_map_iff in I. destruct I as ([k' d] & E & I). cbn in E. subst k'.
    exists (k, d). split; [exact I|exact C].
Qed.

(* ---------- regions, agreement ---------- *)
Definition region := str -> bool.
Definition agree (R : region) (s s' : cstore) : Prop := forall k, R k = true -> cget s k = cget s' k.
Definition same_outside (W : region) (s s' : cstore) : Prop := forall k, W k = false -> cget s k = cget s' k.
Definition subregion (R R' : region) : Prop := forall k, R k = true -> R' k = true.

Lemma agree_refl R s : agree R s s.
Proof. intros k _. reflexivity. Qed.
Lemma agree_sym R s s' : agree R s s' -> agree R s' s.
Proof. intros H k K. symmetry. apply H. exact K. Qed.
Lemma agree_trans R a b c : agree R a b -> agree R b c -> agree R a c.
Proof. intros H1 H2 k K. rewrite (H1 k K). apply H2. exact K. Qed.
Lemma agree_sub R R' s s' : subregion R R' -> agree R' s s' -> agree R s s'.
Proof. intros S H k K. apply H. apply S. exact K. Qed.
Lemma same_outside_refl W s : same_outside W s s.
Proof. intros k _. reflexivity. Qed.
Lemma same_outside_trans W a b c : same_outside W a b -> same_outside W b c -> same_outside W a c.
Proof. intros H1 H2 k K. rewrite (H1 k K). apply H2. exact K. Qed.
Lemma same_outside_sub W W' s s' : subregion W W' -> same_outside W s s' -> same_outside W' s s'.
Proof.
  intros S H k K. apply H. destruct (W k) eqn:E; [|reflexivity]. apply S in E. congruence.
Qed.

Lemma has_child_agree R s s' p :
  (forall k, is_child p k = true -> R k = true) -> agree R s s' -> has_child s p = has_child s' p.
Proof.
  intros C A. apply Bool.eq_true_iff_eq. rewrite !has_child_iff.
  split; intros (k & Ck & G); exists k; (split; [exact Ck|]).
  - rewrite <- (A k (C k Ck)). exact G.
  - rewrite (A k (C k Ck)). exact G.
Qed.

(* ---------- locality of a program ---------- *)
Inductive local (R W : region) : cprog -> Prop :=
| LDone r : local R W (CDone r)
| LStep f :
    (forall s, local R W (snd (f s))) ->
    (forall s s', agree R s s' -> snd (f s) = snd (f s')) ->
    (forall s s', agree R s s' -> forall k, W k = true -> cget (fst (f s)) k = cget (fst (f s')) k) ->
    (forall s, same_outside W s (fst (f s))) ->
    local R W (CStep f).

(* the step preserves agreement on any region that contains R, given the written keys lie in it or not *)
Lemma local_step_agree R W f R' s s' :
  local R W (CStep f) -> subregion R R' -> agree R' s s' -> agree R' (fst (f s)) (fst (f s')).
Proof.
  intros L S A. inversion L as [|f0 H1 H2 H3 H4]; subst. intros k K.
  destruct (W k) eqn:E.
  - apply H3; [eapply agree_sub; eassumption|exact E].
  - rewrite <- (H4 s k E), <- (H4 s' k E). apply A. exact K.
Qed.

(* monotonicity: a bigger read region needs the written keys that are NOT in it to still be determined;
   with the third clause restricted to W that holds whenever W' only adds keys of R' *)
Lemma local_mono R W R' W' p :
  subregion R R' -> subregion W W' -> subregion W' R' -> local R W p -> local R' W' p.
Proof.
  intros SR SW SWR L. induction L as [r|f H1 IH H2 H3 H4]; [constructor|].
  constructor.
  - exact IH.
  - intros s s' A. apply H2. eapply agree_sub; eassumption.
  - intros s s' A k K. destruct (W k) eqn:E.
    + apply H3; [eapply agree_sub; eassumption|exact E].
    + rewrite <- (H4 s k E), <- (H4 s' k E). apply A. apply SWR. exact K.
  - intros s. eapply same_outside_sub; [exact SW|apply H4].
Qed.

(* a step that only reads key d *)
Lemma local_read R W d (g : option bool -> cprog) f :
  subregion W R -> R d = true -> (forall s, f s = (s, g (cget s d))) -> (forall v, local R W (g v)) ->
  local R W (CStep f).
Proof.
  intros WR Rd F G. constructor.
  - intros s. rewrite F. cbn. apply G.
  - intros s s' A. rewrite !F. cbn. rewrite (A d Rd). reflexivity.
  - intros s s' A k K. rewrite !F. cbn. apply A. apply WR. exact K.
  - intros s. rewrite F. cbn. apply same_outside_refl.
Qed.

Lemma local_walk R W ds k :
  subregion W R -> (forall d, In d ds -> R d = true) -> (forall c, local R W (k c)) -> local R W (walk ds k).
Proof.
  intros WR. induction ds as [|d rest IH]; intros Rd K; cbn [walk]; [apply K|].
  apply (local_read R W d (fun v => match v with Some true => k ENOENT | Some false => k ENOTDIR | None => walk rest k end)).
  - exact WR.
  - apply Rd. left. reflexivity.
  - intros s. destruct (cget s d) as [[|]|]; reflexivity.
  - intros [[|]|]; [apply K|apply K|]. apply IH; [|exact K]. intros d' I. apply Rd. right. exact I.
Qed.

Lemma local_getfile R W p k :
  subregion W R -> R p = true -> (forall d, In d (anc_list (length p) p) -> R d = true) ->
  (forall r, local R W (k r)) -> local R W (getfile p k).
Proof.
  intros WR Rp Ra K. unfold getfile.
  apply (local_read R W p (fun v => match v with
                                     | Some d => k (inl d)
                                     | None => if str_eqb p dot then k (inr ENOENT)
                                               else walk (anc_list (length p) p) (fun c => k (inr c))
                                     end)).
  - exact WR.
  - exact Rp.
  - intros s. destruct (cget s p); reflexivity.
  - intros [d|]; [apply K|]. destruct (str_eqb p dot); [apply K|].
    apply local_walk; [exact WR|exact Ra|]. intros c. apply K.
Qed.

(* the read region of an operation on path p, and its write region *)
Definition reads (p : str) : list str :=
  p :: anc_list (length p) p ++ path_dir p :: anc_list (length (path_dir p)) (path_dir p).
Definition in_region (p : str) : region := fun k => existsb (str_eqb k) (reads p) || is_child p k.
Definition wr_region (p : str) : region := fun k => str_eqb k p.

Lemma in_reads_region p k : In k (reads p) -> in_region p k = true.
Proof.
  intros I. unfold in_region. apply Bool.orb_true_iff. left. apply existsb_exists. exists k.
  split; [exact I|apply str_eqb_refl].
Qed.

Lemma wr_sub_region p : subregion (wr_region p) (in_region p).
Proof.
  intros k K. unfold wr_region in K. apply str_eqb_eq in K. subst. apply in_reads_region. left. reflexivity.
Qed.

Lemma local_stat p : local (in_region p) (wr_region p) (p_stat p).
Proof.
  unfold p_stat. apply local_getfile.
  - apply wr_sub_region.
  - apply in_reads_region. left. reflexivity.
  - intros d I. apply in_reads_region. right. apply in_or_app. left. exact I.
  - intros [d|c]; constructor.
Qed.

Lemma local_write R W f (upd : cstore -> cstore) r :
  (forall s, f s = (upd s, CDone r)) ->
  (forall s s', agree R s s' -> forall k, W k = true -> cget (upd s) k = cget (upd s') k) ->
  (forall s, same_outside W s (upd s)) ->
  local R W (CStep f).
Proof.
  intros F A O. constructor.
  - intros s. rewrite F. constructor.
  - intros s s' _. rewrite !F. reflexivity.
  - intros s s' Ag k K. rewrite !F. cbn. apply A; assumption.
  - intros s. rewrite F. cbn. apply O.
Qed.

Lemma local_set_step R p d r : local R (wr_region p) (CStep (fun s => (cset s p d, CDone r))).
Proof.
  apply (local_write R (wr_region p) _ (fun s => cset s p d) r).
  - reflexivity.
  - intros s s' _ k K. unfold wr_region in K. apply str_eqb_eq in K. subst. rewrite !cget_cset_eq. reflexivity.
  - intros s k K. unfold wr_region in K. rewrite cget_cset_neq; [reflexivity|].
    intros E. subst. rewrite str_eqb_refl in K. discriminate.
Qed.

Lemma local_del_step R p r : local R (wr_region p) (CStep (fun s => (cdel s p, CDone r))).
Proof.
  apply (local_write R (wr_region p) _ (fun s => cdel s p) r).
  - reflexivity.
  - intros s s' _ k K. unfold wr_region in K. apply str_eqb_eq in K. subst. rewrite !cget_cdel_eq. reflexivity.
  - intros s k K. unfold wr_region in K. rewrite cget_cdel_neq; [reflexivity|].
    intros E. subst. rewrite str_eqb_refl in K. discriminate.
Qed.

Lemma local_mkdir p : local (in_region p) (wr_region p) (p_mkdir p).
Proof.
  unfold p_mkdir. apply local_getfile.
  - apply wr_sub_region.
  - apply in_reads_region. left. reflexivity.
  - intros d I. apply in_reads_region. right. apply in_or_app. left. exact I.
  - intros [d|c]; [constructor|].
    assert (G : local (in_region p) (wr_region p)
                  (getfile (path_dir p) (fun r2 => match r2 with
                                                   | inr c0 => CDone (CErr c0)
                                                   | inl false => CDone (CErr ENOTDIR)
                                                   | inl true => CStep (fun s => (cset s p true, CDone COk))
                                                   end))).
    { apply local_getfile.
      - apply wr_sub_region.
      - apply in_reads_region. right. apply in_or_app. right. left. reflexivity.
      - intros d I. apply in_reads_region. right. apply in_or_app. right. right. exact I.
      - intros [[|]|c0]; [apply local_set_step|constructor|constructor]. }
    destruct c; try solve [constructor]. exact G.
Qed.

Lemma local_remove p : local (in_region p) (wr_region p) (p_remove p).
Proof.
  unfold p_remove. apply local_getfile.
  - apply wr_sub_region.
  - apply in_reads_region. left. reflexivity.
  - intros d I. apply in_reads_region. right. apply in_or_app. left. exact I.
  - intros [[|]|c]; [|apply local_del_step|constructor].
    constructor.
    + intros s. destruct (has_child s p); cbn; [constructor|apply local_del_step].
    + intros s s' A.
      rewrite (has_child_agree (in_region p) s s' p); [|
        intros k K; unfold in_region; rewrite K; apply Bool.orb_true_r | exact A].
      destruct (has_child s' p); reflexivity.
    + intros s s' A k K.
      assert (E : forall x, fst (if has_child x p then (x, CDone (CErr ENOTEMPTY))
                                 else (x, CStep (fun s'0 => (cdel s'0 p, CDone COk)))) = x)
        by (intros x; destruct (has_child x p); reflexivity).
      rewrite !E. apply A. apply wr_sub_region. exact K.
    + intros s. destruct (has_child s p); cbn; apply same_outside_refl.
Qed.

(* the paths an operation names; its read region is the union of their regions, it writes only those paths *)
Definition cop_paths (o : cop) : list str :=
  match o with
  | CMkdir p | CRemove p | CStat p | CChmod p => [p]
  | CRename a b => [a; b]
  | CMkdirAll p => p :: anc_list (length p) p          (* it may create every missing ancestor *)
  end.
Definition paths_R (ps : list str) : region := fun k => existsb (fun p => in_region p k) ps.
Definition paths_W (ps : list str) : region := fun k => existsb (fun p => wr_region p k) ps.

Lemma paths_W_sub_R ps : subregion (paths_W ps) (paths_R ps).
Proof.
  intros k K. unfold paths_W in K. apply existsb_exists in K. destruct K as (p & I & K).
  apply existsb_exists. exists p. split; [exact I|apply wr_sub_region; exact K].
Qed.

Lemma paths_R_in ps p k : In p ps -> in_region p k = true -> paths_R ps k = true.
Proof. intros I K. apply existsb_exists. exists p. split; assumption. Qed.
Lemma paths_W_in ps p k : In p ps -> wr_region p k = true -> paths_W ps k = true.
Proof. intros I K. apply existsb_exists. exists p. split; assumption. Qed.

Lemma local_single p prog : local (in_region p) (wr_region p) prog -> local (paths_R [p]) (paths_W [p]) prog.
Proof.
  intros L. eapply local_mono; [| |apply paths_W_sub_R|exact L].
  - intros k K. eapply paths_R_in; [left; reflexivity|exact K].
  - intros k K. eapply paths_W_in; [left; reflexivity|exact K].
Qed.

Lemma local_chmod p : local (in_region p) (wr_region p) (p_chmod p).
Proof.
  unfold p_chmod. apply local_getfile.
  - apply wr_sub_region.
  - apply in_reads_region. left. reflexivity.
  - intros d I. apply in_reads_region. right. apply in_or_app. left. exact I.
  - intros [d|c]; [apply local_set_step|constructor].
Qed.

(* the one read-write transaction of a file Rename *)
Lemma local_move_step R o n :
  o <> n -> local R (paths_W [o; n]) (CStep (fun s => (cdel (cset s n false) o, CDone COk))).
Proof.
  intros N. apply (local_write R (paths_W [o; n]) _ (fun s => cdel (cset s n false) o) COk).
  - reflexivity.
  - intros s s' _ k K. unfold paths_W, wr_region in K. cbn in K.
    destruct (str_eqb k o) eqn:Eo.
    + apply str_eqb_eq in Eo. subst k. rewrite !cget_cdel_eq. reflexivity.
    + destruct (str_eqb k n) eqn:En; [|discriminate].
      apply str_eqb_eq in En. subst k.
      assert (n <> o) by congruence.
      rewrite !cget_cdel_neq by assumption. rewrite !cget_cset_eq. reflexivity.
  - intros s k K. unfold paths_W, wr_region in K. cbn in K.
    destruct (str_eqb k o) eqn:Eo; [discriminate|]. destruct (str_eqb k n) eqn:En; [discriminate|].
    assert (k <> o) by (intros ->; rewrite str_eqb_refl in Eo; discriminate).
    assert (k <> n) by (intros ->; rewrite str_eqb_refl in En; discriminate).
    rewrite cget_cdel_neq by assumption. rewrite cget_cset_neq by assumption. reflexivity.
Qed.

Lemma local_rename o n : local (paths_R [o; n]) (paths_W [o; n]) (p_rename o n).
Proof.
  set (R := paths_R [o; n]). set (W := paths_W [o; n]).
  assert (WR : subregion W R) by apply paths_W_sub_R.
  assert (Ro : forall k, in_region o k = true -> R k = true) by (intros k K; eapply paths_R_in; [left; reflexivity|exact K]).
  assert (Rn : forall k, in_region n k = true -> R k = true)
    by (intros k K; eapply paths_R_in; [right; left; reflexivity|exact K]).
  assert (LookNew : local R W
     (getfile n (fun r3 => match r3 with
                           | inl true => CDone (CErr EEXIST)
                           | inl false | inr ENOENT =>
                             if str_eqb o n then CDone COk
                             else CStep (fun s => (cdel (cset s n false) o, CDone COk))
                           | inr c => CDone (CErr c)
                           end))).
  { apply local_getfile.
    - exact WR.
    - apply Rn. apply in_reads_region. left. reflexivity.
    - intros d I. apply Rn. apply in_reads_region. right. apply in_or_app. left. exact I.
    - assert (Mv : local R W (if str_eqb o n then CDone COk else CStep (fun s => (cdel (cset s n false) o, CDone COk)))).
      { destruct (str_eqb o n) eqn:E; [constructor|]. apply local_move_step.
        intros ->. rewrite str_eqb_refl in E. discriminate. }
      intros [[|]|c]; [constructor|exact Mv|]. destruct c; try constructor. exact Mv. }
  unfold p_rename. apply local_getfile.
  - exact WR.
  - apply Ro. apply in_reads_region. left. reflexivity.
  - intros d I. apply Ro. apply in_reads_region. right. apply in_or_app. left. exact I.
  - intros [[|]|c]; [constructor| |constructor].
    destruct (str_eqb o n || str_eqb n dot); [exact LookNew|].
    apply local_getfile.
    + exact WR.
    + apply Rn. apply in_reads_region. right. apply in_or_app. right. left. reflexivity.
    + intros d I. apply Rn. apply in_reads_region. right. apply in_or_app. right. right. exact I.
    + intros [[|]|c]; [exact LookNew|constructor|constructor].
Qed.

(* ---- MkdirAll ---- *)
Lemma missing_chain_agree s s' : forall n p acc,
  (forall k, In k (p :: anc_list n p) -> cget s k = cget s' k) ->
  missing_chain (Datatypes.S n) s p acc = missing_chain (Datatypes.S n) s' p acc.
Proof.
  induction n as [|m IH]; intros p acc H.
  - cbn [missing_chain]. destruct (str_eqb p dot); [reflexivity|].
    rewrite (H p (or_introl eq_refl)). destruct (cget s' p) as [[|]|]; reflexivity.
  - cbn [missing_chain]. destruct (str_eqb p dot) eqn:Dp; [reflexivity|].
    rewrite (H p (or_introl eq_refl)). destruct (cget s' p) as [[|]|]; try reflexivity.
    change (missing_chain (Datatypes.S m) s (path_dir p) (p :: acc) = missing_chain (Datatypes.S m) s' (path_dir p) (p :: acc)).
    destruct (str_eqb (path_dir p) dot) eqn:Dd.
    + cbn [missing_chain]. rewrite Dd. reflexivity.
    + apply IH. intros k I. apply H. right. cbn [anc_list]. rewrite Dd. exact I.
Qed.

Lemma missing_chain_subset s : forall n p acc l,
  missing_chain (Datatypes.S n) s p acc = inl l -> forall d, In d l -> In d acc \/ In d (p :: anc_list n p).
Proof.
  induction n as [|m IH]; intros p acc l H d I.
  - cbn [missing_chain] in H. destruct (str_eqb p dot); [inversion H; subst; left; exact I|].
    destruct (cget s p) as [[|]|]; inversion H; subst; [left; exact I|].
    destruct I as [<-|I]; [right; left; reflexivity|left; exact I].
  - cbn [missing_chain] in H. destruct (str_eqb p dot) eqn:Dp; [inversion H; subst; left; exact I|].
    destruct (cget s p) as [[|]|]; try (inversion H; subst; left; exact I); try discriminate.
    change (missing_chain (Datatypes.S m) s (path_dir p) (p :: acc) = inl l) in H.
    destruct (str_eqb (path_dir p) dot) eqn:Dd.
    + cbn [missing_chain] in H. rewrite Dd in H. inversion H; subst.
      destruct I as [<-|I]; [right; left; reflexivity|left; exact I].
    + destruct (IH _ _ _ H d I) as [[<-|X]|X]; [right; left; reflexivity|left; exact X|].
      right. right. cbn [anc_list]. rewrite Dd. exact X.
Qed.

Lemma local_mk_dirs R W l : subregion W R -> (forall d, In d l -> W d = true) -> local R W (mk_dirs l).
Proof.
  intros WR. induction l as [|d r IH]; intros Hl; cbn [mk_dirs]; [constructor|].
  constructor.
  - intros s. cbn. apply IH. intros x I. apply Hl. right. exact I.
  - intros s s' _. reflexivity.
  - intros s s' A k K. cbn [fst]. destruct (str_eqb_spec k d) as [->|N].
    + rewrite !cget_cset_eq. reflexivity.
    + rewrite !cget_cset_neq by exact N. apply A. apply WR. exact K.
  - intros s k K. cbn [fst]. rewrite cget_cset_neq; [reflexivity|].
    intros ->. rewrite (Hl d (or_introl eq_refl)) in K. discriminate.
Qed.

Lemma local_mkdirall p :
  local (paths_R (p :: anc_list (length p) p)) (paths_W (p :: anc_list (length p) p)) (p_mkdirall p).
Proof.
  set (ks := p :: anc_list (length p) p).
  assert (WR : subregion (paths_W ks) (paths_R ks)) by apply paths_W_sub_R.
  assert (Wk : forall k, In k ks -> paths_W ks k = true).
  { intros k I. eapply paths_W_in; [exact I|]. unfold wr_region. apply str_eqb_refl. }
  assert (Rk : forall k, In k ks -> paths_R ks k = true) by (intros k I; apply WR; apply Wk; exact I).
  assert (Cont : forall s, local (paths_R ks) (paths_W ks)
            (match missing_chain (Datatypes.S (length p)) s p [] with inr c => CDone (CErr c) | inl l => mk_dirs l end)).
  { intros s. destruct (missing_chain (Datatypes.S (length p)) s p []) as [l|c] eqn:M; [|constructor].
    apply local_mk_dirs; [exact WR|]. intros d I. apply Wk.
    destruct (missing_chain_subset s _ _ _ _ M d I) as [[]|X]. exact X. }
  unfold p_mkdirall. constructor.
  - intros s. cbn [snd]. apply Cont.
  - intros s s' A. cbn [snd].
    rewrite (missing_chain_agree s s' (length p) p []); [reflexivity|]. intros k I. apply A. apply Rk. exact I.
  - intros s s' A k K. cbn [fst]. apply A. apply WR. exact K.
  - intros s. cbn [fst]. apply same_outside_refl.
Qed.

Lemma local_prog_of o : local (paths_R (cop_paths o)) (paths_W (cop_paths o)) (prog_of o).
Proof.
  destruct o; cbn [prog_of cop_paths].
  - apply local_single, local_mkdir.
  - apply local_single, local_remove.
  - apply local_single, local_stat.
  - apply local_single, local_chmod.
  - apply local_rename.
  - apply local_mkdirall.
Qed.

(* ---------- goroutines ---------- *)
Definition ops_R (ops : list cop) : region := fun k => existsb (fun o => paths_R (cop_paths o) k) ops.
Definition ops_W (ops : list cop) : region := fun k => existsb (fun o => paths_W (cop_paths o) k) ops.

Lemma ops_W_sub_R ops : subregion (ops_W ops) (ops_R ops).
Proof.
  intros k K. unfold ops_W in K. apply existsb_exists in K. destruct K as (o & I & K).
  apply existsb_exists. exists o. split; [exact I|apply paths_W_sub_R; exact K].
Qed.

Lemma local_op_in ops o : In o ops -> local (ops_R ops) (ops_W ops) (prog_of o).
Proof.
  intros I. eapply local_mono; [| |apply ops_W_sub_R|apply local_prog_of].
  - intros k K. apply existsb_exists. exists o. split; assumption.
  - intros k K. apply existsb_exists. exists o. split; assumption.
Qed.

Definition gor_ok (R W : region) (g : gor) : Prop :=
  (forall p, g_cur g = Some p -> local R W p) /\ (forall o, In o (g_todo g) -> local R W (prog_of o)).

Lemma gor_ok_init ops : gor_ok (ops_R ops) (ops_W ops) (g_init ops).
Proof. split; [intros p E; discriminate|]. intros o I. apply local_op_in. exact I. Qed.

(* one step of an ok goroutine: same successor from agreeing stores, agreement kept, writes inside W, stays ok *)
Lemma g_step_local R W R' g s sA :
  gor_ok R W g -> subregion R R' -> agree R' s sA ->
  snd (g_step s g) = snd (g_step sA g) /\ agree R' (fst (g_step s g)) (fst (g_step sA g))
  /\ same_outside W s (fst (g_step s g)) /\ gor_ok R W (snd (g_step s g)).
Proof.
  intros [Hc Ht] S A. unfold g_step.
  set (cur := match g_cur g with
              | Some p => Some (p, g_todo g)
              | None => match g_todo g with o :: rest => Some (prog_of o, rest) | [] => None end
              end).
  assert (HC : match cur with
               | Some (p, todo) => local R W p /\ (forall o, In o todo -> local R W (prog_of o))
               | None => True
               end).
  { unfold cur. destruct (g_cur g) as [p|] eqn:E.
    - split; [apply Hc; reflexivity|exact Ht].
    - destruct (g_todo g) as [|o rest]; [exact I|]. split; [apply Ht; left; reflexivity|].
      intros o' I'. apply Ht. right. exact I'. }
  destruct cur as [[p todo]|].
  - destruct HC as [Lp Ltodo]. destruct p as [r|f].
    + cbn. repeat split; try assumption; try apply same_outside_refl.
      * intros p E. discriminate.
    + pose proof (local_step_agree R W f R' s sA Lp S A) as Ag.
      inversion Lp as [|f0 H1 H2 H3 H4]; subst.
      pose proof (H2 s sA (agree_sub R R' s sA S A)) as Eq.
      destruct (f s) as [s1 p1] eqn:F1. destruct (f sA) as [s2 p2] eqn:F2. cbn in Eq, Ag. subst p2.
      pose proof (H1 s) as L1. rewrite F1 in L1. cbn in L1.
      pose proof (H4 s) as O1. rewrite F1 in O1. cbn in O1.
      destruct p1 as [r|f1]; cbn.
      * repeat split; try assumption. intros p E. discriminate.
      * repeat split; try assumption. intros p E. inversion E. subst. exact L1.
  - cbn. repeat split; try assumption; try apply same_outside_refl.
Qed.

(* ---------- runs of a system of goroutines ---------- *)
Inductive reach : cstore -> list gor -> cstore -> list gor -> Prop :=
| reach_refl s gs : reach s gs s gs
| reach_step s gs i g s2 gs2 :
    nth_error gs i = Some g -> g_finished g = false ->
    reach (fst (g_step s g)) (list_set gs i (snd (g_step s g))) s2 gs2 ->
    reach s gs s2 gs2.

(* a goroutine running alone *)
Inductive solo : cstore -> gor -> cstore -> gor -> Prop :=
| solo_refl s g : solo s g s g
| solo_step s g s2 g2 :
    g_finished g = false -> solo (fst (g_step s g)) (snd (g_step s g)) s2 g2 -> solo s g s2 g2.

Lemma solo_snoc s g s1 g1 :
  solo s g s1 g1 -> g_finished g1 = false -> solo s g (fst (g_step s1 g1)) (snd (g_step s1 g1)).
Proof.
  intros H F. induction H as [s g|s g s2 g2 F0 _ IH].
  - apply solo_step; [exact F|apply solo_refl].
  - apply solo_step; [exact F0|apply IH; exact F].
Qed.

Lemma solo_det s g s1 g1 s2 g2 :
  solo s g s1 g1 -> g_finished g1 = true -> solo s g s2 g2 -> g_finished g2 = true -> s1 = s2 /\ g1 = g2.
Proof.
  intros H1. revert s2 g2. induction H1 as [s g|s g s1 g1 F0 _ IH]; intros s2 g2 F1 H2 F2.
  - inversion H2; subst; [split; reflexivity|congruence].
  - inversion H2; subst; [congruence|]. eapply IH; eassumption.
Qed.

(* the system: goroutine i has regions (R_i, W_i); write sets are disjoint from the other goroutines' read regions *)
Definition spec := (region * region)%type.
Definition unrelated (specs : list spec) : Prop :=
  forall i j Ri Wi Rj Wj, i <> j -> nth_error specs i = Some (Ri, Wi) -> nth_error specs j = Some (Rj, Wj) ->
    forall k, Wi k = true -> Rj k = false.
Definition written (specs : list spec) : region := fun k => existsb (fun sp => snd sp k) specs.

(* the invariant of a run from (s0, gs0): every goroutine is where it would be had it run alone from s0,
   and the store agrees with that solo run on the goroutine's region; outside all write sets nothing changed *)
Definition sys_inv (specs : list spec) (s0 : cstore) (gs0 : list gor) (s : cstore) (gs : list gor) : Prop :=
  length gs = length gs0 /\ length specs = length gs0 /\
  same_outside (written specs) s0 s /\
  forall i g0 R W, nth_error gs0 i = Some g0 -> nth_error specs i = Some (R, W) ->
    subregion W R /\
    exists g sA, nth_error gs i = Some g /\ gor_ok R W g /\ solo s0 g0 sA g /\ agree R s sA.

Lemma written_nth specs i R W k : nth_error specs i = Some (R, W) -> W k = true -> written specs k = true.
Proof.
  intros E K. unfold written. apply existsb_exists. exists (R, W). split; [eapply nth_error_In; exact E|exact K].
Qed.

Lemma sys_inv_init specs s0 gs0 :
  length specs = length gs0 ->
  (forall i g0 R W, nth_error gs0 i = Some g0 -> nth_error specs i = Some (R, W) -> subregion W R /\ gor_ok R W g0) ->
  sys_inv specs s0 gs0 s0 gs0.
Proof.
  intros L H. repeat split; try assumption; try apply same_outside_refl.
  - apply (H i g0 R W); assumption.
  - exists g0, s0. repeat split; try assumption; try apply agree_refl; try apply solo_refl;
      apply (H i g0 R W); assumption.
Qed.

Lemma sys_inv_step specs s0 gs0 s gs i g :
  unrelated specs -> sys_inv specs s0 gs0 s gs ->
  nth_error gs i = Some g -> g_finished g = false ->
  sys_inv specs s0 gs0 (fst (g_step s g)) (list_set gs i (snd (g_step s g))).
Proof.
  intros U (L1 & L2 & O & H) E F.
  assert (Hi : i < length gs) by (apply nth_error_Some; congruence).
  destruct (nth_error gs0 i) as [g0i|] eqn:E0; [|apply nth_error_None in E0; lia].
  destruct (nth_error specs i) as [[Ri Wi]|] eqn:Es; [|apply nth_error_None in Es; lia].
  destruct (H i g0i Ri Wi E0 Es) as (WRi & gi & sAi & Egi & OKi & Soloi & Agi).
  assert (gi = g) by congruence. subst gi.
  destruct (g_step_local Ri Wi Ri g s sAi OKi (fun k K => K) Agi) as (Esucc & Agsucc & Out & OKsucc).
  split; [rewrite list_set_length; exact L1|]. split; [exact L2|]. split.
  - eapply same_outside_trans; [exact O|]. eapply same_outside_sub; [|exact Out].
    intros k K. eapply written_nth; eassumption.
  - intros j g0 R W Ej0 Ejs. destruct (H j g0 R W Ej0 Ejs) as (WR & gj & sAj & Egj & OKj & Soloj & Agj).
    split; [exact WR|].
    destruct (Nat.eq_dec j i) as [->|Nji].
    + assert (g0 = g0i) by congruence. assert (R = Ri /\ W = Wi) as [-> ->] by (split; congruence). subst g0.
      exists (snd (g_step s g)), (fst (g_step sAi g)). repeat split.
      * apply nth_error_list_set_eq. exact Hi.
      * apply OKsucc.
      * apply OKsucc.
      * rewrite Esucc. apply solo_snoc; assumption.
      * exact Agsucc.
    + exists gj, sAj. repeat split; try apply OKj; try assumption.
      * rewrite nth_error_list_set_neq; [exact Egj|congruence].
      * (* goroutine i wrote only inside W_i, which is disjoint from R_j *)
        intros k K. rewrite <- (Agj k K). symmetry. apply Out.
        destruct (Wi k) eqn:EW; [|reflexivity].
        rewrite (U i j Ri Wi R W (fun e => Nji (eq_sym e)) Es Ejs k EW) in K. discriminate.
Qed.

Lemma sys_inv_reach specs s0 gs0 s gs s2 gs2 :
  unrelated specs -> sys_inv specs s0 gs0 s gs -> reach s gs s2 gs2 -> sys_inv specs s0 gs0 s2 gs2.
Proof.
  intros U I H. induction H as [s gs|s gs i g s2 gs2 E F _ IH]; [exact I|].
  apply IH. apply sys_inv_step; assumption.
Qed.

Definition all_finished (gs : list gor) : Prop := forall g, In g gs -> g_finished g = true.

(* MAIN THEOREM: confluence of unrelated goroutines.  Any two complete runs from the same start end with the
   same goroutine states (in particular the same results, in the same order) and the same store. *)
Theorem unrelated_confluent specs s0 gs0 s1 gs1 s2 gs2 :
  length specs = length gs0 ->
  (forall i g0 R W, nth_error gs0 i = Some g0 -> nth_error specs i = Some (R, W) -> subregion W R /\ gor_ok R W g0) ->
  unrelated specs ->
  reach s0 gs0 s1 gs1 -> all_finished gs1 ->
  reach s0 gs0 s2 gs2 -> all_finished gs2 ->
  gs1 = gs2 /\ forall k, cget s1 k = cget s2 k.
Proof.
  intros L OK U R1 F1 R2 F2.
  pose proof (sys_inv_reach specs s0 gs0 s0 gs0 s1 gs1 U (sys_inv_init specs s0 gs0 L OK) R1) as (La1 & Lb1 & O1 & H1).
  pose proof (sys_inv_reach specs s0 gs0 s0 gs0 s2 gs2 U (sys_inv_init specs s0 gs0 L OK) R2) as (La2 & Lb2 & O2 & H2).
  assert (Same : forall i g0 R W, nth_error gs0 i = Some g0 -> nth_error specs i = Some (R, W) ->
            nth_error gs1 i = nth_error gs2 i /\ forall k, R k = true -> cget s1 k = cget s2 k).
  { intros i g0 R W E0 Es.
    destruct (H1 i g0 R W E0 Es) as (_ & g1 & sA1 & Eg1 & _ & So1 & Ag1).
    destruct (H2 i g0 R W E0 Es) as (_ & g2 & sA2 & Eg2 & _ & So2 & Ag2).
    destruct (solo_det s0 g0 sA1 g1 sA2 g2 So1 (F1 g1 (nth_error_In _ _ Eg1)) So2 (F2 g2 (nth_error_In _ _ Eg2))) as [-> ->].
    split; [congruence|]. intros k K. rewrite (Ag1 k K), (Ag2 k K). reflexivity. }
  split.
  - apply nth_ext with (d := g_init []) (d' := g_init []); [congruence|].
    intros i Hi. rewrite La1 in Hi.
    destruct (nth_error gs0 i) as [g0|] eqn:E0; [|apply nth_error_None in E0; lia].
    destruct (nth_error specs i) as [[R W]|] eqn:Es; [|apply nth_error_None in Es; lia].
    destruct (Same i g0 R W E0 Es) as [En _].
    destruct (nth_error gs1 i) as [g1|] eqn:E1; [|apply nth_error_None in E1; lia].
    symmetry in En. rewrite (nth_error_nth _ _ _ E1), (nth_error_nth _ _ _ En). reflexivity.
  - intros k. destruct (written specs k) eqn:Wk.
    + unfold written in Wk. apply existsb_exists in Wk. destruct Wk as ([R W] & I & K). cbn in K.
      apply In_nth_error in I. destruct I as (i & Es).
      destruct (nth_error gs0 i) as [g0|] eqn:E0;
        [|apply nth_error_None in E0; assert (i < length specs) by (apply nth_error_Some; intros Hn; pose proof (eq_trans (eq_sym Hn) Es) as Hx; discriminate Hx); lia].
      destruct (Same i g0 R W E0 Es) as [_ Hk]. apply Hk.
      destruct (OK i g0 R W E0 Es) as [WR _]. apply WR. exact K.
    + rewrite <- (O1 k Wk), <- (O2 k Wk). reflexivity.
Qed.

(* ---------- the explorations are runs ---------- *)
Lemma explore_sound fuel s gs o :
  In o (explore fuel s gs) -> exists s' gs', reach s gs s' gs' /\ all_finished gs' /\ o = (map g_res gs', s').
Proof.
  revert s gs. induction fuel as [|fu IH]; intros s gs I; cbn [explore] in I; [destruct I|].
  destruct (forallb g_finished gs) eqn:F.
  - destruct I as [<-|[]]. exists s, gs. split; [apply reach_refl|]. split; [|reflexivity].
    intros g Ig. rewrite forallb_forall in F. apply F. exact Ig.
  - apply in_flat_map in I. destruct I as (i & _ & I).
    destruct (nth_error gs i) as [g|] eqn:E; [|destruct I].
    destruct (g_finished g) eqn:Fg; [destruct I|].
    destruct (g_step s g) as [s' g'] eqn:St.
    destruct (IH _ _ I) as (s2 & gs2 & R & A & Eo).
    exists s2, gs2. split; [|split; assumption].
    eapply reach_step; [exact E|exact Fg|]. rewrite St. exact R.
Qed.

(* a sequential order: one goroutine at a time runs a WHOLE operation, from an operation boundary to the next *)
Inductive op_run : cstore -> gor -> cstore -> gor -> Prop :=
| op_run_last s g : g_finished g = false -> g_cur (snd (g_step s g)) = None ->
                    op_run s g (fst (g_step s g)) (snd (g_step s g))
| op_run_more s g s2 g2 : g_finished g = false -> g_cur (snd (g_step s g)) <> None ->
                    op_run (fst (g_step s g)) (snd (g_step s g)) s2 g2 -> op_run s g s2 g2.

Inductive seq_reach : cstore -> list gor -> cstore -> list gor -> Prop :=
| seq_refl s gs : seq_reach s gs s gs
| seq_op s gs i g s1 g1 s2 gs2 :
    nth_error gs i = Some g -> g_cur g = None -> op_run s g s1 g1 ->
    seq_reach s1 (list_set gs i g1) s2 gs2 -> seq_reach s gs s2 gs2.

Lemma reach_trans s gs s1 gs1 s2 gs2 : reach s gs s1 gs1 -> reach s1 gs1 s2 gs2 -> reach s gs s2 gs2.
Proof.
  intros H1 H2. induction H1 as [|s gs i g s1 gs1 E F _ IH]; [exact H2|].
  eapply reach_step; [exact E|exact F|]. apply IH. exact H2.
Qed.

Lemma list_set_twice {A} (l : list A) i x y : list_set (list_set l i x) i y = list_set l i y.
Proof. revert i. induction l as [|a l IH]; intros [|i]; cbn; try reflexivity. rewrite IH. reflexivity. Qed.

Lemma op_run_reach s gs i g s1 g1 :
  nth_error gs i = Some g -> op_run s g s1 g1 -> reach s gs s1 (list_set gs i g1).
Proof.
  intros E H. revert gs E. induction H as [s g F C|s g s2 g2 F C _ IH]; intros gs E.
  - eapply reach_step; [exact E|exact F|apply reach_refl].
  - eapply reach_step; [exact E|exact F|].
    assert (Hi : i < length gs) by (apply nth_error_Some; congruence).
    specialize (IH (list_set gs i (snd (g_step s g))) (nth_error_list_set_eq _ _ _ Hi)).
    rewrite list_set_twice in IH. exact IH.
Qed.

Lemma seq_reach_reach s gs s2 gs2 : seq_reach s gs s2 gs2 -> reach s gs s2 gs2.
Proof.
  intros H. induction H as [|s gs i g s1 g1 s2 gs2 E C O _ IH]; [apply reach_refl|].
  eapply reach_trans; [eapply op_run_reach; eassumption|exact IH].
Qed.

(* ---------- the statement for programs over the model's alphabet ---------- *)
Definition prog_specs (progs : list (list cop)) : list spec := map (fun ops => (ops_R ops, ops_W ops)) progs.

(* programs are unrelated when no path written by one lies in the read region of another *)
Definition unrelated_progs (progs : list (list cop)) : Prop :=
  forall i j pi pj, i <> j -> nth_error progs i = Some pi -> nth_error progs j = Some pj ->
    forall k, ops_W pi k = true -> ops_R pj k = false.

Lemma prog_specs_unrelated progs : unrelated_progs progs -> unrelated (prog_specs progs).
Proof.
  intros U i j Ri Wi Rj Wj N Ei Ej k K. unfold prog_specs in Ei, Ej.
  rewrite nth_error_map in Ei, Ej.
  destruct (nth_error progs i) as [pi|] eqn:Pi; [|discriminate].
  destruct (nth_error progs j) as [pj|] eqn:Pj; [|discriminate].
  cbn in Ei, Ej. inversion Ei; inversion Ej; subst. eapply U; eassumption.
Qed.

Theorem unrelated_programs_confluent progs s0 s1 gs1 s2 gs2 :
  unrelated_progs progs ->
  reach s0 (map g_init progs) s1 gs1 -> all_finished gs1 ->
  reach s0 (map g_init progs) s2 gs2 -> all_finished gs2 ->
  map g_res gs1 = map g_res gs2 /\ forall k, cget s1 k = cget s2 k.
Proof.
  intros U R1 F1 R2 F2.
  destruct (unrelated_confluent (prog_specs progs) s0 (map g_init progs) s1 gs1 s2 gs2) as [E K]; try assumption.
  - unfold prog_specs. rewrite !map_length. reflexivity.
  - intros i g0 R W E0 Es. unfold prog_specs in Es. rewrite nth_error_map in E0, Es.
    destruct (nth_error progs i) as [ops|]; [|discriminate]. cbn in E0, Es. inversion E0; inversion Es; subst.
    split; [apply ops_W_sub_R|apply gor_ok_init].
  - apply prog_specs_unrelated. exact U.
  - split; [rewrite E; reflexivity|exact K].
Qed.

(* every outcome of the full interleaving exploration equals every other one, and equals the outcome of every
   sequential order of whole operations *)
Theorem explore_unrelated_one_outcome progs s0 fuel o :
  unrelated_progs progs -> In o (explore fuel s0 (map g_init progs)) ->
  (forall fuel' o', In o' (explore fuel' s0 (map g_init progs)) ->
     fst o' = fst o /\ forall k, cget (snd o') k = cget (snd o) k)
  /\ (forall s2 gs2, seq_reach s0 (map g_init progs) s2 gs2 -> all_finished gs2 ->
     map g_res gs2 = fst o /\ forall k, cget s2 k = cget (snd o) k).
Proof.
  intros U I. destruct (explore_sound _ _ _ _ I) as (s1 & gs1 & R1 & F1 & ->). cbn [fst snd]. split.
  - intros fuel' o' I'. destruct (explore_sound _ _ _ _ I') as (s2 & gs2 & R2 & F2 & ->). cbn [fst snd].
    eapply unrelated_programs_confluent; eassumption.
  - intros s2 gs2 S F2. eapply unrelated_programs_confluent; try eassumption. apply seq_reach_reach. exact S.
Qed.

(* ---------- "unrelated" decided, and derived from the shape of the paths ---------- *)
Definition unrelated_pair_b (pi pj : list cop) : bool :=
  forallb (fun o => forallb (fun p => negb (ops_R pj p)) (cop_paths o)) pi.

Fixpoint unrelated_progs_b_aux (before : list (list cop)) (l : list (list cop)) : bool :=
  match l with
  | [] => true
  | p :: rest =>
    forallb (fun q => unrelated_pair_b p q && unrelated_pair_b q p) (before ++ rest)
    && unrelated_progs_b_aux (before ++ [p]) rest
  end.

Lemma unrelated_pair_b_sound pi pj : unrelated_pair_b pi pj = true -> forall k, ops_W pi k = true -> ops_R pj k = false.
Proof.
  intros H k K. unfold ops_W in K. apply existsb_exists in K. destruct K as (o & I & K).
  unfold paths_W in K. apply existsb_exists in K. destruct K as (p & Ip & K).
  unfold wr_region in K. apply str_eqb_eq in K. subst k.
  unfold unrelated_pair_b in H. rewrite forallb_forall in H. specialize (H o I).
  rewrite forallb_forall in H. specialize (H p Ip).
  apply Bool.negb_true_iff in H. exact H.
Qed.

(* pairwise statement over all ordered pairs of distinct positions *)
Definition pairwise_b (progs : list (list cop)) : bool :=
  forallb (fun i => forallb (fun j =>
     if Nat.eqb i j then true
     else match nth_error progs i, nth_error progs j with
          | Some pi, Some pj => unrelated_pair_b pi pj
          | _, _ => true
          end) (seq 0 (length progs))) (seq 0 (length progs)).

Theorem pairwise_b_sound progs : pairwise_b progs = true -> unrelated_progs progs.
Proof.
  intros H i j pi pj N Ei Ej k K.
  unfold pairwise_b in H. rewrite forallb_forall in H.
  assert (Hi : i < length progs) by (apply nth_error_Some; congruence).
  assert (Hj : j < length progs) by (apply nth_error_Some; congruence).
  specialize (H i (proj2 (in_seq _ _ _) (conj (Nat.le_0_l _) Hi))).
  rewrite forallb_forall in H. specialize (H j (proj2 (in_seq _ _ _) (conj (Nat.le_0_l _) Hj))).
  destruct (Nat.eqb_spec i j) as [->|_]; [congruence|]. rewrite Ei, Ej in H.
  eapply unrelated_pair_b_sound; eassumption.
Qed.

(* k is a, or lies below a *)
Definition under (a k : str) : Prop := k = a \/ exists b, k = a ++ slash :: b.
Definition apart (p q : str) : Prop := ~ under p q /\ ~ under q p.

Lemma anc_list_above fuel : forall p d, elems_ok p -> In d (anc_list fuel p) -> exists b, p = d ++ slash :: b.
Proof.
  induction fuel as [|fu IH]; intros p d E I; cbn [anc_list] in I; [destruct I|].
  destruct (str_eqb (path_dir p) dot) eqn:D; [destruct I|].
  destruct (elems_shape p E) as [[_ X]|(a & b & Eq & Nb & Ea & Eb & X)].
  - rewrite X in D. rewrite str_eqb_refl in D. discriminate.
  - rewrite X in I. destruct I as [<-|I]; [exists b; exact Eq|].
    destruct (IH a d Ea I) as (b' & Eb'). exists (b' ++ slash :: b). rewrite Eq, Eb'.
    rewrite <- app_assoc. reflexivity.
Qed.

Lemma has_prefix_decomp : forall p s, has_prefix s p = true -> exists r, s = p ++ r.
Proof.
  induction p as [|x p IH]; intros s H; [exists s; reflexivity|].
  destruct s as [|y s]; cbn in H; [discriminate|].
  apply Bool.andb_true_iff in H. destruct H as [E H]. apply N.eqb_eq in E. subst y.
  destruct (IH s H) as (r & ->). exists r. reflexivity.
Qed.

Lemma is_child_below p k : p <> dot -> is_child p k = true -> exists b, k = p ++ slash :: b.
Proof.
  intros D C. unfold is_child, child_name in C.
  destruct (str_eqb p dot) eqn:E; [apply str_eqb_eq in E; congruence|].
  destruct (has_prefix k (p ++ [slash])) eqn:H; [|discriminate].
  apply has_prefix_decomp in H. destruct H as (r & ->). exists r.
  rewrite <- app_assoc. reflexivity.
Qed.

(* a key in the region of p that could be written (a real-name path) is p, an ancestor of p, or a child of p *)
Theorem in_region_related p q : elems_ok p -> elems_ok q -> in_region p q = true -> under q p \/ under p q.
Proof.
  intros Ep Eq H. unfold in_region in H. apply Bool.orb_true_iff in H. destruct H as [H|H].
  - apply existsb_exists in H. destruct H as (x & I & Ex). apply str_eqb_eq in Ex. subst x.
    unfold reads in I. destruct I as [<-|I]; [left; left; reflexivity|].
    apply in_app_or in I. destruct I as [I|I].
    + left. right. apply (anc_list_above _ _ _ Ep I).
    + destruct (elems_shape p Ep) as [[_ X]|(a & b & Eqp & Nb & Ea & Eb & X)]; rewrite X in I.
      * destruct I as [<-|I]; [exfalso; exact (elems_ok_not_dot _ Eq eq_refl)|].
        cbn in I. destruct I.
      * destruct I as [<-|I]; [left; right; exists b; exact Eqp|].
        destruct (anc_list_above _ _ _ Ea I) as (b' & Eb'). left. right.
        exists (b' ++ slash :: b). rewrite Eqp, Eb'. rewrite <- app_assoc. reflexivity.
  - right. right. apply is_child_below; [apply elems_ok_not_dot; exact Ep|exact H].
Qed.

Definition paths_ok (ops : list cop) : Prop := forall o p, In o ops -> In p (cop_paths o) -> elems_ok p.

(* programs whose paths are real-name paths and pairwise apart (neither an ancestor-or-self of the other) across goroutines *)
Theorem apart_unrelated progs :
  (forall ops, In ops progs -> paths_ok ops) ->
  (forall i j pi pj oi oj a b, i <> j -> nth_error progs i = Some pi -> nth_error progs j = Some pj ->
     In oi pi -> In oj pj -> In a (cop_paths oi) -> In b (cop_paths oj) -> apart a b) ->
  unrelated_progs progs.
Proof.
  intros OK AP i j pi pj N Ei Ej k K.
  unfold ops_W in K. apply existsb_exists in K. destruct K as (oi & Ii & K).
  unfold paths_W in K. apply existsb_exists in K. destruct K as (a & Ia & K).
  unfold wr_region in K. apply str_eqb_eq in K. subst k.
  destruct (ops_R pj a) eqn:R; [|reflexivity]. exfalso.
  unfold ops_R in R. apply existsb_exists in R. destruct R as (oj & Ij & R).
  unfold paths_R in R. apply existsb_exists in R. destruct R as (b & Ib & R).
  destruct (AP i j pi pj oi oj a b N Ei Ej Ii Ij Ia Ib) as [A1 A2].
  destruct (in_region_related b a) as [H|H]; try assumption.
  - apply (OK pj (nth_error_In _ _ Ej) oj b Ij Ib).
  - apply (OK pi (nth_error_In _ _ Ei) oi a Ii Ia).
  - exact (A1 H).
  - exact (A2 H).
Qed.

(* ---------- sequential orders exist (the second half of the main statement is not vacuous) ---------- *)
Lemma op_run_cur R W p : local R W p -> forall s todo res,
  exists s1 g1, op_run s (mkG (Some p) todo res) s1 g1 /\ g_todo g1 = todo /\ g_cur g1 = None.
Proof.
  intros L. induction L as [r|f _ IH _ _ _]; intros s todo res.
  - exists s, (mkG None todo (res ++ [r])). split; [|split; reflexivity].
    apply (op_run_last s (mkG (Some (CDone r)) todo res)); reflexivity.
  - destruct (f s) as [s' p'] eqn:F.
    assert (St : g_step s (mkG (Some (CStep f)) todo res) =
                 match p' with
                 | CDone r => (s', mkG None todo (res ++ [r]))
                 | _ => (s', mkG (Some p') todo res)
                 end).
    { unfold g_step. cbn [g_cur g_todo g_res]. rewrite F. reflexivity. }
    destruct p' as [r|f1].
    + exists s', (mkG None todo (res ++ [r])). split; [|split; reflexivity].
      pose proof (op_run_last s (mkG (Some (CStep f)) todo res) eq_refl) as H. rewrite St in H. apply H. reflexivity.
    + specialize (IH s). rewrite F in IH. cbn [snd] in IH.
      destruct (IH s' todo res) as (s1 & g1 & O & T & C). exists s1, g1. split; [|split; assumption].
      apply op_run_more; [reflexivity|rewrite St; cbn; discriminate|rewrite St; exact O].
Qed.

Lemma op_run_transfer s g g' s1 g1 :
  g_step s g = g_step s g' -> g_finished g = false -> op_run s g' s1 g1 -> op_run s g s1 g1.
Proof.
  intros E F H. inversion H as [s0 g0 F0 C0|s0 g0 s2 g2 F0 C0 O0]; subst.
  - rewrite <- E. apply op_run_last; [exact F|rewrite E; exact C0].
  - apply op_run_more; [exact F|rewrite E; exact C0|rewrite E; exact O0].
Qed.

Lemma op_run_start R W s g o rest :
  g_cur g = None -> g_todo g = o :: rest -> local R W (prog_of o) ->
  exists s1 g1, op_run s g s1 g1 /\ g_todo g1 = rest /\ g_cur g1 = None.
Proof.
  intros C T L. destruct (op_run_cur R W (prog_of o) L s rest (g_res g)) as (s1 & g1 & O & T1 & C1).
  exists s1, g1. split; [|split; assumption].
  eapply op_run_transfer; [| |exact O].
  - destruct g as [c t r]. cbn in C, T. subst. reflexivity.
  - destruct g as [c t r]. cbn in C, T. subst. reflexivity.
Qed.

Definition todo_total (gs : list gor) : nat := list_sum (map (fun g => length (g_todo g)) gs).

Lemma todo_total_set gs : forall i g g1, nth_error gs i = Some g -> Datatypes.S (length (g_todo g1)) = length (g_todo g) ->
  Datatypes.S (todo_total (list_set gs i g1)) = todo_total gs.
Proof.
  unfold todo_total. induction gs as [|a gs IH]; intros [|i] g g1 E L; cbn in E; try discriminate.
  - inversion E; subst. cbn [list_set map list_sum fold_right]. lia.
  - cbn [list_set map list_sum fold_right]. specialize (IH i g g1 E L). unfold list_sum in IH. lia.
Qed.

Definition at_boundary (gs : list gor) : Prop :=
  forall g, In g gs -> g_cur g = None /\ forall o, In o (g_todo g) -> exists R W, local R W (prog_of o).

Lemma in_list_set {A} (l : list A) : forall i x y, In y (list_set l i x) -> y = x \/ In y l.
Proof.
  induction l as [|a l IH]; intros [|i] x y I; cbn in I; try tauto.
  - destruct I as [<-|I]; [left; reflexivity|right; right; exact I].
  - destruct I as [<-|I]; [right; left; reflexivity|]. destruct (IH i x y I); [left; assumption|right; right; assumption].
Qed.

Theorem sequential_order_exists : forall n gs s, todo_total gs = n -> at_boundary gs ->
  exists s2 gs2, seq_reach s gs s2 gs2 /\ all_finished gs2.
Proof.
  induction n as [|n IH]; intros gs s T B.
  - exists s, gs. split; [apply seq_refl|]. intros g I. destruct (B g I) as [C _].
    unfold g_finished. rewrite C. destruct (g_todo g) eqn:E; [reflexivity|].
    exfalso. unfold todo_total in T. apply in_split in I. destruct I as (l1 & l2 & ->).
    rewrite map_app, list_sum_app in T. cbn in T. rewrite E in T. cbn in T. lia.
  - destruct (forallb g_finished gs) eqn:F.
    + exists s, gs. split; [apply seq_refl|]. intros g I. rewrite forallb_forall in F. apply F. exact I.
    + assert (exists i g, nth_error gs i = Some g /\ g_finished g = false) as (i & g & E & Fg).
      { clear -F. induction gs as [|a gs IH]; cbn in F; [discriminate|].
        destruct (g_finished a) eqn:Fa.
        - destruct (IH F) as (i & g & E & Fg). exists (Datatypes.S i), g. split; assumption.
        - exists 0, a. split; [reflexivity|exact Fa]. }
      destruct (B g (nth_error_In _ _ E)) as [C Ls].
      destruct (g_todo g) as [|o rest] eqn:Tg; [unfold g_finished in Fg; rewrite C, Tg in Fg; discriminate|].
      destruct (Ls o (or_introl eq_refl)) as (R & W & L).
      destruct (op_run_start R W s g o rest C Tg L) as (s1 & g1 & O & T1 & C1).
      destruct (IH (list_set gs i g1) s1) as (s2 & gs2 & SR & AF).
      * pose proof (todo_total_set gs i g g1 E) as X. rewrite T1, Tg in X. cbn in X. specialize (X eq_refl). lia.
      * intros g' I'. apply in_list_set in I'. destruct I' as [->|I'].
        -- split; [exact C1|]. intros o' Io'. apply Ls. rewrite T1 in Io'. right. exact Io'.
        -- apply B. exact I'.
      * exists s2, gs2. split; [|exact AF]. eapply seq_op; eassumption.
Qed.

Corollary sequential_order_exists_progs progs s :
  exists s2 gs2, seq_reach s (map g_init progs) s2 gs2 /\ all_finished gs2.
Proof.
  apply (sequential_order_exists _ _ s eq_refl).
  intros g I. apply in_map_iff in I. destruct I as (ops & <- & _). split; [reflexivity|].
  intros o _. exists (paths_R (cop_paths o)), (paths_W (cop_paths o)). apply local_prog_of.
Qed.

(* ---------- a concrete instance: premises hold, outcomes exist ---------- *)
Definition demo_progs : list (list cop) :=
  [[CMkdir (S "d/x"); CRemove (S "d/x")]; [CRename (S "e/g") (S "e/h")]; [CChmod (S "f")]].
Definition demo_store : cstore :=
  [(dot, true); (S "d", true); (S "f", false); (S "e", true); (S "e/g", false)].

Example demo_unrelated : pairwise_b demo_progs = true.
Proof. vm_compute. reflexivity. Qed.

Example demo_has_outcomes : Nat.ltb 0 (length (explore 200 demo_store (map g_init demo_progs))) = true.
Proof. vm_compute. reflexivity. Qed.

(* related programs are NOT accepted by the criterion: two Mkdir of one name, Mkdir below a directory being removed *)
Example demo_related_rejected :
  pairwise_b [[CMkdir (S "d/x")]; [CMkdir (S "d/x")]] = false /\ pairwise_b [[CMkdir (S "d/x")]; [CRemove (S "d")]] = false
  /\ pairwise_b [[CStat (S "d/x")]; [CRemove (S "d")]] = false.
Proof. vm_compute. repeat split. Qed.
