(* Theorems about the interleaving model (C15). *)
From HP Require Import Base.Prelude Base.Path KV.Types Conc.Conc.
Open Scope nat_scope.

Definition s0 : cstore :=
  [(dot, true); (S "d", true); (S "f", false); (S "e", true); (S "e/g", false)].

(* ---- linearizability is refuted: two concurrent Mkdir of one name can both succeed ---- *)
Definition two_mkdirs : list (list cop) := [[CMkdir (S "d/x")]; [CMkdir (S "d/x")]].

Lemma two_mkdirs_not_sequential :
  subset_outcomes (explore 100 s0 (map g_init two_mkdirs)) (explore_seq 100 s0 (map g_init two_mkdirs)) = false.
Proof. vm_compute. reflexivity. Qed.

Lemma both_mkdirs_succeed :
  mem_outcome ([[COk]; [COk]], cset s0 (S "d/x") true) (explore 100 s0 (map g_init two_mkdirs)) = true.
Proof. vm_compute. reflexivity. Qed.

(* Mkdir below a directory that is removed concurrently leaves an orphan *)
Definition mkdir_vs_remove : list (list cop) := [[CMkdir (S "d/x")]; [CRemove (S "d")]].
Lemma orphan_reachable :
  existsb (fun o => match cget (snd o) (S "d/x"), cget (snd o) (S "d") with Some _, None => true | _, _ => false end)
          (explore 100 s0 (map g_init mkdir_vs_remove)) = true.
Proof. vm_compute. reflexivity. Qed.

(* ---- operations on unrelated paths commute: a finite family, the bound is in the statement ---- *)
Definition ops_left : list cop :=
  [CMkdir (S "d/x"); CRemove (S "d/x"); CStat (S "d/x"); CMkdir (S "d/y"); CStat (S "d"); CRemove (S "d/y")].
Definition ops_right : list cop :=
  [CMkdir (S "e/x"); CRemove (S "e/g"); CStat (S "e/g"); CMkdir (S "e/g"); CStat (S "e"); CRemove (S "e/x")].

Definition progs_upto2 (ops : list cop) : list (list cop) :=
  map (fun o => [o]) ops ++ flat_map (fun a => map (fun b => [a; b]) ops) ops.

Definition commute_ok (pl pr : list cop) : bool :=
  let gs := [g_init pl; g_init pr] in
  let all := explore 200 s0 gs in
  let sq := explore_seq 200 s0 gs in
  negb (match all with [] => true | _ => false end)
  && subset_outcomes all sq
  && (* one outcome only: the result does not depend on the interleaving *)
     forallb (fun o => forallb (outcome_eqb o) all) all.

Definition progs1 (ops : list cop) : list (list cop) := map (fun o => [o]) ops.

Lemma unrelated_commute_all :
  forallb (fun pl => forallb (fun pr => commute_ok pl pr) (progs1 ops_right)) (progs_upto2 ops_left) = true.
Proof. vm_compute. reflexivity. Qed.

Theorem unrelated_commute pl pr :
  In pl (progs_upto2 ops_left) -> In pr (progs1 ops_right) -> commute_ok pl pr = true.
Proof.
  intros Hl Hr. pose proof unrelated_commute_all as H.
  rewrite forallb_forall in H. specialize (H pl Hl). rewrite forallb_forall in H. exact (H pr Hr).
Qed.

(* ---- Stat on an existing path is one transaction: programs of Stats are always sequential ---- *)
Definition stat_ops : list cop := [CStat (S "d"); CStat (S "f"); CStat (S "e/g"); CStat dot].
Lemma stats_linearizable_all :
  forallb (fun pl => forallb (fun pr =>
     subset_outcomes (explore 200 s0 [g_init pl; g_init pr]) (explore_seq 200 s0 [g_init pl; g_init pr]))
     (progs1 (CMkdir (S "x") :: CRemove (S "f") :: stat_ops))) (progs_upto2 stat_ops) = true.
Proof. vm_compute. reflexivity. Qed.

