(* C15/C03 under concurrency: orphans need a remover.

   With any number of goroutines running any programs over {Mkdir, MkdirAll, Chmod, Stat} -- no Remove, no Rename --
   under EVERY interleaving at store-transaction granularity, every reachable store is a well-formed tree: the root
   is a directory and every entry's parent is a directory.  (With Remove in the alphabet this is false: the refuted
   theorem C15_orphan_reachable.)  The reason is monotonicity: entries are never deleted, kinds never change, every
   new entry is a directory; Mkdir writes only after it saw the parent as a directory, MkdirAll creates the missing
   chain from the outermost directory inwards.

   Method: a program state is [safe] relative to the store it was established in if each of its remaining steps,
   executed in ANY later store (an extension), again yields an extension that is parent-closed, and leaves a safe
   program.  Safety of a waiting goroutine survives the steps of the others because extensions compose. *)
From HP Require Import Base.Prelude Base.Path Base.PathProofs Base.DirProofs KV.Types Conc.Conc Conc.Commute.
Open Scope nat_scope.

(* s' extends s: nothing deleted, no kind changed, every new entry is a directory *)
Definition ext (s s' : cstore) : Prop :=
  forall k, match cget s k with
            | Some v => cget s' k = Some v
            | None => cget s' k = None \/ cget s' k = Some true
            end.

Lemma ext_refl s : ext s s.
Proof. intros k. destruct (cget s k); [reflexivity|left; reflexivity]. Qed.

Lemma ext_trans a b c : ext a b -> ext b c -> ext a c.
Proof.
  intros H1 H2 k. specialize (H1 k). specialize (H2 k). destruct (cget a k) as [v|].
  - rewrite H1 in H2. exact H2.
  - destruct H1 as [H1|H1]; rewrite H1 in H2; [exact H2|right; exact H2].
Qed.

Lemma ext_some s s' k v : ext s s' -> cget s k = Some v -> cget s' k = Some v.
Proof. intros E H. specialize (E k). rewrite H in E. exact E. Qed.

Lemma ext_dirish s s' k : ext s s' -> (cget s k = None \/ cget s k = Some true) -> (cget s' k = None \/ cget s' k = Some true).
Proof.
  intros E [H|H]; specialize (E k); rewrite H in E; [exact E|right; exact E].
Qed.

(* parent-closed with a directory root *)
Definition wf (s : cstore) : Prop :=
  cget s dot = Some true /\ forall k, cget s k <> None -> k = dot \/ cget s (path_dir k) = Some true.

(* creating (or re-creating) a directory whose parent is a directory *)
Lemma set_dir_ok s p :
  wf s -> (cget s p = None \/ cget s p = Some true) -> (p = dot \/ cget s (path_dir p) = Some true) ->
  ext s (cset s p true) /\ wf (cset s p true).
Proof.
  intros [R C] Hp Hpar. split.
  - intros k. destruct (str_eqb_spec k p) as [->|N].
    + rewrite cget_cset_eq. destruct Hp as [Hp|Hp]; rewrite Hp; [right; reflexivity|reflexivity].
    + rewrite cget_cset_neq by exact N. destruct (cget s k); [reflexivity|left; reflexivity].
  - assert (Keep : forall k v, cget s k = Some v -> (k = p -> v = true) -> cget (cset s p true) k = Some v).
    { intros k v H Hv. destruct (str_eqb_spec k p) as [->|N]; [rewrite cget_cset_eq, (Hv eq_refl); reflexivity|].
      rewrite cget_cset_neq by exact N. exact H. }
    split.
    + apply Keep; [exact R|]. intros E. reflexivity.
    + intros k Hk. destruct (str_eqb_spec k p) as [->|N].
      * destruct Hpar as [->|Hpar]; [left; reflexivity|right].
        apply Keep; [exact Hpar|]. intros _. reflexivity.
      * rewrite cget_cset_neq in Hk by exact N. destruct (C k Hk) as [->|Hd]; [left; reflexivity|right].
        apply Keep; [exact Hd|]. intros _. reflexivity.
Qed.

(* writing back the kind that is there *)
Lemma set_same_ok s p d : cget s p = Some d -> forall k, cget (cset s p d) k = cget s k.
Proof.
  intros H k. destruct (str_eqb_spec k p) as [->|N]; [rewrite cget_cset_eq; symmetry; exact H|].
  apply cget_cset_neq. exact N.
Qed.

Lemma same_map_ok s s1 : (forall k, cget s1 k = cget s k) -> wf s -> ext s s1 /\ wf s1.
Proof.
  intros E [R C]. split.
  - intros k. rewrite E. destruct (cget s k); [reflexivity|left; reflexivity].
  - split; [rewrite E; exact R|]. intros k Hk. rewrite E in Hk. rewrite E. apply C. exact Hk.
Qed.

(* ---------- safe programs ---------- *)
Inductive safe : cstore -> cprog -> Prop :=
| SDone s r : safe s (CDone r)
| SStep s f :
    (forall s', ext s s' -> wf s' -> ext s' (fst (f s')) /\ wf (fst (f s')) /\ safe (fst (f s')) (snd (f s'))) ->
    safe s (CStep f).

Lemma safe_mono s s2 p : safe s p -> ext s s2 -> safe s2 p.
Proof.
  intros H E. destruct H as [s r|s f H]; [constructor|].
  constructor. intros s' E' W. apply H; [eapply ext_trans; eassumption|exact W].
Qed.

(* a step that reads key d and continues with what it saw *)
Lemma safe_read s d (g : option bool -> cprog) f :
  (forall x, f x = (x, g (cget x d))) ->
  (forall s', ext s s' -> safe s' (g (cget s' d))) ->
  safe s (CStep f).
Proof.
  intros F G. constructor. intros s' E W. rewrite F. cbn [fst snd]. split; [apply ext_refl|]. split; [exact W|].
  apply G. exact E.
Qed.

Lemma safe_walk ds : forall s (k : cls -> cprog),
  (forall s' c, ext s s' -> safe s' (k c)) -> safe s (walk ds k).
Proof.
  induction ds as [|d rest IH]; intros s k K; cbn [walk]; [apply K; apply ext_refl|].
  apply (safe_read s d (fun v => match v with Some true => k ENOENT | Some false => k ENOTDIR | None => walk rest k end)).
  - intros x. destruct (cget x d) as [[|]|]; reflexivity.
  - intros s' E. destruct (cget s' d) as [[|]|]; [apply K; exact E|apply K; exact E|].
    apply IH. intros s'' c E'. apply K. eapply ext_trans; eassumption.
Qed.

(* getFile(p): either the entry as it is now, or -- later -- the news that it was missing at some point *)
Lemma safe_getfile s p (k : bool + cls -> cprog) :
  (forall s' d, ext s s' -> cget s' p = Some d -> safe s' (k (inl d))) ->
  (forall s' c, ext s s' -> (cget s' p = None \/ cget s' p = Some true) -> safe s' (k (inr c))) ->
  safe s (getfile p k).
Proof.
  intros K1 K2. unfold getfile.
  apply (safe_read s p (fun v => match v with
                                 | Some d => k (inl d)
                                 | None => if str_eqb p dot then k (inr ENOENT)
                                           else walk (anc_list (length p) p) (fun c => k (inr c))
                                 end)).
  - intros x. destruct (cget x p); reflexivity.
  - intros s' E. destruct (cget s' p) as [d|] eqn:G; [apply K1; assumption|].
    destruct (str_eqb p dot); [apply K2; [exact E|left; exact G]|].
    apply safe_walk. intros s'' c E'. apply K2; [eapply ext_trans; eassumption|].
    apply (ext_dirish s' s'' p E'). left. exact G.
Qed.

Lemma safe_stat s p : safe s (p_stat p).
Proof.
  unfold p_stat. apply safe_getfile; intros; cbn; constructor.
Qed.

Lemma safe_set_dir s p :
  (cget s p = None \/ cget s p = Some true) -> (p = dot \/ cget s (path_dir p) = Some true) ->
  forall next, (forall s1, ext s s1 -> cget s1 p = Some true -> safe s1 next) ->
  safe s (CStep (fun x => (cset x p true, next))).
Proof.
  intros Hp Hpar next N. constructor. intros s' E W. cbn [fst snd].
  assert (Hp' : cget s' p = None \/ cget s' p = Some true) by (eapply ext_dirish; eassumption).
  assert (Hpar' : p = dot \/ cget s' (path_dir p) = Some true).
  { destruct Hpar as [->|H]; [left; reflexivity|right; eapply ext_some; eassumption]. }
  destruct (set_dir_ok s' p W Hp' Hpar') as [E1 W1]. split; [exact E1|]. split; [exact W1|].
  apply N; [eapply ext_trans; eassumption|apply cget_cset_eq].
Qed.

Lemma safe_chmod s p : safe s (p_chmod p).
Proof.
  unfold p_chmod. apply safe_getfile.
  - intros s' d E G. constructor. intros s'' E' W. cbn [fst snd].
    pose proof (ext_some s' s'' p d E' G) as G'.
    destruct (same_map_ok s'' (cset s'' p d) (set_same_ok s'' p d G') W) as [E1 W1].
    split; [exact E1|]. split; [exact W1|constructor].
  - intros s' c _ _. constructor.
Qed.

Lemma safe_mkdir s p : safe s (p_mkdir p).
Proof.
  unfold p_mkdir. apply safe_getfile.
  - intros s' d _ _. constructor.
  - intros s' c E Hp. destruct c; try solve [constructor].
    (* the path was missing at some point: look at the parent *)
    apply (safe_getfile s' (path_dir p)).
    + intros s'' d E' G. destruct d; [|constructor].
      apply safe_set_dir.
      * eapply ext_dirish; eassumption.
      * right. exact G.
      * intros s1 _ _. constructor.
    + intros s'' c _ _. constructor.
Qed.

(* ---- MkdirAll: the chain of missing directories ---- *)
Definition dirish (s : cstore) (k : str) : Prop := cget s k = None \/ cget s k = Some true.

(* each next directory's parent is the previous one *)
Fixpoint links (s : cstore) (d : str) (r : list str) : Prop :=
  match r with
  | [] => True
  | e :: r' => path_dir e = d /\ dirish s e /\ links s e r'
  end.

Lemma links_ext s s' : ext s s' -> forall r d, links s d r -> links s' d r.
Proof.
  intros E. induction r as [|e r IH]; intros d H; cbn in *; [exact I|].
  destruct H as (P & D & L). split; [exact P|]. split; [eapply ext_dirish; eassumption|apply IH; exact L].
Qed.

(* the list MkdirAll is about to create: the first one's parent is a directory *)
Definition head_ok (s : cstore) (l : list str) : Prop :=
  match l with
  | [] => True
  | d :: r => cget s (path_dir d) = Some true /\ dirish s d /\ links s d r
  end.

Lemma safe_mk_dirs : forall l s, head_ok s l -> safe s (mk_dirs l).
Proof.
  induction l as [|d r IH]; intros s H; cbn [mk_dirs]; [constructor|].
  destruct H as (P & D & L). apply safe_set_dir; [exact D|right; exact P|].
  intros s1 E G. apply IH. destruct r as [|e r']; [exact I|].
  cbn [links] in L. destruct L as (Pe & De & Le). cbn [head_ok]. split; [rewrite Pe; exact G|].
  split; [eapply ext_dirish; eassumption|eapply links_ext; eassumption].
Qed.

(* what the walk has collected so far: a linked chain whose first element's parent is where the walk stands *)
Definition acc_ok (s : cstore) (p : str) (acc : list str) : Prop :=
  match acc with
  | [] => True
  | a :: r => path_dir a = p /\ dirish s a /\ links s a r
  end.

Definition height (p : str) : nat := if str_eqb p dot then 0 else length p.

Lemma path_dir_lower p : elems_ok p -> (path_dir p = dot \/ elems_ok (path_dir p)) /\ height (path_dir p) < height p.
Proof.
  intros E. split; [apply path_dir_elems_ok; exact E|].
  pose proof (elems_ok_not_dot p E) as ND. pose proof (elems_ok_nonempty p E) as NE.
  unfold height at 2. destruct (str_eqb_spec p dot); [contradiction|].
  destruct (elems_shape p E) as [[_ X]|(a & b & Eq & _ & Ea & _ & X)]; rewrite X.
  - unfold height. rewrite str_eqb_refl. destruct p; [congruence|cbn; lia].
  - unfold height. destruct (str_eqb a dot); [destruct p; [congruence|cbn; lia]|].
    rewrite Eq, app_length. cbn. lia.
Qed.

Lemma missing_chain_ok s : wf s -> forall fuel p acc l,
  height p < fuel -> (p = dot \/ elems_ok p) -> acc_ok s p acc ->
  missing_chain fuel s p acc = inl l -> head_ok s l.
Proof.
  intros [R _]. induction fuel as [|f IH]; intros p acc l Hf Hp Ha H; [lia|].
  cbn [missing_chain] in H. destruct (str_eqb_spec p dot) as [->|ND].
  - inversion H; subst l. destruct acc as [|a r]; [exact I|]. destruct Ha as (P & D & L).
    cbn [head_ok]. rewrite P. split; [exact R|split; assumption].
  - destruct Hp as [->|E]; [congruence|].
    destruct (cget s p) as [[|]|] eqn:G; [| discriminate |].
    + inversion H; subst l. destruct acc as [|a r]; [exact I|]. destruct Ha as (P & D & L).
      cbn [head_ok]. rewrite P. split; [exact G|split; assumption].
    + destruct (path_dir_lower p E) as [Hd Hl].
      apply (IH (path_dir p) (p :: acc) l); [lia|exact Hd| |exact H].
      cbn [acc_ok]. split; [reflexivity|]. split; [left; exact G|].
      destruct acc as [|a r]; [exact I|]. exact Ha.
Qed.

Lemma safe_mkdirall s p : (p = dot \/ elems_ok p) -> safe s (p_mkdirall p).
Proof.
  intros Hp. unfold p_mkdirall. constructor. intros s' E W. cbn [fst snd].
  split; [apply ext_refl|]. split; [exact W|].
  destruct (missing_chain (Datatypes.S (length p)) s' p []) as [l|c] eqn:M; [|constructor].
  apply safe_mk_dirs. eapply (missing_chain_ok s' W _ p [] l); [|exact Hp|exact I|exact M].
  unfold height. destruct (str_eqb p dot); lia.
Qed.

(* ---------- the system ---------- *)
Definition allowed (o : cop) : Prop :=
  match o with
  | CMkdir _ | CStat _ | CChmod _ => True
  | CMkdirAll p => p = dot \/ elems_ok p
  | CRemove _ | CRename _ _ => False
  end.

Lemma safe_prog_of o s : allowed o -> safe s (prog_of o).
Proof.
  destruct o; cbn [allowed prog_of]; intros A; try contradiction.
  - apply safe_mkdir.
  - apply safe_stat.
  - apply safe_chmod.
  - apply safe_mkdirall. exact A.
Qed.

Definition gor_safe (s : cstore) (g : gor) : Prop :=
  (forall p, g_cur g = Some p -> safe s p) /\ (forall o, In o (g_todo g) -> allowed o).

Lemma gor_safe_mono s s2 g : gor_safe s g -> ext s s2 -> gor_safe s2 g.
Proof. intros [A B] E. split; [|exact B]. intros p H. eapply safe_mono; [apply A; exact H|exact E]. Qed.

Lemma g_step_safe s g :
  wf s -> gor_safe s g ->
  ext s (fst (g_step s g)) /\ wf (fst (g_step s g)) /\ gor_safe (fst (g_step s g)) (snd (g_step s g)).
Proof.
  intros W [Hc Ht]. unfold g_step.
  set (cur := match g_cur g with
              | Some p => Some (p, g_todo g)
              | None => match g_todo g with o :: rest => Some (prog_of o, rest) | [] => None end
              end).
  assert (HC : match cur with
               | Some (p, todo) => safe s p /\ (forall o, In o todo -> allowed o)
               | None => True
               end).
  { unfold cur. destruct (g_cur g) as [p|] eqn:E.
    - split; [apply Hc; reflexivity|exact Ht].
    - destruct (g_todo g) as [|o rest]; [exact I|]. split; [apply safe_prog_of; apply Ht; left; reflexivity|].
      intros o' I'. apply Ht. right. exact I'. }
  destruct cur as [[p todo]|].
  - destruct HC as [Sp St]. destruct p as [r|f].
    + cbn [fst snd]. split; [apply ext_refl|]. split; [exact W|]. split; [intros p E; discriminate|exact St].
    + inversion Sp as [|s0 f0 H]; subst. destruct (H s (ext_refl s) W) as (E1 & W1 & S1).
      destruct (f s) as [s1 p1]. cbn [fst snd] in *.
      destruct p1 as [r|f1]; cbn [fst snd]; (split; [exact E1|]; split; [exact W1|]); split; try exact St.
      * intros p E. discriminate.
      * intros p E. inversion E; subst. exact S1.
  - cbn [fst snd]. split; [apply ext_refl|]. split; [exact W|]. split; assumption.
Qed.

Definition sys_safe (s : cstore) (gs : list gor) : Prop := wf s /\ forall g, In g gs -> gor_safe s g.

Lemma sys_safe_reach s gs s2 gs2 : sys_safe s gs -> reach s gs s2 gs2 -> sys_safe s2 gs2.
Proof.
  intros H R. induction R as [s gs|s gs i g s2 gs2 E F _ IH]; [exact H|].
  apply IH. destruct H as [W G].
  destruct (g_step_safe s g W (G g (nth_error_In _ _ E))) as (E1 & W1 & S1).
  split; [exact W1|]. intros g' I'. apply in_list_set in I'. destruct I' as [->|I']; [exact S1|].
  eapply gor_safe_mono; [apply G; exact I'|exact E1].
Qed.

(* MAIN THEOREM: orphans need a remover.  Any number of goroutines, any programs over Mkdir / MkdirAll / Chmod / Stat,
   any well-formed start, any schedule, any point of the run: the store is a well-formed tree. *)
Theorem no_orphan_without_a_remover progs s0 s gs :
  wf s0 -> (forall ops o, In ops progs -> In o ops -> allowed o) ->
  reach s0 (map g_init progs) s gs -> wf s.
Proof.
  intros W A R.
  assert (S0 : sys_safe s0 (map g_init progs)).
  { split; [exact W|]. intros g I. apply in_map_iff in I. destruct I as (ops & <- & Io).
    split; [intros p E; discriminate|]. intros o Ioo. eapply A; eassumption. }
  exact (proj1 (sys_safe_reach _ _ _ _ S0 R)).
Qed.

(* in terms of the exploration: every store of every outcome is a well-formed tree *)
Corollary explore_no_orphan progs s0 fuel o :
  wf s0 -> (forall ops x, In ops progs -> In x ops -> allowed x) ->
  In o (explore fuel s0 (map g_init progs)) -> wf (snd o).
Proof.
  intros W A I. destruct (explore_sound _ _ _ _ I) as (s1 & gs1 & R & _ & ->). cbn [snd].
  eapply no_orphan_without_a_remover; eassumption.
Qed.

(* the premise is satisfiable, and necessary: with a Remove the conclusion fails (ConcProofs.orphan_reachable) *)
Definition demo_tree : cstore := [(dot, true); (S "d", true); (S "f", false)].

Example no_orphan_demo :
  wf demo_tree /\ allowed (CMkdirAll (S "d/x/y")) /\ allowed (CMkdir (S "d/x")) /\ ~ allowed (CRemove (S "d")).
Proof.
  split; [|split; [|split; [exact I|intros H; exact H]]].
  - split; [reflexivity|]. intros k H.
    assert (Ik : In k (map fst demo_tree)).
    { destruct (in_dec (list_eq_dec N.eq_dec) k (map fst demo_tree)) as [X|X]; [exact X|].
      apply cget_none_iff in X. contradiction. }
    cbn in Ik. destruct Ik as [<-|[<-|[<-|[]]]]; [left; reflexivity|right; reflexivity|right; reflexivity].
  - right. unfold elems_ok. vm_compute. repeat constructor.
Qed.
