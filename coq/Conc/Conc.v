(* Interleaving model for C15: file-system operations of keyvalue.FS as resumable programs whose
   atomic steps are the store transactions (and the lazy directory listing, which reads the live
   store outside any transaction), exactly the scheduling points the harness forces on the real
   code.  Alphabet: Mkdir, Remove, Stat, Chmod, Rename of a non-directory. *)
From HP Require Import Base.Prelude Base.Path KV.Types.
Open Scope N_scope.

Definition cstore := list (str * bool).    (* path -> is a directory *)

Fixpoint cget (s : cstore) (p : str) : option bool :=
  match s with
  | [] => None
  | (k, d) :: s' => if str_eqb k p then Some d else cget s' p
  end.
Definition cdel (s : cstore) (p : str) : cstore := filter (fun kv => negb (str_eqb (fst kv) p)) s.
Definition cset (s : cstore) (p : str) (d : bool) : cstore := (p, d) :: cdel s p.

Definition has_child (s : cstore) (p : str) : bool :=
  existsb (fun kv => match child_name p (fst kv) with Some _ => true | None => false end) s.

Inductive cres := COk | CErr (c : cls) | CInfo (isdir : bool).

Inductive cprog :=
| CDone (r : cres)
| CStep (f : cstore -> cstore * cprog).

(* ancestors below the root, nearest first: Dir(p), Dir(Dir(p)), ... (never ".") *)
Fixpoint anc_list (fuel : nat) (p : str) : list str :=
  match fuel with
  | O => []
  | Datatypes.S f => let d := path_dir p in if str_eqb d dot then [] else d :: anc_list f d
  end.

(* notDirErr: one transaction per ancestor looked at *)
Fixpoint walk (ds : list str) (k : cls -> cprog) : cprog :=
  match ds with
  | [] => k ENOENT
  | d :: rest =>
    CStep (fun s => match cget s d with
                    | Some true => (s, k ENOENT)
                    | Some false => (s, k ENOTDIR)
                    | None => (s, walk rest k)
                    end)
  end.

(* getFile(p): a transaction with one Get, then the ancestor walk when it is missing *)
Definition getfile (p : str) (k : bool + cls -> cprog) : cprog :=
  CStep (fun s => match cget s p with
                  | Some d => (s, k (inl d))
                  | None => (s, if str_eqb p dot then k (inr ENOENT)
                                else walk (anc_list (length p) p) (fun c => k (inr c)))
                  end).

Definition p_stat (p : str) : cprog :=
  getfile p (fun r => match r with inl d => CDone (CInfo d) | inr c => CDone (CErr c) end).

Definition p_mkdir (p : str) : cprog :=
  getfile p (fun r =>
    match r with
    | inl _ => CDone (CErr EEXIST)
    | inr ENOENT =>
      getfile (path_dir p) (fun r2 =>
        match r2 with
        | inr c => CDone (CErr c)
        | inl false => CDone (CErr ENOTDIR)
        | inl true => CStep (fun s => (cset s p true, CDone COk))
        end)
    | inr c => CDone (CErr c)
    end).

Definition p_remove (p : str) : cprog :=
  getfile p (fun r =>
    match r with
    | inr c => CDone (CErr c)
    | inl true =>
      (* ReadDirNames: reads the live store *)
      CStep (fun s => if has_child s p then (s, CDone (CErr ENOTEMPTY))
                      else (s, CStep (fun s' => (cdel s' p, CDone COk))))
    | inl false => CStep (fun s => (cdel s p, CDone COk))
    end).

(* Chmod: getFile, then save() writes the WHOLE record it read back in one transaction (so a Chmod that overlaps a
   Remove resurrects the entry: the kind is what this projection of the record shows) *)
Definition p_chmod (p : str) : cprog :=
  getfile p (fun r =>
    match r with
    | inr c => CDone (CErr c)
    | inl d => CStep (fun s => (cset s p d, CDone COk))
    end).

(* Rename of a non-directory: look-ups of old, of new's parent, of new (one transaction each, plus the ancestor
   walks), then ONE read-write transaction that stores the record under the new name and deletes the old one.
   (Renaming a directory moves its descendants one by one: outside this model, answered EOTHER.) *)
Definition p_rename (o n : str) : cprog :=
  getfile o (fun r =>
    match r with
    | inr c => CDone (CErr c)
    | inl true => CDone (CErr EOTHER)
    | inl false =>
      let look_new :=
        getfile n (fun r3 =>
          match r3 with
          | inl true => CDone (CErr EEXIST)
          | inl false | inr ENOENT =>
            if str_eqb o n then CDone COk
            else CStep (fun s => (cdel (cset s n false) o, CDone COk))
          | inr c => CDone (CErr c)
          end) in
      if str_eqb o n || str_eqb n dot then look_new
      else getfile (path_dir n) (fun r2 =>
             match r2 with
             | inr c => CDone (CErr c)
             | inl false => CDone (CErr ENOTDIR)
             | inl true => look_new
             end)
    end).

(* MkdirAll: findMissingDirs looks at the path and ALL its ancestors in one read transaction (upwards, until the first
   existing directory; a file on the way is ENOTDIR), then each missing directory is saved in a transaction of its
   own, the outermost first (an EEXIST from a concurrent creator is ignored: here a Set never fails) *)
Fixpoint missing_chain (fuel : nat) (s : cstore) (p : str) (acc : list str) : list str + cls :=
  match fuel with
  | O => inl acc
  | Datatypes.S f =>
    if str_eqb p dot then inl acc
    else match cget s p with
         | None => missing_chain f s (path_dir p) (p :: acc)
         | Some true => inl acc
         | Some false => inr ENOTDIR
         end
  end.

Fixpoint mk_dirs (l : list str) : cprog :=
  match l with
  | [] => CDone COk
  | d :: r => CStep (fun s => (cset s d true, mk_dirs r))
  end.

Definition p_mkdirall (p : str) : cprog :=
  CStep (fun s => (s, match missing_chain (Datatypes.S (length p)) s p [] with
                      | inr c => CDone (CErr c)
                      | inl l => mk_dirs l
                      end)).

Inductive cop := CMkdir (p : str) | CRemove (p : str) | CStat (p : str) | CChmod (p : str) | CRename (o n : str)
               | CMkdirAll (p : str).

Definition prog_of (o : cop) : cprog :=
  match o with
  | CMkdir p => p_mkdir p | CRemove p => p_remove p | CStat p => p_stat p
  | CChmod p => p_chmod p | CRename a b => p_rename a b
  | CMkdirAll p => p_mkdirall p
  end.

(* ---- sequential execution of one operation (all its steps in a row) ---- *)
Fixpoint run_prog (fuel : nat) (s : cstore) (p : cprog) : cstore * option cres :=
  match p with
  | CDone r => (s, Some r)
  | CStep f =>
    match fuel with
    | O => (s, None)
    | Datatypes.S fu => let '(s', p') := f s in run_prog fu s' p'
    end
  end.

Definition seq_fuel : nat := 64.

(* ---- goroutines: a current program, the operations still to run, the results so far ---- *)
Record gor := mkG { g_cur : option cprog; g_todo : list cop; g_res : list cres }.

Definition g_init (ops : list cop) : gor := mkG None ops [].
Definition g_finished (g : gor) : bool :=
  match g_cur g, g_todo g with None, [] => true | _, _ => false end.

(* one scheduling step of goroutine g: run up to the next scheduling point *)
Definition g_step (s : cstore) (g : gor) : cstore * gor :=
  let cur := match g_cur g with
             | Some p => Some (p, g_todo g)
             | None => match g_todo g with o :: rest => Some (prog_of o, rest) | [] => None end
             end in
  match cur with
  | None => (s, g)
  | Some (CDone r, todo) => (s, mkG None todo (g_res g ++ [r]))
  | Some (CStep f, todo) =>
    let '(s', p') := f s in
    match p' with
    | CDone r => (s', mkG None todo (g_res g ++ [r]))
    | _ => (s', mkG (Some p') todo (g_res g))
    end
  end.

Definition outcome := (list (list cres) * cstore)%type.

(* all interleavings: at every point any unfinished goroutine may take the next step *)
Fixpoint explore (fuel : nat) (s : cstore) (gs : list gor) : list outcome :=
  match fuel with
  | O => []
  | Datatypes.S fu =>
    if forallb g_finished gs then [(map g_res gs, s)]
    else
      flat_map (fun i =>
        match nth_error gs i with
        | Some g => if g_finished g then []
                    else let '(s', g') := g_step s g in explore fu s' (list_set gs i g')
        | None => []
        end) (seq 0 (length gs))
  end.

(* the sequential orders: every goroutine's next operation runs to completion atomically *)
Definition g_step_op (s : cstore) (g : gor) : cstore * gor :=
  match g_todo g with
  | [] => (s, g)
  | o :: rest =>
    let '(s', r) := run_prog seq_fuel s (prog_of o) in
    (s', mkG None rest (g_res g ++ match r with Some x => [x] | None => [] end))
  end.

Fixpoint explore_seq (fuel : nat) (s : cstore) (gs : list gor) : list outcome :=
  match fuel with
  | O => []
  | Datatypes.S fu =>
    if forallb g_finished gs then [(map g_res gs, s)]
    else
      flat_map (fun i =>
        match nth_error gs i with
        | Some g => if g_finished g then []
                    else let '(s', g') := g_step_op s g in explore_seq fu s' (list_set gs i g')
        | None => []
        end) (seq 0 (length gs))
  end.

(* ---- canonical form of an outcome, for comparisons ---- *)
Definition cres_eqb (a b : cres) : bool :=
  match a, b with
  | COk, COk => true
  | CErr x, CErr y => cls_eqb x y
  | CInfo x, CInfo y => Bool.eqb x y
  | _, _ => false
  end.

Fixpoint insert_kv (x : str * bool) (l : cstore) : cstore :=
  match l with
  | [] => [x]
  | y :: l' => if str_ltb (fst y) (fst x) then y :: insert_kv x l' else x :: l
  end.
Definition canon (s : cstore) : cstore := fold_right insert_kv [] s.

Definition store_eqb (a b : cstore) : bool :=
  list_eqb (fun x y => str_eqb (fst x) (fst y) && Bool.eqb (snd x) (snd y)) (canon a) (canon b).

Definition outcome_eqb (a b : outcome) : bool :=
  list_eqb (list_eqb cres_eqb) (fst a) (fst b) && store_eqb (snd a) (snd b).

Definition mem_outcome (o : outcome) (l : list outcome) : bool := existsb (outcome_eqb o) l.
Definition subset_outcomes (a b : list outcome) : bool := forallb (fun o => mem_outcome o b) a.
Definition same_outcomes (a b : list outcome) : bool := subset_outcomes a b && subset_outcomes b a.

(* ---- correspondence: the set of outcomes the harness observed over ALL schedules of a program ---- *)
Definition C15_case := (cstore * list (list cop) * list outcome)%type.
Definition C15_check (c : C15_case) : bool :=
  let '(s0, progs, observed) := c in
  same_outcomes (explore 200 s0 (map g_init progs)) observed.
