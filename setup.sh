#!/bin/sh
# Build the framework offline from files on disk: full .vo build of the Coq development and the Go harness.
set -e
cd "$(dirname "$0")"
export GOFLAGS=-mod=mod GOPROXY=off GOSUMDB=off GOTOOLCHAIN=local
mkdir -p build evidence replay
(cd coq && coq_makefile -f _CoqProject -o Makefile >/dev/null && timeout 3000 make -j16)
cp /repo/go.sum harness/go.sum
(cd harness && timeout 600 go build -tags verif -o ../build/hpverif .)
echo setup-ok
