"""Shared machinery of the /verif checks (Python 3 stdlib only).

Flow of one check (DESIGN.md section 3.3):
  1. build the Coq development (full .vo build) and re-compile Properties/<id>.v, collecting the
     theorem names and the Print Assumptions verdicts        -> proof leg
  2. rebuild the Go harness against /repo's working tree (-tags verif), generate cases from
     VERIF_SEED, run them on the implementation, evaluate the property oracle on the
     implementation's behaviour                               -> failing-input search
  3. evaluate the Coq model on the same cases inside coqc (vm_compute) and compare projected
     observables                                              -> correspondence leg
  4. decide, write evidence/<id>.json, print KNOWN-FINDING / VIOLATION lines.
"""
import fcntl, hashlib, json, os, re, shutil, subprocess, sys, time
from concurrent.futures import ThreadPoolExecutor

ROOT = os.path.dirname(os.path.dirname(os.path.abspath(__file__)))
COQ = os.path.join(ROOT, "coq")
BUILD = os.path.join(ROOT, "build")
HARNESS = os.path.join(ROOT, "harness")
REPO = os.environ.get("VERIF_REPO", "/repo")
GOENV = dict(os.environ, GOFLAGS="-mod=mod", GOPROXY="off", GOSUMDB="off", GOTOOLCHAIN="local",
             CGO_ENABLED=os.environ.get("CGO_ENABLED", "0"))

FORBIDDEN = r"\b(Admitted|admit|Axiom|Axioms|Parameter|Parameters|Conjecture|Conjectures|Hypothesis|Hypotheses|Variable|Variables)\b|Unset\s+Guard|bypass_check|type-in-type|impredicative-set|Admit\s+Obligations|Unset\s+Universe\s+Checking|Unset\s+Positivity"


def log(*a):
    print(*a, file=sys.stderr, flush=True)


def run(cmd, timeout, cwd=None, env=None, input=None):
    """Run under a hard timeout; returns (rc, stdout+stderr)."""
    try:
        p = subprocess.run(cmd, cwd=cwd, env=env, input=input, timeout=timeout,
                           stdout=subprocess.PIPE, stderr=subprocess.STDOUT, text=True)
        return p.returncode, p.stdout
    except subprocess.TimeoutExpired as e:
        out = e.stdout or ""
        if isinstance(out, bytes):
            out = out.decode("utf-8", "replace")
        return 124, out + "\n[timeout after %ss]" % timeout


class Lock:
    def __init__(self, name):
        os.makedirs(BUILD, exist_ok=True)
        self.path = os.path.join(BUILD, name + ".lock")

    def __enter__(self):
        self.f = open(self.path, "w")
        fcntl.flock(self.f, fcntl.LOCK_EX)

    def __exit__(self, *a):
        fcntl.flock(self.f, fcntl.LOCK_UN)
        self.f.close()


# ---------------------------------------------------------------- proof leg

def coq_sources():
    out = []
    for d, _, fs in os.walk(COQ):
        for f in fs:
            if f.endswith(".v"):
                out.append(os.path.join(d, f))
    return sorted(out)


def hygiene():
    """Forbidden constructs anywhere in the development (Section variables are allowed only
    inside Sections; we simply do not use Variable/Hypothesis at all)."""
    bad = []
    for p in coq_sources():
        txt = open(p).read()
        txt = re.sub(r"\(\*.*?\*\)", "", txt, flags=re.S)
        secs = []  # (start, end) spans of Sections
        for sm in re.finditer(r"^\s*Section\s+([A-Za-z0-9_']+)\s*\.", txt, flags=re.M):
            em = re.search(r"^\s*End\s+%s\s*\." % re.escape(sm.group(1)), txt[sm.end():], flags=re.M)
            if em:
                secs.append((sm.start(), sm.end() + em.end()))
        for m in re.finditer(FORBIDDEN, txt):
            if (m.group(1) or "") in ("Variable", "Variables", "Hypothesis", "Hypotheses") and \
                    any(a <= m.start() < b for a, b in secs):
                continue
            line = txt.count("\n", 0, m.start()) + 1
            bad.append("%s:%d: %s" % (os.path.relpath(p, ROOT), line, m.group(0)))
    return bad


def build_coq(timeout=3000):
    """Full .vo build of the development (never -vos)."""
    with Lock("coq"):
        mk = os.path.join(COQ, "Makefile")
        cp = os.path.join(COQ, "_CoqProject")
        if not os.path.exists(mk) or os.path.getmtime(mk) < os.path.getmtime(cp):
            rc, out = run(["coq_makefile", "-f", "_CoqProject", "-o", "Makefile"], 120, cwd=COQ)
            if rc != 0:
                return False, out
        rc, out = run(["make", "-j16"], timeout, cwd=COQ)
        return rc == 0, out


def compile_properties(pid, timeout=900):
    """Re-compile Properties/<pid>.v and parse theorem names + Print Assumptions output."""
    src = os.path.join(COQ, "Properties", pid + ".v")
    if not os.path.exists(src):
        return dict(ok=False, theorems=[], open=[], axioms=["<no Properties file>"], out="")
    with Lock("coq"):
        rc, out = run(["coqc", "-Q", ".", "HP", os.path.join("Properties", pid + ".v")], timeout, cwd=COQ)
    txt = open(src).read()
    code = re.sub(r"\(\*.*?\*\)", "", txt, flags=re.S)
    theorems = re.findall(r"^\s*(?:Theorem|Lemma|Corollary|Example)\s+([A-Za-z0-9_']+)", code, flags=re.M)
    opens = re.findall(r"\(\*\s*OPEN:\s*([A-Za-z0-9_']+)", txt)
    prints = re.findall(r"Print Assumptions\s+([A-Za-z0-9_'.]+)\s*\.", code)
    closed = out.count("Closed under the global context")
    axioms = []
    for m in re.finditer(r"Axioms:\s*\n(.*?)(?=\n\S|\Z)", out, flags=re.S):
        axioms.append(" ".join(m.group(1).split()))
    ok = rc == 0 and closed == len(prints) and not axioms
    return dict(ok=ok, rc=rc, theorems=theorems, open=opens, printed=prints, closed=closed,
                axioms=axioms, out=out[-4000:])


# ---------------------------------------------------------------- implementation side

def build_harness(timeout=600):
    with Lock("harness"):
        shutil.copyfile(os.path.join(REPO, "go.sum"), os.path.join(HARNESS, "go.sum"))
        gm = os.path.join(HARNESS, "go.mod")
        txt = open(gm).read()
        want = "replace github.com/hack-pad/hackpadfs => " + REPO
        new = re.sub(r"replace github.com/hack-pad/hackpadfs => \S+", want, txt)
        if new != txt:
            open(gm, "w").write(new)
        rc, out = run(["go", "build", "-tags", "verif", "-o", os.path.join(BUILD, "hpverif"), "."],
                      timeout, cwd=HARNESS, env=GOENV)
        if rc == 0:
            build_wasm()
        return rc == 0, out


def restore_gomod():
    """After a run against a copy (VERIF_REPO) put harness/go.mod back to the committed '/repo' (stages that build at run
    time -- the race stage, the fstest runner -- need it pointing at the copy until the run is over)."""
    if REPO == "/repo":
        return
    with Lock("harness"):
        gm = os.path.join(HARNESS, "go.mod")
        txt = open(gm).read()
        new = re.sub(r"replace github.com/hack-pad/hackpadfs => \S+", "replace github.com/hack-pad/hackpadfs => /repo", txt)
        if new != txt:
            open(gm, "w").write(new)


WASM_FILES = ["main.go", "util.go", "c19.go", "c19_wasm.go"]
WASM_BIN = os.path.join(BUILD, "hpverif.wasm")


def build_wasm(timeout=600):
    """The typed-array blob lives behind GOOS=js GOARCH=wasm: the C19 part of the harness is compiled a second time for
    that target (called with the harness lock held and go.mod pointing at the tree under test).  A failed build removes
    the binary; run_wasm then reports the stream as broken."""
    env = dict(GOENV, GOOS="js", GOARCH="wasm")
    rc, out = run(["go", "build", "-tags", "verif", "-o", WASM_BIN] + WASM_FILES, timeout, cwd=HARNESS, env=env)
    if rc != 0:
        try:
            os.remove(WASM_BIN)
        except OSError:
            pass
        open(os.path.join(BUILD, "wasm_build.log"), "w").write(out)
    return rc == 0, out


def wasm_exec():
    rc, goroot = run(["go", "env", "GOROOT"], 60, env=GOENV)
    goroot = goroot.strip()
    for rel in ("misc/wasm/go_js_wasm_exec", "lib/wasm/go_js_wasm_exec"):
        p = os.path.join(goroot, rel)
        if os.path.exists(p):
            return p
    return None


def run_wasm(stream, n, seed, timeout=1800, tier="quick"):
    """Run a stream of the js/wasm build under node; same output format as run_harness."""
    ex = wasm_exec()
    if not os.path.exists(WASM_BIN):
        msg = ""
        try:
            msg = open(os.path.join(BUILD, "wasm_build.log")).read()[-3000:]
        except OSError:
            pass
        return 1, [], "the js/wasm build of the harness failed against this tree:\n" + msg
    if ex is None or shutil.which("node") is None:
        return 1, [], "go_js_wasm_exec or node not found: the typed-array blob cannot be run"
    env = dict(GOENV, VERIF_SEED=str(seed), VERIF_TIER=tier)
    try:
        p = subprocess.run([ex, WASM_BIN, stream, str(n)], env=env, stdout=subprocess.PIPE, stderr=subprocess.PIPE,
                           timeout=timeout, text=True)
    except subprocess.TimeoutExpired:
        return 124, [], "the js/wasm stream %s did not finish within %d s" % (stream, timeout)
    cases = []
    for line in p.stdout.splitlines():
        line = line.strip()
        if line.startswith("{"):
            c = json.loads(line)
            if c.get("text") is None:
                c["text"] = [c.get("oracle") or ""] if c.get("oracle") else []
            cases.append(c)
    return p.returncode, cases, p.stderr[-4000:]


def run_harness(pid, n, seed, extra=(), timeout=1800, tier="quick"):
    env = dict(GOENV, VERIF_SEED=str(seed), VERIF_TIER=tier, VERIF_HARNESS_DIR=HARNESS)
    p = subprocess.run([os.path.join(BUILD, "hpverif"), pid, str(n)] + list(extra), env=env,
                       stdout=subprocess.PIPE, stderr=subprocess.PIPE, timeout=timeout, text=True)
    cases = []
    for line in p.stdout.splitlines():
        line = line.strip()
        if line.startswith("{"):
            c = json.loads(line)
            if c.get("text") is None:      # (a Go nil slice is marshalled as null)
                c["text"] = [c.get("oracle") or ""] if c.get("oracle") else []
            cases.append(c)
    err = p.stderr
    if len(err) > 5500:   # a Go crash names its reason in the first lines (fatal error: ...), the goroutines follow
        err = err[:1500] + "\n[...]\n" + err[-4000:]
    return p.returncode, cases, err


# ---------------------------------------------------------------- model side (in-kernel evaluation)

def _coq_chunk(args):
    name, imports, check_fn, chunk, timeout, ctype = args
    path = os.path.join(BUILD, "cases", name + ".v")
    with open(path, "w") as f:
        f.write("From HP Require Import Base.Prelude %s.\n" % imports)
        f.write("Open Scope N_scope.\n")
        for k, c in enumerate(chunk):
            f.write("Definition c%d : %s := %s.\n" % (k, c.get("ctype") or ctype, c["coq"]))
        f.write("Definition cases := [%s].\n" % "; ".join("c%d" % k for k in range(len(chunk))))
        f.write("Definition bad := Eval vm_compute in mismatch_ids %s 0%%N cases.\n" % check_fn)
        f.write("Print bad.\n")
    rc, out = run(["coqc", "-Q", COQ, "HP", path], timeout, cwd=os.path.join(BUILD, "cases"))
    if rc != 0:
        return None, out[-3000:]
    m = re.search(r"bad\s*=\s*(\[.*?\])\s*:", out, flags=re.S)
    if not m:
        return None, out[-3000:]
    ids = [int(x) for x in re.findall(r"\d+", m.group(1))]
    return [chunk[i]["id"] for i in ids], ""


def coq_eval(pid, imports, check_fn, cases, chunk_size=200, timeout=1200, ctype="_"):
    """Evaluate the model on every case inside coqc; returns (list of mismatching case ids, errors)."""
    d = os.path.join(BUILD, "cases")
    os.makedirs(d, exist_ok=True)
    jobs = []
    for i in range(0, len(cases), chunk_size):
        jobs.append(("%s_%d_%d" % (pid, os.getpid(), i // chunk_size), imports, check_fn,
                     cases[i:i + chunk_size], timeout, ctype))
    bad, errs = [], []
    with ThreadPoolExecutor(max_workers=min(14, max(1, len(jobs)))) as ex:
        for ids, err in ex.map(_coq_chunk, jobs):
            if ids is None:
                errs.append(err)
            else:
                bad.extend(ids)
    for j in jobs:
        for ext in (".v", ".vo", ".vok", ".vos", ".glob"):
            try:
                os.remove(os.path.join(d, j[0] + ext))
            except OSError:
                pass
        try:
            os.remove(os.path.join(d, "." + j[0] + ".aux"))
        except OSError:
            pass
    return bad, errs


def coq_show(pid, imports, expr, case, timeout=300, ctype="_"):
    """Print the model's own output for one case (for replay files)."""
    d = os.path.join(BUILD, "cases")
    os.makedirs(d, exist_ok=True)
    name = "%s_show_%d" % (pid, os.getpid())
    path = os.path.join(d, name + ".v")
    with open(path, "w") as f:
        f.write("From HP Require Import Base.Prelude %s.\nOpen Scope N_scope.\n" % imports)
        f.write("Definition c : %s := %s.\n" % (case.get("ctype") or ctype, case["coq"]))
        f.write("Eval vm_compute in (%s).\n" % expr)
    rc, out = run(["coqc", "-Q", COQ, "HP", path], timeout, cwd=d)
    for ext in (".v", ".vo", ".vok", ".vos", ".glob"):
        try:
            os.remove(os.path.join(d, name + ext))
        except OSError:
            pass
    return out[-6000:]


# ---------------------------------------------------------------- known findings, evidence, verdict

def load_known(pid):
    p = os.path.join(ROOT, "known_findings.json")
    if not os.path.exists(p):
        return []
    return [k for k in json.load(open(p)).get("findings", []) if k.get("property") == pid]


def match_known(known, sig):
    for k in known:
        if k.get("status") != "open":
            continue
        if re.fullmatch(k["sig"], sig or ""):
            return k
    return None


def write_replay(pid, kind, payload):
    d = os.path.join(ROOT, "replay")
    os.makedirs(d, exist_ok=True)
    path = os.path.join(d, "%s_%s_%d.json" % (pid, kind, int(time.time() * 1000) % 10**9))
    payload = dict(payload, property=pid, kind=kind)
    json.dump(payload, open(path, "w"), indent=1)
    return path


def impl_coverage(pid, n, seed, anchors, timeout=1800):
    """Statement coverage of the property's anchored files of /repo by this stream (thorough tier only): the harness is
    rebuilt with -cover, the same stream is run once more, and `go tool covdata` reports per function.  What the
    correspondence and the oracles cannot reach cannot be judged by them; this says how much that is."""
    covbin = os.path.join(BUILD, "hpverif-cover")
    covdir = os.path.join(BUILD, "covdata-" + pid)
    try:
        shutil.rmtree(covdir, ignore_errors=True)
        os.makedirs(covdir, exist_ok=True)
        with Lock("harness"):
            rc, out = run(["go", "build", "-tags", "verif", "-cover", "-coverpkg=github.com/hack-pad/hackpadfs/...,hpverif",
                           "-o", covbin, "."], 900, cwd=HARNESS, env=GOENV)
        if rc != 0:
            return dict(error="cover build failed: " + out[-300:])
        env = dict(GOENV, VERIF_SEED=str(seed), VERIF_TIER="quick", VERIF_HARNESS_DIR=HARNESS, GOCOVERDIR=covdir)
        subprocess.run([covbin, pid, str(n)], env=env, stdout=subprocess.DEVNULL, stderr=subprocess.DEVNULL, timeout=timeout)
        txt = os.path.join(covdir, "cov.txt")
        rc, out = run(["go", "tool", "covdata", "textfmt", "-i=" + covdir, "-o", txt], 300, cwd=HARNESS, env=GOENV)
        if rc != 0 or not os.path.exists(txt):
            return dict(error="covdata failed: " + out[-300:])
        per = {}
        for line in open(txt):
            m = re.match(r"github.com/hack-pad/hackpadfs/(\S+?):\d+\.\d+,\d+\.\d+ (\d+) (\d+)$", line.strip())
            if not m:
                continue
            f, nst, cnt = m.group(1), int(m.group(2)), int(m.group(3))
            if f not in anchors:
                continue
            tot, hit = per.get(f, (0, 0))
            per[f] = (tot + nst, hit + (nst if cnt > 0 else 0))
        return {f: dict(statements=t, covered=h, percent=round(100.0 * h / t, 1) if t else 0.0) for f, (t, h) in sorted(per.items())}
    except Exception as e:  # measurement only: never the reason a check fails
        return dict(error=str(e))
    finally:
        shutil.rmtree(covdir, ignore_errors=True)


def write_evidence(pid, tier, seed, coverage, assumptions, wall, violations):
    evdir = os.environ.get("VERIF_EVIDENCE_DIR") or os.path.join(ROOT, "evidence")
    os.makedirs(evdir, exist_ok=True)
    ev = dict(property_id=pid, tier=tier, seed=seed, level="proof", coverage=coverage,
              assumptions=assumptions, wall_s=round(wall, 2), violations=violations)
    json.dump(ev, open(os.path.join(evdir, pid + ".json"), "w"), indent=1)


TRUSTED_BASE = [
    "Coq 8.16.1 kernel (coqc), vm_compute used for reference witnesses and the in-kernel correspondence; native_compute not used",
    "no axioms declared; Print Assumptions under every property theorem must report 'Closed under the global context'",
    "hand-written Gallina model of the Go code; tied to /repo only by the correspondence check of this run",
    "Go harness /verif/harness (generators, canonicalisation, watchdogs), Go 1.23.5 toolchain",
    "/verif/check orchestrator (Python 3 stdlib)",
]
