"""Per-property configuration of the generic check driver."""
LT = ("Theorems in Coq 8.16.1 about a hand-written executable Gallina model of the code the property is anchored in (Properties/<id>.v, every theorem closed by Print Assumptions); "
      "on every run the model is evaluated in-kernel (vm_compute) on the cases the real code just executed and the projected observables are compared, and the property's own oracle is evaluated on the implementation "
      "(failing-input search). See DESIGN.md for what the theorems of this property cover and what is only exercised.")
LN = ("Trusted: Coq kernel and vm_compute; the hand-written model (tied to /repo only by this run's correspondence check); the Go harness and its oracles; Go toolchain. "
      "Known findings listed in known_findings.json are reported as KNOWN-FINDING and excluded by signature.")
PROPS = {
    "C19": dict(
        imports="Blob.Bytes Blob.BytesCorr Blob.Typed", check="C19_check", ctype="C19_case", show="brun binit (fst c)",
        n=dict(quick=1500, thorough=40000), chunk=250, wasm_streams=["C19wasm"], wasm_n=dict(quick=1200, thorough=30000),
        rule="random histories (<=12 ops) over blob.Bytes values of length 0..64 with arguments -2..len+2, "
             "aliasing views, Set from own view; distinct = distinct (ops, observations) term; every case is non-trivial (>=3 ops); "
             "the same generator on idbblob blobs (three ways of making them: JS array only, bytes already read, filled through Set) under js/wasm, half of the histories in-range only, half of them reading contents only where the history says so",
        level_text="Theorems (Coq kernel) over an executable model of blob.Bytes as Go slices with shared mutexes: every out-of-range argument is answered by an error and leaves every blob unchanged, "
                   "in-range operations agree with the byte-sequence laws (views alias, slices/Bytes() copy, Grow appends zeros, Truncate keeps a prefix), no operation panics or self-deadlocks (Set from an own view terminates). "
                   "Per run: the model is evaluated in-kernel on the same random histories the real blob.Bytes executed and every result and every blob's bytes after every step are compared.",
        level_note="Trusted: Coq kernel + vm_compute; the hand-written model (tied by the correspondence check only); Go harness. Not modelled: spare slice capacity after append reallocation (cases cut there); the Go-side byte copies of the js/wasm typed-array blob (its JS side is modelled in Blob/Typed.v and compared under node).",
        assumptions=["Go slice capacity after an append-reallocation is not modelled: histories whose result depends on it are cut at that step (RUnknown)",
                     "typed-array blob (indexeddb/idbblob, js/wasm): the model covers the JS arrays only (read directly under node); what Bytes() answers once a Go-side copy exists is judged by the []byte reference stream, where aliasing between a blob and its views after a Grow/Truncate is not compared"],
    ),
    "C01": dict(
        imports="Base.Path KV.Types KV.FS KV.Handle KV.Run KV.Corr", check="C01_check", ctype="kv_case",
        show="run kv_init (fst c)", n=dict(quick=400, thorough=8000), chunk=100,
        rule="state-aware random namespace histories (8..30 ops over names a,b,ab to depth 3, full flag product); "
             "distinct = distinct (ops, observations) term; all cases non-trivial (>= 8 ops)",
        level_text=LT, level_note=LN,
        assumptions=[],
    ),
    "C02": dict(
        imports="Base.Path KV.Types KV.FS KV.Handle KV.Run KV.Corr", check="C01_check", ctype="kv_case",
        show="run kv_init (fst c)", n=dict(quick=500, thorough=10000), chunk=100,
        rule="random handle histories: 1..3 handles on one file (all access modes x APPEND x TRUNC x CREATE), reads/writes/seeks/truncates with offsets -2..size+40, buffer lengths 0..16; distinct = distinct term",
        level_text=LT, level_note=LN, assumptions=[],
    ),
    "C17": dict(
        imports="Base.Path KV.Types KV.FS KV.Handle KV.Run KV.Corr", check="C01_check", ctype="kv_case",
        show="run kv_init (fst c)", n=dict(quick=500, thorough=10000), chunk=100,
        rule="random handle histories mixing Close (then every method), Remove/Rename of the handle's path and I/O through the older handle; distinct = distinct term",
        level_text=LT, level_note=LN, assumptions=[],
    ),
    "C05": dict(
        imports="Base.Path KV.Types KV.FS KV.Handle KV.Run KV.Corr", check="C05_check", ctype="kv_case",
        show="run kv_init (fst c)", n=dict(quick=500, thorough=10000), chunk=100,
        rule="state-aware namespace histories biased to failing calls; every failing call's error (type, path fields, sentinel class) compared with os; distinct = distinct term",
        level_text=LT, level_note=LN, assumptions=[],
    ),
    "C04": dict(
        imports="Base.Path KV.Types KV.FS KV.Handle KV.Run KV.Corr", check="C05_check", ctype="kv_case",
        show="run kv_init (fst c)", n=dict(quick=120, thorough=3000), chunk=150,
        rule="~60 fixed name shapes around the ValidPath boundary + n fuzzed names over {a,d,f,.,/,\\,:,multi-byte,0xff} x every entry point x layers "
             "{mem, Sub(mem), mount, os.FS, Sub(os.FS), cache, tar}; non-trivial = an FS-operation case (ValidPath-only cases are flagged trivial)",
        level_text=LT, level_note=LN, assumptions=[],
    ),
    "C03": dict(
        imports="Base.Path KV.Types KV.FS KV.Handle KV.Run KV.Corr", check="C01_check", ctype="kv_case",
        show="run kv_init (fst c)", n=dict(quick=600, thorough=12000), chunk=100,
        rule="namespace histories including removal/renaming of the root, renames into the own subtree, creation below files; on mem, keyvalue over a plain Store, "
             "mount.FS over three mem.FS and a Sub view; invariant evaluated after every step over all 39 candidate paths (depth<=3 over a,b,ab) of every view; distinct = distinct term",
        level_text=LT, level_note=LN, assumptions=[],
    ),
    "C16": dict(
        imports="Base.Path KV.Types KV.FS KV.Handle KV.Run KV.Corr", check="C16_check", ctype="kv_case",
        show="run kv_init (fst c)", n=dict(quick=800, thorough=8000), chunk=60,
        rule="directories with 0..300 children (files and directories, one of them a mount point in the mount layer) listed by name and through a handle with page-size "
             "sequences {-1, 0, k+1, k, k-1, huge, mixed 1..7}; layers mem, keyvalue/plain store, mount, inside a mount, Sub, cache, tar, os.FS; distinct = distinct (layer, children, pages)",
        level_text=LT, level_note=LN, assumptions=[],
    ),
    "C18": dict(
        imports="Txn.Txn Txn.TxnCorr", check="C18_check", ctype="C18_case",
        show="let '(which, init, calls, _, _, _) := c in trun which (t_begin init) calls", n=dict(quick=3000, thorough=60000), chunk=500,
        rule="random call sequences (1..10 calls of Get/GetHandler/Set/SetHandler/Abort/Commit over 3 keys, handlers that succeed, fail, abort, abort+fail) on the mem store's "
             "transaction (through the verif hook) and on the serial fallback over a plain Store, after a committed initial transaction; distinct = distinct term",
        level_text=LT, level_note=LN, assumptions=[],
    ),
    "C14": dict(
        imports="Base.Path KV.Types KV.FS KV.Handle KV.Run KV.Corr", check="C14_check", ctype="C14_case",
        show="run (with_fault kv_init (fst c)) (fst (snd c))", n=dict(quick=1500, thorough=30000), chunk=100,
        rule="namespace and handle histories (<=14 ops) on keyvalue.FS over a plain Store (serial fallback) and over a TransactionStore; for every history the failure-free run and one run per "
             "store-call index with exactly that call (Get, Set, lazy Data(), lazy ReadDirNames()) failing; distinct = distinct (fault index, history) term",
        level_text=LT, level_note=LN, assumptions=[],
    ),
    "C09": dict(
        imports="Base.Path OSPath.OSPath", check="C09_check", ctype="os_case",
        show="c", n=dict(quick=400, thorough=20000), chunk=600,
        rule="roots from 0..3 Sub calls over names with '.', '..', empty elements, backslash and colon; volumes '', C:, D:, UNC share; (linux,'/') and (windows,'\\') conventions through the verif shim; "
             "per configuration 6 names and OS-path candidates derived from them (trailing/double separators, '..', root look-alikes, other volume, relative); plus failing calls on the real os.FS under 0..2 Sub roots; distinct = distinct term",
        level_text=LT, level_note=LN, assumptions=[],
    ),
    "C06": dict(
        imports="Base.Path KV.Types KV.FS KV.Handle KV.Run KV.Corr Compose.Mount", check="C06_check", ctype="C06_case",
        show="let '(pts, ops, _) := c in mrun (minit pts) ops", n=dict(quick=300, thorough=6000), chunk=60,
        rule="random sets of 0..4 mount points from {a, ab, a/b, a/b/ab, b} (nested points, string-prefix look-alikes) in random insertion order over mem.FS constituents; "
             "namespace histories through mount.FS compared step by step with the same history on one flat mem.FS (result, error, and the exact contents of every constituent); "
             "Mount(p) for all 120 paths of depth<=4; AddMount guards and 2..6 concurrent AddMount of one point; distinct = distinct term",
        level_text=LT, level_note=LN, assumptions=[],
    ),
    "C07": dict(
        imports="Base.Path KV.Types KV.FS KV.Handle KV.Run KV.Corr Compose.Mount Compose.Sub", check="C07_check", ctype="C07_case",
        show="let '(dir, prep, ops, _) := c in srun dir (fold_left (fun s o => fst (step s o)) prep kv_init) ops", n=dict(quick=500, thorough=8000), chunk=60,
        rule="namespace histories run twice from identical start states: through Sub(fs, dir) at name, and on fs at dir/name; results (error paths translated) and the underlying trees compared after every step; "
             "fs in {mem, mount.FS with dir at/inside the mount point, mount.FS with dir above the mount point, os.FS (native Sub), an FS exposing only Open}; dir in {., a, a/b, ab}; one-step and nested Sub(Sub(..)); distinct = distinct term",
        level_text=LT, level_note=LN, assumptions=[],
    ),
    "C08": dict(
        imports="Base.Path KV.Types KV.FS KV.Handle KV.Run KV.Corr Compose.Helpers", check="C08_check", ctype="C08_case",
        show="let '(cp, prep, o, _, _) := c in cstep cp (fold_left (fun s x => fst (step s x)) prep kv_init) o", n=dict(quick=2500, thorough=40000), chunk=150,
        rule="for each of the 18 package helpers: every subset of the interfaces its dispatch inspects (generated wrapper types, 36 distinct method sets) over mem.FS and over os.FS, "
             "start states and arguments from the C01 alphabet; then a failure injected into every primitive call (FS method or file method) the chosen path makes; distinct = distinct (helper, subset, state, argument[, fault])",
        level_text=LT, level_note=LN, assumptions=[],
    ),
    "C10": dict(
        imports="Cache.Cache Cache.CacheDir", check="C10_check", ctype="C10_case",
        show="let '(src, retained, can_remove, ops, _, _) := c in cruns src (fun n => mem_str n retained) 512 can_remove cinit ops", n=dict(quick=400, thorough=6000), chunk=100,
        rule="random source trees (files of 0,1,511,512,513,1024,2048,5000 bytes, directories to depth 3), RetainData always/never/by size/by name, cache store mem.FS or an FS exposing only OpenFile+Mkdir; "
             "random access sequences (Open, Stat, Read of 0..6000 bytes, Seek, paged ReadDir, handle Stat, Close) answered by the cache and by the source directly; source reads counted; distinct = distinct case text",
        level_text=LT, level_note=LN, assumptions=[],
    ),
    "C11": dict(
        imports="Cache.Cache Cache.CacheConc Cache.CopyBuf", check="C10_check", ctype="C10_case",
        show="let '(src, retained, can_remove, ops, _, _) := c in cruns src (fun n => mem_str n retained) 512 can_remove cinit ops", n=dict(quick=400, thorough=4000), chunk=100,
        rule="for files of 0..5000 bytes at depth 1..3 and both cache store kinds: a fault at every source read index and at every cache-store call (mkdir, create, each write with a partial write, close) of the fill, "
             "then three fault-free re-opens; plus 2..4 concurrent first opens with the copy paused at chunk boundaries (simultaneous copies counted; the store calls the real cache made are replayed through the interleaving model) and a failing fill while a second opener waits; distinct = distinct (size, store, fault) cell",
        level_text=LT, level_note=LN, assumptions=[],
    ),
    "C12": dict(
        imports="Base.Path KV.Types KV.FS KV.Handle KV.Run KV.Corr Tar.Unpack Tar.Logical", check="C12_both", ctype="C12_case",
        show="let '(es, _, _) := c in unpack uinit es", n=dict(quick=500, thorough=5000), chunk=100,
        rule="random archives built with archive/tar: 1..6 entries (or 90..130 small files, more than the 81-buffer pool) in shuffled order (children before parents, explicit and implied directories), "
             "name spellings ./x /x a//b x/. a/./b a/x/../b, permission bits, sizes 0..40, 511/512/513/1024, 150KiB-1/150KiB/150KiB+1 (thorough: >4MiB); 1 in 10 with an entry resolving outside the root; "
             "destination default / mem.FS / OpenFile+Chmod+Mkdir only / os.FS in a temp dir; unpacked tree vs the logical tree computed by the harness; distinct = distinct case text",
        level_text=LT, level_note=LN, assumptions=[],
    ),
    "C13": dict(
        imports="Base.Path Tar.Unpack Tar.PubSub Tar.Workers", check="C13_pubsub_check", ctype="C13_pubsub_case",
        show="ptrace pinit (fst c)", n=dict(quick=260, thorough=3000), chunk=500,
        rule="pubsub scripts (wait/emit/cancel over 2 keys with real goroutines, blocked/returned state checked after every step) and bufferPool bounds through the verif shim; "
             "end to end: 6 archives streamed block by block through a controllable reader, modes clean / truncated at block k / read error at block k / caller cancellation at block k / k-th destination call fails, "
             "destination writes split in two halves and paused, 1..8 openers started before, during and after the stream; distinct = distinct (archive, mode, point, openers)",
        level_text=LT, level_note=LN, assumptions=[],
    ),
    "C15": dict(
        imports="Base.Path KV.Types Conc.Conc", check="C15_check", ctype="C15_case",
        show="let '(s0, progs, _) := c in explore 200 s0 (map g_init progs)", n=dict(quick=60, thorough=1200), chunk=20,
        rule="small concurrent programs (2..3 goroutines x 1..3 operations) on keyvalue.FS over the real in-memory store wrapped with scheduling points at every store transaction and lazy directory listing; "
             "every schedule enumerated by stateless depth-first search (budget 600 per program; 3000 for the model's Mkdir/Remove/Stat alphabet, where the complete outcome SET is compared with the model's); "
             "half of the programs use disjoint subtrees per goroutine (must commute), half share paths; plus free-running stress with 8 goroutines; distinct = distinct program",
        level_text=LT, level_note=LN, assumptions=[],
    ),
    "C20": dict(
        imports="Fstest.Assert", check="C20_check", ctype="C20_case",
        show="let '(mask, expected, actual, _) := c in tree_assert mask expected actual", n=dict(quick=100, thorough=100), chunk=300,
        rule="the real fstest.FS + fstest.File suites run (one process per file system) on the unmodified mem.FS and os.FS and on a catalogue of single-deviation wrappers around mem.FS "
             "(84 single-behaviour ones: an operation is a no-op / applied twice / leaves or drops an entry / wrong permission bits, size, bytes / positional calls off by one or leaving a non-zero gap / wrong error kind, path, type / EOF anomalies; "
             "and a matrix of sentinel-pair swaps, sampled in the quick tier); "
             "plus 200 generated (expected, actual tree, FileModeMask) triples whose real tryAssertEqualFS verdict is compared with the model's; distinct = distinct deviant or triple",
        level_text=LT, level_note=LN, assumptions=[],
    ),
}

# ---- per-property statement of what the claimed level rests on (replaces the generic LT/LN) ----
_COMMON_NOTE = (" Trusted: Coq 8.16.1 kernel and vm_compute (no axioms, Print Assumptions after every theorem, hygiene grep on every run); the hand-written "
                "Gallina model, tied to /repo only by this run's correspondence; the Go harness, its oracles and the os package as reference; see TRUSTED_BASE.md. "
                "Open findings are listed in known_findings.json and printed as KNOWN-FINDING.")
LEVELS = {
    "C01": ("Proved (all well-formed fault-free states, all arguments): exact success condition, resulting store and error class of Stat, Mkdir, Remove, Chmod, Chtimes, OpenFile (every flag combination) and Rename of a non-directory of the key-value FS model; ReadFile returns the record's bytes; WriteFullFile of a new name then ReadFile returns the data; MkdirAll success => the directory exists and nothing is lost, failure => unchanged; RemoveAll success => the name is gone; every state reachable by namespace histories is such a state (C03). "
            "Checked every run: the model agrees with the implementation on success/failure, data and whole tree after every step of generated histories, and the implementation agrees with the Go os package on the same histories.",
            "Not proved: exact specifications of WriteFullFile over an existing file, RemoveAll, Rename of directories, MkdirAll's exact success condition (model=code and code=os comparisons only). Refuted and listed as known finding: ReadFile of a directory."),
    "C02": ("Proved over the handle model (all states, offsets, lengths): Read/ReadAt return the current bytes with the EOF rule, writes zero-fill gaps, O_APPEND lands at the end, a read-only handle never changes contents, a write-only handle never reads, rejected writes/truncates change nothing; in every state ReadAt/WriteAt/Truncate/Stat/Chmod/Sync/Close never move the handle's position and Read advances it by exactly the bytes returned. "
            "Checked every run: model = implementation and implementation = os.File on multi-handle histories including a structured coherence family.",
            "Refuted (known finding): byte reads of a directory handle succeed with io.EOF. Not modelled: real os.File; it is the executable reference."),
    "C03": ("Proved: every history of namespace operations (Mkdir, MkdirAll, OpenFile+Close, WriteFullFile, Remove, RemoveAll, Rename incl. directory trees, Chmod, Chtimes, Stat, ReadDir, ReadFile), successful or failed, keeps the model's store a well-formed tree (root directory, real-name keys, every parent a directory key); no bound on length or depth; a Sub view keeps its parent well-formed and every constituent of a mount FS stays well-formed (all operations but Rename); the mount table's consistency with its directories is refuted (known finding). "
            "Checked every run: model = implementation; the invariant is evaluated on mem, keyvalue over a plain store, mount and Sub after every step over the closure of candidate paths.",
            "Hypothesis of the theorem: no store failure. The composition-level invariant (mount points and view roots exist) is covered by the invariant oracle only (two known findings, signatures restricted to operations covering a mount point / the view root). Writes through handles that outlive their path are C17's known finding."),
    "C04": ("Proved: ValidPath specification; for every operation of the key-value model, the Sub view and the mount FS, an invalid name (either name for Rename) leaves the whole state unchanged and fails with ErrInvalid naming the caller's path; valid names are never refused as invalid. "
            "Checked every run: model = implementation on 1.5k cases; 9k name x operation x layer cases (incl. os, cold and warm cache, a finished, a failed and a cancelled tar FS) against the gate's expected behaviour.",
            "os, cache and tar layers are oracle-only."),
    "C05": ("Proved: in every state (store failures included) each failure of Stat, Mkdir, Remove, Chmod, Chtimes and OpenFile of the key-value model is a PathError naming exactly the caller's path, also through a generic Sub view and a mount FS (the added prefix is exactly the stripped one); on well-formed fault-free states the sentinel for each situation (invalid, exists, missing, below a file, not empty, root); Rename with an invalid name gives a LinkError with both names; in every state every failure of Rename is a LinkError (exactly the caller's names for a non-directory source, the caller's names or both extended by one relative path for a directory) and every error of a handle operation is io.EOF or a PathError; a failed Rename of a non-directory through a mount FS (within one mount or across two) is a LinkError with exactly the caller's two names. "
            "Checked every run: full error values model = implementation (mem); type, path and sentinel implementation = os on mem, Sub(mem, a/ab), a mount FS and os.FS under two Sub roots; under a store that fails one call (every index in turn, both transaction paths) every reported error is still typed and names the caller's path.",
            "Not proved: MkdirAll/RemoveAll; Rename's out-of-fuel marker of the model is excluded by the statement; cache and tar layers are exercised by C04/C10/C12 only. Two known findings (precedence; ancestor named by RemoveAll)."),
    "C06": ("Proved over the mount model: routing is independent of the table's iteration order, selects the longest whole-element prefix, never confuses look-alike prefixes; only the routed constituent changes and the result is the direct one; AddMount succeeds at most/exactly once per point under concurrency, is accepted only at a valid unmounted name that is a directory of the file system its parent routes to, changes nothing when refused, and afterwards routes the point and what lies below it to the new constituent and everything else as before; a Rename across two mounts is REFUTED as an all-or-nothing operation (two witnesses = the two known findings). "
            "Checked every run: routes of all candidate paths and operation histories model = implementation; AddMount of candidate points (directories, files, missing paths, existing points, nested points, directories that exist in the root only, invalid names) on prepared compositions: answer and all routes afterwards model = implementation; per-constituent snapshots (incl. setuid/setgid/sticky) against a flat reference; the refutation scenario itself (one failing store call of one constituent, 48 cases) model = implementation.",
            "Cross-mount Rename's error class and the covered directory's mode in listings are not constrained (see DESIGN.md 0.6). Concurrency of AddMount is exercised, not proved. Every primitive call of a cross-mount Rename is made to fail in turn: two known findings (it is not all-or-nothing)."),
    "C07": ("Proved over the Sub model: a view addresses base joined with the name, which is the base or below it and valid; invalid names change nothing; each operation is the parent's operation at the joined name with error paths translated back. "
            "Checked every run: view vs parent on identical copies for mem, mount (inside and above a mount point), os and an Open-only FS; model = implementation.",
            "Refuted (known findings): Rename through the generic view is ErrNotImplemented; Sub(mountFS, dir) above a mount point hides the mount."),
    "C08": ("Proved over the helper model: single-dispatch helpers equal the full-interface helper or fail with ErrNotImplemented changing nothing; with all interfaces the helper is the native method; both MkdirAll paths refuse invalid names identically; the MkdirAll fallback returns nil only if every primitive succeeded or met an existing directory, and returns the first other primitive error; RemoveAll swallows only ErrNotExist. "
            "Checked every run: 2500 (helper x 70 capability masks incl. MountFS x state incl. symbolic links on os x injected primitive failure) cases against the full-capability FS; model = implementation on 450.",
            "Equality of fallback and optimised path for Stat, MkdirAll, RemoveAll, Chmod is checked, not proved."),
    "C09": ("Proved for every separator/volume convention: every chain of Sub calls yields an empty or valid root; the OS path is volume + separator + (root joined with name); it stays inside the root; invalid names and names containing a non-'/' separator are refused; FromOSPath inverts ToOSPath, returns only valid FS paths, refuses other volumes, paths outside the root and look-alike prefixes. "
            "Checked every run: 5k ToOSPath/FromOSPath/Sub cases model = implementation through the build-tagged shims for Unix and Windows conventions.",
            "filepath.VolumeName is an input of the model. Error-path rewriting of os/fs.go is exercised on the real OS only."),
    "C10": ("Proved over the cache model: the cache store holds only complete copies, Open serves the source's bytes, a successful open settles the entry, settled entries are never re-read and stay settled.  Proved over the model of the directory handle (cache/dir.go): while the source lists the directory the handle is the same pager as the key-value handle (C16), a source that cannot list makes the call fail and leaves the handle where it was, and over any call sequence with failures at any calls the delivered pages are exactly the listing up to the handle's position. "
            "Checked every run: access sequences cache vs source (bytes, stat, listings, re-read counts); call sequences on directory handles with an intermittently failing source; Open and Stat from a second goroutine while one Open is copying; model = implementation.",
            "Real parallelism of the path lock is exercised by C11's scheduler, not proved."),
    "C11": ("Proved over the fill state machine: a partial copy is never served, an interrupted fill reports an error, a failed fill leaves nothing servable -- over every sequence of faults, a source that cannot be opened during a later call included.  Proved over the interleaving model of concurrent openers of one name (any number of openers, every schedule, a failure possible at every step of every fill): at most one copy is in progress, every open that succeeds is complete, no partial copy is ever left unmarked, a settled copy stays, some opener can always move.  Proved over the model of fills of different names whose read-a-chunk / write-the-buffer steps interleave in any order (Cache/CopyBuf.v): every file is at every moment a prefix of its own source and a finished fill has left exactly its source. "
            "Checked every run: failures injected at every source/store call, the same followed by a re-open with the source down (model = implementation); 2..4 concurrent first opens with the copy paused at chunk boundaries and a failing fill while a second opener waits (Remove slow / Remove failing): simultaneous copies counted, and the store calls the real cache made are replayed through the interleaving model (model accepts = implementation follows the protocol); the fill of one name held inside a store write while another name is opened and read, every open and re-open compared with the source and the store's Writes replayed through the model of interleaved fills.",
            "The path lock itself is Go's sync primitives (trusted)."),
    "C12": ("Proved: for every well-formed archive (distinct resolved names, no file above another entry) the unpacking algorithm builds exactly the logical tree -- each entry, each ancestor as a 0700 directory, nothing else -- in every entry order; names normalise to the root, a real-name path, or an escaping path; an entry whose parent escapes stops unpacking and creates nothing. "
            "Checked every run: both models = implementation on generated archives; unpacked tree vs logical tree on four destinations incl. os.FS, sizes across the 150 KiB threshold.",
            "Not modelled: goroutine schedule of the background writers, buffer pools (harness only)."),
    "C13": ("Proved over the pubsub/Open protocol model: a wait is released by emit or cancel and by nothing else and stays released; a successful Open returns a complete entry; failures close; no opener stays stuck; reader completion precedes cancellation handling.  Proved over the model of the reader's end (background writers, one-slot error channel, WaitGroup, final select; every interleaving): the reader returns nil only if no background write failed, it is never blocked for good, every step decreases a measure, hence it always returns (Done fires). "
            "Checked every run: scripted pubsub schedules with real goroutines; archives of small files of which a chosen subset of background writes fails: Done fires and the reported error is what every interleaving of the model says; streamed archives with stalls, truncation, read errors, cancellation and failing destinations with 1..8 openers.; the background write of one small entry held until the next entry's begins, every entry then compared with the archive",
            "Go's scheduler and context package are trusted."),
    "C14": ("Proved: when the single failing store call fires inside Mkdir, Remove, Chmod, Chtimes or the Rename of a regular file the operation returns an error (and every record is unchanged for the first four); in every state a reported success of Mkdir/Remove/Chmod, of the Rename of a non-directory, of a non-empty Write/WriteAt and of OpenFile implies the record is (not) in the store; a rejected Set is reported; a failed Get is never mistaken for not-exist; the fault fires at most once; the model has no panic outcome. "
            "Checked every run: every history x every fault index, plain and transaction store: model = implementation; success despite a failed call only if result and store equal the failure-free ones; view = store afterwards.",
            "Not proved for OpenFile, WriteFile, Rename of directories, MkdirAll, RemoveAll and handle operations (the code ignores failures of look-ups it did not need there)."),
    "C15": ("Proved over the interleaving model of Mkdir/MkdirAll/Remove/Stat/Chmod/Rename-of-a-file: linearizability is REFUTED (two witnesses, matching the known findings); the unrelated-paths clause is proved in general -- for any number of goroutines, any programs, any store and any schedule, goroutines whose written paths lie outside the others' read regions (in particular: pairwise apart real-name paths) end every complete run, interleaved or sequential, with the same results and the same store, and a sequential order always exists; orphans need a remover (any number of goroutines over Mkdir/MkdirAll/Chmod/Stat, every schedule, every point of the run: the store is a well-formed tree); single-transaction operations are linearizable; transactions are exclusive and released. "
            "Checked every run: all interleavings at store-transaction granularity of small programs vs all sequential orders; anomalies are minimised and identified by the shape of the minimal witness; a writer held inside its store transaction before each Set while observers run; free-running goroutines (writer and readers on one file, namespace work in private and common directories) in a child process built with the race detector: no data race, torn read, panic or deadlock.",
            "Partial: the property as stated does not hold of the code (three known findings). The race stage is a stress run, not an enumeration."),
    "C16": ("Proved: paging with any positive counts partitions the listing; mixed counts (non-positive = the rest) deliver every child once and reach the end; never an empty page with nil error; EOF iff exhausted; the handle's ReadDir is that pager; listing by name is sorted and a permutation. "
            "Checked every run: 800 (directory x page sequence, counts up to math.MaxInt) cases on mem, kv, mount, Sub, cache, tar, os; model = implementation; 100 cases where one child look-up of a page fails once and the caller reads on.",
            "Layers other than the key-value handle are oracle-only."),
    "C17": ("Proved: every operation on a closed handle fails with ErrClosed and changes nothing; handles are independent; close then closed. "
            "Checked every run: histories mixing namespace changes with open handles: model = implementation, implementation = os.File; every method on a closed handle of every layer; a key-value FS over a store that retains the records it is given, the writer's handle closed and the file used through a second handle and by name.",
            "Refuted (known finding): a write/truncate/chmod through a handle whose path was removed or replaced resurrects or clobbers the name."),
    "C18": ("Proved over the transaction model: one result per call in call order; Get sees the store and earlier Sets of the transaction; a handler's error becomes the operation's error; nothing after Abort has an effect; the in-memory store's mutex is released exactly once by whatever call ends the transaction, including a Commit whose context is already cancelled; an ended transaction never touches the mutex, the store or the fatal-error flag again, whatever is still called on it and whoever holds the mutex by then; the serial fallback refuses such a Commit, holds nothing and leaves the store usable. "
            "Checked every run: 3000 transaction scripts model = implementation (mem store through the build-tagged constructor, and the serial fallback); a second transaction (read-only, read-write) started while one is live must wait and then see all its Sets -- also when an earlier transaction is ended a second time (Abort/Commit after Abort/Commit) meanwhile.",
            ""),
    "C19": ("Proved: blob.Bytes operations never panic or self-deadlock; reachable blobs are well-formed; out-of-range arguments give an error and change nothing, in-range are accepted; Len/Bytes/View/Slice/Set/Grow/Truncate are the list operations; views write through. "
            "Checked every run: 1500 operation sequences over view trees model = implementation; 1200 sequences on the typed-array blob (indexeddb/idbblob) compiled for GOOS=js GOARCH=wasm and run under node against the []byte reference (in-range: lengths and bytes; out-of-range: no panic, nothing modified).",
            "Typed-array blob: its JS side (arrays, windows, handles) is modelled in Blob/Typed.v -- proved: a view is the corresponding piece of its parent's window in every state, reachable states are well-formed, Grow/Truncate move the blob to an array of its own, in-range View is accepted and Set copies what fits -- and the JS arrays read under node after every step of the in-range histories are compared with that model.  Its Go-side copies of the bytes (what Bytes() answers from) are not modelled; one known finding there (copies of aliases go stale)."),
    "C20": ("Proved over the model of fstest's tree comparison: with the default mask mode bits are invisible and extra entries are accepted (the known findings as theorems); a kept mode bit is checked; missing entries, wrong sizes and wrong kinds are rejected; the expected tree is accepted. "
            "Checked every run: the real suite in a child process against mem, os and a catalogue of single-deviation wrappers (all 79 single-behaviour ones, a sample of the sentinel-pair matrix in the quick tier); assertion layer model = implementation.",
            "Partial: three classes of deviants are accepted by the suite (known findings)."),
}
for _pid, (_t, _n) in LEVELS.items():
    PROPS[_pid]["level_text"] = _t
    PROPS[_pid]["level_note"] = (_n + _COMMON_NOTE).strip()
