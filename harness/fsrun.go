package main

import (
	"errors"
	"fmt"
	"io"
	gofs "io/fs"
	"os"
	"sort"
	"strings"
	"syscall"
	"time"

	"github.com/hack-pad/hackpadfs"
	"github.com/hack-pad/hackpadfs/keyvalue/blob"
)

// ---------------------------------------------------------------- errors

// CErr is the canonical form of an error: outer type, path fields, class.
type CErr struct {
	Kind string // P, L, B
	Path string
	Old  string
	New  string
	Cls  string
}

func classOf(err error) string {
	switch {
	case err == io.EOF:
		return "EEOF"
	case errors.Is(err, syscall.ENOTEMPTY):
		return "ENOTEMPTY"
	case errors.Is(err, hackpadfs.ErrNotExist):
		return "ENOENT"
	case errors.Is(err, hackpadfs.ErrExist):
		return "EEXIST"
	case errors.Is(err, syscall.EISDIR):
		return "EISDIR"
	case errors.Is(err, syscall.ENOTDIR):
		return "ENOTDIR"
	case errors.Is(err, syscall.EINVAL), errors.Is(err, gofs.ErrInvalid):
		return "EINVAL"
	case errors.Is(err, hackpadfs.ErrClosed):
		return "ECLOSED"
	case errors.Is(err, syscall.ENOSYS):
		return "ENOSYS"
	case errors.Is(err, hackpadfs.ErrPermission):
		return "EPERM"
	case errors.Is(err, io.EOF):
		return "EEOF"
	}
	return "EOTHER"
}

func canonErr(err error) *CErr {
	if err == nil {
		return nil
	}
	c := &CErr{Cls: classOf(err)}
	switch e := err.(type) {
	case *gofs.PathError:
		c.Kind, c.Path = "P", e.Path
	case *hackpadfs.LinkError:
		c.Kind, c.Old, c.New = "L", e.Old, e.New
	case *os.LinkError:
		c.Kind, c.Old, c.New = "L", e.Old, e.New
	default:
		c.Kind = "B"
	}
	return c
}

func (c *CErr) coq() string {
	switch c.Kind {
	case "P":
		return fmt.Sprintf("(PathErr %s %s)", cStr(c.Path), c.Cls)
	case "L":
		return fmt.Sprintf("(LinkErr %s %s %s)", cStr(c.Old), cStr(c.New), c.Cls)
	}
	return fmt.Sprintf("(Bare %s)", c.Cls)
}

func (c *CErr) String() string {
	if c == nil {
		return "nil"
	}
	switch c.Kind {
	case "P":
		return fmt.Sprintf("PathError{%q,%s}", c.Path, c.Cls)
	case "L":
		return fmt.Sprintf("LinkError{%q,%q,%s}", c.Old, c.New, c.Cls)
	}
	return "bare{" + c.Cls + "}"
}

func cErrOpt(c *CErr) string {
	if c == nil {
		return "None"
	}
	return "(Some " + c.coq() + ")"
}

// ---------------------------------------------------------------- operations

// harness flag encoding (Appendix B of DESIGN.md)
const (
	fWRONLY = 1
	fRDWR   = 2
	fCREATE = 4
	fEXCL   = 8
	fTRUNC  = 16
	fAPPEND = 32
)

func sysFlag(f int) int {
	out := 0
	if f&fWRONLY != 0 {
		out |= hackpadfs.FlagWriteOnly
	}
	if f&fRDWR != 0 {
		out |= hackpadfs.FlagReadWrite
	}
	if f&fCREATE != 0 {
		out |= hackpadfs.FlagCreate
	}
	if f&fEXCL != 0 {
		out |= hackpadfs.FlagExclusive
	}
	if f&fTRUNC != 0 {
		out |= hackpadfs.FlagTruncate
	}
	if f&fAPPEND != 0 {
		out |= hackpadfs.FlagAppend
	}
	return out
}

func flagText(f int) string {
	var p []string
	switch {
	case f&fWRONLY != 0:
		p = append(p, "WRONLY")
	case f&fRDWR != 0:
		p = append(p, "RDWR")
	default:
		p = append(p, "RDONLY")
	}
	if f&fWRONLY != 0 && f&fRDWR != 0 {
		p = append(p, "RDWR")
	}
	for _, x := range []struct {
		b int
		s string
	}{{fCREATE, "CREATE"}, {fEXCL, "EXCL"}, {fTRUNC, "TRUNC"}, {fAPPEND, "APPEND"}} {
		if f&x.b != 0 {
			p = append(p, x.s)
		}
	}
	return strings.Join(p, "|")
}

// Op is one operation of the namespace / handle alphabet.
type Op struct {
	Kind string // mkdir mkdirall open writefile remove removeall rename chmod chtimes stat readdir readfile | h:<hop>
	P, Q string
	Flag int
	Perm uint32
	Data []byte
	T    int64
	H    int
	N    int
	Off  int64
	Wh   int
}

const explicitBase = 1000000000

func (o Op) coq() string {
	switch o.Kind {
	case "mkdir":
		return fmt.Sprintf("Mkdir %s %s", cStr(o.P), cN(uint64(o.Perm)))
	case "mkdirall":
		return fmt.Sprintf("MkdirAll %s %s", cStr(o.P), cN(uint64(o.Perm)))
	case "open":
		return fmt.Sprintf("Open %s %s %s", cStr(o.P), cN(uint64(o.Flag)), cN(uint64(o.Perm)))
	case "openclose":
		return fmt.Sprintf("OpenClose %s %s %s", cStr(o.P), cN(uint64(o.Flag)), cN(uint64(o.Perm)))
	case "writefile":
		return fmt.Sprintf("WriteFile %s %s %s", cStr(o.P), cBytes(o.Data), cN(uint64(o.Perm)))
	case "remove":
		return "Remove " + cStr(o.P)
	case "removeall":
		return "RemoveAll " + cStr(o.P)
	case "rename":
		return fmt.Sprintf("Rename %s %s", cStr(o.P), cStr(o.Q))
	case "chmod":
		return fmt.Sprintf("Chmod %s %s", cStr(o.P), cN(uint64(o.Perm)))
	case "chtimes":
		return fmt.Sprintf("Chtimes %s %s", cStr(o.P), cZ(o.T))
	case "stat":
		return "Stat " + cStr(o.P)
	case "readdir":
		return "ReadDir " + cStr(o.P)
	case "readfile":
		return "ReadFile " + cStr(o.P)
	case "h:read":
		return fmt.Sprintf("H %s (HRead %s)", cNat(o.H), cNat(o.N))
	case "h:readat":
		return fmt.Sprintf("H %s (HReadAt %s %s)", cNat(o.H), cNat(o.N), cZ(o.Off))
	case "h:write":
		return fmt.Sprintf("H %s (HWrite %s)", cNat(o.H), cBytes(o.Data))
	case "h:writeat":
		return fmt.Sprintf("H %s (HWriteAt %s %s)", cNat(o.H), cBytes(o.Data), cZ(o.Off))
	case "h:seek":
		return fmt.Sprintf("H %s (HSeek %s %s)", cNat(o.H), cZ(o.Off), cZ(int64(o.Wh)))
	case "h:trunc":
		return fmt.Sprintf("H %s (HTrunc %s)", cNat(o.H), cZ(o.Off))
	case "h:stat":
		return fmt.Sprintf("H %s HStat", cNat(o.H))
	case "h:readdir":
		return fmt.Sprintf("H %s (HReadDir %s)", cNat(o.H), cZ(int64(o.N)))
	case "h:chmod":
		return fmt.Sprintf("H %s (HChmod %s)", cNat(o.H), cN(uint64(o.Perm)))
	case "h:sync":
		return fmt.Sprintf("H %s HSync", cNat(o.H))
	case "h:close":
		return fmt.Sprintf("H %s HClose", cNat(o.H))
	}
	panic("op kind " + o.Kind)
}

func (o Op) String() string {
	switch o.Kind {
	case "mkdir", "mkdirall", "chmod":
		return fmt.Sprintf("%s %q %04o", o.Kind, o.P, o.Perm)
	case "open", "openclose":
		return fmt.Sprintf("%s %q %s %04o", o.Kind, o.P, flagText(o.Flag), o.Perm)
	case "writefile":
		return fmt.Sprintf("writefile %q %v %04o", o.P, o.Data, o.Perm)
	case "rename":
		return fmt.Sprintf("rename %q %q", o.P, o.Q)
	case "chtimes":
		return fmt.Sprintf("chtimes %q t%d", o.P, o.T)
	case "remove", "removeall", "stat", "readdir", "readfile":
		return fmt.Sprintf("%s %q", o.Kind, o.P)
	case "h:read", "h:readdir":
		return fmt.Sprintf("%s h%d n=%d", o.Kind, o.H, o.N)
	case "h:readat":
		return fmt.Sprintf("%s h%d n=%d off=%d", o.Kind, o.H, o.N, o.Off)
	case "h:write":
		return fmt.Sprintf("%s h%d %v", o.Kind, o.H, o.Data)
	case "h:writeat":
		return fmt.Sprintf("%s h%d %v off=%d", o.Kind, o.H, o.Data, o.Off)
	case "h:seek":
		return fmt.Sprintf("%s h%d off=%d whence=%d", o.Kind, o.H, o.Off, o.Wh)
	case "h:trunc":
		return fmt.Sprintf("%s h%d size=%d", o.Kind, o.H, o.Off)
	case "h:chmod":
		return fmt.Sprintf("%s h%d %04o", o.Kind, o.H, o.Perm)
	}
	return fmt.Sprintf("%s h%d", o.Kind, o.H)
}

// Entry is one directory entry as observed.
type Entry struct {
	Name string
	Mode uint32
}

// Obs is what one operation returned.
type Obs struct {
	Kind    string // ok err handle info entries bytes | hbytes hn herr hinfo hentries | panic hang
	Err     *CErr
	Handle  int
	Name    string
	Mode    uint32
	Size    int64
	MT      int64 // >=0 explicit, -1 clock
	Entries []Entry
	Bytes   []byte
	N       int64
}

func mtCoq(mt int64) string {
	if mt < 0 {
		return "Clock"
	}
	return "(Explicit " + cZ(mt) + ")"
}

func entriesCoq(es []Entry) string {
	items := make([]string, len(es))
	for i, e := range es {
		items[i] = cPair(cStr(e.Name), cN(uint64(e.Mode)))
	}
	return cList(items)
}

func (o Obs) coq() string {
	switch o.Kind {
	case "ok":
		return "VOk"
	case "err":
		return "VErr " + o.Err.coq()
	case "handle":
		return "VHandle " + cNat(o.Handle)
	case "info":
		return fmt.Sprintf("VInfo %s %s %s %s", cStr(o.Name), cN(uint64(o.Mode)), cZ(o.Size), mtCoq(o.MT))
	case "entries":
		return "VEntries " + entriesCoq(o.Entries)
	case "bytes":
		return "VBytes " + cBytes(o.Bytes)
	case "hbytes":
		return fmt.Sprintf("VH (HRBytes %s %s)", cBytes(o.Bytes), cErrOpt(o.Err))
	case "hn":
		return fmt.Sprintf("VH (HRN %s %s)", cZ(o.N), cErrOpt(o.Err))
	case "herr":
		return fmt.Sprintf("VH (HRErr %s)", cErrOpt(o.Err))
	case "hinfo":
		return fmt.Sprintf("VH (HRInfo %s %s %s)", cStr(o.Name), cN(uint64(o.Mode)), cZ(o.Size))
	case "hentries":
		return fmt.Sprintf("VH (HREntries %s %s)", entriesCoq(o.Entries), cErrOpt(o.Err))
	case "hbad":
		return "VH HRBad"
	}
	return "VPanic"
}

func (o Obs) String() string {
	switch o.Kind {
	case "ok":
		return "ok"
	case "err":
		return "err " + o.Err.String()
	case "handle":
		return fmt.Sprintf("handle h%d", o.Handle)
	case "info":
		return fmt.Sprintf("info %q %v size=%d mt=%d", o.Name, gofs.FileMode(o.Mode), o.Size, o.MT)
	case "entries":
		return fmt.Sprintf("entries %v", o.Entries)
	case "bytes":
		return fmt.Sprintf("bytes %v", o.Bytes)
	case "hbytes":
		return fmt.Sprintf("read %v err=%s", o.Bytes, o.Err)
	case "hn":
		return fmt.Sprintf("n=%d err=%s", o.N, o.Err)
	case "herr":
		return "err=" + o.Err.String()
	case "hinfo":
		return fmt.Sprintf("info %q %v size=%d", o.Name, gofs.FileMode(o.Mode), o.Size)
	case "hentries":
		return fmt.Sprintf("entries %v err=%s", o.Entries, o.Err)
	}
	return o.Kind
}

// failed tells whether the operation reported failure.
func (o Obs) failed() bool {
	switch o.Kind {
	case "err", "panic", "hang":
		return true
	case "hbytes":
		return o.Err != nil && o.Err.Cls != "EEOF"
	case "hn", "herr", "hentries":
		return o.Err != nil && o.Err.Cls != "EEOF"
	}
	return false
}

func explicitMT(t time.Time) int64 {
	u := t.Unix()
	if t.Nanosecond() == 0 && u >= explicitBase && u < explicitBase+1000000 {
		return u - explicitBase
	}
	return -1
}

// World is an FS under test together with its open handles.
type World struct {
	FS      hackpadfs.FS
	Handles []hackpadfs.File
}

// Apply executes one operation through the package helpers, under recover.
func (w *World) Apply(o Op) (obs Obs) {
	defer func() {
		if e := recover(); e != nil {
			obs = Obs{Kind: "panic", Err: &CErr{Kind: "B", Cls: "EOTHER", Path: fmt.Sprint(e)}}
		}
	}()
	res := func(err error) Obs {
		if err != nil {
			return Obs{Kind: "err", Err: canonErr(err)}
		}
		return Obs{Kind: "ok"}
	}
	fs := w.FS
	switch o.Kind {
	case "mkdir":
		return res(hackpadfs.Mkdir(fs, o.P, gofs.FileMode(o.Perm)))
	case "mkdirall":
		return res(hackpadfs.MkdirAll(fs, o.P, gofs.FileMode(o.Perm)))
	case "open":
		f, err := hackpadfs.OpenFile(fs, o.P, sysFlag(o.Flag), gofs.FileMode(o.Perm))
		if err != nil {
			if f != nil {
				_ = f.Close()
			}
			return res(err)
		}
		w.Handles = append(w.Handles, f)
		return Obs{Kind: "handle", Handle: len(w.Handles) - 1}
	case "openclose":
		f, err := hackpadfs.OpenFile(fs, o.P, sysFlag(o.Flag), gofs.FileMode(o.Perm))
		if f != nil {
			_ = f.Close()
		}
		return res(err)
	case "writefile":
		return res(hackpadfs.WriteFullFile(fs, o.P, o.Data, gofs.FileMode(o.Perm)))
	case "remove":
		return res(hackpadfs.Remove(fs, o.P))
	case "removeall":
		return res(hackpadfs.RemoveAll(fs, o.P))
	case "rename":
		return res(hackpadfs.Rename(fs, o.P, o.Q))
	case "chmod":
		return res(hackpadfs.Chmod(fs, o.P, gofs.FileMode(o.Perm)))
	case "chtimes":
		t := time.Unix(explicitBase+o.T, 0)
		return res(hackpadfs.Chtimes(fs, o.P, t, t))
	case "stat":
		info, err := hackpadfs.Stat(fs, o.P)
		if err != nil {
			return res(err)
		}
		return Obs{Kind: "info", Name: info.Name(), Mode: uint32(info.Mode()), Size: info.Size(), MT: explicitMT(info.ModTime())}
	case "readdir":
		es, err := hackpadfs.ReadDir(fs, o.P)
		if err != nil {
			return res(err)
		}
		return Obs{Kind: "entries", Entries: entriesOf(es)}
	case "readfile":
		b, err := hackpadfs.ReadFile(fs, o.P)
		if err != nil {
			return res(err)
		}
		return Obs{Kind: "bytes", Bytes: b}
	}
	// handle operations
	if o.H < 0 || o.H >= len(w.Handles) {
		return Obs{Kind: "hbad"}
	}
	f := w.Handles[o.H]
	switch o.Kind {
	// One call in three goes through the blob-level method of the handle when it has one (ReadBlob, ReadBlobAt, WriteBlob,
	// WriteBlobAt of the key-value handles): the same transfer, the same offset movement, the same errors.
	case "h:read":
		if br, ok := f.(blob.Reader); ok && (o.N+o.H)%3 == 1 {
			b, n, err := br.ReadBlob(o.N)
			return Obs{Kind: "hbytes", Bytes: blobPrefix(b, n), Err: canonErr(err)}
		}
		buf := make([]byte, o.N)
		n, err := f.Read(buf)
		return Obs{Kind: "hbytes", Bytes: buf[:max0(n)], Err: canonErr(err)}
	case "h:readat":
		if br, ok := f.(blob.ReaderAt); ok && (o.N+o.H+int(o.Off&1))%3 == 1 {
			b, n, err := br.ReadBlobAt(o.N, o.Off)
			return Obs{Kind: "hbytes", Bytes: blobPrefix(b, n), Err: canonErr(err)}
		}
		buf := make([]byte, o.N)
		n, err := hackpadfs.ReadAtFile(f, buf, o.Off)
		return Obs{Kind: "hbytes", Bytes: buf[:max0(n)], Err: canonErr(err)}
	case "h:write":
		if bw, ok := f.(blob.Writer); ok && (len(o.Data)+o.H)%3 == 1 {
			n, err := bw.WriteBlob(blob.NewBytes(append([]byte(nil), o.Data...)))
			return Obs{Kind: "hn", N: int64(n), Err: canonErr(err)}
		}
		n, err := hackpadfs.WriteFile(f, o.Data)
		return Obs{Kind: "hn", N: int64(n), Err: canonErr(err)}
	case "h:writeat":
		if bw, ok := f.(blob.WriterAt); ok && (len(o.Data)+o.H+int(o.Off&1))%3 == 1 {
			n, err := bw.WriteBlobAt(blob.NewBytes(append([]byte(nil), o.Data...)), o.Off)
			return Obs{Kind: "hn", N: int64(n), Err: canonErr(err)}
		}
		n, err := hackpadfs.WriteAtFile(f, o.Data, o.Off)
		return Obs{Kind: "hn", N: int64(n), Err: canonErr(err)}
	case "h:seek":
		n, err := hackpadfs.SeekFile(f, o.Off, o.Wh)
		if err != nil {
			n = 0
		}
		return Obs{Kind: "hn", N: n, Err: canonErr(err)}
	case "h:trunc":
		return Obs{Kind: "herr", Err: canonErr(hackpadfs.TruncateFile(f, o.Off))}
	case "h:stat":
		info, err := f.Stat()
		if err != nil {
			return Obs{Kind: "herr", Err: canonErr(err)}
		}
		return Obs{Kind: "hinfo", Name: info.Name(), Mode: uint32(info.Mode()), Size: info.Size()}
	case "h:readdir":
		es, err := hackpadfs.ReadDirFile(f, o.N)
		return Obs{Kind: "hentries", Entries: entriesOf(es), Err: canonErr(err)}
	case "h:chmod":
		return Obs{Kind: "herr", Err: canonErr(hackpadfs.ChmodFile(f, gofs.FileMode(o.Perm)))}
	case "h:sync":
		return Obs{Kind: "herr", Err: canonErr(hackpadfs.SyncFile(f))}
	case "h:close":
		return Obs{Kind: "herr", Err: canonErr(f.Close())}
	}
	panic("unknown op " + o.Kind)
}

// blobPrefix: the first n bytes of what a blob-level read returned (a copy: the blob may be a view of the file)
func blobPrefix(b blob.Blob, n int) []byte {
	if b == nil || n <= 0 {
		return []byte{}
	}
	d := b.Bytes()
	if n > len(d) {
		n = len(d)
	}
	return append([]byte(nil), d[:n]...)
}

func max0(n int) int {
	if n < 0 {
		return 0
	}
	return n
}

func entriesOf(es []hackpadfs.DirEntry) []Entry {
	out := make([]Entry, 0, len(es))
	for _, e := range es {
		var mode uint32
		if info, err := e.Info(); err == nil && info != nil {
			mode = uint32(info.Mode())
		} else {
			mode = uint32(e.Type())
		}
		out = append(out, Entry{Name: e.Name(), Mode: mode})
	}
	return out
}

// CloseAll closes every handle (ignoring errors).
func (w *World) CloseAll() {
	for _, f := range w.Handles {
		func() {
			defer func() { _ = recover() }()
			_ = f.Close()
		}()
	}
}

// ---------------------------------------------------------------- snapshots

// SnapEntry describes one existing path.
type SnapEntry struct {
	Path  string
	Mode  uint32
	MT    int64
	Bytes []byte
}

// candidatePaths is the closure of paths over an alphabet up to a depth, plus ".".
func candidatePaths(names []string, depth int) []string {
	out := []string{"."}
	level := []string{""}
	for d := 0; d < depth; d++ {
		var next []string
		for _, p := range level {
			for _, n := range names {
				q := n
				if p != "" {
					q = p + "/" + n
				}
				next = append(next, q)
			}
		}
		out = append(out, next...)
		level = next
	}
	sort.Strings(out)
	return out
}

// Snapshot stats every candidate path (not only what listings reveal).
func Snapshot(fs hackpadfs.FS, candidates []string) (snap []SnapEntry) {
	defer func() {
		if e := recover(); e != nil {
			snap = append(snap, SnapEntry{Path: "<panic:" + fmt.Sprint(e) + ">"})
		}
	}()
	// candidates (finds entries no listing reveals) plus everything the listings reveal, at any depth
	seen := map[string]bool{}
	for _, p := range candidates {
		seen[p] = true
	}
	all := append([]string(nil), candidates...)
	var walk func(dir string, depth int)
	walk = func(dir string, depth int) {
		if depth > 12 {
			return
		}
		es, err := hackpadfs.ReadDir(fs, dir)
		if err != nil {
			return
		}
		for _, e := range es {
			q := e.Name()
			if dir != "." {
				q = dir + "/" + e.Name()
			}
			if !seen[q] {
				seen[q] = true
				all = append(all, q)
			}
			if e.IsDir() {
				walk(q, depth+1)
			}
		}
	}
	walk(".", 0)
	sort.Strings(all)
	for _, p := range all {
		info, err := hackpadfs.Stat(fs, p)
		if err != nil {
			continue
		}
		e := SnapEntry{Path: p, Mode: uint32(info.Mode()), MT: explicitMT(info.ModTime())}
		if info.Mode().IsRegular() {
			b, err := hackpadfs.ReadFile(fs, p)
			if err == nil {
				e.Bytes = b
			}
		}
		snap = append(snap, e)
	}
	return snap
}

func snapCoqFS(s []SnapEntry) string {
	items := make([]string, len(s))
	for i, e := range s {
		items[i] = fmt.Sprintf("(%s, %s, %s, %s)", cStr(e.Path), cN(uint64(e.Mode)), mtCoq(e.MT), cBytes(e.Bytes))
	}
	return cList(items)
}

func snapText(s []SnapEntry) string {
	var sb strings.Builder
	for i, e := range s {
		if i > 0 {
			sb.WriteString(" ")
		}
		if gofs.FileMode(e.Mode).IsDir() {
			fmt.Fprintf(&sb, "%s/(%04o)", e.Path, e.Mode&0o7777)
		} else {
			fmt.Fprintf(&sb, "%s(%04o,%v)", e.Path, e.Mode&0o7777, e.Bytes)
		}
	}
	return sb.String()
}
