package main

import (
	"archive/tar"
	"bytes"
	"context"
	"fmt"
	"io"
	gofs "io/fs"
	"os"
	"strings"
	"time"

	"github.com/hack-pad/hackpadfs"
	"github.com/hack-pad/hackpadfs/cache"
	"github.com/hack-pad/hackpadfs/mem"
	"github.com/hack-pad/hackpadfs/mount"
	hptar "github.com/hack-pad/hackpadfs/tar"
)

func init() { commands["C04"] = runC04 }

// fixed shapes around the ValidPath boundary
var nameShapes = []string{
	"", "/", "/a", "a/", "a//b", "./a", "a/.", "..", "../a", "a/../b", "a/./b", "//", "/.", "a/..", "d/", "d//f", "d/./f", "/d/f",
	// an invalid tail after a valid prefix that does not exist yet, at two depths
	"x/a/", "x/a//b", "x/a/../b", "x/a/.", "x/a/\xff", "d/x/", "a/b/",
	"\xff", "a/\xc3", "\xc0\xaf", "\xed\xa0\x80", "\xf4\x90\x80\x80", "d/\x80", "\xe2\x82", "d/f\xfe",
	// valid ones, including bytes that are separators elsewhere
	// valid although they look like decoding failures: U+FFFD itself, other non-characters, a BOM, a combining mark
	"caf\uFFFD", "d/\uFFFD", "\uFFFE", "\uFEFFx", "e\u0301", "\U0010FFFF",
	".", "x", "d/x", "a\\b", "c:", "c:\\x", "d/a\\b", "é", "d/日本", "a b", "...", "d/..x", "x..", "-", "~", "a\x00b",
}

func fuzzName(r *Rng) string {
	alpha := []string{"a", "d", "f", ".", "/", "/", "\\", ":", "\xc3", "\xa9", "\xff", "é", "\uFFFD"}
	n := r.Range(0, 6)
	var sb strings.Builder
	for i := 0; i < n; i++ {
		sb.WriteString(alpha[r.Intn(len(alpha))])
	}
	return sb.String()
}

type layer struct {
	name  string
	ops   []string // operations the layer itself provides (directly or through the helpers' fallbacks)
	build func() (fs hackpadfs.FS, parts []hackpadfs.FS, done func())
}

var allNSOps = []string{"mkdir", "mkdirall", "openclose", "open-ro", "writefile", "remove", "removeall", "rename-old", "rename-new", "rename-new-missing-old", "chmod", "chtimes", "stat", "readdir", "readfile", "sub",
	// the same entry points with argument values for which an implementation may take a shortcut before it validates the name
	"chtimes-zero", "chmod-0", "mkdir-0", "mkdirall-0", "writefile-empty", "rename-same", "open-trunc", "open-excl", "open-append"}

// the generic Sub view provides no Rename of its own (hackpadfs.Rename on it is ErrNotImplemented)
var subOps = []string{"mkdir", "mkdirall", "openclose", "open-ro", "writefile", "remove", "removeall", "chmod", "chtimes", "stat", "readdir", "readfile", "sub",
	"chtimes-zero", "chmod-0", "mkdir-0", "mkdirall-0", "writefile-empty", "open-trunc", "open-excl", "open-append"}
var readOps = []string{"open-ro", "stat", "readdir", "readfile"}

// primOnly exposes Open, OpenFile, Mkdir, Remove and Stat of the base and nothing else
type primOnly struct{ base hackpadfs.FS }

func (p primOnly) Open(name string) (hackpadfs.File, error) { return p.base.Open(name) }
func (p primOnly) OpenFile(name string, flag int, perm hackpadfs.FileMode) (hackpadfs.File, error) {
	return hackpadfs.OpenFile(p.base, name, flag, perm)
}
func (p primOnly) Mkdir(name string, perm hackpadfs.FileMode) error {
	return hackpadfs.Mkdir(p.base, name, perm)
}
func (p primOnly) Remove(name string) error                     { return hackpadfs.Remove(p.base, name) }
func (p primOnly) Stat(name string) (hackpadfs.FileInfo, error) { return hackpadfs.Stat(p.base, name) }

var primOps = []string{"mkdir", "mkdirall", "openclose", "open-ro", "writefile", "remove", "removeall", "stat", "readdir", "readfile", "sub"}

func prepTree(fs hackpadfs.FS) {
	must := func(err error) {
		if err != nil {
			panic(err)
		}
	}
	must(hackpadfs.Mkdir(fs, "d", 0o755))
	must(hackpadfs.WriteFullFile(fs, "f", []byte{1, 2, 3}, 0o644))
	must(hackpadfs.WriteFullFile(fs, "d/f", []byte{4, 5}, 0o600))
}

func tarOf(files map[string][]byte, dirs []string) []byte {
	var buf bytes.Buffer
	w := tar.NewWriter(&buf)
	for _, d := range dirs {
		_ = w.WriteHeader(&tar.Header{Name: d + "/", Typeflag: tar.TypeDir, Mode: 0o755})
	}
	for n, b := range files {
		_ = w.WriteHeader(&tar.Header{Name: n, Typeflag: tar.TypeReg, Mode: 0o644, Size: int64(len(b))})
		_, _ = w.Write(b)
	}
	_ = w.Close()
	return buf.Bytes()
}

func c04Layers() []layer {
	return []layer{
		{"mem", allNSOps, func() (hackpadfs.FS, []hackpadfs.FS, func()) {
			fs := newMem()
			prepTree(fs)
			return fs, []hackpadfs.FS{fs}, func() {}
		}},
		{"sub(mem)", subOps, func() (hackpadfs.FS, []hackpadfs.FS, func()) {
			base := newMem()
			_ = hackpadfs.Mkdir(base, "base", 0o755)
			sub, err := hackpadfs.Sub(base, "base")
			if err != nil {
				panic(err)
			}
			prepTree(sub)
			return sub, []hackpadfs.FS{base}, func() {}
		}},
		{"mount(mem;d=mem)", allNSOps, func() (hackpadfs.FS, []hackpadfs.FS, func()) {
			root, inner := newMem(), newMem()
			_ = hackpadfs.Mkdir(root, "d", 0o755)
			_ = hackpadfs.WriteFullFile(root, "f", []byte{1, 2, 3}, 0o644)
			_ = hackpadfs.WriteFullFile(inner, "f", []byte{4, 5}, 0o600)
			m, _ := mount.NewFS(root)
			if err := m.AddMount("d", inner); err != nil {
				panic(err)
			}
			return m, []hackpadfs.FS{root, inner}, func() {}
		}},
		{"os", append(append([]string(nil), allNSOps...), osOnlyOps...), func() (hackpadfs.FS, []hackpadfs.FS, func()) {
			fs, done := newOSWorld()
			prepTree(fs)
			return fs, []hackpadfs.FS{fs}, done
		}},
		{"fallbacks(mem)", primOps, func() (hackpadfs.FS, []hackpadfs.FS, func()) {
			// only the primitives are exposed: MkdirAll, RemoveAll, WriteFullFile, ReadDir, ReadFile are the package helpers' fallbacks
			fs := newMem()
			prepTree(fs)
			return primOnly{fs}, []hackpadfs.FS{fs}, func() {}
		}},
		{"sub(os)", append(append([]string(nil), allNSOps...), osOnlyOps...), func() (hackpadfs.FS, []hackpadfs.FS, func()) {
			base, done := newOSWorld()
			_ = hackpadfs.Mkdir(base, "base", 0o755)
			sub, err := hackpadfs.Sub(base, "base")
			if err != nil {
				panic(err)
			}
			prepTree(sub)
			return sub, []hackpadfs.FS{base}, done
		}},
		{"cache(mem,mem)", readOps, func() (hackpadfs.FS, []hackpadfs.FS, func()) {
			src, store := newMem(), newMem()
			prepTree(src)
			c, err := cache.NewReadOnlyFS(src, store.(*mem.FS), cache.ReadOnlyOptions{})
			if err != nil {
				panic(err)
			}
			return c, []hackpadfs.FS{src, store}, func() {}
		}},
		{"cache(mem,mem) warm", readOps, func() (hackpadfs.FS, []hackpadfs.FS, func()) {
			// the same with everything already looked up and read through the cache: an invalid spelling of a
			// cached name must not be answered from the cache
			src, store := newMem(), newMem()
			prepTree(src)
			c, err := cache.NewReadOnlyFS(src, store.(*mem.FS), cache.ReadOnlyOptions{})
			if err != nil {
				panic(err)
			}
			for _, p := range []string{".", "d", "f", "d/f"} {
				_, _ = hackpadfs.Stat(c, p)
				if f, err := c.Open(p); err == nil {
					_, _ = io.ReadAll(f)
					_ = f.Close()
				}
				_, _ = hackpadfs.ReadDir(c, p)
			}
			return c, []hackpadfs.FS{src}, func() {}
		}},
		{"tar", readOps, func() (hackpadfs.FS, []hackpadfs.FS, func()) {
			dest := newMem()
			t, err := hptar.NewReaderFS(context.Background(), bytes.NewReader(tarOf(map[string][]byte{"f": {1, 2, 3}, "d/f": {4, 5}}, []string{"d"})),
				hptar.ReaderFSOptions{UnarchiveFS: dest.(*mem.FS)})
			if err != nil {
				panic(err)
			}
			<-t.Done()
			return t, []hackpadfs.FS{dest}, func() {}
		}},
		{"tar failed", readOps, func() (hackpadfs.FS, []hackpadfs.FS, func()) {
			// an archive whose second header is garbage: unpacking has failed, every valid name reports that
			// failure -- and an invalid name is still refused as invalid
			dest := newMem()
			good := tarOf(map[string][]byte{"f": {1, 2, 3}}, nil)
			bad := append(append([]byte(nil), good[:1024]...), bytes.Repeat([]byte{0x5a}, 1024)...)
			t, err := hptar.NewReaderFS(context.Background(), bytes.NewReader(bad), hptar.ReaderFSOptions{UnarchiveFS: dest.(*mem.FS)})
			if err != nil {
				panic(err)
			}
			<-t.Done()
			if t.UnarchiveErr() == nil {
				panic("tar failed layer: the archive unpacked without error")
			}
			// (a failed reader does not wait for the small-file writers it started: let the first entry land)
			for i := 0; i < 2000; i++ {
				if b, err := hackpadfs.ReadFile(dest, "f"); err == nil && bytes.Equal(b, []byte{1, 2, 3}) { // (created at full size, then filled)
					break
				}
				time.Sleep(time.Millisecond)
			}
			return t, []hackpadfs.FS{dest}, func() {}
		}},
		{"tar cancelled", readOps, func() (hackpadfs.FS, []hackpadfs.FS, func()) {
			dest := newMem()
			ctx, cancel := context.WithCancel(context.Background())
			cancel()
			t, err := hptar.NewReaderFS(ctx, bytes.NewReader(tarOf(map[string][]byte{"f": {1, 2, 3}, "d/f": {4, 5}}, []string{"d"})),
				hptar.ReaderFSOptions{UnarchiveFS: dest.(*mem.FS)})
			if err != nil {
				panic(err)
			}
			<-t.Done()
			return t, []hackpadfs.FS{dest}, func() {}
		}},
	}
}

// entry points only the os-backed FS has
var osOnlyOps = []string{"symlink-old", "symlink-new", "lstat", "chown"}

var c04Direct = map[string]func(fs hackpadfs.FS, name string) error{
	"symlink-old": func(fs hackpadfs.FS, name string) error { return hackpadfs.Symlink(fs, name, "zz") },
	"symlink-new": func(fs hackpadfs.FS, name string) error { return hackpadfs.Symlink(fs, "f", name) },
	"lstat":       func(fs hackpadfs.FS, name string) error { _, err := hackpadfs.Lstat(fs, name); return err },
	"chown":       func(fs hackpadfs.FS, name string) error { return hackpadfs.Chown(fs, name, os.Getuid(), os.Getgid()) },
}

func c04Op(kind, name string) Op {
	switch kind {
	case "mkdir", "mkdirall":
		return Op{Kind: kind, P: name, Perm: 0o755}
	case "openclose":
		return Op{Kind: "openclose", P: name, Flag: fRDWR | fCREATE, Perm: 0o644}
	case "open-ro":
		return Op{Kind: "openclose", P: name, Flag: 0, Perm: 0}
	case "writefile":
		return Op{Kind: kind, P: name, Data: []byte{9}, Perm: 0o644}
	case "rename-old":
		return Op{Kind: "rename", P: name, Q: "zz"}
	case "rename-new":
		return Op{Kind: "rename", P: "f", Q: name}
	case "rename-new-missing-old":
		return Op{Kind: "rename", P: "nope", Q: name}
	case "chmod":
		return Op{Kind: kind, P: name, Perm: 0o600}
	case "chtimes":
		return Op{Kind: kind, P: name, T: 77}
	case "chmod-0":
		return Op{Kind: "chmod", P: name, Perm: 0}
	case "mkdir-0":
		return Op{Kind: "mkdir", P: name, Perm: 0}
	case "mkdirall-0":
		return Op{Kind: "mkdirall", P: name, Perm: 0}
	case "writefile-empty":
		return Op{Kind: "writefile", P: name, Data: nil, Perm: 0o644}
	case "rename-same":
		return Op{Kind: "rename", P: name, Q: name}
	case "open-trunc":
		return Op{Kind: "openclose", P: name, Flag: fTRUNC, Perm: 0}
	case "open-excl":
		return Op{Kind: "openclose", P: name, Flag: fWRONLY | fCREATE | fEXCL, Perm: 0o600}
	case "open-append":
		return Op{Kind: "openclose", P: name, Flag: fWRONLY | fAPPEND, Perm: 0}
	}
	return Op{Kind: kind, P: name}
}

func runC04(r *Rng, n int, replay string) {
	cands := append(candidatePaths([]string{"d", "f", "x", "zz", "base", "a"}, 2), "a\\b", "c:", "é", "a b", "x/a/b", "a/b", "a/b/c")
	names := append([]string(nil), nameShapes...)
	for len(names) < len(nameShapes)+n {
		names = append(names, fuzzName(r))
	}
	layers := c04Layers()
	id := 0
	for _, name := range names {
		valid := gofs.ValidPath(name)
		for li, l := range layers {
			for _, kind := range l.ops {
				// keep volume in check: fuzzed names visit each (layer, op) with probability 1/3
				if len(name) > 0 && id > len(nameShapes)*80 && r.Intn(3) != 0 {
					continue
				}
				c := &Case{ID: id, Kind: l.name + "/" + kind}
				id++
				fs, parts, done := l.build()
				before := make([][]SnapEntry, len(parts))
				for i, p := range parts {
					before[i] = Snapshot(p, cands)
				}
				var a Obs
				if kind == "sub" {
					_, err := hackpadfs.Sub(fs, name)
					a = Obs{Kind: "ok"}
					if err != nil {
						a = Obs{Kind: "err", Err: canonErr(err)}
					}
				} else if fn, ok := c04Direct[kind]; ok {
					err := fn(fs, name)
					a = Obs{Kind: "ok"}
					if err != nil {
						a = Obs{Kind: "err", Err: canonErr(err)}
					}
				} else if kind == "chtimes-zero" {
					// the zero time.Time: "leave unchanged" to some implementations
					err := hackpadfs.Chtimes(fs, name, time.Time{}, time.Time{})
					a = Obs{Kind: "ok"}
					if err != nil {
						a = Obs{Kind: "err", Err: canonErr(err)}
					}
				} else {
					w := &World{FS: fs}
					a = w.Apply(c04Op(kind, name))
					w.CloseAll()
				}
				c.Text = []string{fmt.Sprintf("[%s] %s %q (valid=%v) -> %s", l.name, kind, name, valid, a)}
				if !valid {
					c.Cells = []string{l.name + "/" + kind + "/invalid"}
					switch {
					case a.Kind == "panic":
						c.fail(c.Text[0]+": panicked", kind+":"+l.name+":panic")
					case !a.failed():
						c.fail(c.Text[0]+": an invalid name was accepted", kind+":"+l.name+":accepted")
					case a.Err.Cls != "EINVAL":
						c.fail(c.Text[0]+": error does not match ErrInvalid", kind+":"+l.name+":class:"+a.Err.Cls)
					}
					for i, p := range parts {
						if d := snapDiffExact(before[i], Snapshot(p, cands)); d != "" {
							c.fail(c.Text[0]+": changed a file system: "+d, kind+":"+l.name+":changed")
						}
					}
				} else {
					c.Cells = []string{l.name + "/" + kind + "/valid"}
					if a.failed() && a.Err != nil && a.Err.Cls == "EINVAL" && !strings.Contains(name, "\x00") &&
						!(kind == "rename-old" || kind == "rename-new" || kind == "rename-new-missing-old" || kind == "rename-same" || kind == "remove" || kind == "removeall") {
						// (removing or renaming the root or a mount point is refused with ErrInvalid for another reason)
						c.fail(c.Text[0]+": a valid name was refused as invalid", kind+":"+l.name+":refused-valid")
					}
				}
				// model correspondence: the in-memory FS only
				if _, direct := c04Direct[kind]; li == 0 && kind != "sub" && kind != "chtimes-zero" && !direct {
					prep := []Op{{Kind: "mkdir", P: "d", Perm: 0o755}, {Kind: "writefile", P: "f", Data: []byte{1, 2, 3}, Perm: 0o644}, {Kind: "writefile", P: "d/f", Data: []byte{4, 5}, Perm: 0o600}}
					mfs := newMem()
					w := &World{FS: mfs}
					var opsC, items []string
					for _, o := range append(prep, c04Op(kind, name)) {
						ob := w.Apply(o)
						opsC = append(opsC, o.coq())
						items = append(items, cPair(ob.coq(), snapCoqFS(Snapshot(mfs, cands))))
					}
					c.Coq = cPair(cList(opsC), cList(items))
				}
				done()
				emit(c)
			}
		}
	}
	// "backslash and colon inside an element are ordinary name bytes, never separators": a file created (or unpacked)
	// under such a name is found under exactly that name, as ONE element of the root, and its look-alike prefix is absent
	for _, sep := range []string{"b\\c", "a:b", "x\\y:1.txt", "d\\e\\f", "c:\\w"} {
		for _, layer := range []string{"mem", "os", "tar"} {
			c := &Case{ID: id, Kind: "separator-bytes", Trivial: true}
			id++
			c.Cells = []string{"separator-bytes/" + layer}
			var fsys hackpadfs.FS
			done := func() {}
			switch layer {
			case "mem":
				fsys = newMem()
				_ = hackpadfs.WriteFullFile(fsys, sep, []byte{7}, 0o644)
			case "os":
				fsys, done = newOSWorld()
				_ = hackpadfs.WriteFullFile(fsys, sep, []byte{7}, 0o644)
			default:
				t, err := hptar.NewReaderFS(context.Background(), bytes.NewReader(tarOf(map[string][]byte{sep: {7}}, nil)), hptar.ReaderFSOptions{})
				if err != nil {
					panic(err)
				}
				<-t.Done()
				fsys = t
			}
			_, serr := hackpadfs.Stat(fsys, sep)
			var listed []string
			if ents, err := hackpadfs.ReadDir(fsys, "."); err == nil {
				for _, e := range ents {
					listed = append(listed, e.Name())
				}
			}
			first := strings.FieldsFunc(sep, func(r rune) bool { return r == '\\' || r == ':' })[0]
			_, perr := hackpadfs.Stat(fsys, first)
			c.Text = []string{fmt.Sprintf("[%s] a file named %q: Stat -> %v; the root lists %q; Stat(%q) -> %v", layer, sep, serr, listed, first, perr)}
			switch {
			case serr != nil:
				c.fail(c.Text[0]+": the file is not found under its own name", "separator-bytes:"+layer+":missing")
			case len(listed) != 1 || listed[0] != sep:
				c.fail(c.Text[0]+": the root does not list exactly that name", "separator-bytes:"+layer+":listing")
			case perr == nil:
				c.fail(c.Text[0]+": a part of the name exists as an entry of its own", "separator-bytes:"+layer+":split")
			}
			done()
			emit(c)
		}
	}
	// ValidPath itself: model vs io/fs on every name used
	for _, name := range names {
		c := &Case{ID: id, Kind: "validpath", Trivial: true}
		id++
		c.Text = []string{fmt.Sprintf("ValidPath(%q) = %v", name, gofs.ValidPath(name))}
		c.Coq = cPair(cStr(name), cBool(gofs.ValidPath(name)))
		c.CType = "(str * bool)%type"
		c.Check = "validpath_check"
		emit(c)
	}
}

// snapDiffExact: two snapshots of the same FS must be identical.
func snapDiffExact(a, b []SnapEntry) string {
	if len(a) != len(b) {
		return fmt.Sprintf("entries %d -> %d: %s => %s", len(a), len(b), snapText(a), snapText(b))
	}
	for i := range a {
		if a[i].Path != b[i].Path || a[i].Mode != b[i].Mode || a[i].MT != b[i].MT || !bytes.Equal(a[i].Bytes, b[i].Bytes) {
			return fmt.Sprintf("%s => %s", snapText(a), snapText(b))
		}
	}
	return ""
}
